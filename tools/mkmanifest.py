#!/usr/bin/env python3
"""Regenerates /verif/MANIFEST.json from the table below (one place to edit)."""
import json, subprocess
CHECKS = {}   # id -> dict(level, text, note, technique, design_ref)
NA = {}       # id -> reason
def chk(i, level, text, note, technique, ref):
    CHECKS[i] = dict(level=level, text=text, note=note, technique=technique, ref=ref)

exec(open('/verif/tools/manifest_table.py').read())

# dimensions added after the second round of seeded changes (DESIGN.md section 8.3)
ADDENDA = {
 "C02": "A share of runs passes --require-owner / --show-duplicates; hostile scalars on the last line of a file; quoted UTF-8 label names with regexp metacharacters. Lone-CR documents (every position of the CR) are part of the stress set.",
 "C03": "Plus a stratum in which the base version of a touched file holds several identical copies of a rule, judged by counting (exactly min(base, head) copies keep an identical partner).",
 "C04": "Join templates include a many side that lost a label which a group_left/right(a, b) modifier copies back.",
 "C05": "Plus bases in which one file is reached under its own name and through a symbolic link, with path-scoped configuration giving the two names different severities.",
 "C06": "Plus documents embedded one or two block scalars deep, and a caret monitor: the real InjectDiagnostics is rendered for sampled sub-ranges of every correctly positioned field (values with multi-byte characters mixed in) and the carets must sit under exactly the addressed characters. Also text hidden by ignore/line inside a literal block scalar and values containing ' #'.",
 "C07": "Plus pairs of comments for the same check (expired snooze before/after, same comment twice) and `pint watch` runs in which snoozes expire while the process lives, judged per iteration on the times pint itself recorded. Configurations with only the first rule block locked, and two Prometheus servers with different tags.",
 "C08": "Plus the flag combinations --offline --enabled N and --disabled N --offline. And --disabled N(server) for one instance of an online check on two servers, with and without --offline.",
 "C10": "Second relation: sequences of one to three exclusion units inserted at every between-rules gap must only shift the line numbers of what follows; payloads include multi-byte text, lines longer than any read buffer and line breaks YAML knows and the line reader does not.",
 "C11": "Workloads also cover the same files reached under several spellings of their path and files with lone-CR line breaks, and an online workload of rules that differ only in `offset`.",
 "C13": "Plus scenarios in which one or more slices are never delivered (client deadline, caller cancellation, 13 server-side failure kinds) while the others answer: a nil error with an incomplete result is a violation; a second healthy query checks nothing was remembered as empty.",
 "C14": "Plus range questions asked by callers with their own logical now (moving last slice) under sequential, burst and wave arrival. Plus cache cleanup passes between two asks of one question, and worker pools sized from a configuration file (static block and discovery templates) through the real config.Load.",
 "C15": "Plus failures delivered in the body of a 2xx response on every endpoint, and bursts of distinct requests that queue inside pint on a healthy but throttled upstream (k reported timeouts on c workers need a window of ceil(k/c) x timeout). Plus sequences of requests on one failover group whose upstreams change fault mode between requests (outage and recovery, flapping, random walks).",
 "C16": "Expressions include joins against an always-returning side; selectors under an `or vector(n)` fallback are documented exemptions. Thorough tier only: a nine-minute `pint watch` run in which a metric appears on the server; an iteration starting more than cache lifetime + sweep period + interval + 30 s later must not report it missing (bounded progress, judged on pint's own timestamps). Metric names that differ only in letter case are part of the vocabulary.",
 "C18": "Pattern values include ones whose validity depends on how they are wrapped before compilation. Plus filepath discovery whose template renders a captured directory name with metacharacters into every templated field.",
 "C19": "Wrappers include a rule list that is itself an item of a list. Also lists whose first item is a plain scalar and rule lists kept as text in a block scalar.",
 "C12": "Join templates include an operation with ignoring(L) on a left side that guarantees L and another label, joined again.",
 "C20": "Plus files that lose a rule and gain an unparsable bystander rule.",
}
for _i, _t in ADDENDA.items():
    CHECKS[_i]['text'] += " " + _t
    CHECKS[_i]['ref'] += " and §8.3"

hook_commits = subprocess.run(['git','-C','/repo','log','--format=%H %s'],capture_output=True,text=True).stdout.splitlines()
hook_commits = [l.split()[0] for l in hook_commits if l.split(' ',1)[1].startswith('verif:')]
all_ids = [json.loads(l)['id'] for l in open('/verif/properties.jsonl')]
m = {
 "version": 1,
 "setup_cmd": "./setup.sh",
 "hooks": {
  "guard": "verif",
  "enable": "go build -tags verif (./check does it for pint and for the harness, from /repo's working tree)",
  "baseline_off_cmd": "cd /repo && export PATH=/root/go/pkg/mod/golang.org/toolchain@v0.0.1-go1.24.0.linux-amd64/bin:$PATH GOTOOLCHAIN=local GOFLAGS=-mod=mod GOPROXY=off GOSUMDB=off && go test -json -vet=off -count=1 -timeout 25m ./...",
  "source_commits": hook_commits,
  "add_only": True,
 },
 "engines": [
  {"name": "verifh", "path": "harness/", "serves_properties": sorted(CHECKS), "kind_free_text": "Go harness importing pint's internal packages from /repo; drives the real pint binary (build tag verif) and in-process packages under generated workloads with monitors; race detector and porcupine where noted"},
 ],
 "checks": [],
 "not_applicable": [],
 "notes": "Runtime monitoring only: every check observes executions of the code in /repo. See DESIGN.md. Known findings and fixed defects: KNOWN_FINDINGS.txt.",
}
for i in all_ids:
    if i in CHECKS:
        c = CHECKS[i]
        m["checks"].append({
            "property_id": i,
            "quick_cmd": f"./check {i} quick",
            "thorough_cmd": f"./check {i} thorough",
            "evidence_file": f"evidence/{i}.json",
            "replay_cmd_template": f"./check {i} --replay {{path}}",
            "engine": "verifh",
            "level_claimed": {"category": c['level'], "text": c['text'], "design_ref": c['ref']},
            "level_note": c['note'],
            "technique": c['technique'],
        })
    else:
        m["not_applicable"].append({"property_id": i, "reason": NA.get(i, "monitor not built yet in this session; will be claimed once its check exists and is silent on the unchanged tree")})
json.dump(m, open('/verif/MANIFEST.json','w'), indent=1)
print("checks:", len(m["checks"]), "not_applicable:", len(m["not_applicable"]))
