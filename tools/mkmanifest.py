#!/usr/bin/env python3
"""Regenerates /verif/MANIFEST.json from the table below (one place to edit)."""
import json, subprocess
CHECKS = {}   # id -> dict(level, text, note, technique, design_ref)
NA = {}       # id -> reason
def chk(i, level, text, note, technique, ref):
    CHECKS[i] = dict(level=level, text=text, note=note, technique=technique, ref=ref)

exec(open('/verif/tools/manifest_table.py').read())

hook_commits = subprocess.run(['git','-C','/repo','log','--format=%H %s'],capture_output=True,text=True).stdout.splitlines()
hook_commits = [l.split()[0] for l in hook_commits if l.split(' ',1)[1].startswith('verif:')]
all_ids = [json.loads(l)['id'] for l in open('/verif/properties.jsonl')]
m = {
 "version": 1,
 "setup_cmd": "./setup.sh",
 "hooks": {
  "guard": "verif",
  "enable": "go build -tags verif (./check does it for pint and for the harness, from /repo's working tree)",
  "baseline_off_cmd": "cd /repo && export PATH=/root/go/pkg/mod/golang.org/toolchain@v0.0.1-go1.24.0.linux-amd64/bin:$PATH GOTOOLCHAIN=local GOFLAGS=-mod=mod GOPROXY=off GOSUMDB=off && go test -json -vet=off -count=1 -timeout 25m ./...",
  "source_commits": hook_commits,
  "add_only": True,
 },
 "engines": [
  {"name": "verifh", "path": "harness/", "serves_properties": sorted(CHECKS), "kind_free_text": "Go harness importing pint's internal packages from /repo; drives the real pint binary (build tag verif) and in-process packages under generated workloads with monitors; race detector and porcupine where noted"},
 ],
 "checks": [],
 "not_applicable": [],
 "notes": "Runtime monitoring only: every check observes executions of the code in /repo. See DESIGN.md. Known findings and fixed defects: KNOWN_FINDINGS.txt.",
}
for i in all_ids:
    if i in CHECKS:
        c = CHECKS[i]
        m["checks"].append({
            "property_id": i,
            "quick_cmd": f"./check {i} quick",
            "thorough_cmd": f"./check {i} thorough",
            "evidence_file": f"evidence/{i}.json",
            "replay_cmd_template": f"./check {i} --replay {{path}}",
            "engine": "verifh",
            "level_claimed": {"category": c['level'], "text": c['text'], "design_ref": c['ref']},
            "level_note": c['note'],
            "technique": c['technique'],
        })
    else:
        m["not_applicable"].append({"property_id": i, "reason": NA.get(i, "monitor not built yet in this session; will be claimed once its check exists and is silent on the unchanged tree")})
json.dump(m, open('/verif/MANIFEST.json','w'), indent=1)
print("checks:", len(m["checks"]), "not_applicable:", len(m["not_applicable"]))
