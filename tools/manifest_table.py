chk("C02", "exploration",
    "pint lint children over corpus, generated, fault-injected and mutated inputs in 4 parser modes with all renderers; crash/hang/renderer/line-range/totality monitors. Sampled, not exhaustive.",
    "trusts the process-level crash classifier, the H1 dump and encoding/json + encoding/xml as format acceptors; hang = 120 s re-run",
    "runtime crash/termination monitor over child processes + output-format acceptors + H1 dump invariants",
    "DESIGN.md §3 C02")
chk("C01", "exploration",
    "differential run: pint strict-mode verdict (real binary, default offline checks) against Prometheus's own rulefmt.Parse on the same bytes, over structure-aware faulty documents and mutations. One direction only (pint passes => Prometheus loads). Sampled.",
    "Prometheus loader = vendored rulefmt.Parse(content,false) with UTF-8 name validation, not a running server; generator reach",
    "differential oracle (external acceptor) over executions of the pint binary",
    "DESIGN.md §3 C01")
chk("C05", "exploration",
    "every pint lint/ci child's exit status is compared with the severities in the JSON report the same child wrote, across all --fail-on x --min-severity x --show-duplicates settings and stratified severity mixes (info-only, warning-max, bug-max, same text at two severities). Sampled over generated bases.",
    "a run counts as completed iff it wrote --json; the JSON reporter lists every report (no filtering) before the status is decided",
    "runtime monitor: process exit status vs the process's own JSON report; relational check across display flags",
    "DESIGN.md §3 C05")
chk("C18", "exploration",
    "load-vs-use monitor: every generated configuration accepted by `pint config` is applied (offline, and online against a closed port when it has prometheus blocks) to rule files full of regexp/template metacharacters; any panic, fatal error or hang (150 s re-run) of the lint child is a violation. Sampled over the documented option space with valid/boundary/invalid/templated value classes.",
    "crash classifier on child stderr/exit; acceptance = exit status of `pint config`",
    "runtime crash/hang monitor over child processes (load verdict vs later lint)",
    "DESIGN.md §3 C18")
chk("C08", "exploration",
    "relational two-run monitor on the real binary: a reference run of a configuration that instantiates every check kind (24+ of 27 reporters fire, against an engine-backed fake Prometheus) is compared, as a multiset of H1-dumped reports, with runs that differ by exactly one switch - all 27 names x {checks.disabled, --disabled, rule.disable, --enabled, checks.enabled} and --offline vs the online list by name. Exhaustive over names and forms, sampled over configurations.",
    "the reference run is the oracle's baseline; names with a rule{enable} override are don't-care for the global forms (documented override); rule/dependency never fires under lint",
    "relational (metamorphic) monitor over H1 report dumps of pint child processes",
    "DESIGN.md §3 C08")
chk("C07", "exploration",
    "relational two-run monitor on the real binary: for every (rule, reporter) pair in the report of an 'everything fires' scenario one control comment is inserted (6 forms x 8 rule placements / 2 file placements x 3 spellings, LF and CRLF, locked and unlocked blocks, offline and online) and the H1 report multiset must equal the base multiset, lines shifted, minus exactly the targeted slice; expired snoozes and locked blocks must change nothing.",
    "the base run is the reference; snooze times are decades from the clock; name(prom)/name(+tag) spellings only for checks whose identity is name(prom); placements restricted to those that attach to the rule by YAML's rules",
    "relational (metamorphic) monitor over H1 report dumps of pint child processes",
    "DESIGN.md §3 C07")
chk("C10", "exploration",
    "non-interference monitor: bounded-exhaustive sequences (<=3 quick / <=4 thorough lines over a 14-token alphabet incl. all five ignore forms, nesting and adjacency) inserted at every gap (short sequences) of two base files; every excluded line / prefix, as computed by an opaque reference reader, is replaced by other tokens and hostile payloads; parser.Parse of both variants must agree on rules, values, positions, comments, diagnostics and errors; a sample also goes through the pint binary (H1 report multisets). Same-length and different-length replacements are told apart.",
    "the reference exclusion model is written from the documentation; replacements never introduce ignore/end inside a block; the length leak (bytes overwritten by spaces) is a listed known finding",
    "relational two-run (non-interference) monitor over in-process parser executions and pint child processes",
    "DESIGN.md §3 C10")
chk("C14", "exploration",
    "the real internal/promapi client (in-process, built with -race) is driven by 2-64 concurrent callers over all five endpoint kinds against observation servers that stamp every request; request-log monitors (same-key overlap, in-flight sweep vs configured concurrency, request counts vs injected failures), value identity/equality at the caller boundary, a porcupine linearizability check per (upstream, question) against a small cache model, the Go race detector and a crash monitor on the child processes. 1500 / 30000 seeded contention trials.",
    "server stamps lie inside the client's in-flight interval (can only under-state overlap); porcupine v1.3.0 with a 5 s limit (Unknown = inconclusive); deadlocks surface as INCONCLUSIVE; TTL/eviction not exercised; the shared-slice duplication is a listed known finding",
    "runtime monitoring: request-log invariants + porcupine linearizability check + Go race detector",
    "DESIGN.md §3 C14")
chk("C19", "exploration",
    "in-process relational monitor over the real parser: strict-valid generated documents (all scalar styles, flow maps, comments) parsed in both modes must give the same flattened rules, line ranges and positions; the same rule lists wrapped under 0-4 levels of mappings / sequence items with siblings, extra (also empty, comment-only, null) documents and a second sibling rule list must be found by relaxed mode displaced exactly by the wrapper's lines and columns.",
    "the wrapper generator's own displacement bookkeeping; blank-line units are column-independent; documents with C06-risky features (escapes, blank lines inside folded scalars, indentation indicators) are left to C06",
    "relational (metamorphic) monitor over in-process parser executions",
    "DESIGN.md §3 C19")
chk("C15", "fault_enumeration",
    "fault table over the real failover group (built through config.Load and the Prometheus generator) against scripted HTTP fault servers: 9 fault modes x up to 3 upstreams x 6 API calls, 10 online checks and two concurrent targets; a reference automaton over request logs, answer tokens, returned errors and problems decides each cell; the harness runs under the Go race detector in child processes. Thorough enumerates all 819 assignments (exhaustive), quick all 1- and 2-upstream assignments plus a seed-chosen tenth of the 3-upstream ones.",
    "fault servers and their request logs; class table from DESIGN.md (404 on config/flags/metadata and truncated bodies are don't-care for stop-or-continue); for closed ports and abandoned timeouts only positive contact evidence is used; TLS/proxy faults not injected",
    "runtime monitoring: fault-table enumeration with a reference automaton over request logs + Go race detector",
    "DESIGN.md §3 C15")
chk("C03", "exploration",
    "reference-model monitor over generated git histories: real git (fast-import) scratch repositories with 54 operation kinds plus 17 directed shapes, the real `pint ci` with one state-matched marker block per state, a default block and the H1 dump; every rule at HEAD must get a state the model-based reference accepts, marker/default/built-in checks must run on exactly the changed rules, no ghost or missing entries, fresh lines must be in ModifiedLines, and advancing the base branch must change nothing (metamorphic re-run).",
    "git's own rename detection (diff-tree -M) defines file identity; the generator's renderer is guarded by a self-check against what pint parsed; arguable base versions accept every defensible answer; symlinks, merges and submodules are not generated; the stale-deletion-record defect is a listed known finding",
    "reference-model monitor over generated histories executed by the real pint ci binary (H1 dump + JSON report)",
    "DESIGN.md §3 C03")
chk("C20", "exploration",
    "reference dependency graph kept by a history generator vs rule/dependency problems of the real `pint ci --json` in git scratch repositories: every removed recording/alerting rule without a same-kind same-name rule at HEAD and with a certain dependant must get exactly one Warning on its base lines listing exactly the certain dependants; kept, replaced or unused rules must get none; decoys must never be listed. 400 / 6000 histories per seed.",
    "selector classes are known by construction (never parsed from pint); regexp/negative matchers and branch-added dependants are don't-care; no symlinks, control comments or broken files at HEAD",
    "reference-model monitor over generated histories executed by the real pint ci binary (JSON report + H1 dump)",
    "DESIGN.md §3 C20")
chk("C17", "exploration",
    "stateful comment-store monitor: the real Submit/updateDestination/makeComments is driven for 2-6 evolving rounds plus a settling phase over (a) an in-memory store whose IsEqual/CanCreate/CanDelete are the real GitLab/GitHub reporter methods and (b) the real reporters end-to-end against stateful fake GitLab/GitHub HTTP APIs (pagination, foreign comments); a spy at the Commenter interface records list/create/delete; oracles for budget, duplicate creation, coverage, stale deletion, needed/foreign deletion, idempotence and convergence. 20k / 300k sequences per seed.",
    "fidelity of the fake APIs (accept every position, documented page sizes); the in-memory store keeps a comment where the platform's own IsEqual recognises it; coverage relation relaxed for GitHub patch lines and removed-line problems",
    "stateful store monitor + Commenter-interface spy over multi-round executions of the real reporters",
    "DESIGN.md §3 C17")
chk("C06", "exploration",
    "read-back monitor over in-process parser executions: for every field extracted from generated documents (all scalar styles, chomping and indentation indicators, multi-line plain/quoted, blank lines inside, escapes, flow maps, comments, indent 1-4, CRLF, strict and bare relaxed layouts) the positions are read back from the file unit by unit against the value; units must stay inside the field's source lines; rule line ranges must enclose their fields and stay within the rule's own source lines; a sample runs through the pint binary and every diagnostic's column range must address bytes of the field its positions belong to.",
    "read-back rule tolerates line-break units for folds and absent units for trailing newlines; risky spellings are tagged by the generator and three root causes (escapes in double quotes, blank line inside folded/quoted/plain multi-line scalars, explicit indentation indicators) are listed known findings",
    "runtime read-back oracle over in-process parser executions + H1 dump of pint child processes",
    "DESIGN.md §3 C06")
chk("C04", "exploration",
    "differential monitor in process: the label analysis (utils.LabelsSource) and the real alerts/template check are run on typed random PromQL plus join-shaped templates, and the same expressions are evaluated by the vendored PromQL engine on 4-8 random in-memory databases; every series the engine returns must be admitted by some live branch, and for single-branch queries the check must never report a label a returned series carries.",
    "engine = vendored promql over a hand-written storage.Queryable at a fixed timestamp; small universe (3 metrics, 4 data labels, 2 values); histogram and experimental functions not generated; the two test-pinned analyser defects are listed known findings",
    "differential oracle (real PromQL engine) over in-process executions of pint's analyser and check",
    "DESIGN.md §3 C04")
chk("C12", "exploration",
    "differential monitor in process: for every source the label analysis marks dead, the operation the flagged part belongs to is located in the AST and evaluated by the vendored PromQL engine on 6 dense databases (every series carries every label); the claim must hold on all of them (join/unless/static: some enclosing operation empty, unless-RHS and or-RHS: result equals the left side alone). Random expressions of the stated fragment plus join-shaped templates.",
    "a scalar-valued operation or an engine error makes a claim inconclusive; the owner of a claim is recovered from the claim's label and modifier; analyser false positives found (on() label carried by neither side, folded aggregations/functions of constants, `or` and `bool` cases pinned by the repo's own tests) are listed known findings identified by engine-observed causes",
    "differential oracle (real PromQL engine) over in-process executions of pint's analyser",
    "DESIGN.md §3 C12")
chk("C09", "exploration",
    "reference-model monitor: an independent evaluator of the documented match/ignore semantics vs the blocks pint's real Config.GetChecksForEntry selects (marker checks), for every subset of the nine condition kinds in one match and one ignore (bounded-exhaustive, 2^9 each) plus random multi-block configurations, over a 24-rule vocabulary x 3 commands x 5 states (~0.74M / ~12M decisions); a sample is replayed through the pint binary for lint, ci (scratch git repo, states assigned by pint) and watch via the H1 dispatch dump.",
    "the reference evaluator is a reading of docs/configuration.md; removed-state rules and an ignore without state under ci on an unmodified rule are don't-care; enable/disable lists and locked are C08's",
    "reference-model monitor over in-process executions of the real config matching code + pint child processes",
    "DESIGN.md §3 C09")
chk("C13", "exploration",
    "the real promapi client (with cache and worker pool, under the Go race detector in child processes) runs range queries against a logging fake Prometheus; the oracle takes the evaluation grid from the server log (one progression of the step, no holes, correct ends), checks convention-free coverage invariants per series, equality with an independent unsliced fold and with AppendSampleToRanges+ExpandRangesEnd applied once, and identical results across five perturbed slice completion orders and a cached repeat; crashes, runaway memory and race reports are captured. 3000 / 40000 cases x 6 calls, stratified over 27 steps (1s..25h) x lookback classes.",
    "fake server's evaluation rule (ms rounding, Prometheus refusals), point-wise presence model, server completion order as a proxy for arrival order; steps >= 1 s; at most 39 slices",
    "runtime monitoring: reference fold + grid invariants on server-logged requests + order perturbation + Go race detector",
    "DESIGN.md §3 C13")
chk("C11", "exploration",
    "(A) the race-instrumented pint binary (go build -race) runs multi-file workloads with --workers 1..64 x GOMAXPROCS 1..16 x jitter seeds (H1 hook: seed-determined 0-2 ms delay per job, arrival order logged); console text, JSON and exit status must be byte-identical to the workers=1 run and every WARNING: DATA RACE block is a violation; (B) in process, every (entry, check) job runs once and the report stream is fed to Summary.Report in random job-order-preserving interleavings, rendered output must equal the canonical order. Workloads: all repository fixtures, generated sort-key collisions (same text at two severities, several instances on the same lines), the everything-fires scenario offline and online (promapi cache/locks/worker pool under contention).",
    "the race detector only speaks about executed schedules; GOMAXPROCS <= 16; evidence counts distinct arrival orders actually observed",
    "Go race detector on the real binary + output-equality monitor across schedules + report-stream permutation monitor",
    "DESIGN.md §3 C11")
chk("C16", "exploration",
    "the real pint binary lints generated rule sets against an engine-backed fake Prometheus API whose database assigns each metric a presence class (present, never, other label values, disappeared 3 h ago, intermittent, appeared 20 s ago); promql/series problems are read from the H1 dump, the selector a problem points into is recovered from the diagnostic's column range, and (1) no 'missing' problem may point into a selector whose direct instant evaluation on the same database returns series, (2) a never-present metric that no recording rule produces and nothing exempts must draw a Bug.",
    "data edges are hours (or, for the fresh series, 20 s) away from 'now' and extend past it, so the wall clock cannot flip a verdict on the unchanged tree; completeness only for expressions without fallbacks/absent/vector/ALERTS",
    "differential monitor: pint child process vs direct evaluation by the real PromQL engine on the same in-memory database",
    "DESIGN.md §3 C16")
