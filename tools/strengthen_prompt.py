#!/usr/bin/env python3
"""Prompt for a sub-agent that strengthens one existing monitor against seeded changes it misses.
usage: strengthen_prompt.py <Cnn> <mutant dir>..."""
import sys
pid = sys.argv[1]; muts = sys.argv[2:]
race = pid in ("C13", "C14", "C15")
w = f"/root/build2/{pid}"
lo = pid.lower()
mutlist = "\n".join(f"   - {m}  (patch.diff, NOTES.md: changed site, why it breaks the property, WHAT IT NEEDS TO MANIFEST, and a demonstration)" for m in muts)
print(f"""You are strengthening ONE existing runtime-monitoring check (property {pid}) of the verification framework in /verif, which verifies the Go project cloudflare/pint in /repo. A reviewer produced realistic regressions of pint that break the property, still compile and pass pint's own test suite - and the current check does not notice them in its quick tier. Your job: extend the check's workload and/or oracle so that this CLASS of regression is caught by the quick tier, without ever raising an alarm on correct code.

The missed regressions:
{mutlist}

READ FIRST (read-only; do not modify anything under /verif or /repo, and never apply a patch to /repo):
 - /verif/properties.jsonl -> record "id": "{pid}" (statement, quantifier, anchors). The property is fixed; the check may never demand more than it states.
 - /verif/DESIGN.md: sections 0-2, "### {pid}" in section 3, and section 8 (as built).
 - /verif/harness/core/core.go, core/proc.go, props/lint.go (shared API) and the monitor itself: /verif/harness/props/{lo}*.go.
 - the NOTES.md and patch.diff of each missed regression above, and the anchored pint sources under /repo.

HOW TO WORK (private copy, so nobody else's build can break):
  mkdir -p {w} && cp -r /verif/harness {w}/harness && mkdir -p {w}/out {w}/deliver
  Edit ONLY {w}/harness/props/{lo}*.go (new files named {lo}*.go are fine). Do not edit core/, gen/ or other properties' files; if you need a helper put it in your own file.
  Build:  cd {w}/harness && . /verif/env.sh && cat /repo/go.sum go.sum.extra > go.sum && go build {'-race ' if race else ''}-tags verif -o {w}/verifh .
  Run on the unchanged tree:  VERIF_DIR={w}/out VERIF_PINT=/verif/.build/pint {'VERIF_PINT_RACE=/verif/.build/pint-race ' if pid in ('C11','C02') else ''}{w}/verifh {pid} --tier quick --seed 1
     (evidence -> {w}/out/evidence/{pid}.json, replays -> {w}/out/replays/; the known-findings file read is /verif/KNOWN_FINDINGS.txt unless VERIF_DIR has its own copy: copy it:  cp /verif/KNOWN_FINDINGS.txt {w}/out/ )
  To test against a regression: make a private worktree  git -C /repo worktree add --detach {w}/repo-mut HEAD ; apply the patch there (git -C {w}/repo-mut apply <patch.diff>; if it does not apply because the code moved, port it by hand keeping its meaning); point your private harness at it by editing ONLY the replace line of {w}/harness/go.mod (replace github.com/cloudflare/pint => {w}/repo-mut) and rebuild the harness; build the pint binary from it when the check uses the binary: (cd {w}/repo-mut && go build -tags verif -o {w}/pint-mut ./cmd/pint) and run with VERIF_PINT={w}/pint-mut. Restore the replace line (=> /repo) for runs on the unchanged tree. Remove the worktree when done (git -C /repo worktree remove --force {w}/repo-mut).
  Go environment: always `. /verif/env.sh` first (offline toolchain, nothing can be downloaded). Test HTTP servers: httptest on port 0 only. If you run pint's own tests, do it inside `unshare -n bash -c 'ip link set lo up; ...'` (fixed-port script tests collide otherwise).

REQUIREMENTS
 1. Generalise. Do not replay the demonstration input: add the missing DIMENSION to the generator / scenario set (what NOTES.md lists under "needs to manifest": e.g. a class of inputs, a sequence of operations, a timing relation, a fault kind, a flag combination) so that neighbouring regressions of the same kind are caught too. Say in your report which dimension you added and how many cases of it a quick run now executes.
 2. Soundness first: on the unchanged tree the check must stay silent (exit 0, no VIOLATION line, no INCONCLUSIVE) at seeds 1,2,3,4,5 in the quick tier and at seed 1 in the thorough tier. If your new cases expose a GENUINE defect of unchanged pint, do not loosen the oracle and do not hide it: keep the case, give it a stable one-token signature, and describe it in the report with a minimal reproducer (I decide whether it is repaired in /repo or listed as a known finding). If the oracle would need wall-clock time, make the verdict depend on logical facts you compute from what was observed (e.g. both timestamps fall in the same rounding bucket), never on "it was fast enough", and turn doubtful cases into skipped/inconclusive-for-that-case rather than violations.
 3. Keep what works: the previously seeded regressions in /verif/seeded/{pid}-m1 and /verif/seeded/{pid}-m2 (patch.diff inside) must still be caught, and each missed regression listed above must now be caught in the quick tier at seed 1 (and preferably at seeds 2 and 3). Report the signature printed for each.
 4. Budget: the quick tier should not get more than ~30% slower than it is now (measure before and after); thorough may grow by a few minutes.
 5. Evidence: count what the new cases observed (run.Count / run.Distinct keys with telling names) so the evidence file shows they ran.

DELIVER into {w}/deliver/: the changed/new source files with the same relative paths as under harness/ (e.g. deliver/props/{lo}.go), and REPORT.md: what dimension was missing and what you added; oracle rule for the new cases and why it cannot fire on correct code; counts and run times before/after; results at seeds 1-5 quick + thorough seed 1 on the unchanged tree; per regression (old and new): caught? signature; anything you believe is a genuine defect of unchanged pint (with reproducer); anything you could not achieve.
Do not modify /verif or /repo (a private worktree under {w} is fine). Do not leave background processes running. Keep scratch data under {w} only.""")
