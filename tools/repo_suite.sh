#!/bin/bash
# Runs the repository's own suite (hooks OFF) in a private network namespace so
# that fixed-port script tests cannot collide with other runs on this machine.
# usage: repo_suite.sh [dir] [packages...]
dir="${1:-/repo}"; shift || true
pk="${*:-./...}"
. /verif/env.sh
cd "$dir" && unshare -n bash -c "ip link set lo up; go test -vet=off -count=1 $pk 2>&1"
