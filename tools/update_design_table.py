#!/usr/bin/env python3
"""Regenerates the table between the CATCH-TABLE markers of DESIGN.md from seeded/CATCHES.tsv."""
import subprocess, re
tbl = subprocess.run(['python3', '/verif/tools/catch_md.py'], capture_output=True, text=True).stdout
p = '/verif/DESIGN.md'; s = open(p).read()
s = re.sub(r'<!-- CATCH-TABLE-BEGIN -->.*?<!-- CATCH-TABLE-END -->', lambda m: '<!-- CATCH-TABLE-BEGIN -->\n' + tbl + '<!-- CATCH-TABLE-END -->', s, flags=re.S)
open(p, 'w').write(s)
