#!/bin/bash
# usage: sweep.sh <tier> <seed...>   runs every claimed check once per seed, prints one line each
tier="$1"; shift
cd /verif
ids=$(jq -r '.checks[].property_id' MANIFEST.json)
for seed in "$@"; do
  for id in $ids; do
    s=$(date +%s)
    out=$(VERIF_SEED=$seed ./check $id $tier 2>&1); rc=$?
    e=$(date +%s)
    echo "seed=$seed $id rc=$rc $((e-s))s $(echo "$out" | grep -E '^SUMMARY' | sed 's/SUMMARY property=[A-Z0-9]* //')"
    if [ $rc -ne 0 ]; then echo "$out" | grep -E '^(VIOLATION|INCONCLUSIVE|BUILD-FAILED|  signature)' | head -6; fi
  done
done
