#!/usr/bin/env python3
"""Print the prompt given to a fresh sub-agent asked to seed a property-breaking change.
Usage: mutant_prompt.py <Cnn> <worktree> <outdir> [hint]"""
import json, sys
pid, wt, out = sys.argv[1], sys.argv[2], sys.argv[3]
extra = sys.argv[4] if len(sys.argv) > 4 else ""
prop = None
for l in open('/verif/properties.jsonl'):
    d = json.loads(l)
    if d['id'] == pid:
        prop = d
keep = {k: prop[k] for k in ('id', 'title', 'statement', 'quantifier', 'why_tests_cant', 'anchors')}
print(f"""You are helping to evaluate a verification framework by playing the part of a developer who introduces a subtle regression.

The project is cloudflare/pint (a Prometheus rule linter written in Go). You have your own scratch git worktree of it at {wt} . Work ONLY inside {wt} and {out} . Never read, write or run anything under /repo or /verif (do not look at them at all), and do not commit anything.

Here is one semantic property of pint that is supposed to always hold:

{json.dumps(keep, indent=1)}

Your task: produce TWO independent changes (call them m1 and m2, different mechanisms / different code sites) to pint's non-test Go source, each of which
 1. breaks the property above (a user relying on the property would be hurt),
 2. still compiles, and still passes the project's existing test suite, unedited (you may not edit, delete or add files matching *_test.go, *.snap, or cmd/pint/tests/*.txt as part of the change),
 3. needs something specific to manifest - a particular interleaving, a fault at a particular point, a multi-step sequence of operations, an unusual input shape, or two cooperating sites that each look fine alone - NOT something every ordinary run would expose at once. Think of the kind of plausible mistake a real refactoring or "optimisation" or "small feature" commit would introduce (off-by-one, wrong polarity in a rarely taken branch, dropped validation for one field, lock released too early, cache key missing a component, wrong default for one command, etc.),
 4. comes with a demonstration: a small Go test file (may live in the package it tests, named zz_demo_<m>_test.go) or a shell script driving the built pint binary, which FAILS on the changed tree and PASSES on the unchanged tree.
{extra}
Build environment (offline sandbox; no network). Prefix every shell command that runs go with:
  export PATH=/root/go/pkg/mod/golang.org/toolchain@v0.0.1-go1.24.0.linux-amd64/bin:$PATH GOTOOLCHAIN=local GOFLAGS=-mod=mod GOPROXY=off GOSUMDB=off
Build: (cd {wt} && go build ./...)   Full test suite (about 1-2 minutes): (cd {wt} && go test -vet=off -count=1 ./...)
The suite is snapshot-heavy; if your change alters any existing snapshot or test expectation, it is not acceptable - pick another change.

Procedure for each of m1, m2:
 a. Start from a clean tree (git -C {wt} checkout -- . ; remove untracked demo files). Write the demo first and confirm it PASSES on the clean tree.
 b. Make the change. Confirm go build ./... works, the demo now FAILS, and the full existing suite passes (run it; report the tail of the output).
 c. Save to {out}/<m>/ : patch.diff (output of `git -C {wt} diff` containing ONLY the source change, not the demo), the demo file(s), and NOTES.md saying: which file/function is changed, why it breaks the property, what specific circumstances it needs to manifest, the exact command to run the demo (relative to the worktree root) and where the demo file must be placed.
 d. Restore the clean tree before starting the next one.

When done, leave the worktree clean (git checkout -- . and delete untracked files you added) and reply with a short summary for m1 and m2: changed site, what it needs to manifest, demo command, and the final lines of the test-suite run showing it passes. If you could only produce one acceptable change, say so plainly.""")
