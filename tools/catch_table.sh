#!/bin/bash
# For every confirmed seeded change: apply it to /repo, run the quick tier of the property it was aimed at, revert.
# Writes /verif/seeded/CATCHES.tsv (id, mutant, rc, violations, first signature) and adds "caught_by" to meta.json.
# Never leaves /repo modified. usage: catch_table.sh [tier]
tier="${1:-quick}"
cd /verif || exit 1
out=/verif/seeded/CATCHES.tsv
# rows of other tiers (e.g. the thorough-only catches) are kept
keep=$(grep -v '^#' $out 2>/dev/null | awk -F'\t' -v t="$tier" '$3!=t')
echo -e "# property\tmutant\ttier\texit\tviolations\tfirst signature" > $out
[ -n "$keep" ] && echo "$keep" >> $out
for d in /verif/seeded/C*-m*; do
  id=$(basename $d | cut -d- -f1); m=$(basename $d | cut -d- -f2)
  res=$(tools/try_mutant.sh $d/patch.diff $tier $id 2>&1)
  rc=$(echo "$res" | grep -oE "rc=[0-9]+" | head -1 | cut -d= -f2)
  nv=$(echo "$res" | grep -oE "violations=[0-9]+" | head -1 | cut -d= -f2)
  sig=$(echo "$res" | grep -oE "signature=[^ ]+" | head -1 | cut -d= -f2-)
  echo -e "$id\t$m\t$tier\t$rc\t${nv:-?}\t${sig:--}" | tee -a $out
  python3 - "$d/meta.json" "$id" "$tier" "$rc" "${nv:-0}" "$sig" <<'PY'
import json,sys
f,id,tier,rc,nv,sig=sys.argv[1:7]
m=json.load(open(f))
m["caught_by"]={"check":id,"tier":tier,"exit":int(rc or -1),"violations":int(nv or 0),"first_signature":sig}
json.dump(m,open(f,'w'),indent=1)
PY
done
if [ -n "$(git -C /repo status --porcelain)" ]; then echo "WARNING: /repo not clean"; fi
