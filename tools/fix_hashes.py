#!/usr/bin/env python3
"""Rewrites the commit ids of 'fixed:' lines in KNOWN_FINDINGS.txt from the 'subject=' hints kept in tools/fixed_subjects.txt
(format: <unique subject fragment>\t<text of the fixed line without the commit id>)."""
import subprocess
log = subprocess.run(['git','-C','/repo','log','--format=%h\t%s'],capture_output=True,text=True).stdout.splitlines()
subj = {l.split('\t',1)[1]: l.split('\t',1)[0] for l in log}
out=[]
for line in open('/verif/tools/fixed_subjects.txt'):
    line=line.rstrip('\n')
    if not line or line.startswith('#'): continue
    prop, frag, what = line.split('\t',2)
    hits=[h for s,h in subj.items() if frag in s and s.startswith('fix:')]
    assert len(hits)==1, (frag,hits)
    out.append(f"fixed: property={prop} {hits[0]} {what}")
src=open('/verif/KNOWN_FINDINGS.txt').read().splitlines()
keep=[l for l in src if not l.startswith('fixed:')]
open('/verif/KNOWN_FINDINGS.txt','w').write('\n'.join(keep+out)+'\n')
print(len(out),'fixed lines')
