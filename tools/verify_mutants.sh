#!/bin/bash
# Confirms every seeded change independently in a scratch worktree of /repo's HEAD:
#   demo passes on the clean tree, patch applies and builds, demo fails with the patch, the repository's own suite still passes.
# Confirmed changes are stored in /verif/seeded/<id>-<m>/ (patch.diff, demo, NOTES.md, meta.json).
. /verif/env.sh
raw=/root/mutants-raw
# usage: verify_mutants.sh [worktree-suffix [id...]]   (several instances with different suffixes can run side by side)
wt=/tmp/vm-wt${1:+-$1}
shift 2>/dev/null
filter=" $* "
git -C /repo worktree remove --force $wt 2>/dev/null
git -C /repo worktree add -q --detach $wt HEAD || exit 1
grep -v '^#' /verif/tools/mutants.tsv | while IFS=$'\t' read -r id m place cmd; do
  [ "$filter" != "  " ] && [[ "$filter" != *" $id "* ]] && continue
  [ -n "${VM_ONLY:-}" ] && [[ " $VM_ONLY " != *" $m "* ]] && continue
  src=$raw/mutout-$id/$m
  patch=$src/patch.diff; [ -f $src/patch.rebased.diff ] && patch=$src/patch.rebased.diff
  git -C $wt checkout -q -- . ; git -C $wt clean -fdq
  demos=$(ls $src | grep -E '^(zz_demo|demo).*\.(go|sh)$')
  for f in $demos; do cp $src/$f $wt/$place/; done
  clean_out=$(cd $wt && unshare -n bash -c "ip link set lo up; $cmd" 2>&1); clean_rc=$?
  if ! git -C $wt apply $patch 2>/dev/null; then
     (cd $wt && patch -p1 -s --no-backup-if-mismatch < $patch) || { echo "$id $m PATCH-DOES-NOT-APPLY"; continue; }
  fi
  if ! (cd $wt && go build ./... 2>/dev/null); then echo "$id $m DOES-NOT-BUILD"; continue; fi
  mut_out=$(cd $wt && unshare -n bash -c "ip link set lo up; $cmd" 2>&1); mut_rc=$?
  # suite without the demo files
  for f in $demos; do rm -f $wt/$place/$f; done
  suite=$(cd $wt && unshare -n bash -c "ip link set lo up; go test -vet=off -count=1 ./... 2>&1" | grep -E "^(FAIL|---|ok)" | grep -v "^ok" | head -5)
  suite_ok=yes; [ -n "$suite" ] && suite_ok="no: $(echo $suite | head -c 200)"
  verdict=REJECTED
  if [ $clean_rc -eq 0 ] && [ $mut_rc -ne 0 ] && [ "$suite_ok" = yes ]; then verdict=CONFIRMED; fi
  echo "$id $m clean_rc=$clean_rc mutant_rc=$mut_rc suite_ok=$suite_ok => $verdict"
  if [ $verdict = CONFIRMED ]; then
    d=/verif/seeded/$id-$m; mkdir -p $d
    cp $patch $d/patch.diff; for f in $demos; do cp $src/$f $d/; done; cp $src/NOTES.md $d/NOTES.md
    python3 - "$id" "$m" "$place" "$cmd" "$d" <<'PY'
import json,sys,subprocess
id,m,place,cmd,d=sys.argv[1:6]
head=subprocess.run(['git','-C','/repo','rev-parse','--short','HEAD'],capture_output=True,text=True).stdout.strip()
notes=open(d+'/NOTES.md').read()
json.dump({"property":id,"mutant":m,"breaks":id,"demo_placement":place,"demo_command":cmd,
 "confirmed_on_repo_head":head,
 "what_i_ran":["demo on clean scratch worktree of /repo HEAD: passed","git apply patch.diff; go build ./...: ok","demo with the patch: failed","go test -vet=off -count=1 ./... with the patch (private network namespace), demo removed: all packages ok"],
 "needs_to_manifest":"see NOTES.md (written by the sub-agent that produced the change)",
 "origin":"fresh sub-agent given only the property text and a scratch worktree"},open(d+'/meta.json','w'),indent=1)
PY
  fi
done
git -C /repo worktree remove --force $wt
