#!/bin/bash
# usage: try_mutant.sh <patch.diff> <tier> <Cnn> [Cnn...]   applies the patch to /repo, runs the checks, always reverts.
patch="$1"; tier="$2"; shift 2
. /verif/env.sh
mkdir -p "$VERIF_BUILD"
exec 8>"$VERIF_BUILD/.repolock"
flock -x 8
export VERIF_HOLDS_REPOLOCK=1
cd /repo || exit 9
if [ -n "$(git status --porcelain)" ]; then echo "/repo not clean"; exit 9; fi
if ! git apply "$patch" 2>/dev/null; then
  if ! patch -p1 -s --no-backup-if-mismatch < "$patch"; then echo "PATCH DOES NOT APPLY"; git checkout -- .; git clean -fdq; exit 8; fi
fi
for id in "$@"; do
  out=$(cd /verif && VERIF_SEED="${VERIF_SEED:-1}" ./check "$id" "$tier" 2>&1); rc=$?
  echo "== $id $tier rc=$rc"; echo "$out" | grep -E "^(VIOLATION|BUILD-FAILED|INCONCLUSIVE|HELD|SUMMARY)" | head -8
  echo "$out" | grep -A1 "^VIOLATION" | grep signature | cut -c1-260 | head -4
done
git checkout -- . ; git clean -fdq
