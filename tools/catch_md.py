#!/usr/bin/env python3
"""Prints the markdown table of DESIGN.md §8.7 from seeded/CATCHES.tsv and the first line of each NOTES.md."""
import csv, os, re
rows = [r for r in csv.reader(open('/verif/seeded/CATCHES.tsv'), delimiter='\t') if r and not r[0].startswith('#')]
print('| change | what was changed (one line from its NOTES.md) | check, tier | exit | first signature reported |')
print('|---|---|---|---|---|')
for pid, m, tier, rc, nv, sig in rows:
    d = f'/verif/seeded/{pid}-{m}'
    title = ''
    try:
        title = open(d + '/NOTES.md').readline().strip().lstrip('# ').strip()
        title = re.sub(r'^(C\d+\s*/\s*)?m\d\s*[-–—:]\s*', '', title)
    except OSError:
        pass
    if len(sig) > 110:
        sig = sig[:107] + '...'
    print(f'| {pid}-{m} | {title} | {pid} {tier} | {rc} | `{sig}` |')
