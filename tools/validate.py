#!/usr/bin/env python3
"""Validate MANIFEST.json and every evidence file against the schemas (run with python3-vt)."""
import json, glob, sys, jsonschema
ok = True
try:
    jsonschema.validate(json.load(open('/verif/MANIFEST.json')), json.load(open('/root/.vp/MANIFEST.schema.json')))
    print('MANIFEST ok')
except Exception as e:
    ok = False; print('MANIFEST INVALID', str(e)[:300])
es = json.load(open('/root/.vp/EVIDENCE.schema.json'))
for f in sorted(glob.glob('/verif/evidence/*.json')):
    try:
        jsonschema.validate(json.load(open(f)), es); print(f, 'ok')
    except Exception as e:
        ok = False; print(f, 'INVALID', str(e)[:300])
sys.exit(0 if ok else 1)
