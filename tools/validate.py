#!/usr/bin/env python3
"""Validate MANIFEST.json and every evidence file against the schemas (run with python3-vt)."""
import json, glob, sys, jsonschema
ok = True
try:
    jsonschema.validate(json.load(open('/verif/MANIFEST.json')), json.load(open('/root/.vp/MANIFEST.schema.json')))
    print('MANIFEST ok')
except Exception as e:
    ok = False; print('MANIFEST INVALID', str(e)[:300])
es = json.load(open('/root/.vp/EVIDENCE.schema.json'))
claimed = {c['property_id']: c['level_claimed']['category'] for c in json.load(open('/verif/MANIFEST.json'))['checks']}
for f in sorted(glob.glob('/verif/evidence/*.json')):
    try:
        ev = json.load(open(f))
        jsonschema.validate(ev, es)
        pid = f.split('/')[-1][:-5]
        if claimed.get(pid) != ev.get('level'):
            raise ValueError(f"level {ev.get('level')!r} differs from MANIFEST level_claimed.category {claimed.get(pid)!r}")
    except Exception as e:
        ok = False; print(f, 'INVALID', str(e)[:300])
print('all evidence files valid' if ok else 'PROBLEMS FOUND')
sys.exit(0 if ok else 1)
