// verifh runs one property monitor: verifh <Cnn> [--tier quick|thorough] [--seed N] [--replay dir]
package main

import (
	"flag"
	"fmt"
	"os"
	"strconv"

	"github.com/cloudflare/pint/verif/core"
	"github.com/cloudflare/pint/verif/props"
)

func main() {
	if len(os.Args) < 2 {
		fmt.Fprintln(os.Stderr, "usage: verifh <Cnn> [--tier quick|thorough] [--seed N] [--replay dir]")
		os.Exit(64)
	}
	id := os.Args[1]
	fs := flag.NewFlagSet("verifh", flag.ExitOnError)
	tier := fs.String("tier", envOr("VERIF_TIER", "quick"), "quick|thorough")
	seedDef, _ := strconv.ParseInt(envOr("VERIF_SEED", "1"), 10, 64)
	seed := fs.Int64("seed", seedDef, "seed")
	replay := fs.String("replay", "", "replay directory")
	_ = fs.Parse(os.Args[2:])

	// internal sub-commands used by monitors that run batches in child processes
	if f, ok := props.Children[id]; ok {
		os.Exit(f(fs.Args()))
	}

	f, ok := props.Registry[id]
	if !ok {
		fmt.Fprintf(os.Stderr, "unknown property %s\n", id)
		os.Exit(64)
	}
	ctx := core.NewCtx(id, *tier, *seed)
	ctx.Replay = *replay
	code := func() (code int) {
		defer ctx.Cleanup()
		return f(ctx)
	}()
	os.Exit(code)
}

func envOr(k, d string) string {
	if v := os.Getenv(k); v != "" {
		return v
	}
	return d
}
