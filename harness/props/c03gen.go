package props

// C03 history generator: a small semantic model of rule files (so that the
// reference classification can be computed from the model, never from pint), a
// deterministic renderer to YAML, and a generator of branch histories made of
// the operations named in the property's quantifier.

import (
	"fmt"
	"math/rand"
	"sort"
	"strings"
)

type c03KV struct {
	K string `json:"k"`
	V string `json:"v"`
}

// c03Comment is a pint control comment: "# pint <Kind> <Val>".
type c03Comment struct {
	Kind string `json:"kind"` // disable | snooze | rule/owner | rule/set | file/disable | file/snooze
	Val  string `json:"val"`
}

func (c c03Comment) text() string { return "# pint " + c.Kind + " " + c.Val }

type c03Rule struct {
	// content (what the statement compares)
	Kind        string       `json:"kind"` // alert | record
	Name        string       `json:"name"`
	Expr        string       `json:"expr"` // exact parsed value; multi-line values end with \n and are written as a literal block
	For         string       `json:"for,omitempty"`
	KFF         string       `json:"kff,omitempty"`
	Labels      []c03KV      `json:"labels,omitempty"`
	Annotations []c03KV      `json:"annotations,omitempty"`
	Pint        []c03Comment `json:"pint,omitempty"`
	// layout (must not matter)
	Plain    []string `json:"plain,omitempty"` // plain comment lines above the rule
	Blank    int      `json:"blank,omitempty"` // blank lines above the rule
	BlankSp  bool     `json:"blank_sp,omitempty"`
	Quote    int      `json:"quote,omitempty"`     // 0 plain 1 single 2 double (expr, when it is single-line)
	Trail    int      `json:"trail,omitempty"`     // trailing spaces on the name line
	KeyOrder int      `json:"key_order,omitempty"` // 0..2
	PintPos  int      `json:"pint_pos,omitempty"`  // 0 between keys, 1 first one as line comment on expr, 2 above the item
}

type c03Group struct {
	Name     string    `json:"name"`
	Interval string    `json:"interval,omitempty"`
	Rules    []c03Rule `json:"rules"`
}

type c03File struct {
	ID       int          `json:"id"` // identity used by the generator only (never by the reference)
	Header   []string     `json:"header,omitempty"`
	FilePint []c03Comment `json:"file_pint,omitempty"`
	Indent   int          `json:"indent,omitempty"`      // 0 | 2: indentation of group items
	ListInd  int          `json:"list_indent,omitempty"` // 0 | 2: extra indentation of rule items
	MapInd   int          `json:"map_indent,omitempty"`  // 0 -> 2 spaces, 1 -> 4 spaces for label maps
	Groups   []c03Group   `json:"groups"`
}

type c03Snap map[string]*c03File

func (r c03Rule) clone() c03Rule {
	o := r
	o.Labels = append([]c03KV(nil), r.Labels...)
	o.Annotations = append([]c03KV(nil), r.Annotations...)
	o.Pint = append([]c03Comment(nil), r.Pint...)
	o.Plain = append([]string(nil), r.Plain...)
	return o
}

func (f *c03File) clone() *c03File {
	o := *f
	o.Header = append([]string(nil), f.Header...)
	o.FilePint = append([]c03Comment(nil), f.FilePint...)
	o.Groups = make([]c03Group, len(f.Groups))
	for i, g := range f.Groups {
		ng := g
		ng.Rules = make([]c03Rule, len(g.Rules))
		for j, r := range g.Rules {
			ng.Rules[j] = r.clone()
		}
		o.Groups[i] = ng
	}
	return &o
}

func (s c03Snap) clone() c03Snap {
	o := c03Snap{}
	for p, f := range s {
		o[p] = f.clone()
	}
	return o
}

func (s c03Snap) paths() []string {
	out := make([]string, 0, len(s))
	for p := range s {
		out = append(out, p)
	}
	sort.Strings(out)
	return out
}

func (f *c03File) nRules() int {
	n := 0
	for _, g := range f.Groups {
		n += len(g.Rules)
	}
	return n
}

func (f *c03File) allRules() []c03Rule {
	var out []c03Rule
	for _, g := range f.Groups {
		out = append(out, g.Rules...)
	}
	return out
}

// ---- rendering ----

func c03Pad(n int) string { return strings.Repeat(" ", n) }

func c03QuoteExpr(e string, style int) string {
	switch style {
	case 2:
		if !strings.ContainsAny(e, "\"\\") {
			return "\"" + e + "\""
		}
		fallthrough
	case 1:
		return "'" + strings.ReplaceAll(e, "'", "''") + "'"
	}
	return e
}

func (f *c03File) Render() string {
	var b strings.Builder
	for _, h := range f.Header {
		b.WriteString("# " + h + "\n")
	}
	for _, c := range f.FilePint {
		b.WriteString(c.text() + "\n")
	}
	b.WriteString("groups:\n")
	gi := f.Indent
	for _, g := range f.Groups {
		b.WriteString(c03Pad(gi) + "- name: " + g.Name + "\n")
		if g.Interval != "" {
			b.WriteString(c03Pad(gi+2) + "interval: " + g.Interval + "\n")
		}
		b.WriteString(c03Pad(gi+2) + "rules:\n")
		ri := gi + 2 + f.ListInd
		for _, r := range g.Rules {
			c03RenderRule(&b, r, ri, 2+2*f.MapInd)
		}
	}
	return b.String()
}

func c03RenderRule(b *strings.Builder, r c03Rule, ri, mapInd int) {
	for i := 0; i < r.Blank; i++ {
		if r.BlankSp {
			b.WriteString("   ")
		}
		b.WriteString("\n")
	}
	for _, p := range r.Plain {
		b.WriteString(c03Pad(ri) + "# " + p + "\n")
	}
	pint := append([]c03Comment(nil), r.Pint...)
	singleLine := !strings.Contains(r.Expr, "\n")
	var lineComment string
	switch {
	case r.PintPos == 2:
		for _, c := range pint {
			b.WriteString(c03Pad(ri) + c.text() + "\n")
		}
		pint = nil
	case r.PintPos == 1 && singleLine && len(pint) > 0:
		lineComment = " " + pint[0].text()
		pint = pint[1:]
	}
	ki := ri + 2
	var order []string
	switch r.KeyOrder {
	case 1:
		order = []string{"name", "for", "kff", "expr", "labels", "annotations"}
	case 2:
		order = []string{"expr", "name", "labels", "annotations", "for", "kff"}
	default:
		order = []string{"name", "expr", "for", "kff", "labels", "annotations"}
	}
	first := true
	prefix := func() string {
		if first {
			first = false
			return c03Pad(ri) + "- "
		}
		return c03Pad(ki)
	}
	afterFirst := func() {
		for _, c := range pint {
			b.WriteString(c03Pad(ki) + c.text() + "\n")
		}
		pint = nil
	}
	for _, k := range order {
		wasFirst := first
		switch k {
		case "name":
			b.WriteString(prefix() + r.Kind + ": " + r.Name + c03Pad(r.Trail) + "\n")
		case "expr":
			if singleLine {
				b.WriteString(prefix() + "expr: " + c03QuoteExpr(r.Expr, r.Quote) + lineComment + "\n")
			} else {
				b.WriteString(prefix() + "expr: |\n")
				for _, l := range strings.Split(strings.TrimSuffix(r.Expr, "\n"), "\n") {
					b.WriteString(c03Pad(ki+2) + l + "\n")
				}
			}
		case "for":
			if r.For == "" {
				continue
			}
			b.WriteString(prefix() + "for: " + r.For + "\n")
		case "kff":
			if r.KFF == "" {
				continue
			}
			b.WriteString(prefix() + "keep_firing_for: " + r.KFF + "\n")
		case "labels":
			if len(r.Labels) == 0 {
				continue
			}
			b.WriteString(prefix() + "labels:\n")
			for _, kv := range r.Labels {
				b.WriteString(c03Pad(ki+mapInd) + kv.K + ": " + kv.V + "\n")
			}
		case "annotations":
			if len(r.Annotations) == 0 {
				continue
			}
			b.WriteString(prefix() + "annotations:\n")
			for _, kv := range r.Annotations {
				b.WriteString(c03Pad(ki+mapInd) + kv.K + ": '" + strings.ReplaceAll(kv.V, "'", "''") + "'\n")
			}
		}
		if wasFirst {
			afterFirst()
		}
	}
}

// ---- generator ----

type c03Gen struct {
	r      *rand.Rand
	seq    int
	nextID int
	freed  []string // paths that existed earlier on the branch or at base and are gone now
	// scheduled operations (edit-then-revert, swaps through a temporary name, delete-then-recreate)
	pending map[int][]c03Pending
	opCount map[string]int
}

type c03Pending struct {
	kind   string
	fileID int
	file   *c03File // content to restore
	path   string   // target path
}

func (g *c03Gen) tok() int { g.seq++; return g.seq }

func (g *c03Gen) pick(xs ...string) string { return xs[g.r.Intn(len(xs))] }

func (g *c03Gen) newExpr(kind string) string {
	n := g.tok()
	if kind == "record" {
		switch g.r.Intn(4) {
		case 0:
			return fmt.Sprintf("sum by(job) (rate(m%d_requests_total[5m]))", n)
		case 1:
			return fmt.Sprintf("avg without(instance) (m%d_usage_ratio{job=\"svc%d\"})", n, n%7)
		case 2:
			return fmt.Sprintf("sum(\n  rate(m%d_errors_total[5m])\n) by (job)\n", n)
		}
		return fmt.Sprintf("max(m%d_temperature_celsius) by (zone)", n)
	}
	switch g.r.Intn(5) {
	case 0:
		return fmt.Sprintf("up{job=\"svc%d\"} == 0", n)
	case 1:
		return fmt.Sprintf("sum by(job) (rate(m%d_errors_total[5m])) > %d", n, 1+n%9)
	case 2:
		return fmt.Sprintf("avg_over_time(m%d_queue_length[10m]) < 0.%d", n, 1+n%9)
	case 3:
		return fmt.Sprintf("sum(\n  rate(m%d_failures_total[5m])\n) by (job) > %d\n", n, n%5)
	}
	return fmt.Sprintf("m%d_saturation_ratio > 0.9", n)
}

var (
	c03LabelKeys = []string{"severity", "team", "tier", "env"}
	c03AnnKeys   = []string{"summary", "description", "runbook_url"}
	c03Durations = []string{"1m", "2m", "5m", "10m", "15m", "30m", "1h"}
	c03Checks    = []string{"promql/series", "promql/rate", "alerts/for", "alerts/template", "promql/fragile", "promql/regexp", "alerts/comparison"}
)

func (g *c03Gen) labelVal() string {
	return fmt.Sprintf("%s%d", g.pick("page", "ticket", "core", "edge", "db"), g.tok())
}

func (g *c03Gen) annVal() string {
	return fmt.Sprintf("%s number %d needs attention", g.pick("Service", "Queue", "Disk", "Cluster"), g.tok())
}

func (g *c03Gen) newPint() c03Comment {
	switch g.r.Intn(5) {
	case 0:
		return c03Comment{"snooze", "2099-01-01T00:00:00Z " + g.pick(c03Checks...)}
	case 1:
		return c03Comment{"rule/owner", fmt.Sprintf("team%d", g.tok())}
	case 2:
		return c03Comment{"rule/set", "promql/series ignore/label-value " + g.pick("job", "instance", "zone")}
	}
	return c03Comment{"disable", g.pick(c03Checks...)}
}

func (g *c03Gen) newFilePint() c03Comment {
	if g.r.Intn(4) == 0 {
		return c03Comment{"file/snooze", "2099-01-01T00:00:00Z " + g.pick(c03Checks...)}
	}
	return c03Comment{"file/disable", g.pick(c03Checks...)}
}

func (g *c03Gen) newRule() c03Rule {
	r := c03Rule{}
	n := g.tok()
	if g.r.Intn(3) == 0 {
		r.Kind = "record"
		r.Name = fmt.Sprintf("job:m%d_%s:rate5m", n, g.pick("requests", "errors", "usage"))
	} else {
		r.Kind = "alert"
		r.Name = fmt.Sprintf("%s%s%d", g.pick("High", "Low", "No", "Slow"), g.pick("Latency", "Traffic", "Errors", "Disk"), n)
	}
	r.Expr = g.newExpr(r.Kind)
	if r.Kind == "alert" {
		if g.r.Intn(3) > 0 {
			r.For = g.pick(c03Durations...)
		}
		if g.r.Intn(5) == 0 {
			r.KFF = g.pick(c03Durations...)
		}
		for _, k := range c03AnnKeys {
			if g.r.Intn(3) == 0 {
				r.Annotations = append(r.Annotations, c03KV{k, g.annVal()})
			}
		}
	}
	for _, k := range c03LabelKeys {
		if g.r.Intn(3) == 0 {
			r.Labels = append(r.Labels, c03KV{k, g.labelVal()})
		}
	}
	for g.r.Intn(4) == 0 && len(r.Pint) < 2 {
		r.Pint = append(r.Pint, g.newPint())
	}
	g.randLayout(&r)
	return r
}

func (g *c03Gen) randLayout(r *c03Rule) {
	r.Blank = g.r.Intn(3)
	r.BlankSp = g.r.Intn(6) == 0
	r.Quote = g.r.Intn(3)
	r.Trail = 0
	if g.r.Intn(6) == 0 {
		r.Trail = 1 + g.r.Intn(3)
	}
	r.KeyOrder = 0
	if g.r.Intn(4) == 0 {
		r.KeyOrder = 1 + g.r.Intn(2)
	}
	r.PintPos = g.r.Intn(3)
	r.Plain = nil
	if g.r.Intn(4) == 0 {
		r.Plain = []string{fmt.Sprintf("note %d about the rule below", g.tok())}
	}
}

func (g *c03Gen) newFile(minRules, maxRules int) *c03File {
	g.nextID++
	f := &c03File{ID: g.nextID, Indent: 2 * g.r.Intn(2), ListInd: 2 * g.r.Intn(2), MapInd: g.r.Intn(2)}
	if g.r.Intn(3) == 0 {
		f.Header = []string{fmt.Sprintf("rules file %d", g.tok())}
	}
	for g.r.Intn(5) == 0 && len(f.FilePint) < 3 {
		c := g.newFilePint()
		dup := false
		for _, o := range f.FilePint {
			if o == c {
				dup = true
			}
		}
		if !dup {
			f.FilePint = append(f.FilePint, c)
		}
	}
	n := minRules + g.r.Intn(maxRules-minRules+1)
	ng := 1
	if n >= 3 && g.r.Intn(3) == 0 {
		ng = 2
	}
	for i := 0; i < ng; i++ {
		grp := c03Group{Name: fmt.Sprintf("group%d", g.tok())}
		if g.r.Intn(4) == 0 {
			grp.Interval = g.pick("30s", "1m", "2m")
		}
		f.Groups = append(f.Groups, grp)
	}
	for i := 0; i < n; i++ {
		gi := i % ng
		f.Groups[gi].Rules = append(f.Groups[gi].Rules, g.newRule())
	}
	return f
}

func (g *c03Gen) newPath(s c03Snap) string {
	for {
		var p string
		if len(g.freed) > 0 && g.r.Intn(2) == 0 {
			p = g.freed[g.r.Intn(len(g.freed))]
		} else {
			p = fmt.Sprintf("rules/%s%s%d.yml", g.pick("", "", "prod/", "staging/"), g.pick("alerts", "records", "svc", "infra"), g.tok())
		}
		if _, ok := s[p]; !ok {
			return p
		}
	}
}

func (g *c03Gen) free(p string) {
	for _, q := range g.freed {
		if q == p {
			return
		}
	}
	g.freed = append(g.freed, p)
}

func (g *c03Gen) pathByID(s c03Snap, id int) string {
	for _, p := range s.paths() {
		if s[p].ID == id {
			return p
		}
	}
	return ""
}

func (g *c03Gen) pickPath(s c03Snap) string {
	ps := s.paths()
	return ps[g.r.Intn(len(ps))]
}

// pickRule returns group and rule index of a random rule of f.
func (g *c03Gen) pickRule(f *c03File) (int, int) {
	n := g.r.Intn(f.nRules())
	for gi := range f.Groups {
		if n < len(f.Groups[gi].Rules) {
			return gi, n
		}
		n -= len(f.Groups[gi].Rules)
	}
	return 0, 0
}

func c03DropEmptyGroups(f *c03File) {
	out := f.Groups[:0]
	for _, grp := range f.Groups {
		if len(grp.Rules) > 0 {
			out = append(out, grp)
		}
	}
	f.Groups = out
}

// modifyRule changes one content field; returns the operation name.
func (g *c03Gen) modifyRule(r *c03Rule) string {
	for {
		switch g.r.Intn(14) {
		case 0, 1:
			r.Expr = g.newExpr(r.Kind)
			return "mod-expr"
		case 2:
			// whitespace inside the expression: the parsed value changes
			if strings.Contains(r.Expr, " > ") {
				r.Expr = strings.Replace(r.Expr, " > ", "  >  ", 1)
				return "mod-expr-inner-space"
			}
		case 3:
			if r.Kind == "alert" {
				old := r.For
				for r.For == old {
					r.For = g.pick(append([]string{""}, c03Durations...)...)
				}
				return "mod-for"
			}
		case 4:
			if r.Kind == "alert" {
				old := r.KFF
				for r.KFF == old {
					r.KFF = g.pick(append([]string{""}, c03Durations...)...)
				}
				return "mod-keep-firing-for"
			}
		case 5:
			k := g.pick(c03LabelKeys...)
			for i := range r.Labels {
				if r.Labels[i].K == k {
					r.Labels[i].V = g.labelVal()
					return "mod-label-value"
				}
			}
			r.Labels = append(r.Labels, c03KV{k, g.labelVal()})
			return "mod-label-add"
		case 6:
			if len(r.Labels) > 0 {
				i := g.r.Intn(len(r.Labels))
				r.Labels = append(r.Labels[:i], r.Labels[i+1:]...)
				return "mod-label-remove"
			}
		case 7:
			if r.Kind == "alert" {
				k := g.pick(c03AnnKeys...)
				for i := range r.Annotations {
					if r.Annotations[i].K == k {
						r.Annotations[i].V = g.annVal()
						return "mod-annotation-value"
					}
				}
				r.Annotations = append(r.Annotations, c03KV{k, g.annVal()})
				return "mod-annotation-add"
			}
		case 8:
			if len(r.Annotations) > 0 {
				i := g.r.Intn(len(r.Annotations))
				r.Annotations = append(r.Annotations[:i], r.Annotations[i+1:]...)
				return "mod-annotation-remove"
			}
		case 9:
			n := g.tok()
			if r.Kind == "record" {
				r.Name = fmt.Sprintf("job:m%d_renamed:rate5m", n)
			} else {
				r.Name = fmt.Sprintf("Renamed%d", n)
			}
			return "mod-rule-name"
		case 10:
			if g.r.Intn(3) == 0 {
				if r.Kind == "alert" {
					r.Kind = "record"
					r.For, r.KFF, r.Annotations = "", "", nil
				} else {
					r.Kind = "alert"
				}
				return "mod-kind"
			}
		case 11:
			c := g.newPint()
			for _, o := range r.Pint {
				if o == c {
					c.Kind = ""
				}
			}
			if c.Kind != "" && len(r.Pint) < 3 {
				r.Pint = append(r.Pint, c)
				return "mod-pint-comment-add"
			}
		case 12:
			if len(r.Pint) > 0 {
				i := g.r.Intn(len(r.Pint))
				r.Pint = append(r.Pint[:i], r.Pint[i+1:]...)
				return "mod-pint-comment-remove"
			}
		case 13:
			if len(r.Pint) > 0 {
				i := g.r.Intn(len(r.Pint))
				if g.r.Intn(4) == 0 && r.Pint[i].Kind == "disable" {
					// same value, different kind of control comment
					r.Pint[i].Kind = "rule/owner"
					return "mod-pint-comment-retag"
				}
				c := g.newPint()
				if c != r.Pint[i] {
					dup := false
					for _, o := range r.Pint {
						if o == c {
							dup = true
						}
					}
					if !dup {
						r.Pint[i] = c
						return "mod-pint-comment-change"
					}
				}
			}
		}
	}
}

// layoutEdit changes something that is not rule content; returns the operation name.
func (g *c03Gen) layoutEdit(f *c03File) string {
	for {
		gi, ri := g.pickRule(f)
		r := &f.Groups[gi].Rules[ri]
		switch g.r.Intn(12) {
		case 0:
			r.Plain = append(r.Plain, fmt.Sprintf("remark %d", g.tok()))
			return "plain-comment-add"
		case 1:
			if len(r.Plain) > 0 {
				r.Plain = r.Plain[:len(r.Plain)-1]
				return "plain-comment-remove"
			}
		case 2:
			if len(r.Plain) > 0 {
				r.Plain[0] = fmt.Sprintf("reworded %d", g.tok())
				return "plain-comment-edit"
			}
		case 3:
			f.Header = append(f.Header, fmt.Sprintf("header line %d", g.tok()))
			return "header-comment-add"
		case 4:
			old := r.Blank
			for r.Blank == old {
				r.Blank = g.r.Intn(4)
			}
			return "blank-lines"
		case 5:
			if r.Trail == 0 {
				r.Trail = 1 + g.r.Intn(3)
			} else {
				r.Trail = 0
			}
			return "trailing-spaces"
		case 6:
			if !strings.Contains(r.Expr, "\n") {
				old := c03QuoteExpr(r.Expr, r.Quote)
				for i := 0; i < 3; i++ {
					r.Quote = (r.Quote + 1) % 3
					if c03QuoteExpr(r.Expr, r.Quote) != old {
						return "expr-quote-style"
					}
				}
			}
		case 7:
			r.KeyOrder = (r.KeyOrder + 1 + g.r.Intn(2)) % 3
			return "key-order"
		case 8:
			if len(r.Labels) > 1 {
				r.Labels[0], r.Labels[len(r.Labels)-1] = r.Labels[len(r.Labels)-1], r.Labels[0]
				return "label-order"
			}
		case 9:
			switch g.r.Intn(3) {
			case 0:
				f.Indent = 2 - f.Indent
			case 1:
				f.ListInd = 2 - f.ListInd
			default:
				f.MapInd = 1 - f.MapInd
			}
			return "reindent"
		case 10:
			f.Groups[gi].Name = fmt.Sprintf("group%d", g.tok())
			return "group-rename"
		case 11:
			if len(r.Pint) > 0 {
				old := r.PintPos
				for r.PintPos == old {
					r.PintPos = g.r.Intn(3)
				}
				return "pint-comment-position"
			}
		}
	}
}

// oneOp applies one random operation to the snapshot and returns its name.
func (g *c03Gen) oneOp(s c03Snap, commit, nCommits int) string {
	for tries := 0; tries < 50; tries++ {
		p := g.pickPath(s)
		f := s[p]
		switch k := g.r.Intn(100); {
		case k < 6: // add file
			np := g.newPath(s)
			s[np] = g.newFile(1, 5)
			return "add-file"
		case k < 10: // delete file
			if len(s) > 1 {
				delete(s, p)
				g.free(p)
				if g.r.Intn(2) == 0 && commit+1 < nCommits {
					at := commit + 1 + g.r.Intn(min(2, nCommits-commit-1))
					nf := f.clone()
					kind := "recreate-same"
					if g.r.Intn(2) == 0 {
						gi, ri := g.pickRule(nf)
						g.modifyRule(&nf.Groups[gi].Rules[ri])
						kind = "recreate-edited"
					}
					g.pending[at] = append(g.pending[at], c03Pending{kind: kind, file: nf, path: p})
				}
				return "delete-file"
			}
		case k < 20: // pure rename
			np := g.newPath(s)
			delete(s, p)
			s[np] = f
			g.free(p)
			return "rename-file"
		case k < 26: // rename + small edit in a large file
			if f.nRules() >= 4 {
				np := g.newPath(s)
				delete(s, p)
				s[np] = f
				g.free(p)
				gi, ri := g.pickRule(f)
				return "rename-file+" + g.modifyRule(&f.Groups[gi].Rules[ri])
			}
		case k < 28: // rename + edit in a small file (git may or may not call it a rename)
			if f.nRules() < 4 {
				np := g.newPath(s)
				delete(s, p)
				s[np] = f
				g.free(p)
				gi, ri := g.pickRule(f)
				return "rename-small-file+" + g.modifyRule(&f.Groups[gi].Rules[ri])
			}
		case k < 30: // swap through a temporary name over three commits
			if len(s) >= 2 && commit+2 < nCommits {
				q := g.pickPath(s)
				if q != p {
					tmp := g.newPath(s)
					other := s[q]
					delete(s, p)
					s[tmp] = f
					g.pending[commit+1] = append(g.pending[commit+1], c03Pending{kind: "swap-step2", fileID: other.ID, path: p})
					g.pending[commit+2] = append(g.pending[commit+2], c03Pending{kind: "swap-step3", fileID: f.ID, path: q})
					return "swap-step1"
				}
			}
		case k < 32: // swap contents of two paths in one commit
			if len(s) >= 2 {
				q := g.pickPath(s)
				if q != p {
					s[p], s[q] = s[q], s[p]
					return "swap-in-one-commit"
				}
			}
		case k < 34: // copy file
			np := g.newPath(s)
			nf := f.clone()
			g.nextID++
			nf.ID = g.nextID
			s[np] = nf
			return "copy-file"
		case k < 44: // add rule
			gi := g.r.Intn(len(f.Groups))
			rs := f.Groups[gi].Rules
			at := g.r.Intn(len(rs) + 1)
			nr := g.newRule()
			rs = append(rs, c03Rule{})
			copy(rs[at+1:], rs[at:])
			rs[at] = nr
			f.Groups[gi].Rules = rs
			return "add-rule"
		case k < 50: // delete rule
			if f.nRules() > 1 {
				gi, ri := g.pickRule(f)
				f.Groups[gi].Rules = append(f.Groups[gi].Rules[:ri], f.Groups[gi].Rules[ri+1:]...)
				c03DropEmptyGroups(f)
				return "delete-rule"
			}
		case k < 68: // modify rule
			gi, ri := g.pickRule(f)
			before := f.clone()
			op := g.modifyRule(&f.Groups[gi].Rules[ri])
			if g.r.Intn(4) == 0 && commit+1 < nCommits {
				at := commit + 1 + g.r.Intn(min(2, nCommits-commit-1))
				g.pending[at] = append(g.pending[at], c03Pending{kind: "revert-file", fileID: f.ID, file: before})
			}
			return op
		case k < 72: // move rule inside the file
			if f.nRules() > 1 {
				gi, ri := g.pickRule(f)
				r := f.Groups[gi].Rules[ri]
				f.Groups[gi].Rules = append(f.Groups[gi].Rules[:ri], f.Groups[gi].Rules[ri+1:]...)
				ti := g.r.Intn(len(f.Groups))
				rs := f.Groups[ti].Rules
				at := g.r.Intn(len(rs) + 1)
				rs = append(rs, c03Rule{})
				copy(rs[at+1:], rs[at:])
				rs[at] = r
				f.Groups[ti].Rules = rs
				c03DropEmptyGroups(f)
				return "move-rule-in-file"
			}
		case k < 75: // move rule to another file
			if len(s) >= 2 && f.nRules() > 1 {
				q := g.pickPath(s)
				if q != p {
					gi, ri := g.pickRule(f)
					r := f.Groups[gi].Rules[ri]
					f.Groups[gi].Rules = append(f.Groups[gi].Rules[:ri], f.Groups[gi].Rules[ri+1:]...)
					c03DropEmptyGroups(f)
					t := s[q]
					ti := g.r.Intn(len(t.Groups))
					t.Groups[ti].Rules = append(t.Groups[ti].Rules, r)
					return "move-rule-to-other-file"
				}
			}
		case k < 90: // layout only
			op := g.layoutEdit(f)
			return op
		case k < 94: // file-level control comment
			if len(f.FilePint) > 0 && g.r.Intn(2) == 0 {
				i := g.r.Intn(len(f.FilePint))
				f.FilePint = append(f.FilePint[:i], f.FilePint[i+1:]...)
				return "file-pint-comment-remove"
			}
			c := g.newFilePint()
			dup := false
			for _, o := range f.FilePint {
				if o == c {
					dup = true
				}
			}
			if !dup && len(f.FilePint) < 3 {
				f.FilePint = append(f.FilePint, c)
				return "file-pint-comment-add"
			}
		case k < 95: // reorder file-level control comments (same set)
			if len(f.FilePint) > 1 {
				f.FilePint[0], f.FilePint[len(f.FilePint)-1] = f.FilePint[len(f.FilePint)-1], f.FilePint[0]
				return "file-pint-comment-reorder"
			}
		case k < 97: // a rule with a name that already exists in the file, placed above it
			gi, ri := g.pickRule(f)
			nr := f.Groups[gi].Rules[ri].clone()
			g.modifyRuleKeepName(&nr)
			rs := f.Groups[gi].Rules
			rs = append(rs, c03Rule{})
			copy(rs[ri+1:], rs[ri:])
			rs[ri] = nr
			f.Groups[gi].Rules = rs
			return "add-rule-same-name-above"
		default: // empty commit
			return "no-change"
		}
	}
	return "no-change"
}

func (g *c03Gen) modifyRuleKeepName(r *c03Rule) {
	r.Expr = g.newExpr(r.Kind)
	r.Labels = append(r.Labels[:0:0], c03KV{"severity", g.labelVal()})
	g.randLayout(r)
}

func (g *c03Gen) applyPending(s c03Snap, commit int) []string {
	var ops []string
	for _, pd := range g.pending[commit] {
		switch pd.kind {
		case "revert-file":
			p := g.pathByID(s, pd.fileID)
			if p == "" {
				continue
			}
			nf := pd.file.clone()
			s[p] = nf
			ops = append(ops, "revert-file")
		case "recreate-same", "recreate-edited":
			if _, ok := s[pd.path]; ok {
				continue
			}
			s[pd.path] = pd.file.clone()
			ops = append(ops, pd.kind)
		case "swap-step2", "swap-step3":
			p := g.pathByID(s, pd.fileID)
			if p == "" || p == pd.path {
				continue
			}
			if _, ok := s[pd.path]; ok {
				continue
			}
			f := s[p]
			delete(s, p)
			s[pd.path] = f
			g.free(p)
			ops = append(ops, pd.kind)
		}
	}
	delete(g.pending, commit)
	return ops
}

type c03Commit struct {
	Ops   []string `json:"ops"`
	Files c03Snap  `json:"files"` // full snapshot after the commit
}

type c03Case struct {
	Idx     int         `json:"idx"`
	Base    []c03Commit `json:"base"`             // commits on main before the branch point
	Branch  []c03Commit `json:"branch"`           // commits on the pr branch
	Advance []c03Commit `json:"advance"`          // commits made on main after the branch point
	Copies  bool        `json:"copies,omitempty"` // built by the identical-copies stratum (c03copies.go)
}

func c03GenCase(r *rand.Rand, idx int) c03Case {
	g := &c03Gen{r: r, pending: map[int][]c03Pending{}}
	cs := c03Case{Idx: idx}
	s := c03Snap{}
	nf := 1 + r.Intn(4)
	for i := 0; i < nf; i++ {
		s[g.newPath(s)] = g.newFile(1, 6)
	}
	cs.Base = append(cs.Base, c03Commit{Ops: []string{"base"}, Files: s.clone()})
	if r.Intn(3) == 0 {
		// a second commit on main before the branch point (older blame history)
		var ops []string
		for i := 0; i < 1+r.Intn(2); i++ {
			p := g.pickPath(s)
			if r.Intn(2) == 0 {
				gi, ri := g.pickRule(s[p])
				ops = append(ops, g.modifyRule(&s[p].Groups[gi].Rules[ri]))
			} else {
				ops = append(ops, g.layoutEdit(s[p]))
			}
		}
		cs.Base = append(cs.Base, c03Commit{Ops: ops, Files: s.clone()})
	}
	base := s.clone()
	g.freed = nil
	nc := 1 + r.Intn(8)
	for c := 0; c < nc; c++ {
		ops := g.applyPending(s, c)
		n := 1 + r.Intn(3)
		if len(ops) > 0 {
			n = r.Intn(2)
		}
		for i := 0; i < n; i++ {
			ops = append(ops, g.oneOp(s, c, nc))
		}
		cs.Branch = append(cs.Branch, c03Commit{Ops: ops, Files: s.clone()})
	}
	// main advancing independently
	na := r.Intn(4)
	m := base
	g.pending = map[int][]c03Pending{}
	for c := 0; c < na; c++ {
		var ops []string
		for i := 0; i < 1+r.Intn(2); i++ {
			ops = append(ops, g.oneOp(m, 0, 1))
		}
		cs.Advance = append(cs.Advance, c03Commit{Ops: ops, Files: m.clone()})
	}
	return cs
}
