package props

import (
	"encoding/json"
	"fmt"
	"math/rand"
	"os"
	"path/filepath"
	"sort"
	"strings"
	"time"

	"github.com/cloudflare/pint/verif/core"
	"github.com/cloudflare/pint/verif/gen"
	"github.com/cloudflare/pint/verif/gitrepo"
)

func init() { Registry["C05"] = runC05 }

type c05Base struct {
	Files  map[string]string `json:"files"`
	Config string            `json:"config"`
}

type c05Case struct {
	Base    c05Base `json:"base"`
	Command string  `json:"command"`
	FailOn  string  `json:"fail_on"` // "" = default
	MinSev  string  `json:"min_severity"`
	ShowDup bool    `json:"show_duplicates"`
}

var sevNames = []string{"info", "warning", "bug", "fatal"}

// c05RandBase builds one (rule files, config) base. scenario selects a stratum so that
// every threshold situation occurs: 0 general, 1..3 all problems capped at info / warning /
// bug (built-in checks silenced, no injected errors), 4/5 the same check text reported at
// two severities on two paths with the higher one being the only problem at the top.
func c05RandBase(r *rand.Rand, scenario int) c05Base {
	b := c05Base{Files: map[string]string{}}
	o := gen.DefaultGenOpts()
	o.Comments = false
	o.Styles = []gen.Style{gen.Plain, gen.Single, gen.Double}
	o.MultiLine = false
	nf := 2 + r.Intn(2)
	names := []string{"rules/a_staging.yml", "rules/b_prod.yml", "rules/c_misc.yml"}
	capSev := 3 // index into sevNames of the highest severity allowed
	switch scenario {
	case 1:
		capSev = 0
	case 2:
		capSev = 1
	case 3:
		capSev = 2
	case 4, 5:
		capSev = r.Intn(3) // everything but the twin stays at or below this
	}
	for i := 0; i < nf; i++ {
		d := gen.RandDoc(r, o)
		if scenario == 0 {
			for gi := range d.Groups {
				for ri := range d.Groups[gi].Rules {
					rule := &d.Groups[gi].Rules[ri]
					switch r.Intn(12) {
					case 0: // template error -> Fatal
						sc := gen.Scalar{Lines: []string{"{{ $nosuch }}"}, Style: gen.Single}
						rule.Fields = append(rule.Fields, gen.Field{Key: "annotations", Map: []gen.KV{{Key: "broken", Val: sc}}})
					case 1: // unknown key -> parse error (Fatal)
						rule.Fields = append(rule.Fields, gen.Field{Key: "bogus", Raw: " 1"})
					case 2: // syntax error
						for fi := range rule.Fields {
							if rule.Fields[fi].Key == "expr" {
								sc := gen.Scalar{Lines: []string{"sum(foo) by("}, Style: gen.Single}
								rule.Fields[fi].Val = &sc
							}
						}
					}
				}
			}
		}
		b.Files[names[i]] = d.Render().Text
	}
	palette := sevNames[:capSev+1]
	if scenario == 0 {
		switch r.Intn(4) {
		case 0:
			palette = []string{"info", "warning"}
		case 1:
			palette = []string{"bug", "warning"}
		}
	}
	sev := func() string { return palette[r.Intn(len(palette))] }
	var cfg strings.Builder
	cfg.WriteString("ci {\n  baseBranch = \"main\"\n}\n")
	if scenario != 0 || r.Intn(3) == 0 {
		// silence the built-in offline checks so that only configured severities remain
		cfg.WriteString("checks {\n  disabled = [\"alerts/comparison\", \"alerts/template\", \"promql/fragile\", \"promql/regexp\", \"alerts/for\", \"promql/impossible\", \"promql/syntax\", \"rule/dependency\"]\n}\n")
	}
	match := func() string {
		switch r.Intn(4) {
		case 0:
			return "  match {\n    path = \"rules/a.*\"\n  }\n"
		case 1:
			return "  match {\n    path = \"rules/b.*\"\n  }\n"
		case 2:
			return "  match {\n    kind = \"" + []string{"alerting", "recording"}[r.Intn(2)] + "\"\n  }\n"
		}
		return ""
	}
	nb := 1 + r.Intn(5)
	for i := 0; i < nb; i++ {
		cfg.WriteString("rule {\n" + match())
		switch r.Intn(7) {
		case 0:
			fmt.Fprintf(&cfg, "  label \"%s\" {\n    required = true\n    severity = \"%s\"\n  }\n", []string{"severity", "team", "nosuch"}[r.Intn(3)], sev())
		case 1:
			fmt.Fprintf(&cfg, "  annotation \"%s\" {\n    required = true\n    severity = \"%s\"\n  }\n", []string{"summary", "runbook", "nosuch"}[r.Intn(3)], sev())
		case 2:
			fmt.Fprintf(&cfg, "  name \"%s\" {\n    severity = \"%s\"\n  }\n", []string{"nomatch.*", "[A-Z].*", ".*:.*"}[r.Intn(3)], sev())
		case 3:
			fmt.Fprintf(&cfg, "  report {\n    comment = \"reported %d\"\n    severity = \"%s\"\n  }\n", r.Intn(2), sev())
		case 4:
			fmt.Fprintf(&cfg, "  for {\n    min = \"%s\"\n    severity = \"%s\"\n  }\n", []string{"10m", "2h", "1s"}[r.Intn(3)], sev())
		case 5:
			fmt.Fprintf(&cfg, "  reject \"%s\" {\n    label_values = true\n    annotation_values = true\n    severity = \"%s\"\n  }\n", []string{".*critical.*", ".*foo.*", ".* .*"}[r.Intn(3)], sev())
		case 6:
			fmt.Fprintf(&cfg, "  aggregate \".+\" {\n    keep = [\"job\"]\n    severity = \"%s\"\n  }\n", sev())
		}
		cfg.WriteString("}\n")
	}
	// same check text at two severities on two paths (duplicate folding across severities)
	if scenario >= 4 || (scenario == 0 && r.Intn(3) == 0) {
		s1, s2 := sev(), sev()
		if scenario >= 4 {
			s1 = sevNames[capSev]
			s2 = sevNames[capSev+1+r.Intn(3-capSev)]
			if scenario == 5 {
				s1, s2 = s2, s1
			}
		}
		kind := []string{"annotation", "label"}[r.Intn(2)]
		fmt.Fprintf(&cfg, "rule {\n  match {\n    path = \"rules/a.*\"\n  }\n  %s \"zzz\" {\n    required = true\n    severity = \"%s\"\n  }\n}\n", kind, s1)
		fmt.Fprintf(&cfg, "rule {\n  match {\n    path = \"rules/b.*\"\n  }\n  %s \"zzz\" {\n    required = true\n    severity = \"%s\"\n  }\n}\n", kind, s2)
	}
	b.Config = cfg.String()
	return b
}

type c05Result struct {
	completed bool
	exit      int
	sevs      []string // sorted multiset of severities in the JSON report
	crash     string
	stderr    string
}

func c05Run(c *core.Ctx, cs c05Case) c05Result {
	var res LintResult
	global := []string{"--offline"}
	if cs.ShowDup {
		global = append(global, "--show-duplicates")
	}
	var args []string
	if cs.FailOn != "" {
		args = append(args, "--fail-on", cs.FailOn)
	}
	if cs.Command == "ci" {
		dir := filepath.Join(c.Scratch, fmt.Sprintf("c05repo-%d", caseSeq.Add(1)))
		defer os.RemoveAll(dir)
		repo, err := gitrepo.New(dir)
		if err != nil {
			return c05Result{crash: "git:" + err.Error()}
		}
		_ = repo.Write("README.md", "base\n")
		if _, err := repo.Commit("base"); err != nil {
			return c05Result{crash: "git:" + err.Error()}
		}
		_, _ = repo.Git("checkout", "-q", "-b", "pr")
		for n, d := range cs.Base.Files {
			_ = repo.Write(n, d)
		}
		if _, err := repo.Commit("add rules"); err != nil {
			return c05Result{crash: "git:" + err.Error()}
		}
		res = RunLintIn(c, dir, nil, LintOpts{Config: cs.Base.Config, Global: global, Command: "ci", Args: args, WantJSON: true, Env: repo.Env(), Timeout: 40 * time.Second})
	} else {
		res = RunLint(c, cs.Base.Files, LintOpts{Config: cs.Base.Config, Global: global, Args: args, MinSeverity: cs.MinSev, WantJSON: true, Paths: []string{"rules"}, Timeout: 40 * time.Second})
	}
	out := c05Result{exit: res.Proc.Exit, stderr: res.Proc.Stderr}
	if res.Proc.TimedOut {
		out.crash = "timeout"
		return out
	}
	if res.Proc.Crash != "" {
		out.crash = res.Proc.Crash
		return out
	}
	if !res.JSONPresent || res.JSONErr != nil {
		return out
	}
	out.completed = true
	for _, r := range res.JSON {
		out.sevs = append(out.sevs, r.Severity)
	}
	sort.Strings(out.sevs)
	return out
}

// c05SymlinkBases: rules/real.yml plus rules/link.yml -> real.yml; two path-scoped rule blocks report a missing
// annotation at chosen severities for the real name and for the link name.
func c05SymlinkBases(n int, c *core.Ctx) (out []c05Base) {
	for i := 0; i < n; i++ {
		r := c.Rand("c05sym", i)
		sevReal := []string{"", "info", "warning", "bug"}[r.Intn(4)]
		sevLink := []string{"info", "warning", "bug", "fatal"}[r.Intn(4)]
		cfg := "checks {\n  enabled = [\"alerts/annotation\"]\n}\n"
		if sevReal != "" {
			cfg += fmt.Sprintf("rule {\n  match {\n    path = \"rules/real.yml\"\n  }\n  annotation \"runbook\" {\n    required = true\n    severity = %q\n  }\n}\n", sevReal)
		}
		cfg += fmt.Sprintf("rule {\n  match {\n    path = \"rules/link.yml\"\n  }\n  annotation \"summary\" {\n    required = true\n    severity = %q\n  }\n}\n", sevLink)
		if r.Intn(2) == 0 {
			// both names also share a problem
			cfg += "rule {\n  annotation \"dashboard\" {\n    required = true\n    severity = \"info\"\n  }\n}\n"
		}
		var b strings.Builder
		b.WriteString("groups:\n- name: g\n  rules:\n")
		for k := 0; k < 1+r.Intn(3); k++ {
			fmt.Fprintf(&b, "  - alert: A%d\n    expr: up == 0\n    for: 5m\n", k)
		}
		out = append(out, c05Base{Config: cfg, Files: map[string]string{"rules/real.yml": b.String(), "rules/link.yml": SymlinkPrefix + "real.yml"}})
	}
	return out
}

func c05Expected(sevs []string, failOn string) int {
	th := 2
	switch failOn {
	case "fatal":
		th = 3
	case "bug", "":
		th = 2
	case "warning":
		th = 1
	case "info":
		th = 0
	}
	for _, s := range sevs {
		if core.SeverityRank(s) >= th {
			return 1
		}
	}
	return 0
}

func runC05(c *core.Ctx) int {
	run := core.NewRun(c)
	if c.Replay != "" {
		var cs c05Case
		if err := core.LoadCase(c.Replay, &cs); err != nil {
			fmt.Println("cannot load case:", err)
			return core.ExitInconclusive
		}
		r := c05Run(c, cs)
		exp := c05Expected(r.sevs, cs.FailOn)
		fmt.Printf("REPLAY completed=%v exit=%d expected=%d severities=%v\n", r.completed, r.exit, exp, r.sevs)
		if r.completed && r.exit != exp {
			return 1
		}
		return 0
	}
	nBases := c.N(24, 400)
	// the same file reached under its own name and through a symbolic link, with path-scoped configuration that gives
	// the two names different problems (the higher severity on either side, the other side clean or not)
	symBases := c05SymlinkBases(c.N(6, 48), c)
	type job struct {
		base int
		cs   c05Case
	}
	bases := make([]c05Base, nBases+len(symBases))
	var jobs []job
	failOns := []string{"", "fatal", "bug", "warning", "info"}
	for i := range bases {
		if i >= nBases {
			bases[i] = symBases[i-nBases]
			for _, f := range failOns {
				for _, sd := range []bool{false, true} {
					jobs = append(jobs, job{i, c05Case{Base: bases[i], Command: "lint", FailOn: f, MinSev: "info", ShowDup: sd}})
				}
			}
			continue
		}
		bases[i] = c05RandBase(c.Rand("c05", i), i%6)
		for _, f := range failOns {
			for _, ms := range sevNames {
				for _, sd := range []bool{false, true} {
					jobs = append(jobs, job{i, c05Case{Base: bases[i], Command: "lint", FailOn: f, MinSev: ms, ShowDup: sd}})
				}
			}
			for _, sd := range []bool{false, true} {
				jobs = append(jobs, job{i, c05Case{Base: bases[i], Command: "ci", FailOn: f, ShowDup: sd}})
			}
		}
	}
	results := make([]c05Result, len(jobs))
	core.Parallel(len(jobs), 16, func(j int) {
		results[j] = c05Run(c, jobs[j].cs)
	})
	// per-run oracle + relational oracle
	type groupKey struct {
		base    int
		cmd, fo string
	}
	groups := map[groupKey][]int{}
	for j, jb := range jobs {
		r := results[j]
		run.Eval(1)
		cs := jb.cs
		if r.crash != "" {
			run.Inconclusive("child crashed or timed out: " + r.crash + " " + core.Trunc(firstPanicLines(r.stderr), 300))
			continue
		}
		if !r.completed {
			run.Count("runs_not_completed", 1)
			continue
		}
		run.Count("runs_completed_"+cs.Command, 1)
		exp := c05Expected(r.sevs, cs.FailOn)
		if r.exit != exp {
			cfgFiles := map[string][]byte{"pint.hcl": []byte(cs.Base.Config), "stderr.txt": []byte(r.stderr)}
			for n, d := range cs.Base.Files {
				cfgFiles[n] = []byte(d)
			}
			run.Violate(core.Violation{
				Sig:   fmt.Sprintf("exit-mismatch:%s:fail-on=%s:expected=%d", cs.Command, cs.FailOn, exp),
				What:  fmt.Sprintf("pint %s --fail-on=%q --min-severity=%q show-duplicates=%v exited %d but its own JSON report holds severities %v (expected exit %d)", cs.Command, cs.FailOn, cs.MinSev, cs.ShowDup, r.exit, uniq(r.sevs), exp),
				Case:  cs,
				Files: cfgFiles,
			})
		}
		gk := groupKey{jb.base, cs.Command, cs.FailOn}
		groups[gk] = append(groups[gk], j)
		// non-trivial: at least one severity below and one at/above, or exactly at the threshold
		th := map[string]int{"": 2, "fatal": 3, "bug": 2, "warning": 1, "info": 0}[cs.FailOn]
		below, at, above := false, false, false
		for _, s := range r.sevs {
			k := core.SeverityRank(s)
			switch {
			case k < th:
				below = true
			case k == th:
				at = true
			default:
				above = true
			}
		}
		if (below && (at || above)) || at {
			run.Nontrivial(fmt.Sprintf("%s fail-on=%s sevs=%s", cs.Command, cs.FailOn, strings.Join(uniq(r.sevs), "+")))
		}
		if j%(len(jobs)/6+1) == 0 {
			run.Sample(map[string]any{"command": cs.Command, "fail_on": cs.FailOn, "min_severity": cs.MinSev, "show_duplicates": cs.ShowDup, "exit": r.exit, "severities": r.sevs, "config": core.Trunc(cs.Base.Config, 300)})
		}
	}
	for gk, idxs := range groups {
		first := results[idxs[0]]
		for _, j := range idxs[1:] {
			r := results[j]
			if strings.Join(r.sevs, ",") != strings.Join(first.sevs, ",") {
				// the reports themselves differ between two runs of the same input: that is
				// schedule dependence (C11), not an effect of the display flags
				run.Count("relational_pairs_skipped_reports_differ", 1)
				continue
			}
			if r.exit != first.exit {
				cs := jobs[j].cs
				cfgFiles := map[string][]byte{"pint.hcl": []byte(cs.Base.Config)}
				for n, d := range cs.Base.Files {
					cfgFiles[n] = []byte(d)
				}
				b, _ := json.Marshal(jobs[idxs[0]].cs)
				run.Violate(core.Violation{
					Sig:   fmt.Sprintf("display-flag-changes-result:%s:fail-on=%s", gk.cmd, gk.fo),
					What:  fmt.Sprintf("runs differing only in --min-severity/--show-duplicates differ: exit %d vs %d, severities %v vs %v (other run: %s)", first.exit, r.exit, first.sevs, r.sevs, core.Trunc(string(b), 200)),
					Case:  cs,
					Files: cfgFiles,
				})
				break
			}
		}
		run.Count("relational_groups", 1)
	}
	run.Assume("a run 'completed linting' iff it wrote its --json report; the report lists every problem before the status is decided")
	return run.Finish("exploration",
		"bases: 2-3 generated rule files (with injected template/syntax/parse errors) x generated configs assigning custom severities from a palette (incl. info-only and warning-only palettes, same check at two severities on two paths); each base run as lint with every --fail-on (default,fatal,bug,warning,info) x --min-severity x --show-duplicates and as ci (scratch git repo, branch adding the files) with every --fail-on x --show-duplicates. Oracle: exit status == [some severity in the child's own JSON >= fail-on]; runs differing only in display flags must agree. Non-trivial = run with a severity exactly at the threshold, or severities on both sides of it; distinct by (command, fail-on, set of severities).",
		core.Floors{MinEvaluations: int64(len(jobs)), MinNontrivial: 10, MaxInconclusiveFrac: 0.01})
}

func firstPanicLines(stderr string) string {
	i := strings.Index(stderr, "panic: ")
	if i < 0 {
		i = strings.Index(stderr, "fatal error: ")
	}
	if i < 0 {
		return ""
	}
	ls := strings.Split(stderr[i:], "\n")
	var out []string
	for _, l := range ls {
		if strings.HasPrefix(l, "panic: ") || strings.HasPrefix(l, "fatal error: ") || strings.HasPrefix(l, "github.com/cloudflare/pint/") {
			out = append(out, l)
		}
		if len(out) >= 3 {
			break
		}
	}
	return strings.Join(out, " | ")
}

func uniq(s []string) []string {
	seen := map[string]bool{}
	var out []string
	for _, x := range s {
		if !seen[x] {
			seen[x] = true
			out = append(out, x)
		}
	}
	sort.Strings(out)
	return out
}
