//go:build race

package props

const c14RaceEnabled = true
