package props

// C14, "configured through a file" scenario.
//
// Everywhere else in this monitor the group under test is built with
// promapi.NewPrometheus(..., concurrency, ...) directly, so "its configured
// concurrency" is whatever the harness passed to the constructor. A user
// configures it in pint's configuration file, and between that number and the
// worker pool lie config.Load, PrometheusConfig.applyDefaults/validate,
// newFailoverGroup and - for discovered servers - PrometheusTemplate.Render,
// Discovery.merge and FailoverGroup.MergeUpstreams. This scenario adds that
// dimension: the harness writes a configuration file, lets pint's own
// config.Load + PrometheusGenerator (GenerateStatic / GenerateDynamic) build and
// start the group, and runs a saturating workload against it. What varies:
//   - where the server definition comes from: a static prometheus{} block, a
//     discovery filepath{} template (one file on disk naming the server, or two
//     files whose rendered servers are merged into one group as failover), a
//     discovery prometheusQuery{} template (rendered from the labels a discovery
//     server returns);
//   - the concurrency written in the file: 1, 2, 3, 4, 6, 8, 12, or not at all
//     (control: counted, never judged);
//   - one upstream, or two with the first one answering 500 to everything so
//     that the failover upstream - which must be bounded too - takes the load;
//   - server delays, rate limit written high enough not to throttle.
//
// Oracle: unchanged. The number written in the file is the configured
// concurrency; the in-flight sweep over each upstream's request log (intervals
// that lie inside the client's true in-flight interval) must never exceed it.
// All per-question monitors of the mixed scenario apply as well.

import (
	"context"
	"encoding/json"
	"fmt"
	"math/rand"
	"net/http"
	"net/http/httptest"
	"net/url"
	"os"
	"path/filepath"
	"strings"

	"github.com/prometheus/client_golang/prometheus"

	"github.com/cloudflare/pint/internal/config"
	"github.com/cloudflare/pint/internal/promapi"
)

const c14CfgPublicURI = "upstream-cfg"

var c14CfgConcurrencies = []int{1, 2, 3, 4, 6, 8, 12}

func c14SourceKind(source string) string {
	if source == "static" {
		return "static-block"
	}
	return "discovery-template"
}

// c14WantURI is the URI field every result of the given upstream must carry.
func c14WantURI(t c14Trial, server string) string {
	if t.Source != "" {
		return c14CfgPublicURI // publicURI of the configured server, shared by its failover upstreams
	}
	return "upstream-" + server
}

// ---- generator ----

func c14GenCfg(r *rand.Rand, id int) c14Trial {
	t := c14GenCommon(r, id, "cfg")
	t.Source = []string{"static", "filepath", "filepath", "filepath-merge", "promquery", "promquery"}[r.Intn(6)]
	t.Concurrency = c14CfgConcurrencies[r.Intn(len(c14CfgConcurrencies))]
	if r.Intn(10) == 0 {
		t.ConcAbsent = true
		t.Concurrency = 16 // what docs/configuration.md names as default; only used for the "reached" statistics
	}
	t.RateLimit = 100000
	t.MaxDelayUs = []int{2000, 4000}[r.Intn(2)]
	if t.Concurrency >= 8 {
		t.MaxDelayUs = []int{6000, 9000}[r.Intn(2)]
	}
	t.MinDelayUs = t.MaxDelayUs / 2 // every request is held open, so that all workers are busy at once
	if r.Intn(10) < 3 || t.Source == "filepath-merge" {
		t.Servers = 2
	}
	for i := 0; i < 6; i++ {
		t.Questions = append(t.Questions, c14Question{Kind: "query", Expr: c14Expr(i)})
	}
	for i := 0; i < 6; i++ {
		t.Questions = append(t.Questions, c14Question{Kind: "metadata", Expr: c14Metric(i)})
	}
	t.Questions = append(t.Questions, c14Question{Kind: "config"}, c14Question{Kind: "flags"})
	if t.Servers == 2 {
		// single-slice questions only: the first upstream answers 500 to everything, the failover upstream does the work
		for i := 0; i < 6; i++ {
			t.Questions = append(t.Questions, c14Question{Kind: "range", Expr: c14Expr(i), EndOff: int64(r.Intn(86400)),
				LookbackS: c14SingleLook[r.Intn(len(c14SingleLook))], StepS: 60})
		}
		for i := range t.Questions {
			t.Questions[i].FailA, t.Questions[i].KindA = 1000, "500"
		}
	} else {
		nr := 1 + r.Intn(2)
		for i := 0; i < nr; i++ {
			t.Questions = append(t.Questions, c14Question{Kind: "range", Expr: c14Expr(i), EndOff: int64(r.Intn(86400)),
				LookbackS: []int64{26 * 3600, 40 * 3600}[r.Intn(2)], StepS: c14Steps[r.Intn(len(c14Steps))]})
		}
	}
	c14Callers(r, &t, len(t.Questions)+r.Intn(len(t.Questions)))
	for i := range t.Callers {
		t.Callers[i].DelayUs = 0
	}
	return t
}

// ---- building the group the way pint does ----

type c14Built struct {
	fg   *promapi.FailoverGroup
	stop func()
	hcl  string
}

func c14HostPort(raw string) (host, port string, err error) {
	u, err := url.Parse(raw)
	if err != nil {
		return "", "", err
	}
	return u.Hostname(), u.Port(), nil
}

func c14CfgFields(t c14Trial, indent string) string {
	var b strings.Builder
	fmt.Fprintf(&b, "%spublicURI = %q\n%stimeout = \"1m\"\n%srateLimit = %d\n", indent, c14CfgPublicURI, indent, indent, t.RateLimit)
	if !t.ConcAbsent {
		fmt.Fprintf(&b, "%sconcurrency = %d\n", indent, t.Concurrency)
	}
	return b.String()
}

// c14BuildFromConfig writes the configuration file (and what its discovery block needs) for the trial, loads it
// with config.Load and lets the PrometheusGenerator build and start the servers.
func c14BuildFromConfig(t c14Trial, servers []*c14Server, reg *prometheus.Registry) (*c14Built, error) {
	dir, err := os.MkdirTemp(".", "c14cfg-")
	if err != nil {
		return nil, err
	}
	if dir, err = filepath.Abs(dir); err != nil {
		return nil, err
	}
	var disco *httptest.Server
	cleanup := func() {
		if disco != nil {
			disco.Close()
		}
		_ = os.RemoveAll(dir)
	}
	hosts := make([]string, len(servers))
	ports := make([]string, len(servers))
	for i, s := range servers {
		if hosts[i], ports[i], err = c14HostPort(s.srv.URL); err != nil {
			cleanup()
			return nil, err
		}
	}
	var b strings.Builder
	switch t.Source {
	case "static":
		b.WriteString("prometheus \"c14\" {\n")
		fmt.Fprintf(&b, "  uri = %q\n", servers[0].srv.URL)
		if len(servers) > 1 {
			fmt.Fprintf(&b, "  failover = [%q]\n", servers[1].srv.URL)
		}
		b.WriteString(c14CfgFields(t, "  "))
		b.WriteString("}\n")
	case "filepath":
		sd := filepath.Join(dir, "servers")
		if err = os.MkdirAll(sd, 0o755); err != nil {
			cleanup()
			return nil, err
		}
		name := "srv_" + hosts[0] + "_" + ports[0]
		match := `srv_(?P<host>[0-9.]+)_(?P<port>[0-9]+)`
		if len(servers) > 1 {
			name += "_" + hosts[1] + "_" + ports[1]
			match += `_(?P<fhost>[0-9.]+)_(?P<fport>[0-9]+)`
		}
		if err = os.WriteFile(filepath.Join(sd, name+".yml"), []byte("groups: []\n"), 0o644); err != nil {
			cleanup()
			return nil, err
		}
		b.WriteString("discovery {\n  filepath {\n")
		fmt.Fprintf(&b, "    directory = %q\n    match = %q\n", sd, match+`\.yml`)
		b.WriteString("    template {\n      name = \"c14\"\n      uri = \"http://{{ $host }}:{{ $port }}\"\n")
		if len(servers) > 1 {
			b.WriteString("      failover = [\"http://{{ $fhost }}:{{ $fport }}\"]\n")
		}
		b.WriteString(c14CfgFields(t, "      "))
		b.WriteString("    }\n  }\n}\n")
	case "filepath-merge":
		// two files, each rendering a server of the same name: the second one is merged into the first as failover
		sd := filepath.Join(dir, "servers")
		if err = os.MkdirAll(sd, 0o755); err != nil {
			cleanup()
			return nil, err
		}
		for i := range servers {
			name := fmt.Sprintf("%c_%s_%s.yml", 'a'+i, hosts[i], ports[i]) // WalkDir visits in lexical order
			if err = os.WriteFile(filepath.Join(sd, name), []byte("groups: []\n"), 0o644); err != nil {
				cleanup()
				return nil, err
			}
		}
		b.WriteString("discovery {\n  filepath {\n")
		fmt.Fprintf(&b, "    directory = %q\n    match = %q\n", sd, `[a-z]_(?P<host>[0-9.]+)_(?P<port>[0-9]+)\.yml`)
		b.WriteString("    template {\n      name = \"c14\"\n      uri = \"http://{{ $host }}:{{ $port }}\"\n")
		b.WriteString(c14CfgFields(t, "      "))
		b.WriteString("    }\n  }\n}\n")
	case "promquery":
		labels := map[string]string{"__name__": "c14_discovery", "host": hosts[0], "port": ports[0]}
		if len(servers) > 1 {
			labels["fhost"], labels["fport"] = hosts[1], ports[1]
		}
		body, _ := json.Marshal(map[string]any{"status": "success", "data": map[string]any{
			"resultType": "vector",
			"result":     []any{map[string]any{"metric": labels, "value": []any{1710028800, "1"}}},
		}})
		disco = httptest.NewServer(http.HandlerFunc(func(w http.ResponseWriter, r *http.Request) {
			if !strings.HasSuffix(r.URL.Path, "/api/v1/query") {
				http.NotFound(w, r)
				return
			}
			w.Header().Set("Content-Type", "application/json")
			_, _ = w.Write(body)
		}))
		b.WriteString("discovery {\n  prometheusQuery {\n")
		fmt.Fprintf(&b, "    uri = %q\n    query = \"c14_discovery\"\n    timeout = \"30s\"\n", disco.URL)
		b.WriteString("    template {\n      name = \"c14\"\n      uri = \"http://{{ $host }}:{{ $port }}\"\n")
		if len(servers) > 1 {
			b.WriteString("      failover = [\"http://{{ $fhost }}:{{ $fport }}\"]\n")
		}
		b.WriteString(c14CfgFields(t, "      "))
		b.WriteString("    }\n  }\n}\n")
	default:
		cleanup()
		return nil, fmt.Errorf("unknown source %q", t.Source)
	}
	hcl := b.String()
	cfgPath := filepath.Join(dir, "pint.hcl")
	if err = os.WriteFile(cfgPath, []byte(hcl), 0o644); err != nil {
		cleanup()
		return nil, err
	}
	cfg, _, err := config.Load(cfgPath, true)
	if err != nil {
		cleanup()
		return nil, fmt.Errorf("config.Load: %w (file: %s)", err, hcl)
	}
	gen := config.NewPrometheusGenerator(cfg, reg)
	if err = gen.GenerateStatic(); err == nil {
		err = gen.GenerateDynamic(context.Background())
	}
	if err != nil {
		gen.Stop()
		cleanup()
		return nil, fmt.Errorf("PrometheusGenerator: %w (file: %s)", err, hcl)
	}
	fg := gen.ServerWithName("c14")
	if fg == nil || gen.Count() != 1 || fg.ServerCount() != len(servers) {
		n, built := -1, gen.Count()
		if fg != nil {
			n = fg.ServerCount()
		}
		gen.Stop()
		cleanup()
		return nil, fmt.Errorf("the generator built %d servers, group c14 has %d upstreams, expected 1 server with %d upstreams (file: %s)", built, n, len(servers), hcl)
	}
	return &c14Built{fg: fg, hcl: hcl, stop: func() {
		gen.Stop()
		cleanup()
	}}, nil
}
