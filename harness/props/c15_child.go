package props

// C15, child side: fault servers, the executor that drives the REAL failover
// group (built through config.Load + PrometheusGenerator, exactly as pint does)
// and the real online checks, and the recorder that turns one execution into a
// c15Obs. No verdict is taken here: the parent judges recorded observations.

import (
	"context"
	"encoding/json"
	"errors"
	"fmt"
	"io"
	"log/slog"
	"net"
	"net/http"
	"net/http/httptest"
	"os"
	"path/filepath"
	"runtime/debug"
	"strconv"
	"strings"
	"sync"
	"syscall"
	"time"

	"github.com/prometheus/client_golang/prometheus"
	"github.com/prometheus/common/model"

	"github.com/cloudflare/pint/internal/checks"
	"github.com/cloudflare/pint/internal/config"
	"github.com/cloudflare/pint/internal/discovery"
	"github.com/cloudflare/pint/internal/parser"
	"github.com/cloudflare/pint/internal/promapi"
	"github.com/cloudflare/pint/verif/core"
)

func init() { Children["C15-child"] = c15ChildMain }

// ---- recorded observation of one execution ----

type c15Problem struct {
	Reporter string `json:"reporter"`
	Summary  string `json:"summary"`
	Severity string `json:"severity"`
	Text     string `json:"text"`
}

// c15Call is what one call into the real code returned: an API call on the
// failover group or one online check.
type c15Call struct {
	Target string `json:"target"` // api:<endpoint> | check:<reporter>

	// API level
	Called         bool   `json:"called"`
	OK             bool   `json:"ok"`
	ResultURI      string `json:"result_uri,omitempty"`
	ResultIdent    string `json:"result_ident,omitempty"`
	ErrText        string `json:"err_text,omitempty"`
	ErrHasFG       bool   `json:"err_is_failover_group_error,omitempty"`
	ErrURI         string `json:"err_uri,omitempty"`
	ErrStrict      bool   `json:"err_strict,omitempty"`
	ErrUnavailable bool   `json:"err_unavailable,omitempty"`
	ErrUnsupported bool   `json:"err_unsupported,omitempty"`
	ErrAPIType     string `json:"err_api_type,omitempty"`
	ErrAPIMsg      string `json:"err_api_msg,omitempty"`

	// check level
	CheckFound bool         `json:"check_found,omitempty"`
	Problems   []c15Problem `json:"problems,omitempty"`

	Panic      string `json:"panic,omitempty"`
	PanicFrame string `json:"panic_frame,omitempty"`
	SetupErr   string `json:"setup_error,omitempty"`
}

type c15Obs struct {
	Index int     `json:"index"`
	Case  c15Case `json:"case"`

	URIs     []string   `json:"uris"`
	Tokens   []string   `json:"tokens"`
	Requests []int      `json:"requests"` // per upstream; -1: not observable (closed port)
	Paths    [][]string `json:"paths"`    // per upstream: API path of every request, in arrival order
	// errors pint itself logged per upstream URI ("Query returned an error" / unsupported API)
	Logged [][]string `json:"logged"`

	// one element, or one per concurrent call for the targets api:* and check:*
	Calls []c15Call `json:"calls"`

	// load-shape cases only (c15_burst.go)
	Burst *c15BurstObs `json:"burst,omitempty"`
	// fault sequences only (c15_seq.go): one element per step
	Seq *c15SeqObs `json:"seq,omitempty"`

	Hung      bool   `json:"hung,omitempty"`
	SetupErr  string `json:"setup_error,omitempty"`
	ElapsedMs int64  `json:"elapsed_ms"`
}

// ---- fault servers ----

type c15Upstream struct {
	mode  string
	token string
	uri   string
	srv   *httptest.Server
	fd    int

	mu       sync.Mutex
	requests int
	paths    []string
	keys     []string // query / metric form value of every request, in arrival order

	// load-shape cases: a healthy upstream answers after delay, and keeps one
	// record per request (which query, arrival and completion on the clock
	// that started at t0, whether the client had gone away before the answer)
	delay time.Duration
	t0    time.Time
	reqs  []c15BurstReq

	// connections currently open on the server side (see close)
	conns map[net.Conn]struct{}
}

// close runs when every call of the case has returned. The connections that
// are still open are idle keep-alive connections; they are reset instead of
// shut down, so that they do not stay behind in TIME_WAIT for a minute: with
// tens of thousands of cases those would use up the local ports, and the
// closed-port upstreams (bind to port 0) could no longer be set up.
func (u *c15Upstream) close() {
	if u.srv != nil {
		u.mu.Lock()
		for c := range u.conns {
			if tc, ok := c.(*net.TCPConn); ok {
				_ = tc.SetLinger(0)
			}
		}
		u.mu.Unlock()
		u.srv.CloseClientConnections()
		u.srv.Close()
	}
	if u.fd > 0 {
		_ = syscall.Close(u.fd)
	}
}

// c15ClosedPort returns a loopback TCP port that refuses connections and cannot
// be handed to anybody else while fd is open: the socket is bound but never
// listens, so a connect() is answered with RST (ECONNREFUSED).
func c15ClosedPort() (fd, port int, err error) {
	fd, err = syscall.Socket(syscall.AF_INET, syscall.SOCK_STREAM|syscall.SOCK_CLOEXEC, 0)
	if err != nil {
		return 0, 0, err
	}
	if err = syscall.Bind(fd, &syscall.SockaddrInet4{Port: 0, Addr: [4]byte{127, 0, 0, 1}}); err != nil {
		_ = syscall.Close(fd)
		return 0, 0, err
	}
	sa, err := syscall.Getsockname(fd)
	if err != nil {
		_ = syscall.Close(fd)
		return 0, 0, err
	}
	in4, ok := sa.(*syscall.SockaddrInet4)
	if !ok {
		_ = syscall.Close(fd)
		return 0, 0, errors.New("not an inet4 socket")
	}
	return fd, in4.Port, nil
}

func c15NewUpstream(mode, token string) (*c15Upstream, error) {
	u := &c15Upstream{mode: mode, token: token}
	if mode == "refused" {
		fd, port, err := c15ClosedPort()
		if err != nil {
			return nil, err
		}
		u.fd = fd
		u.uri = fmt.Sprintf("http://127.0.0.1:%d", port)
		return u, nil
	}
	u.conns = map[net.Conn]struct{}{}
	u.srv = httptest.NewUnstartedServer(u)
	u.srv.Config.ConnState = func(c net.Conn, st http.ConnState) {
		u.mu.Lock()
		switch st {
		case http.StateNew:
			u.conns[c] = struct{}{}
		case http.StateClosed, http.StateHijacked:
			delete(u.conns, c)
		}
		u.mu.Unlock()
	}
	u.srv.Start()
	u.uri = u.srv.URL
	return u, nil
}

func c15JSON(w http.ResponseWriter, code int, body string) {
	w.Header().Set("Content-Type", "application/json")
	w.WriteHeader(code)
	_, _ = io.WriteString(w, body)
}

func (u *c15Upstream) ServeHTTP(w http.ResponseWriter, r *http.Request) {
	_ = r.ParseForm()
	u.mu.Lock()
	u.requests++
	u.paths = append(u.paths, r.URL.Path)
	u.keys = append(u.keys, r.Form.Get("query")+r.Form.Get("metric"))
	t0, delay := u.t0, u.delay
	u.mu.Unlock()
	q := func(s string) string { b, _ := json.Marshal(s); return string(b) }
	switch u.mode {
	case "healthy":
		if !t0.IsZero() {
			rec := c15BurstReq{Key: r.Form.Get("query") + r.Form.Get("metric"), ArriveNs: time.Since(t0).Nanoseconds()}
			if delay > 0 {
				select {
				case <-time.After(delay):
				case <-r.Context().Done():
					rec.Aborted = true
				}
			}
			defer func() {
				rec.DoneNs = time.Since(t0).Nanoseconds()
				u.mu.Lock()
				u.reqs = append(u.reqs, rec)
				u.mu.Unlock()
			}()
			if rec.Aborted {
				return
			}
		}
		switch {
		case strings.HasSuffix(r.URL.Path, promapi.APIPathQuery):
			c15JSON(w, 200, `{"status":"success","data":{"resultType":"vector","result":[{"metric":{"ident":`+q(u.token)+`},"value":[1700000000,"7"]}]}}`)
		case strings.HasSuffix(r.URL.Path, promapi.APIPathQueryRange):
			start, _ := strconv.ParseFloat(r.Form.Get("start"), 64)
			ts := strconv.FormatFloat(float64(int64(start)), 'f', -1, 64)
			c15JSON(w, 200, `{"status":"success","data":{"resultType":"matrix","result":[{"metric":{"ident":`+q(u.token)+`},"values":[[`+ts+`,"1"]]}]}}`)
		case strings.HasSuffix(r.URL.Path, promapi.APIPathConfig):
			yaml := "global:\n  scrape_interval: 1m\n  external_labels:\n    ident: " + u.token + "\n"
			c15JSON(w, 200, `{"status":"success","data":{"yaml":`+q(yaml)+`}}`)
		case strings.HasSuffix(r.URL.Path, promapi.APIPathFlags):
			c15JSON(w, 200, `{"status":"success","data":{"ident":`+q(u.token)+`,"storage.tsdb.retention.time":"15d"}}`)
		case strings.HasSuffix(r.URL.Path, promapi.APIPathMetadata):
			metric := r.Form.Get("metric")
			typ := "counter"
			if strings.HasSuffix(metric, "_gauge") {
				typ = "gauge"
			}
			c15JSON(w, 200, `{"status":"success","data":{`+q(metric)+`:[{"type":"`+typ+`","help":`+q(u.token)+`,"unit":""}]}}`)
		default:
			http.NotFound(w, r)
		}
	case "timeout":
		// hold the request until the client gives up
		select {
		case <-r.Context().Done():
		case <-time.After(25 * time.Second):
		}
	case "http500":
		w.Header().Set("Content-Type", "text/plain")
		w.WriteHeader(500)
		_, _ = io.WriteString(w, "Internal Server Error")
	case "http502_empty":
		w.Header().Set("Content-Length", "0")
		w.WriteHeader(502)
	case "http503_cut":
		// a complete response (Content-Length matches) whose JSON error object stops half way
		w.Header().Set("Content-Type", "application/json")
		w.WriteHeader(503)
		_, _ = io.WriteString(w, `{"status":"error","errorTy`)
	case "server_error":
		c15JSON(w, 503, `{"status":"error","errorType":"server_error","error":`+q("boom "+u.token)+`}`)
	case "bad_data":
		c15JSON(w, 400, `{"status":"error","errorType":"bad_data","error":`+q("bad "+u.token)+`}`)
	case "execution":
		c15JSON(w, 422, `{"status":"error","errorType":"execution","error":`+q("exec "+u.token)+`}`)
	case "bad_data_200":
		// the error object of a query error, delivered with a 2xx status
		c15JSON(w, 200, `{"status":"error","errorType":"bad_data","error":`+q("bad "+u.token)+`}`)
	case "execution_200":
		c15JSON(w, 200, `{"status":"error","errorType":"execution","error":`+q("exec "+u.token)+`}`)
	case "garbage_200":
		// a complete, well-framed 2xx response whose body is not JSON at all
		w.Header().Set("Content-Type", "text/html")
		w.WriteHeader(200)
		_, _ = io.WriteString(w, "<html><body>It works! "+u.token+"</body></html>\n")
	case "404":
		http.NotFound(w, r)
	case "truncated":
		hj, ok := w.(http.Hijacker)
		if !ok {
			w.WriteHeader(500)
			return
		}
		c, buf, err := hj.Hijack()
		if err != nil {
			return
		}
		_, _ = buf.WriteString("HTTP/1.1 200 OK\r\nContent-Type: application/json\r\nContent-Length: 400\r\n\r\n{\"status\":\"success\",\"data\":{\"resu")
		_ = buf.Flush()
		if tc, ok := c.(*net.TCPConn); ok {
			_ = tc.Close()
		} else {
			_ = c.Close()
		}
	default:
		w.WriteHeader(500)
	}
}

// ---- capture of pint's own error log, per upstream URI ----

type c15LogSink struct {
	mu  sync.Mutex
	byU map[string][]string
	// load-shape cases: for a watched URI every logged error is also kept per query
	byQ map[string]map[string]string
}

var c15Logs = &c15LogSink{byU: map[string][]string{}, byQ: map[string]map[string]string{}}

func (s *c15LogSink) watch(uri string) {
	s.mu.Lock()
	s.byQ[uri] = map[string]string{}
	s.mu.Unlock()
}

func (s *c15LogSink) takeQueries(uri string) map[string]string {
	s.mu.Lock()
	defer s.mu.Unlock()
	v := s.byQ[uri]
	delete(s.byQ, uri)
	return v
}

func (s *c15LogSink) Enabled(_ context.Context, l slog.Level) bool { return l >= slog.LevelWarn }
func (s *c15LogSink) WithAttrs(_ []slog.Attr) slog.Handler         { return s }
func (s *c15LogSink) WithGroup(_ string) slog.Handler              { return s }
func (s *c15LogSink) Handle(_ context.Context, r slog.Record) error {
	var uri, errText, query string
	r.Attrs(func(a slog.Attr) bool {
		switch a.Key {
		case "uri":
			uri = a.Value.String()
		case "err":
			errText = a.Value.String()
		case "query":
			query = a.Value.String()
		}
		return true
	})
	if uri == "" {
		return nil
	}
	s.mu.Lock()
	if len(s.byU[uri]) < 16 {
		s.byU[uri] = append(s.byU[uri], r.Message+": "+errText)
	}
	if m := s.byQ[uri]; m != nil && query != "" {
		if _, dup := m[query]; !dup {
			m[query] = r.Message + ": " + errText
		}
	}
	s.mu.Unlock()
	return nil
}

func (s *c15LogSink) take(uri string) []string {
	s.mu.Lock()
	defer s.mu.Unlock()
	v := s.byU[uri]
	delete(s.byU, uri)
	return v
}

// ---- the rules the checks are run on ----

const c15Rules = `groups:
- name: g
  rules:
  - alert: A
    expr: foo > 0
    for: 5m
    labels:
      severity: page
    annotations:
      summary: x
  - record: r1
    expr: rate(foo_total[5m])
  - record: r2
    expr: bar_gauge > 1
  - record: r3
    expr: foo / bar
  - record: r4
    expr: foo
    labels:
      team: a
  - alert: B
    expr: absent(foo)
    for: 10m
`

// check reporter -> (index of the rule it is run on, API endpoint it calls first)
type c15CheckSpec struct {
	Rule     int
	Endpoint string
}

var c15Checks = map[string]c15CheckSpec{
	checks.SeriesCheckName:               {0, "query"},
	checks.AlertsCheckName:               {0, "query_range"},
	checks.AlertsExternalLabelsCheckName: {0, "config"},
	checks.CostCheckName:                 {0, "query"},
	checks.RateCheckName:                 {1, "config"},
	checks.RangeQueryCheckName:           {1, "flags"},
	checks.CounterCheckName:              {2, "metadata"},
	checks.VectorMatchingCheckName:       {3, "query"},
	checks.LabelsConflictCheckName:       {4, "config"},
	checks.AlertsAbsentCheckName:         {5, "config"},
}

// c15Timeout: pint adds one second to it. Only executions with a timeout-mode
// upstream need a short one; everywhere else a long limit keeps a stalled
// machine from injecting faults that are not in the table.
func c15Timeout(modes []string) string {
	for _, m := range modes {
		if m == "timeout" {
			return "100ms"
		}
	}
	return "20s"
}

func c15HCL(uris []string, required bool, timeout string) string {
	return c15HCLWith(uris, required, timeout, 4, 1000)
}

func c15HCLWith(uris []string, required bool, timeout string, concurrency, rateLimit int) string {
	var b strings.Builder
	b.WriteString("prometheus \"prom\" {\n")
	fmt.Fprintf(&b, "  uri = %q\n", uris[0])
	if len(uris) > 1 {
		b.WriteString("  failover = [")
		for i, u := range uris[1:] {
			if i > 0 {
				b.WriteString(", ")
			}
			fmt.Fprintf(&b, "%q", u)
		}
		b.WriteString("]\n")
	}
	fmt.Fprintf(&b, "  timeout = %q\n  rateLimit = %d\n  concurrency = %d\n", timeout, rateLimit, concurrency)
	fmt.Fprintf(&b, "  required = %v\n}\n", required)
	b.WriteString("rule {\n  alerts {\n    range = \"1h\"\n    step = \"1m\"\n    resolve = \"5m\"\n    minCount = 100000\n  }\n}\n")
	b.WriteString("rule {\n  cost {}\n}\n")
	return b.String()
}

// c15FirstPintFrame returns the innermost frame of pint's own packages in a Go
// stack trace ("internal/promapi.(*FailoverGroup).Query").
func c15FirstPintFrame(trace string) string {
	for _, line := range strings.Split(trace, "\n") {
		line = strings.TrimSpace(line)
		if !strings.HasPrefix(line, "github.com/cloudflare/pint/internal/") && !strings.HasPrefix(line, "github.com/cloudflare/pint/cmd/") {
			continue
		}
		if i := strings.LastIndex(line, "("); i > 0 {
			line = line[:i]
		}
		return strings.TrimPrefix(line, "github.com/cloudflare/pint/")
	}
	return ""
}

var c15Seq struct {
	sync.Mutex
	n int
}

// c15Execute runs one case against the real code and records what happened.
func c15Execute(cs c15Case, index int, scratch string) (o c15Obs) {
	if cs.Seq != nil {
		return c15ExecuteSeq(cs, index, scratch)
	}
	o.Index = index
	o.Case = cs
	c15Seq.Lock()
	c15Seq.n++
	seq := c15Seq.n
	c15Seq.Unlock()

	ups := make([]*c15Upstream, 0, len(cs.Modes))
	defer func() {
		for _, u := range ups {
			o.Logged = append(o.Logged, c15Logs.take(u.uri))
		}
		if !o.Hung {
			for _, u := range ups {
				u.close()
			}
		}
	}()
	for i, m := range cs.Modes {
		u, err := c15NewUpstream(m, fmt.Sprintf("u%dx%dp%d", i, seq, os.Getpid()))
		if err != nil {
			o.SetupErr = "upstream: " + err.Error()
			return o
		}
		ups = append(ups, u)
		o.URIs = append(o.URIs, u.uri)
		o.Tokens = append(o.Tokens, u.token)
		_ = c15Logs.take(u.uri) // nothing stale under a reused port
	}

	hcl := c15HCL(o.URIs, cs.Strict, c15Timeout(cs.Modes))
	if cs.Burst != nil {
		hcl = c15BurstHCL(o.URIs, cs)
	}
	cfgPath := filepath.Join(scratch, fmt.Sprintf("c15-%d-%d.hcl", os.Getpid(), seq))
	if err := os.WriteFile(cfgPath, []byte(hcl), 0o644); err != nil {
		o.SetupErr = "write config: " + err.Error()
		return o
	}
	defer os.Remove(cfgPath)
	cfg, _, err := config.Load(cfgPath, true)
	if err != nil {
		o.SetupErr = "config.Load: " + err.Error()
		return o
	}
	reg := prometheus.NewRegistry()
	gen := config.NewPrometheusGenerator(cfg, reg)
	if err = gen.GenerateStatic(); err != nil {
		o.SetupErr = "GenerateStatic: " + err.Error()
		return o
	}
	fg := gen.ServerWithName("prom")
	if fg == nil || fg.ServerCount() != len(cs.Modes) {
		o.SetupErr = "failover group not built as configured"
		gen.Stop()
		return o
	}

	ctx := context.WithValue(context.Background(), config.CommandKey, config.LintCommand)
	ctx = context.WithValue(ctx, promapi.AllPrometheusServers, gen.Servers())

	if cs.Burst != nil {
		c15ExecuteBurst(ctx, &cfg, gen, fg, ups, &o)
		if !o.Hung {
			gen.Stop()
		}
		return o
	}

	targets := c15Targets(cs.Target)
	calls := make([]c15Call, len(targets))
	done := make(chan struct{})
	start := time.Now()
	go func() {
		var wg sync.WaitGroup
		for i, t := range targets {
			wg.Add(1)
			go func() {
				defer wg.Done()
				r := &calls[i]
				r.Target = t
				defer func() {
					if p := recover(); p != nil {
						st := string(debug.Stack())
						r.Panic = fmt.Sprint(p)
						r.PanicFrame = c15FirstPintFrame(st)
					}
				}()
				kind, name, _ := strings.Cut(t, ":")
				switch kind {
				case "api":
					c15CallAPI(ctx, fg, name, r)
				case "check":
					c15CallCheck(ctx, &cfg, gen, name, r)
				}
			}()
		}
		wg.Wait()
		close(done)
	}()
	select {
	case <-done:
		o.Calls = calls
	case <-time.After(45 * time.Second):
		o.Hung = true
	}
	o.ElapsedMs = time.Since(start).Milliseconds()
	for _, u := range ups {
		u.mu.Lock()
		if u.srv == nil {
			o.Requests = append(o.Requests, -1)
		} else {
			o.Requests = append(o.Requests, u.requests)
		}
		o.Paths = append(o.Paths, append([]string(nil), u.paths...))
		u.mu.Unlock()
	}
	if !o.Hung {
		gen.Stop()
	}
	return o
}

func c15RecordErr(err error, r *c15Call) {
	r.ErrText = err.Error()
	var fge *promapi.FailoverGroupError
	if errors.As(err, &fge) {
		r.ErrHasFG = true
		r.ErrURI = fge.URI()
		r.ErrStrict = fge.IsStrict()
	}
	r.ErrUnavailable = promapi.IsUnavailableError(err)
	r.ErrUnsupported = errors.Is(err, promapi.ErrUnsupported)
	var ae promapi.APIError
	if errors.As(err, &ae) {
		r.ErrAPIType = string(ae.ErrorType)
		r.ErrAPIMsg = ae.Err
	}
}

func c15CallAPI(ctx context.Context, fg *promapi.FailoverGroup, endpoint string, r *c15Call) {
	r.Called = true
	var err error
	switch endpoint {
	case "query":
		var res *promapi.QueryResult
		res, err = fg.Query(ctx, "count(foo)")
		if err == nil && res != nil {
			r.ResultURI = res.URI
			if len(res.Series) > 0 {
				r.ResultIdent = res.Series[0].Labels.Get("ident")
			}
		}
	case "query_range", "query_range_sliced":
		rng := promapi.NewRelativeRange(time.Hour, time.Minute)
		if endpoint == "query_range_sliced" {
			rng = promapi.NewRelativeRange(6*time.Hour, 5*time.Minute)
		}
		var res *promapi.RangeQueryResult
		res, err = fg.RangeQuery(ctx, "foo_"+endpoint, rng)
		if err == nil && res != nil {
			r.ResultURI = res.URI
			if len(res.Series.Ranges) > 0 {
				r.ResultIdent = res.Series.Ranges[0].Labels.Get("ident")
			}
		}
	case "config":
		var res *promapi.ConfigResult
		res, err = fg.Config(ctx, 0)
		if err == nil && res != nil {
			r.ResultURI = res.URI
			r.ResultIdent = res.Config.Global.ExternalLabels["ident"]
		}
	case "flags":
		var res *promapi.FlagsResult
		res, err = fg.Flags(ctx)
		if err == nil && res != nil {
			r.ResultURI = res.URI
			r.ResultIdent = res.Flags["ident"]
		}
	case "metadata":
		var res *promapi.MetadataResult
		res, err = fg.Metadata(ctx, "foo_total")
		if err == nil && res != nil {
			r.ResultURI = res.URI
			if len(res.Metadata) > 0 {
				r.ResultIdent = res.Metadata[0].Help
			}
		}
	default:
		r.SetupErr = "unknown endpoint " + endpoint
		return
	}
	if err != nil {
		c15RecordErr(err, r)
		return
	}
	r.OK = true
}

// The rule file is parsed once, before anything runs concurrently:
// parser.NewParser writes the process-wide model.NameValidationScheme, which
// pint sets once at start-up as well.
var (
	c15ParseOnce sync.Once
	c15File      parser.File
)

func c15ParsedRules() parser.File {
	c15ParseOnce.Do(func() {
		p := parser.NewParser(true, parser.PrometheusSchema, model.UTF8Validation)
		c15File = p.Parse(strings.NewReader(c15Rules))
	})
	return c15File
}

func c15CallCheck(ctx context.Context, cfg *config.Config, gen *config.PrometheusGenerator, name string, r *c15Call) {
	spec, ok := c15Checks[name]
	if !ok {
		r.SetupErr = "unknown check " + name
		return
	}
	file := c15ParsedRules()
	var entries []discovery.Entry
	for _, rule := range file.Groups[0].Rules {
		lines := []int{}
		for l := rule.Lines.First; l <= rule.Lines.Last; l++ {
			lines = append(lines, l)
		}
		entries = append(entries, discovery.Entry{
			File:          &file,
			Group:         &file.Groups[0],
			Path:          discovery.Path{Name: "rules.yml", SymlinkTarget: "rules.yml"},
			ModifiedLines: lines,
			Rule:          rule,
			State:         discovery.Noop,
		})
	}
	entry := entries[spec.Rule]
	if entry.Rule.Error.Err != nil {
		r.SetupErr = "rule has a parse error: " + entry.Rule.Error.Err.Error()
		return
	}
	var chk checks.RuleChecker
	for _, c := range cfg.GetChecksForEntry(ctx, gen, entry) {
		if c.Reporter() == name && c.Meta().Online {
			chk = c
			break
		}
	}
	if chk == nil {
		return
	}
	r.CheckFound = true
	r.Called = true
	for _, pr := range chk.Check(ctx, entry, entries) {
		text := ""
		for _, d := range pr.Diagnostics {
			text += d.Message + " "
		}
		r.Problems = append(r.Problems, c15Problem{Reporter: pr.Reporter, Summary: pr.Summary, Severity: pr.Severity.String(), Text: core.Trunc(text, 300)})
	}
}

// ---- child entry point: verifh C15-child <in.json> <out.jsonl> <scratch> <workers> ----

type c15ChildLine struct {
	Start *int    `json:"start,omitempty"`
	Obs   *c15Obs `json:"obs,omitempty"`
}

func c15ChildMain(args []string) int {
	if len(args) < 4 {
		fmt.Fprintln(os.Stderr, "usage: C15-child in out scratch workers")
		return 64
	}
	slog.SetDefault(slog.New(c15Logs))
	_ = c15ParsedRules()
	_ = c15BurstParsedRules()
	b, err := os.ReadFile(args[0])
	if err != nil {
		fmt.Fprintln(os.Stderr, err)
		return 64
	}
	var cases []c15Case
	if err = json.Unmarshal(b, &cases); err != nil {
		fmt.Fprintln(os.Stderr, err)
		return 64
	}
	out, err := os.OpenFile(args[1], os.O_CREATE|os.O_WRONLY|os.O_TRUNC, 0o644)
	if err != nil {
		fmt.Fprintln(os.Stderr, err)
		return 64
	}
	defer out.Close()
	workers, _ := strconv.Atoi(args[3])
	var mu sync.Mutex
	emit := func(l c15ChildLine) {
		j, _ := json.Marshal(l)
		mu.Lock()
		_, _ = out.Write(append(j, '\n'))
		mu.Unlock()
	}
	core.Parallel(len(cases), workers, func(i int) {
		idx := i
		emit(c15ChildLine{Start: &idx})
		o := c15Execute(cases[i], i, args[2])
		emit(c15ChildLine{Obs: &o})
	})
	return 0
}
