package props

// Oracle of C13 and the execution of one case against the real promapi client.
//
// Everything the oracle uses is either the case (the presence model), the log of
// the fake server (requests, evaluated timestamps, completion order) or the
// value returned by the real client. No clock is read.

import (
	"context"
	"errors"
	"fmt"
	"os"
	"sort"
	"strings"
	"time"

	"github.com/prometheus/client_golang/prometheus"
	"github.com/prometheus/common/model"
	"github.com/prometheus/prometheus/model/labels"

	"github.com/cloudflare/pint/internal/promapi"
)

type c13Series struct {
	Labels    map[string]string `json:"labels"`
	Intervals [][2]int64        `json:"intervals_ms"` // present when from <= t < to (unix ms)
}

type c13Case struct {
	StartNs     int64       `json:"start_ns"`
	EndNs       int64       `json:"end_ns"`
	StepS       int64       `json:"step_s"`
	DurNs       int64       `json:"dur_ns"` // what RangeQueryTimes.Dur() answers
	Concurrency int         `json:"concurrency"`
	MaxDelayUs  int         `json:"max_delay_us"`
	DelaySeeds  []int64     `json:"delay_seeds"`
	Series      []c13Series `json:"series"`
	Feats       []string    `json:"features,omitempty"`
	// Fault, when set, adds the undelivered-slice scenario (c13_fault.go) after
	// the repetitions above.
	Fault *c13Fault `json:"fault,omitempty"`
	// Batch is only set in the witness of a data race report: the cases that
	// ran in the child process that printed it.
	Batch []c13Case `json:"batch,omitempty"`
}

var c13Debug = os.Getenv("C13_DEBUG") != ""

type c13Times struct {
	start, end time.Time
	dur, step  time.Duration
}

func (t c13Times) Start() time.Time    { return t.start }
func (t c13Times) End() time.Time      { return t.end }
func (t c13Times) Dur() time.Duration  { return t.dur }
func (t c13Times) Step() time.Duration { return t.step }
func (t c13Times) String() string {
	return fmt.Sprintf("%d/%d/%s", t.start.UnixNano(), t.end.UnixNano(), t.step)
}

func (cs *c13Case) times() c13Times {
	return c13Times{
		start: time.Unix(0, cs.StartNs).UTC(),
		end:   time.Unix(0, cs.EndNs).UTC(),
		dur:   time.Duration(cs.DurNs),
		step:  time.Duration(cs.StepS) * time.Second,
	}
}

type c13Viol struct {
	Sig  string `json:"sig"`
	What string `json:"what"`
	Obs  string `json:"observed,omitempty"`
}

type c13Outcome struct {
	Idx         int          `json:"idx"`
	Viols       []c13Viol    `json:"viols,omitempty"`
	Inconc      string       `json:"inconclusive,omitempty"`
	Slices      int          `json:"slices"`
	Requests    int          `json:"requests"`
	GridPoints  int          `json:"grid_points"`
	DupPoints   int          `json:"dup_points"`
	GridBefore  bool         `json:"grid_starts_before_start"`
	SeamChange  bool         `json:"seam_change"` // a presence change within one step of a seam
	SeamGaps    int          `json:"seam_gaps"`   // single missing samples at, before or after a seam
	SeamMerges  int          `json:"seam_merges"` // runs continuing across a seam
	Ranges      int          `json:"ranges"`
	Orders      []string     `json:"orders,omitempty"` // completion order of the slices, per repetition
	CachedReqs  int          `json:"cached_repeat_requests"`
	StepChanges int          `json:"step_change_probes"`
	Reps        int          `json:"reps"`
	Fault       *c13FaultObs `json:"fault,omitempty"`
}

type c13RepResult struct {
	viols    []c13Viol
	seq      string // ranges in the order returned
	set      string // ranges per series, sorted
	order    string
	slices   int
	grid     int
	dups     int
	before   bool
	seamChg  bool
	seamGaps int
	seamMrg  int
	ranges   int
}

func c13Ms(t time.Time) int64 { return t.UnixMilli() }

func c13FmtMs(ms int64) string {
	return time.UnixMilli(ms).UTC().Format("2006-01-02T15:04:05.000Z")
}

func c13LabelString(m map[string]string) string {
	return labels.FromMap(m).String()
}

// c13Judge decides one repetition: the log of the server for it and the value
// the client returned.
func c13Judge(cs *c13Case, lg *c13RepLog, res *promapi.RangeQueryResult) (out c13RepResult) {
	seen := map[string]bool{}
	add := func(sig, what string) {
		if seen[sig] {
			return
		}
		seen[sig] = true
		out.viols = append(out.viols, c13Viol{Sig: sig, What: what})
	}
	stepMs := cs.StepS * 1000
	startMs := cs.StartNs / 1e6
	endMs := cs.EndNs / 1e6

	for _, r := range lg.Rejected {
		add("server-rejected:"+r, "the client sent a query_range request Prometheus would refuse ("+r+")")
	}
	// --- requests / slices / seams
	reqs := append([]c13Req(nil), lg.Reqs...)
	sort.Slice(reqs, func(i, j int) bool { return reqs[i].StartMs < reqs[j].StartMs })
	starts := []int64{}
	for _, r := range reqs {
		if r.StepMs != stepMs {
			add("grid:other-step", fmt.Sprintf("a slice was requested with step %dms, the query asked for %dms", r.StepMs, stepMs))
		}
		if len(starts) == 0 || starts[len(starts)-1] != r.StartMs {
			starts = append(starts, r.StartMs)
		}
	}
	out.slices = len(starts)
	seams := map[int64]bool{}
	for i, s := range starts {
		if i > 0 {
			seams[s] = true
		}
	}
	// completion order of the slices (index in start order, in order of completion)
	{
		byDone := append([]c13Req(nil), reqs...)
		sort.Slice(byDone, func(i, j int) bool { return byDone[i].Done < byDone[j].Done })
		idx := map[int64]int{}
		for i, s := range starts {
			idx[s] = i
		}
		var sb strings.Builder
		for i, r := range byDone {
			if i > 0 {
				sb.WriteByte(',')
			}
			fmt.Fprintf(&sb, "%d", idx[r.StartMs])
		}
		out.order = sb.String()
	}

	// --- (1) grid monitor
	grid := append([]int64(nil), lg.Evaluated...)
	sort.Slice(grid, func(i, j int) bool { return grid[i] < grid[j] })
	{
		u := grid[:0]
		for i, t := range grid {
			if i > 0 && t == grid[i-1] {
				out.dups++
				continue
			}
			u = append(u, t)
		}
		grid = u
	}
	out.grid = len(grid)
	uniform := true
	if len(grid) == 0 {
		add("grid:empty", "no timestamp was evaluated by the server")
		uniform = false
	} else {
		for i := 1; i < len(grid); i++ {
			d := grid[i] - grid[i-1]
			if d == stepMs {
				continue
			}
			uniform = false
			where := "inner"
			if seams[grid[i]] {
				where = "at-seam"
			}
			if d > stepMs && d%stepMs == 0 {
				add("grid:hole:"+where, fmt.Sprintf("evaluated timestamps skip from %s to %s (step %ds): %d grid points were never evaluated", c13FmtMs(grid[i-1]), c13FmtMs(grid[i]), cs.StepS, d/stepMs-1))
			} else {
				add("grid:not-one-progression:"+where, fmt.Sprintf("evaluated timestamps %s and %s are %dms apart, not a multiple of the step %dms: the slices are not on one step grid", c13FmtMs(grid[i-1]), c13FmtMs(grid[i]), d, stepMs))
			}
		}
		first, last := grid[0], grid[len(grid)-1]
		// Prometheus rounds request times to milliseconds: a time with a
		// sub-millisecond part may be read as floor or floor+1; the bounds below
		// only fire when both readings agree.
		startHi, endHi := startMs, endMs
		if cs.StartNs%1000000 != 0 {
			startHi++
		}
		if cs.EndNs%1000000 != 0 {
			endHi++
		}
		if first > startHi {
			add("grid:starts-after-start", fmt.Sprintf("first evaluated timestamp %s is after the requested start %s", c13FmtMs(first), c13FmtMs(startMs)))
		}
		if last > endHi {
			add("grid:past-end", fmt.Sprintf("last evaluated timestamp %s is after the requested end %s", c13FmtMs(last), c13FmtMs(endMs)))
		}
		if last+stepMs <= endMs {
			add("grid:stops-early", fmt.Sprintf("last evaluated timestamp is %s but %s is still on the grid and not after the requested end %s", c13FmtMs(last), c13FmtMs(last+stepMs), c13FmtMs(endMs)))
		}
		out.before = first < startMs
	}
	nearSeam := func(t int64) bool {
		return seams[t] || seams[t+stepMs] || seams[t-stepMs]
	}
	where := func(t int64) string {
		if nearSeam(t) {
			return "at-seam"
		}
		return "inner"
	}

	// --- returned ranges by series
	type rng struct{ s, e int64 }
	known := map[string]int{}
	for i, sr := range cs.Series {
		known[c13LabelString(sr.Labels)] = i
	}
	got := make([][]rng, len(cs.Series))
	var seqB strings.Builder
	if res != nil {
		out.ranges = len(res.Series.Ranges)
		for _, r := range res.Series.Ranges {
			ls := r.Labels.String()
			fmt.Fprintf(&seqB, "%s %d %d;", ls, c13Ms(r.Start), c13Ms(r.End))
			i, ok := known[ls]
			if !ok {
				add("unknown-series", "the result has a range for labels "+ls+" which the server never returned")
				continue
			}
			got[i] = append(got[i], rng{c13Ms(r.Start), c13Ms(r.End)})
		}
	}
	out.seq = seqB.String()
	var setB strings.Builder

	for si, sr := range cs.Series {
		name := c13LabelString(sr.Labels)
		ivs := c13Normalise(sr.Intervals)
		rs := got[si]
		sort.Slice(rs, func(i, j int) bool {
			if rs[i].s != rs[j].s {
				return rs[i].s < rs[j].s
			}
			return rs[i].e < rs[j].e
		})
		for _, r := range rs {
			fmt.Fprintf(&setB, "%s %d %d;", name, r.s, r.e)
		}
		pres := make([]bool, len(grid))
		for i, t := range grid {
			pres[i] = c13Present(ivs, t)
		}
		// seam statistics (evidence and the non-trivial rule)
		for i, t := range grid {
			if i > 0 && pres[i] != pres[i-1] && (nearSeam(t) || nearSeam(grid[i-1])) {
				out.seamChg = true
			}
			if i > 0 && i+1 < len(grid) && !pres[i] && pres[i-1] && pres[i+1] && nearSeam(t) {
				out.seamGaps++
			}
			if i > 0 && seams[t] && pres[i] && pres[i-1] {
				out.seamMrg++
			}
		}

		// --- (2) convention-free invariants
		cov := make([]int, len(grid))
		for _, r := range rs {
			lo := sort.Search(len(grid), func(i int) bool { return grid[i] >= r.s })
			for i := lo; i < len(grid) && grid[i] <= r.e; i++ {
				cov[i]++
			}
		}
		specific := false
		for i, t := range grid {
			switch {
			case pres[i] && cov[i] == 0:
				specific = true
				add("present-point-not-covered:"+where(t), fmt.Sprintf("series %s has a sample at %s but no returned range contains it", name, c13FmtMs(t)))
			case pres[i] && cov[i] > 1:
				specific = true
				add("present-point-covered-twice:"+where(t), fmt.Sprintf("series %s: the sample at %s lies in %d returned ranges", name, c13FmtMs(t), cov[i]))
			case !pres[i] && cov[i] > 0:
				specific = true
				add("absent-point-covered:"+where(t), fmt.Sprintf("series %s has no sample at %s but a returned range contains it (a gap was lost)", name, c13FmtMs(t)))
			}
		}
		if !uniform {
			continue // the remaining monitors are defined on one step grid only
		}
		// expected runs
		var exp []rng
		for i := 0; i < len(grid); i++ {
			if !pres[i] {
				continue
			}
			j := i
			for j+1 < len(grid) && pres[j+1] {
				j++
			}
			exp = append(exp, rng{grid[i], grid[j] + stepMs - 1000})
			i = j
		}
		// two consecutive present points in different ranges
		if !specific {
			for i := 0; i+1 < len(grid); i++ {
				if !pres[i] || !pres[i+1] {
					continue
				}
				// rs is sorted by start and (coverage held) its members are disjoint:
				// the only candidate is the last range starting at or before the point
				k := sort.Search(len(rs), func(k int) bool { return rs[k].s > grid[i] }) - 1
				same := k >= 0 && rs[k].s <= grid[i] && grid[i+1] <= rs[k].e
				if !same {
					specific = true
					add("run-split:"+where(grid[i+1]), fmt.Sprintf("series %s has consecutive samples at %s and %s but they are in different returned ranges (phantom gap)", name, c13FmtMs(grid[i]), c13FmtMs(grid[i+1])))
					break
				}
			}
		}
		if !specific && len(rs) != len(exp) {
			specific = true
			add("range-count", fmt.Sprintf("series %s: %d maximal runs of consecutive samples but %d returned ranges", name, len(exp), len(rs)))
		}
		// --- (3) equality with the unsliced fold
		if !specific {
			for i := range exp {
				if rs[i].s != exp[i].s {
					specific = true
					add("range-start", fmt.Sprintf("series %s: run starting at %s was returned as a range starting at %s", name, c13FmtMs(exp[i].s), c13FmtMs(rs[i].s)))
					break
				}
				if rs[i].e != exp[i].e {
					specific = true
					add("range-end-convention", fmt.Sprintf("series %s: run %s..%s must end at last sample + step - 1s = %s, the returned range ends at %s", name, c13FmtMs(exp[i].s), c13FmtMs(exp[i].e-stepMs+1000), c13FmtMs(exp[i].e), c13FmtMs(rs[i].e)))
					break
				}
			}
		}
		// the package's own fold applied once to all samples
		if !specific {
			vals := make([]model.SamplePair, 0, len(grid))
			for i, t := range grid {
				if pres[i] {
					vals = append(vals, model.SamplePair{Timestamp: model.Time(t), Value: 1})
				}
			}
			step := time.Duration(cs.StepS) * time.Second
			one := promapi.AppendSampleToRanges(nil, labels.FromMap(sr.Labels), vals, step)
			promapi.ExpandRangesEnd(one, step)
			ok := len(one) == len(rs)
			if ok {
				sort.Stable(one)
				for i := range one {
					if c13Ms(one[i].Start) != rs[i].s || c13Ms(one[i].End) != rs[i].e {
						ok = false
					}
				}
			}
			if !ok {
				add("differs-from-unsliced-fold", fmt.Sprintf("series %s: AppendSampleToRanges+ExpandRangesEnd over all %d samples at once gives %d ranges, the sliced query returned %d", name, len(vals), len(one), len(rs)))
			}
		}
	}
	out.set = setB.String()
	return out
}

func c13Observed(cs *c13Case, lg *c13RepLog, res *promapi.RangeQueryResult) string {
	var b strings.Builder
	t := cs.times()
	fmt.Fprintf(&b, "query: start=%s end=%s step=%s dur=%s concurrency=%d\n", t.start.Format(time.RFC3339Nano), t.end.Format(time.RFC3339Nano), t.step, t.dur, cs.Concurrency)
	reqs := append([]c13Req(nil), lg.Reqs...)
	sort.Slice(reqs, func(i, j int) bool { return reqs[i].Done < reqs[j].Done })
	for _, r := range reqs {
		if r.Fault != "" {
			fmt.Fprintf(&b, "request NOT DELIVERED (%s): start=%s end=%s step=%dms points=%d\n", r.Fault, c13FmtMs(r.StartMs), c13FmtMs(r.EndMs), r.StepMs, r.Points)
			continue
		}
		fmt.Fprintf(&b, "request (completion order): start=%s end=%s step=%dms points=%d delay=%dus\n", c13FmtMs(r.StartMs), c13FmtMs(r.EndMs), r.StepMs, r.Points, r.DelayUs)
	}
	for _, r := range lg.Rejected {
		fmt.Fprintf(&b, "rejected request: %s\n", r)
	}
	if res != nil {
		for _, r := range res.Series.Ranges {
			fmt.Fprintf(&b, "returned range: %s %s .. %s\n", r.Labels.String(), c13FmtMs(c13Ms(r.Start)), c13FmtMs(c13Ms(r.End)))
		}
	}
	s := b.String()
	if len(s) > 200000 {
		s = s[:200000] + "\n...truncated\n"
	}
	return s
}

// c13RunCase executes one case against the real client: the query is repeated
// once per delay seed (distinct expressions, so no repetition is answered from
// the client's cache), then the first expression is asked once more on the same
// client (answered from its cache). Every repetition is judged on its own and
// all must agree.
func c13RunCase(srv *c13Server, cs *c13Case) (o c13Outcome) {
	defer func() {
		if r := recover(); r != nil {
			o.Viols = append(o.Viols, c13Viol{Sig: "panic-in-caller", What: fmt.Sprintf("RangeQuery panicked: %v", r)})
		}
	}()
	uri, live, id := srv.register(cs)
	defer srv.unregister(id)

	conc := cs.Concurrency
	if conc < 1 {
		conc = 1
	}
	prom := promapi.NewPrometheus("c13", uri, "", nil, 45*time.Second, conc, 1000000, nil)
	reg := prometheus.NewRegistry()
	fg := promapi.NewFailoverGroup("c13", uri, []*promapi.Prometheus{prom}, true, "up", nil, nil, nil)
	fg.StartWorkers(reg)
	defer fg.Close(reg)

	params := cs.times()
	seen := map[string]bool{}
	addViol := func(v c13Viol, lg *c13RepLog, res *promapi.RangeQueryResult, rep string) {
		if seen[v.Sig] {
			return
		}
		seen[v.Sig] = true
		v.What = rep + ": " + v.What
		v.Obs = c13Observed(cs, lg, res)
		o.Viols = append(o.Viols, v)
	}
	query := func(expr string) (*promapi.RangeQueryResult, error) {
		ctx, cancel := context.WithTimeout(context.Background(), 90*time.Second)
		defer cancel()
		return fg.RangeQuery(ctx, expr, params)
	}

	var firstSeq, firstSet string
	orders := map[string]bool{}
	for k := range cs.DelaySeeds {
		expr := fmt.Sprintf("c13_rep_%d", k)
		t0 := time.Now()
		res, err := query(expr)
		t1 := time.Now()
		lg := live.snapshot(expr)
		if c13Debug {
			defer func(k int) { fmt.Fprintf(os.Stderr, "  rep %d: query %dms\n", k, t1.Sub(t0).Milliseconds()) }(k)
		}
		if err != nil {
			if len(lg.Rejected) > 0 {
				addViol(c13Viol{Sig: "server-rejected:" + lg.Rejected[0], What: "the client sent a query_range request Prometheus would refuse (" + lg.Rejected[0] + "); RangeQuery failed with: " + err.Error()}, &lg, nil, expr)
				return o
			}
			o.Inconc = "RangeQuery error: " + err.Error()
			if errors.Is(err, context.DeadlineExceeded) {
				o.Inconc = "RangeQuery watchdog: " + err.Error()
			}
			return o
		}
		j := c13Judge(cs, &lg, res)
		o.Reps++
		for _, v := range j.viols {
			addViol(v, &lg, res, expr)
		}
		o.Requests += len(lg.Reqs)
		if k == 0 {
			firstSeq, firstSet = j.seq, j.set
			o.Slices, o.GridPoints, o.DupPoints, o.GridBefore = j.slices, j.grid, j.dups, j.before
			o.SeamChange, o.SeamGaps, o.SeamMerges, o.Ranges = j.seamChg, j.seamGaps, j.seamMrg, j.ranges
		} else {
			// --- (4) order independence
			if j.set != firstSet {
				addViol(c13Viol{Sig: "order-dependence:ranges", What: fmt.Sprintf("same query, same server data: repetition 0 (slices completed in order %s) and repetition %d (order %s) returned different ranges", c13KeysOf(orders), k, j.order)}, &lg, res, expr)
			} else if j.seq != firstSeq {
				addViol(c13Viol{Sig: "order-dependence:sequence", What: fmt.Sprintf("same query, same server data: repetition %d returned the same ranges in another order than repetition 0", k)}, &lg, res, expr)
			}
		}
		if !orders[j.order] {
			orders[j.order] = true
			o.Orders = append(o.Orders, j.order)
		}
	}
	// cached repetition on the same client
	if len(cs.DelaySeeds) > 0 {
		before := live.snapshot("c13_rep_0")
		res, err := query("c13_rep_0")
		after := live.snapshot("c13_rep_0")
		if err != nil {
			o.Inconc = "RangeQuery (cached repetition) error: " + err.Error()
			return o
		}
		o.CachedReqs = len(after.Reqs) - len(before.Reqs)
		// the union of what the server evaluated for this expression is still the grid
		j := c13Judge(cs, &after, res)
		fresh := len(o.Viols) == 0
		for _, v := range j.viols {
			if seen[v.Sig] {
				continue // already reported for an uncached repetition
			}
			v.Sig = "cached-repeat:" + v.Sig
			addViol(v, &after, res, "repeated c13_rep_0")
		}
		if j.set != firstSet && fresh {
			addViol(c13Viol{Sig: "cached-repeat-differs", What: "asking the same query a second time on the same client returned different ranges"}, &after, res, "repeated c13_rep_0")
		}
	}
	// step change on the same client: the same expression over the same window on
	// another step must give what a client that never asked the first step gives
	// (two executions of the real code against the same deterministic server data;
	// nothing cached for one step grid may leak into the answer for another)
	if len(cs.DelaySeeds) > 0 && len(o.Viols) == 0 {
		for _, ns := range []int64{cs.StepS / 2, cs.StepS * 2, cs.StepS / 5, cs.StepS * 5} {
			if ns < 1 || ns == cs.StepS || (ns < cs.StepS && cs.StepS%ns != 0) {
				continue
			}
			p2 := params
			p2.step = time.Duration(ns) * time.Second
			ask := func(g *promapi.FailoverGroup) (string, error) {
				ctx, cancel := context.WithTimeout(context.Background(), 90*time.Second)
				defer cancel()
				r, err := g.RangeQuery(ctx, "c13_rep_0", p2)
				if err != nil {
					return "", err
				}
				return c13RangeSet(r), nil
			}
			shared, err1 := ask(fg)
			prom2 := promapi.NewPrometheus("c13s", uri, "", nil, 45*time.Second, conc, 1000000, nil)
			reg2 := prometheus.NewRegistry()
			fg2 := promapi.NewFailoverGroup("c13s", uri, []*promapi.Prometheus{prom2}, true, "up", nil, nil, nil)
			fg2.StartWorkers(reg2)
			fresh, err2 := ask(fg2)
			fg2.Close(reg2)
			if err1 != nil || err2 != nil {
				continue // e.g. more points than the server accepts: no verdict
			}
			o.StepChanges++
			if shared != fresh {
				lg := live.snapshot("c13_rep_0")
				addViol(c13Viol{Sig: "step-change:differs-from-fresh-client", What: fmt.Sprintf("after the query on step %ds, the same expression and window on step %ds returned other ranges on the same client than on a client that had asked nothing before (same server data); same client: %s; fresh client: %s", cs.StepS, ns, c13Cut(shared, 300), c13Cut(fresh, 300))}, &lg, nil, "c13_rep_0 on another step")
			}
		}
	}
	if cs.Fault != nil {
		o.Fault = c13RunFault(live, uri, cs, addViol)
	}
	return o
}

// c13RangeSet spells the ranges of a result, sorted, for comparison between two executions.
func c13RangeSet(r *promapi.RangeQueryResult) string {
	var ls []string
	for _, x := range r.Series.Ranges {
		ls = append(ls, fmt.Sprintf("%s %d..%d", x.Labels.String(), x.Start.UnixMilli(), x.End.UnixMilli()))
	}
	sort.Strings(ls)
	return strings.Join(ls, "; ")
}

func c13KeysOf(m map[string]bool) string {
	ks := make([]string, 0, len(m))
	for k := range m {
		ks = append(ks, k)
	}
	sort.Strings(ks)
	return strings.Join(ks, " | ")
}
