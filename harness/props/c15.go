package props

// C15 — failover happens on unavailability only, and outages degrade to warnings.
//
// Fault table: every assignment of a fault mode to each of 1..3 upstreams
// (uri + failover list, in configured order) x every API endpoint pint uses,
// driven through the REAL promapi.FailoverGroup (built by config.Load and
// config.PrometheusGenerator from an HCL prometheus{} block) and through the
// real online checks. The oracle is a small nondeterministic reference
// automaton over (per-upstream request counts of the fault servers, returned
// result/error, problems emitted by the check). The executions happen in child
// processes of this binary (built with -race): every race report of a child is
// a violation.

import (
	"bufio"
	"encoding/json"
	"fmt"
	"os"
	"path/filepath"
	"regexp"
	"sort"
	"strings"
	"sync"
	"time"

	"github.com/cloudflare/pint/verif/core"
)

func init() { Registry["C15"] = runC15 }

var c15Modes = []string{"healthy", "refused", "timeout", "http500", "server_error", "bad_data", "execution", "404", "truncated"}

// Response-level failures delivered with a 2xx status: the error object of a
// query error (bad_data / execution) in the body of a 200, and a complete 200
// whose body is not JSON. They reach the caller through the body decoders
// (streamSamples, streamSampleStream, streamConfig, streamFlags,
// streamMetadata) and whatever wraps their errors, not through
// tryDecodingAPIError as the non-2xx modes do.
var c15BodyModes = []string{"bad_data_200", "execution_200", "garbage_200"}

// c15FxxModes: complete, well-framed 5xx responses as load balancers and proxies
// send them - without a body, or with an error object cut short. The status
// line alone makes them server errors (UNAVAILABLE).
var c15FxxModes = []string{"http502_empty", "http503_cut"}

func c15IsBodyMode(m string) bool {
	for _, x := range c15BodyModes {
		if x == m {
			return true
		}
	}
	return false
}

var c15Endpoints = []string{"query", "query_range", "query_range_sliced", "config", "flags", "metadata"}

type c15Case struct {
	Modes  []string `json:"modes"`    // fault mode of each upstream, in configured order (uri, failover[0], failover[1])
	Target string   `json:"target"`   // api:<endpoint> | check:<reporter>
	Strict bool     `json:"required"` // prometheus{ required = ... }
	// load-shape cases (c15_burst.go): target burst:<endpoint>
	Burst *c15BurstSpec `json:"burst,omitempty"`
	// fault sequences on one group (c15_seq.go): target seq:<family>; Modes = the modes of the first step
	Seq *c15SeqSpec `json:"seq,omitempty"`
}

func (c c15Case) key() string {
	if c.Seq != nil {
		return fmt.Sprintf("%s|required=%v|%s", c.Target, c.Strict, c.Seq.String())
	}
	if c.Burst != nil {
		return fmt.Sprintf("%s|%s|required=%v|%s", strings.Join(c.Modes, ","), c.Target, c.Strict, c.Burst.String())
	}
	return fmt.Sprintf("%s|%s|required=%v", strings.Join(c.Modes, ","), c.Target, c.Strict)
}

// c15Replay is what a replay directory holds: one case for an oracle
// violation, the whole batch of a child for a race report or a crash.
type c15Replay struct {
	Cases   []c15Case `json:"cases"`
	Workers int       `json:"workers"`
}

// ---- classes of the fault table ----

const (
	c15OK       = "OK"
	c15Unavail  = "UNAVAILABLE"
	c15QueryErr = "QUERY-ERROR"
	c15DontCare = "DONT-CARE"
)

func c15IsQueryEndpoint(ep string) bool {
	return ep == "query" || ep == "query_range" || ep == "query_range_sliced"
}

func c15Class(mode, endpoint string) string {
	switch mode {
	case "healthy":
		return c15OK
	case "refused", "timeout", "http500", "server_error", "http502_empty", "http503_cut":
		return c15Unavail
	case "bad_data", "execution":
		return c15QueryErr
	case "bad_data_200", "execution_200":
		// the server says the query is at fault; the HTTP status it says so with does not change that
		return c15QueryErr
	case "garbage_200":
		// not classed by the statement (like a truncated body)
		return c15DontCare
	case "404":
		if c15IsQueryEndpoint(endpoint) {
			return c15QueryErr
		}
		return c15DontCare
	case "truncated":
		return c15DontCare
	}
	return c15DontCare
}

// c15Targets expands the concurrent targets: api:* = the five API calls at
// once on ONE failover group, check:* = the ten online checks at once on one
// group (what pint does for every rule).
func c15Targets(target string) []string {
	switch target {
	case "api:*":
		return []string{"api:query", "api:query_range_sliced", "api:config", "api:flags", "api:metadata"}
	case "check:*":
		out := []string{}
		for _, n := range c15CheckNames() {
			out = append(out, "check:"+n)
		}
		return out
	}
	return []string{target}
}

func c15TargetEndpoint(target string) string {
	kind, name, _ := strings.Cut(target, ":")
	if kind == "api" {
		return name
	}
	return c15Checks[name].Endpoint
}

func c15ClassesFor(modes []string, ep string) []string {
	out := make([]string, len(modes))
	for i, m := range modes {
		out[i] = c15Class(m, ep)
	}
	return out
}

var c15PathOf = map[string]string{
	"query":              "/api/v1/query",
	"query_range":        "/api/v1/query_range",
	"query_range_sliced": "/api/v1/query_range",
	"config":             "/api/v1/status/config",
	"flags":              "/api/v1/status/flags",
	"metadata":           "/api/v1/metadata",
}

func c15EndpointOfPath(p string) string {
	for _, ep := range []string{"query_range", "query", "config", "flags", "metadata"} {
		if strings.HasSuffix(p, c15PathOf[ep]) {
			return ep
		}
	}
	return ""
}

// ---- contact observations ----

const (
	c15No = iota
	c15Yes
	c15Unknown
)

// contacted[i]: yes when the fault server saw >= 1 request or pint itself
// logged an error it got from that URI; no when a server that answers at once
// saw none. A closed port cannot count, and a timeout-mode server may not have
// reached its handler before the client gave up (seen on a loaded machine):
// for those two only the positive evidence is used. With several calls running
// at once on one group (path != "") only requests and log lines of that API
// path count.
func c15Contacts(o c15Obs, path string) []int {
	out := make([]int, len(o.Case.Modes))
	for i, m := range o.Case.Modes {
		reqs, observable := 0, i < len(o.Requests) && o.Requests[i] >= 0
		if i < len(o.Paths) {
			for _, p := range o.Paths[i] {
				if path == "" || strings.HasSuffix(p, path) {
					reqs++
				}
			}
		}
		logged := false
		if i < len(o.Logged) {
			for _, l := range o.Logged[i] {
				if path == "" || strings.Contains(l, path+"\"") || strings.Contains(l, path+"?") {
					logged = true
				}
			}
		}
		switch {
		case reqs > 0, logged:
			out[i] = c15Yes
		case observable && m != "timeout":
			out[i] = c15No
		default:
			out[i] = c15Unknown
		}
	}
	return out
}

// c15SpuriousTimeout: an upstream that is not in timeout mode was reported by
// pint as timed out (the machine stalled for more than the 1.1 s client
// limit). Such an execution does not exercise the configured fault table.
func c15SpuriousTimeout(o c15Obs) string {
	isTO := func(s string) bool {
		return strings.Contains(s, "deadline exceeded") || strings.Contains(s, "connection timeout") || strings.Contains(s, "Client.Timeout")
	}
	for i, m := range o.Case.Modes {
		if m == "timeout" || i >= len(o.Logged) {
			continue
		}
		for _, l := range o.Logged[i] {
			if isTO(l) {
				return fmt.Sprintf("upstream %d (%s) timed out on the client side: %s", i, m, l)
			}
		}
	}
	hasTO := false
	for _, m := range o.Case.Modes {
		if m == "timeout" {
			hasTO = true
		}
	}
	for _, cl := range o.Calls {
		if !hasTO && isTO(cl.ErrText) {
			return "client-side timeout without a timeout-mode upstream: " + cl.ErrText
		}
	}
	return ""
}

type c15Expect struct {
	k    int    // last upstream contacted
	kind string // success | queryerr | anyerr | exhausted
}

// c15Runs lists the runs of the reference automaton for the classes.
func c15Runs(cls []string) (runs []c15Expect, mandatoryStop int) {
	mandatoryStop = -1
	for i, c := range cls {
		switch c {
		case c15OK:
			return append(runs, c15Expect{i, "success"}), i
		case c15QueryErr:
			return append(runs, c15Expect{i, "queryerr"}), i
		case c15DontCare:
			runs = append(runs, c15Expect{i, "anyerr"})
		}
	}
	return append(runs, c15Expect{len(cls) - 1, "exhausted"}), -1
}

func c15AllUnavailable(cls []string) bool {
	for _, c := range cls {
		if c != c15Unavail {
			return false
		}
	}
	return true
}

func c15ContactsMatch(contacts []int, k int) bool {
	for i, c := range contacts {
		if i <= k && c == c15No {
			return false
		}
		if i > k && c == c15Yes {
			return false
		}
	}
	return true
}

func c15ServerMessage(mode, token string) (typ, msg string) {
	switch mode {
	case "bad_data", "bad_data_200":
		return "bad_data", "bad " + token
	case "execution", "execution_200":
		return "execution", "exec " + token
	}
	return "", ""
}

type c15Verdict struct {
	Viol   []core.Violation
	Inconc string
}

func c15Files(o c15Obs) map[string][]byte {
	if o.Case.Seq != nil {
		return c15SeqFiles(o)
	}
	b, _ := json.MarshalIndent(o, "", " ")
	if o.Case.Burst != nil {
		return map[string][]byte{
			"observation.json": b,
			"pint.hcl":         []byte(c15BurstHCL(c15PlaceholderURIs(o), o.Case)),
			"rules.yml":        []byte(c15BurstRules()),
		}
	}
	return map[string][]byte{
		"observation.json": b,
		"pint.hcl":         []byte(c15HCL(c15PlaceholderURIs(o), o.Case.Strict, c15Timeout(o.Case.Modes))),
		"rules.yml":        []byte(c15Rules),
	}
}

func c15PlaceholderURIs(o c15Obs) []string {
	if len(o.URIs) == len(o.Case.Modes) {
		return o.URIs
	}
	out := []string{}
	for i := range o.Case.Modes {
		out = append(out, fmt.Sprintf("http://upstream-%d", i))
	}
	return out
}

// c15Judge is the oracle: a deterministic function of one recorded observation.
func c15Judge(o c15Obs) (v c15Verdict) {
	cs := o.Case
	if cs.Burst != nil {
		v, _ = c15JudgeBurst(o)
		return v
	}
	if cs.Seq != nil {
		v, _ = c15JudgeSeq(o)
		return v
	}
	if o.SetupErr != "" {
		v.Inconc = "setup: " + o.SetupErr
		return v
	}
	if o.Hung {
		v.Inconc = "watchdog: no answer within 45s for " + cs.key()
		return v
	}
	for _, cl := range o.Calls {
		if cl.SetupErr != "" {
			v.Inconc = "setup: " + cl.SetupErr
			return v
		}
		if strings.HasPrefix(cl.Target, "check:") && !cl.CheckFound {
			v.Inconc = "check " + cl.Target + " was not configured for the rule"
			return v
		}
	}
	if s := c15SpuriousTimeout(o); s != "" {
		v.Inconc = "timing: " + s
		return v
	}
	multi := len(o.Calls) > 1
	seen := map[string]bool{}
	add := func(sig, what string) {
		if multi {
			sig = "concurrent:" + sig
		}
		if seen[sig] {
			return
		}
		seen[sig] = true
		v.Viol = append(v.Viol, core.Violation{
			Sig:   sig,
			What:  fmt.Sprintf("%s [upstreams %s, target %s, required=%v; requests per upstream %v]", what, strings.Join(cs.Modes, ","), cs.Target, cs.Strict, o.Requests),
			Case:  c15Replay{Cases: []c15Case{cs}, Workers: 1},
			Files: c15Files(o),
		})
	}
	n := len(cs.Modes)

	// Rule over every single request the fault servers saw, whatever call it
	// belongs to: nobody is asked after an upstream that answered or that
	// returned an error caused by the query.
	for j := range cs.Modes {
		if j >= len(o.Paths) {
			break
		}
		for _, p := range o.Paths[j] {
			ep := c15EndpointOfPath(p)
			if ep == "" {
				continue
			}
			cls := c15ClassesFor(cs.Modes, ep)
			if _, stop := c15Runs(cls); stop >= 0 && j > stop {
				add(fmt.Sprintf("contacted-after-%s:%s:%s", cls[stop], cs.Modes[stop], ep),
					fmt.Sprintf("upstream %d received a %s request although upstream %d (%s) %s", j, p, stop, cs.Modes[stop], map[string]string{c15OK: "is reachable and answered", c15QueryErr: "returned an error caused by the query"}[cls[stop]]))
			}
		}
	}
	if len(v.Viol) > 0 {
		return v
	}

	for _, cl := range o.Calls {
		c15JudgeCall(o, cl, multi, add)
	}
	if multi && cs.Target == "check:*" {
		// total outage with every check running: every upstream that can count must have been asked
		allOut := true
		for _, ep := range c15Endpoints {
			if !c15AllUnavailable(c15ClassesFor(cs.Modes, ep)) {
				allOut = false
			}
		}
		if allOut {
			for i, c := range c15Contacts(o, "") {
				if c == c15No {
					add(fmt.Sprintf("stopped-on-unavailable:%s:any", cs.Modes[max(i-1, 0)]), fmt.Sprintf("every upstream is unavailable but upstream %d of %d was never contacted", i, n))
					break
				}
			}
		}
	}
	return v
}

func c15JudgeCall(o c15Obs, cl c15Call, multi bool, add func(sig, what string)) {
	cs := o.Case
	kind, name, _ := strings.Cut(cl.Target, ":")
	ep := c15TargetEndpoint(cl.Target)
	cls := c15ClassesFor(cs.Modes, ep)
	n := len(cls)
	clsText := strings.Join(cls, ",")
	if cl.Panic != "" {
		add("panic:"+cl.Target+":"+cl.PanicFrame, fmt.Sprintf("panic in %s during %s: %s", cl.PanicFrame, cl.Target, cl.Panic))
		return
	}
	runs, stop := c15Runs(cls)
	onlySuccess := len(runs) == 1 && runs[0].kind == "success"

	// --- who was contacted ---
	// With the checks running at once the requests of one check cannot be told
	// from those of another (shared cache, shared unsupported-API state): only
	// the per-request rule in c15Judge applies there.
	var contacts []int
	structural := !(multi && kind == "check")
	if structural {
		path := ""
		if multi {
			path = c15PathOf[ep]
		}
		contacts = c15Contacts(o, path)
		// p = last upstream known to have been contacted, q = last upstream of the
		// prefix that may have been contacted; the call stopped somewhere in [p, q].
		p, q := -1, n-1
		for i, x := range contacts {
			if x == c15Yes {
				p = i
			}
		}
		for i, x := range contacts {
			if x == c15No {
				q = i - 1
				break
			}
		}
		if q < 0 {
			add("first-upstream-not-contacted:"+ep, fmt.Sprintf("%s: the first upstream received no request (classes %s)", cl.Target, clsText))
			return
		}
		if q < p {
			add(fmt.Sprintf("skipped:%s:%s", cs.Modes[q+1], ep), fmt.Sprintf("%s: upstream %d was contacted although upstream %d (%s) received no request (classes %s)", cl.Target, p, q+1, cs.Modes[q+1], clsText))
			return
		}
		if stop >= 0 && q > stop {
			q = stop // upstreams that cannot count requests, after the mandatory stop
		}
		if q < n-1 && (stop < 0 || q < stop) {
			// stopped before the list was exhausted: legal only at a DON'T-CARE upstream
			allUnavail := true
			for i := max(p, 0); i <= q; i++ {
				if cls[i] != c15Unavail {
					allUnavail = false
				}
			}
			if allUnavail {
				add(fmt.Sprintf("stopped-on-unavailable:%s:%s", cs.Modes[q], ep),
					fmt.Sprintf("%s: upstream %d (%s) is unavailable but upstream %d was never contacted (classes %s; error returned: %q, problems %+v)", cl.Target, q, cs.Modes[q], q+1, clsText, cl.ErrText, cl.Problems))
				return
			}
		}
	}

	if kind == "api" {
		// --- the returned value / error must belong to a run of the automaton ---
		matched := false
		for _, e := range runs {
			if !c15ContactsMatch(contacts, e.k) {
				continue
			}
			switch e.kind {
			case "success":
				matched = cl.OK && cl.ResultIdent == o.Tokens[e.k] && cl.ResultURI == o.URIs[e.k]
			case "queryerr":
				typ, msg := c15ServerMessage(cs.Modes[e.k], o.Tokens[e.k])
				matched = !cl.OK && cl.ErrText != ""
				if msg != "" {
					matched = matched && strings.Contains(cl.ErrText, msg) && (cl.ErrAPIType == "" || cl.ErrAPIType == typ)
				}
			case "anyerr":
				matched = !cl.OK && cl.ErrText != ""
			case "exhausted":
				matched = !cl.OK && cl.ErrText != "" && (!c15AllUnavailable(cls) || cl.ErrUnavailable)
			}
			if matched {
				break
			}
		}
		if matched {
			return
		}
		last := n - 1
		for i, x := range contacts {
			if x == c15No {
				last = max(i-1, 0)
				break
			}
		}
		switch {
		case onlySuccess && !cl.OK:
			add(fmt.Sprintf("error-despite-reachable:%s:%s", cs.Modes[max(stop-1, 0)], ep), fmt.Sprintf("%s: upstream %d is healthy and was contacted, but the request failed with %q (classes %s)", cl.Target, stop, cl.ErrText, clsText))
		case onlySuccess && cl.OK:
			add("wrong-answer-source:"+ep, fmt.Sprintf("%s: the answer should come from upstream %d (token %s, %s) but carries token %q and URI %q", cl.Target, stop, o.Tokens[stop], o.URIs[stop], cl.ResultIdent, cl.ResultURI))
		case cl.OK:
			add(fmt.Sprintf("fabricated-success:%s:%s", cs.Modes[last], ep), fmt.Sprintf("%s: no upstream answered successfully (classes %s) but the call returned a result (token %q)", cl.Target, clsText, cl.ResultIdent))
		case len(runs) == 1 && runs[0].kind == "queryerr":
			typ, msg := c15ServerMessage(cs.Modes[stop], o.Tokens[stop])
			add(fmt.Sprintf("query-error-altered:%s:%s", cs.Modes[stop], ep), fmt.Sprintf("%s: upstream %d answered errorType=%s error=%q; the call returned %q (errorType %q)", cl.Target, stop, typ, msg, cl.ErrText, cl.ErrAPIType))
		case c15AllUnavailable(cls) && !cl.ErrUnavailable:
			add(fmt.Sprintf("outage-not-classed-unavailable:%s:%s", cs.Modes[n-1], ep), fmt.Sprintf("%s: every upstream is unavailable but IsUnavailableError(%q) is false", cl.Target, cl.ErrText))
		default:
			add("unexpected-run:"+ep+":"+clsText, fmt.Sprintf("%s: ok=%v err=%q is not a run of the reference automaton", cl.Target, cl.OK, cl.ErrText))
		}
		return
	}

	// --- check level: what the online check made of it ---
	const unable = "unable to run checks"
	nUnable := 0
	for _, p := range cl.Problems {
		if p.Summary == unable {
			nUnable++
		}
	}
	switch {
	case c15AllUnavailable(cls):
		want := "Warning"
		if cs.Strict {
			want = "Bug"
		}
		if len(cl.Problems) == 0 {
			add("outage-not-reported:"+name, "every upstream is unavailable and "+name+" reported nothing")
			return
		}
		for _, p := range cl.Problems {
			if p.Summary != unable {
				add(fmt.Sprintf("outage-spurious-finding:%s:%s", name, p.Summary), fmt.Sprintf("every upstream is unavailable and %s reported %q (%s): %s", name, p.Summary, p.Severity, p.Text))
				return
			}
			if p.Severity != want {
				add(fmt.Sprintf("outage-severity:%s:required=%v:got=%s", name, cs.Strict, p.Severity), fmt.Sprintf("every upstream is unavailable: want %s from %s, got %s: %s", want, name, p.Severity, p.Text))
				return
			}
		}
	case onlySuccess:
		if nUnable > 0 {
			add(fmt.Sprintf("outage-reported-despite-reachable:%s:%s", name, cs.Modes[max(stop-1, 0)]), fmt.Sprintf("upstream %d is healthy (classes %s) but %s reported %q: %+v", stop, clsText, name, unable, cl.Problems))
		}
	case runs[len(runs)-1].kind == "success":
		// an unclassed failure followed by a healthy upstream: the check may stop
		// with the error or carry on normally; nothing to demand
	default:
		// a query error or an unclassed failure: whatever is reported must be about
		// the server, never a finding about the rule
		for _, p := range cl.Problems {
			if p.Summary != unable {
				add(fmt.Sprintf("error-spurious-finding:%s:%s", name, p.Summary), fmt.Sprintf("the request failed (classes %s) and %s reported %q (%s): %s", clsText, name, p.Summary, p.Severity, p.Text))
				return
			}
		}
	}
}

// ---- case list ----

func c15Assignments(c *core.Ctx) [][]string {
	var out [][]string
	for _, a := range c15Modes {
		out = append(out, []string{a})
	}
	for _, a := range c15Modes {
		for _, b := range c15Modes {
			out = append(out, []string{a, b})
		}
	}
	var three [][]string
	for _, a := range c15Modes {
		for _, b := range c15Modes {
			for _, d := range c15Modes {
				three = append(three, []string{a, b, d})
			}
		}
	}
	if c.Quick() {
		perm := c.Rand("c15-three-upstreams", 0).Perm(len(three))[:73]
		sort.Ints(perm)
		for _, i := range perm {
			out = append(out, three[i])
		}
	} else {
		out = append(out, three...)
	}
	out = append(out, c15BodyAssignments(c)...)
	return append(out, c15FxxAssignments()...)
}

// c15FxxAssignments: each bodiless / cut-short 5xx mode alone, and before and
// after every one of the nine base modes.
func c15FxxAssignments() [][]string {
	var out [][]string
	for _, f := range c15FxxModes {
		out = append(out, []string{f})
		for _, a := range c15Modes {
			out = append(out, []string{f, a}, []string{a, f})
		}
	}
	out = append(out, []string{"http502_empty", "http503_cut"}, []string{"http503_cut", "http502_empty", "healthy"})
	return out
}

// c15BodyAssignments: every assignment over the 9 + 3 modes in which at least
// one upstream is in a 2xx-body mode: all with 1 and 2 upstreams, and with 3
// upstreams all of them in thorough, a seed-chosen 16 in quick.
func c15BodyAssignments(c *core.Ctx) [][]string {
	all := append(append([]string{}, c15Modes...), c15BodyModes...)
	hasBody := func(ms ...string) bool {
		for _, m := range ms {
			if c15IsBodyMode(m) {
				return true
			}
		}
		return false
	}
	var out, three [][]string
	for _, a := range c15BodyModes {
		out = append(out, []string{a})
	}
	for _, a := range all {
		for _, b := range all {
			if hasBody(a, b) {
				out = append(out, []string{a, b})
			}
		}
	}
	for _, a := range all {
		for _, b := range all {
			for _, d := range all {
				if hasBody(a, b, d) {
					three = append(three, []string{a, b, d})
				}
			}
		}
	}
	if c.Quick() {
		perm := c.Rand("c15-three-upstreams-body", 0).Perm(len(three))[:16]
		sort.Ints(perm)
		for _, i := range perm {
			out = append(out, three[i])
		}
	} else {
		out = append(out, three...)
	}
	return out
}

func c15CheckNames() []string {
	names := make([]string, 0, len(c15Checks))
	for n := range c15Checks {
		names = append(names, n)
	}
	sort.Strings(names)
	return names
}

func c15Cases(c *core.Ctx) []c15Case {
	// the load-shape cases first: each takes a few seconds, mostly asleep, and
	// overlaps with the fault table that way
	cases := c15BurstCases(c)
	// then the fault sequences on one group: those with a timeout step sleep 1.1 s per timeout
	cases = append(cases, c15SeqCases(c)...)
	for ai, modes := range c15Assignments(c) {
		for ei, ep := range c15Endpoints {
			cases = append(cases, c15Case{Modes: modes, Target: "api:" + ep, Strict: (ai+ei)%2 == 1})
		}
		cases = append(cases, c15Case{Modes: modes, Target: "api:*", Strict: ai%2 == 0})
		outage := c15AllUnavailable(c15ClassesFor(modes, "query")) // the four UNAVAILABLE modes are so on every endpoint
		bodyAssignment := false
		for _, m := range modes {
			bodyAssignment = bodyAssignment || c15IsBodyMode(m)
		}
		for ci, name := range c15CheckNames() {
			if bodyAssignment && c.Quick() && (ai+ci)%3 != 0 {
				// quick: a rotating third of the checks alone (check:* below still runs all ten at once)
				continue
			}
			if outage {
				cases = append(cases, c15Case{Modes: modes, Target: "check:" + name, Strict: false}, c15Case{Modes: modes, Target: "check:" + name, Strict: true})
			} else {
				cases = append(cases, c15Case{Modes: modes, Target: "check:" + name, Strict: (ai+ci)%2 == 0})
			}
		}
		if outage {
			cases = append(cases, c15Case{Modes: modes, Target: "check:*", Strict: false}, c15Case{Modes: modes, Target: "check:*", Strict: true})
		} else {
			cases = append(cases, c15Case{Modes: modes, Target: "check:*", Strict: ai%2 == 1})
		}
	}
	return cases
}

// ---- running batches in children ----

type c15Batch struct {
	Cases     []c15Case
	Obs       []*c15Obs // by index; nil = not finished
	Started   map[int]bool
	Stderr    string
	Exit      int
	TimedOut  bool
	Races     []string
	CrashKind string
	CrashSig  string
}

var c15RaceFrame = regexp.MustCompile(`(?m)^\s+(github\.com/cloudflare/pint/[^\s]+?)\(\)\s*$`)

func c15SplitRaces(stderr string) (reports []string) {
	for _, blk := range strings.Split(stderr, "==================") {
		if strings.Contains(blk, "WARNING: DATA RACE") {
			reports = append(reports, strings.TrimSpace(blk))
		}
	}
	return reports
}

func c15RaceSig(report string) string {
	first := ""
	for _, m := range c15RaceFrame.FindAllStringSubmatch(report, -1) {
		f := strings.TrimPrefix(m[1], "github.com/cloudflare/pint/")
		if first == "" {
			first = f
		}
		if strings.HasPrefix(f, "internal/") || strings.HasPrefix(f, "cmd/") {
			return "data-race:" + f
		}
	}
	if first != "" {
		return "data-race:" + first
	}
	return "data-race:unattributed"
}

func c15ChildEnv() []string {
	env := []string{"GORACE=halt_on_error=0"}
	if v := os.Getenv("GOMAXPROCS"); v != "" {
		env = append(env, "GOMAXPROCS="+v)
	}
	return env
}

var c15BatchSeq struct {
	sync.Mutex
	n int
}

func c15RunBatch(c *core.Ctx, cases []c15Case, workers int, timeout time.Duration) *c15Batch {
	c15BatchSeq.Lock()
	c15BatchSeq.n++
	seq := c15BatchSeq.n
	c15BatchSeq.Unlock()
	b := &c15Batch{Cases: cases, Obs: make([]*c15Obs, len(cases)), Started: map[int]bool{}}
	dir := filepath.Join(c.Scratch, fmt.Sprintf("c15-batch-%d", seq))
	_ = os.MkdirAll(dir, 0o755)
	defer os.RemoveAll(dir)
	in := filepath.Join(dir, "in.json")
	out := filepath.Join(dir, "out.jsonl")
	j, _ := json.Marshal(cases)
	_ = os.WriteFile(in, j, 0o644)
	self, err := os.Executable()
	if err != nil {
		b.CrashKind = "start"
		b.Stderr = err.Error()
		return b
	}
	res := core.RunProc(self, []string{"C15-child", in, out, dir, fmt.Sprint(workers)}, core.ProcOpts{
		Dir:     dir,
		Env:     c15ChildEnv(),
		Timeout: timeout,
	})
	b.Stderr, b.Exit, b.TimedOut = res.Stderr, res.Exit, res.TimedOut
	b.Races = c15SplitRaces(res.Stderr)
	if !res.TimedOut {
		noRace := res.Stderr
		for _, r := range b.Races {
			noRace = strings.ReplaceAll(noRace, r, "")
		}
		kind, sig := core.ClassifyCrash(noRace, res.Signal)
		if kind == "panic" || kind == "fatal" || kind == "signal" || res.Crash == "start" {
			b.CrashKind, b.CrashSig = kind, sig
			if i := strings.Index(noRace, "fatal error: "); kind == "fatal" && i >= 0 {
				if f := c15FirstPintFrame(noRace[i:]); f != "" {
					b.CrashSig = f
				}
			} else if i := strings.Index(noRace, "panic: "); kind == "panic" && i >= 0 {
				if f := c15FirstPintFrame(noRace[i:]); f != "" {
					b.CrashSig = f
				}
			}
			if res.Crash == "start" {
				b.CrashKind = "start"
			}
		}
	}
	if f, err := os.Open(out); err == nil {
		sc := bufio.NewScanner(f)
		sc.Buffer(make([]byte, 1<<20), 16<<20)
		for sc.Scan() {
			var l c15ChildLine
			if json.Unmarshal(sc.Bytes(), &l) != nil {
				continue
			}
			if l.Start != nil {
				b.Started[*l.Start] = true
			}
			if l.Obs != nil && l.Obs.Index >= 0 && l.Obs.Index < len(cases) {
				o := *l.Obs
				b.Obs[o.Index] = &o
			}
		}
		f.Close()
	}
	return b
}

// c15Account feeds one batch into the run: races, crashes, judged observations.
func c15Account(c *core.Ctx, run *core.Run, b *c15Batch, workers int, depth int) {
	for _, r := range b.Races {
		run.Count("race_reports", 1)
		run.Violate(core.Violation{
			Sig:   c15RaceSig(r),
			What:  "the race detector reported a data race while the fault table was driven concurrently: " + core.Trunc(r, 400),
			Case:  c15Replay{Cases: b.Cases, Workers: workers},
			Files: map[string][]byte{"race.txt": []byte(r)},
		})
	}
	if b.TimedOut {
		run.Inconclusive(fmt.Sprintf("a child running %d cases hit the watchdog", len(b.Cases)))
	}
	if b.CrashKind == "start" {
		run.Inconclusive("child could not be started: " + core.Trunc(b.Stderr, 200))
	}
	crashed := b.CrashKind != "" && b.CrashKind != "start"
	for i, o := range b.Obs {
		switch {
		case o != nil:
			c15AccountObs(run, *o)
		case crashed:
			// run again below
		default:
			run.Eval(1)
			run.Inconclusive("no observation for " + b.Cases[i].key())
		}
	}
	if !crashed {
		return
	}
	run.Count("child_crashes", 1)
	if len(b.Cases) == 1 {
		// a case that kills the process when run alone
		run.Eval(1)
		run.Violate(core.Violation{
			Sig:   fmt.Sprintf("crash:%s:%s", b.CrashKind, b.CrashSig),
			What:  fmt.Sprintf("the process died (%s in %s) while running %s", b.CrashKind, b.CrashSig, b.Cases[0].key()),
			Case:  c15Replay{Cases: b.Cases, Workers: 1},
			Files: map[string][]byte{"stderr.txt": []byte(core.Trunc(b.Stderr, 200000))},
		})
		return
	}
	// pin the crash on a case: what was in flight when the child died again, each
	// alone; what had not been started yet as one more batch
	var inflight, rest []c15Case
	for i, o := range b.Obs {
		if o != nil {
			continue
		}
		if b.Started[i] {
			inflight = append(inflight, b.Cases[i])
		} else {
			rest = append(rest, b.Cases[i])
		}
	}
	reproduced := false
	var mu sync.Mutex
	core.Parallel(len(inflight), 8, func(i int) {
		sb := c15RunBatch(c, []c15Case{inflight[i]}, 1, 3*time.Minute)
		mu.Lock()
		defer mu.Unlock()
		if sb.CrashKind != "" && sb.CrashKind != "start" {
			reproduced = true
		}
		c15Account(c, run, sb, 1, depth+1)
	})
	if !reproduced {
		run.Violate(core.Violation{
			Sig:   fmt.Sprintf("crash:%s:%s", b.CrashKind, b.CrashSig),
			What:  fmt.Sprintf("a child died (%s in %s) while running cases concurrently; none of the %d cases in flight reproduces it alone", b.CrashKind, b.CrashSig, len(inflight)),
			Case:  c15Replay{Cases: b.Cases, Workers: workers},
			Files: map[string][]byte{"stderr.txt": []byte(core.Trunc(b.Stderr, 200000))},
		})
	}
	if len(rest) == 0 {
		return
	}
	if depth >= 3 {
		run.Eval(len(rest))
		for range rest {
			run.Inconclusive("not run: the child process died four times")
		}
		return
	}
	c15Account(c, run, c15RunBatch(c, rest, workers, 25*time.Minute), workers, depth+1)
}

func c15AccountObs(run *core.Run, o c15Obs) {
	run.Eval(1)
	cs := o.Case
	if cs.Burst != nil {
		c15AccountBurst(run, o)
		return
	}
	if cs.Seq != nil {
		c15AccountSeq(run, o)
		return
	}
	v := c15Judge(o)
	if v.Inconc != "" {
		run.Inconclusive(v.Inconc)
		if strings.HasPrefix(v.Inconc, "timing:") {
			run.Count("inconclusive_spurious_client_timeout", 1)
		}
		return
	}
	for _, x := range v.Viol {
		run.Violate(x)
	}
	multi := len(o.Calls) > 1
	if multi {
		run.Count("executions_with_concurrent_calls_on_one_group", 1)
	}
	nontrivial := false
	for _, cl := range o.Calls {
		ep := c15TargetEndpoint(cl.Target)
		cls := c15ClassesFor(cs.Modes, ep)
		kind, name, _ := strings.Cut(cl.Target, ":")
		if kind == "api" {
			run.Count("api_calls", 1)
			run.Distinct("fault_cells", fmt.Sprintf("%s|%s", strings.Join(cs.Modes, ","), ep))
			for i, m := range cs.Modes {
				run.Distinct("mode_position_endpoint", fmt.Sprintf("%s@%d/%s", m, i, ep))
			}
			switch {
			case cl.OK:
				run.Count("api_answered", 1)
			case cl.ErrUnavailable:
				run.Count("api_error_classed_unavailable", 1)
			default:
				run.Count("api_error_not_unavailable", 1)
			}
			if !cl.OK && cl.ErrAPIType != "" {
				run.Distinct("api_error_types", cl.ErrAPIType)
			}
			if cl.ErrUnsupported {
				run.Count("api_error_unsupported", 1)
			}
			for i, m := range cs.Modes {
				if !c15IsBodyMode(m) {
					continue
				}
				run.Distinct("body_mode_position_endpoint", fmt.Sprintf("%s@%d/%s", m, i, ep))
				if i < len(o.Requests) && o.Requests[i] > 0 {
					run.Count("api_calls_that_received_a_2xx_body_failure", 1)
					if cls[i] == c15QueryErr && i < len(cs.Modes)-1 {
						run.Count("api_calls_query_error_in_2xx_body_with_a_later_upstream_left_untouched", 1)
					}
					break
				}
			}
		} else {
			run.Count("check_runs", 1)
			run.Distinct("checks_run", name)
			for _, p := range cl.Problems {
				run.Distinct("problems_seen", fmt.Sprintf("%s/%s/%s", name, p.Summary, p.Severity))
			}
			if c15AllUnavailable(cls) {
				run.Count("check_runs_total_outage", 1)
				run.Distinct("outage_cells", fmt.Sprintf("%s|%s|required=%v", strings.Join(cs.Modes, ","), name, cs.Strict))
			}
			if len(cl.Problems) == 0 {
				run.Count("check_runs_without_problem", 1)
			}
			for i, m := range cs.Modes {
				if c15IsBodyMode(m) && i < len(o.Requests) && o.Requests[i] > 0 {
					run.Count("check_runs_that_received_a_2xx_body_failure", 1)
					break
				}
			}
		}
		if len(cs.Modes) > 1 {
			if _, stop := c15Runs(cls); stop >= 0 && stop < len(cs.Modes)-1 {
				run.Count("calls_where_a_later_upstream_had_to_stay_untouched", 1)
			}
		}
		for _, c := range cls {
			run.Distinct("classes", c+"/"+ep)
		}
		// non-trivial: the first upstream is not healthy, so the classification of
		// its failure decides what happens next
		if cls[0] != c15OK {
			nontrivial = true
		}
	}
	if nontrivial {
		run.Nontrivial(cs.key())
	}
	total := 0
	for i, r := range o.Requests {
		if r > 0 {
			total += r
			run.Max("max_requests_to_one_upstream", int64(r))
			run.Distinct("contacted_position", fmt.Sprint(i))
		}
	}
	run.Count("requests_seen_by_fault_servers", int64(total))
	contacts := c15Contacts(o, "")
	for i := 1; i < len(contacts); i++ {
		if contacts[i] == c15Yes {
			run.Count("executions_that_failed_over", 1)
			break
		}
	}
	if o.ElapsedMs > 0 {
		run.Max("max_case_ms", o.ElapsedMs)
	}
}

func runC15(c *core.Ctx) int {
	run := core.NewRun(c)
	if c.Replay != "" {
		var rp c15Replay
		if err := core.LoadCase(c.Replay, &rp); err != nil || len(rp.Cases) == 0 {
			fmt.Println("cannot load case:", err)
			return core.ExitInconclusive
		}
		if rp.Workers < 1 {
			rp.Workers = 1
		}
		b := c15RunBatch(c, rp.Cases, rp.Workers, 20*time.Minute)
		violated := 0
		for _, r := range b.Races {
			violated++
			fmt.Println("REPLAY violated:", c15RaceSig(r))
			fmt.Println(core.Trunc(r, 2000))
		}
		if b.CrashKind != "" {
			violated++
			fmt.Printf("REPLAY violated: crash:%s:%s\n", b.CrashKind, b.CrashSig)
		}
		for i, o := range b.Obs {
			if o == nil {
				fmt.Println("REPLAY no observation for", rp.Cases[i].key())
				continue
			}
			v := c15Judge(*o)
			if len(rp.Cases) == 1 {
				j, _ := json.MarshalIndent(o, "", " ")
				fmt.Println(string(j))
			}
			if v.Inconc != "" {
				fmt.Println("REPLAY inconclusive:", v.Inconc)
			}
			for _, x := range v.Viol {
				violated++
				fmt.Println("REPLAY violated:", x.Sig, x.What)
			}
		}
		fmt.Printf("REPLAY cases=%d violations=%d\n", len(rp.Cases), violated)
		if violated > 0 {
			return 1
		}
		return 0
	}

	cases := c15Cases(c)
	const children, workers = 4, 16
	run.Count("race_reports", 0)
	run.Count("child_crashes", 0)
	batches := make([][]c15Case, children)
	for i, cs := range cases {
		batches[i%children] = append(batches[i%children], cs)
	}
	results := make([]*c15Batch, children)
	core.Parallel(children, children, func(i int) {
		results[i] = c15RunBatch(c, batches[i], workers, 25*time.Minute)
	})
	for _, b := range results {
		c15Account(c, run, b, workers, 0)
	}
	// samples: a few executions as observed
	shown, bursts, seqs := 0, 0, 0
	for _, b := range results {
		for _, o := range b.Obs {
			if o != nil && o.Case.Seq != nil && o.Seq != nil && seqs < 2 && len(o.Seq.Steps) == len(o.Case.Seq.Steps) {
				if _, f := c15JudgeSeq(*o); f.Recoveries > 0 && f.StoppedAtStep < 0 {
					run.Sample(c15SeqSample(*o))
					seqs++
				}
			}
			if o != nil && o.Case.Burst != nil && o.Burst != nil && bursts < 2 && len(o.Case.Modes) > 1 {
				run.Sample(c15BurstSample(*o))
				bursts++
			}
		}
	}
	for _, b := range results {
		for _, o := range b.Obs {
			if o == nil || shown >= 6 || o.Case.Burst != nil || o.Case.Seq != nil {
				continue
			}
			if len(o.Case.Modes) >= 2 && o.Case.Modes[0] != "healthy" && (shown%2 == 0) == strings.HasPrefix(o.Case.Target, "api:") {
				run.Sample(map[string]any{
					"modes": o.Case.Modes, "target": o.Case.Target, "required": o.Case.Strict, "requests_per_upstream": o.Requests,
					"calls": o.Calls, "pint_logged": o.Logged,
				})
				shown++
			}
		}
	}
	nAssign := len(c15Assignments(c))
	run.Extra("upstream_assignments", nAssign)
	run.Extra("endpoints", c15Endpoints)
	run.Extra("modes", append(append(append([]string{}, c15Modes...), c15BodyModes...), c15FxxModes...))
	run.Extra("upstream_assignments_with_a_2xx_body_mode", len(c15BodyAssignments(c)))
	run.Extra("burst_cases_planned", len(c15BurstCases(c)))
	seqPlanned, seqStepsPlanned := 0, 0
	for _, sc := range c15SeqCases(c) {
		seqPlanned++
		seqStepsPlanned += len(sc.Seq.Steps)
	}
	run.Extra("seq_cases_planned", seqPlanned)
	run.Extra("seq_steps_planned", seqStepsPlanned)
	run.Extra("checks", c15CheckNames())
	run.Extra("exhaustive", !c.Quick())
	run.Extra("children", children)
	run.Extra("concurrent_cases", children*workers)
	run.Assume("fault classes: healthy=OK; refused/timeout/HTTP 500/JSON server_error(503)/502 without a body/503 with an error object cut short=UNAVAILABLE; bad_data(400)/execution(422)=QUERY-ERROR; 404 on query endpoints=QUERY-ERROR; 404 on config/flags/metadata and a truncated 200 body=DON'T-CARE for continue-or-stop (the statement does not class them)")
	run.Assume("2xx-body modes: the error object of a bad_data / execution error delivered with HTTP 200 = QUERY-ERROR (the server blames the query, whatever the status line says); a complete 200 whose body is not JSON = DON'T-CARE, like a truncated body")
	run.Assume("load shapes: a timeout pint reports for a request keeps one of the `concurrency` workers of that upstream busy for at least the configured `timeout`; k such timeouts inside a burst that took less than ceil(k/concurrency) x timeout from before the first call to after the last return (one monotonic clock) mean the timeout ran while requests waited inside pint. Timeouts that fit into the elapsed time make the case inconclusive")
	run.Assume("fault sequences: every request on a group with a history is held to the same fault table as a request on a fresh group, with the fault modes in force during that request (the statement speaks about each request and quantifies over fault sequences). The only thing pint may carry over is its result cache: an upstream that has answered config / flags successfully earlier in the sequence counts as reachable for that endpoint from then on and as not observable (it answers without being contacted). The 404 mode, which switches an API off for the rest of the process, is not used in sequences; every other request of a sequence has a key of its own and cannot be cached")
	run.Assume("a closed port cannot count requests and a timeout-mode server may be abandoned before its handler runs: for these two only positive evidence (a counted request, or pint logged an error for that URI) is used")
	run.Assume("pint's client timeout is 100ms (+1s added by pint) when a timeout-mode upstream is configured, 20s otherwise; an execution in which pint logs a client-side timeout for an upstream that is not in timeout mode is inconclusive")
	return run.Finish("fault_enumeration",
		"fault table over the real promapi.FailoverGroup built by config.Load + PrometheusGenerator from prometheus{uri, failover, required}: every assignment of 9 fault modes to 1 and 2 upstreams (+ all 729 assignments to 3 upstreams in thorough, a seed-chosen 73 in quick) x 6 API calls (query, query_range one slice, query_range three slices, config, flags, metadata) x 10 real online checks (required on/off for total outages); plus the assignments that contain a 2xx-body mode (query error object in a 200, non-JSON 200): all with 1 and 2 upstreams over the 12 modes, 3 upstreams all in thorough / 16 in quick, with a rotating third of the single checks in quick; plus load shapes: bursts of 26..64 distinct query / query_range / metadata requests and query/cost checks started at once on a group whose first reachable upstream is healthy but throttled (latency x concurrency 1..4, or pint's rateLimit), so that most of the burst waits inside pint longer than timeout+1s - every request must still be answered by that upstream (elapsed-time inequality, see assumptions); plus fault sequences: ONE group of 2..3 upstreams whose upstreams change their fault mode between 2..7 successive uncached requests (same URIs throughout; outage-and-recovery of upstream 0 / of upstreams 0 and 1 for each of the 4 unavailable modes x each endpoint, a mixed-endpoint and a final-online-check variant; flapping; random walks over 10 modes), each request judged by the same automaton with the modes in force during it. Oracle: reference automaton over per-upstream request counts of the fault servers, returned result (token + URI of the answering upstream) or error (classification, server message) and the problems of the check (summary, severity). All executions run 64-wide in -race children; a race report is a violation. Non-trivial = distinct (assignment, target, required) whose FIRST upstream is not healthy.",
		core.Floors{MinEvaluations: int64(len(cases)), MinNontrivial: c.N(1500, 10000), MaxInconclusiveFrac: 0.02})
}
