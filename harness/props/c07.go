package props

import (
	"fmt"
	"regexp"
	"sort"
	"strings"
	"time"

	"github.com/cloudflare/pint/verif/core"
)

func init() { Registry["C07"] = runC07 }

type c07Case struct {
	Variant   int    `json:"variant"`
	Online    bool   `json:"online"`
	CRLF      bool   `json:"crlf"`
	File      string `json:"file"`
	RuleOrd   int    `json:"rule_ordinal"` // ordinal of the rule among the entries of File
	RuleName  string `json:"rule_name"`
	Reporter  string `json:"reporter"`
	Form      string `json:"form"`           // disable | snooze-future | snooze-expired | file/disable | file/snooze-future | file/snooze-expired
	Spelling  string `json:"spelling"`       // name | name(prom) | name(+tag)
	Placement string `json:"placement"`      // above-item | above-col0 | above-then-plain | above-then-blank | trail-first | trail-expr | trail-other | between-fields | after-last | file-top | file-between
	Pair      string `json:"pair,omitempty"` // a second comment for the same check next to the first: expired-before | expired-after | same-twice
}

var detailLineRe = regexp.MustCompile(`:\d+`)

// shiftedKey renders a report with every line number passed through shift.
func shiftedKey(r core.DReport, shift func(int) int) string {
	var ds []string
	for _, d := range r.Diagnostics {
		var pos []string
		for _, p := range d.Pos {
			pos = append(pos, fmt.Sprintf("%d:%d-%d", shift(p.Line), p.FirstColumn, p.LastColumn))
		}
		ds = append(ds, fmt.Sprintf("%s@%d-%d[%s]", detailLineRe.ReplaceAllString(d.Message, ":N"), d.First, d.Last, strings.Join(pos, ",")))
	}
	sort.Strings(ds)
	return fmt.Sprintf("%s|rule %d-%d|%s|%s|%s|%s|lines %d-%d|%s", r.Path, shift(r.RuleFirst), shift(r.RuleLast), r.Reporter, r.Summary, r.Severity,
		detailLineRe.ReplaceAllString(r.Details, ":N"), shift(r.First), shift(r.Last), strings.Join(ds, ";"))
}

type c07Base struct {
	variant int
	online  bool
	crlf    bool
	cfg     string
	files   map[string]string
	dump    *core.Dump
	locked  bool
	mixed   bool // only the first config rule block is locked
	// twoServers: servers prom (tag prod) and promb (tag dev); a comment naming one of them removes that server's share
	twoServers bool
}

func c07Lint(c *core.Ctx, b *c07Base, files map[string]string) (*core.Dump, LintResult) {
	var global []string
	if !b.online {
		global = []string{"--offline"}
	}
	res := RunLint(c, files, LintOpts{Config: b.cfg, Global: global, WantDump: true, Paths: []string{"rules"}, Timeout: 120 * time.Second, Args: []string{"--fail-on", "fatal"}})
	return res.Dump, res
}

// reporters that come (also) from rule{} config blocks of the scenario: with a locked block a rule-level comment must not silence them
var scenarioFirstBlockReporters = map[string]bool{"promql/aggregate": true, "rule/label": true, "rule/name": true, "rule/reject": true, "rule/report": true}

var scenarioConfigReporters = map[string]bool{"promql/aggregate": true, "rule/label": true, "rule/name": true, "rule/reject": true, "rule/report": true, "alerts/annotation": true, "rule/for": true, "promql/range_query": true, "query/cost": true, "alerts/count": true, "rule/link": true}

func runC07(c *core.Ctx) int {
	run := core.NewRun(c)
	srv := scenarioServer()
	defer srv.Close()

	type job struct {
		b  *c07Base
		cs c07Case
	}
	var jobs []job
	mkBase := func(variant int, online, crlf bool) *c07Base {
		b := &c07Base{variant: variant, online: online, crlf: crlf, locked: variant%16 < 8 && variant%2 == 1, mixed: variant%16 >= 8, twoServers: variant >= 16}
		uri := ""
		if online {
			uri = srv.URL
		}
		b.cfg = scenarioConfig(uri, variant)
		b.files = scenarioRules(srv.URL)
		if crlf {
			for n, d := range b.files {
				b.files[n] = strings.ReplaceAll(d, "\n", "\r\n")
			}
		}
		return b
	}
	var bases []*c07Base
	if c.Replay != "" {
		var cs c07Case
		if err := core.LoadCase(c.Replay, &cs); err != nil {
			fmt.Println("cannot load case:", err)
			return core.ExitInconclusive
		}
		b := mkBase(cs.Variant, cs.Online, cs.CRLF)
		bases = append(bases, b)
		jobs = append(jobs, job{b, cs})
	} else if c.Quick() {
		bases = append(bases, mkBase(2, false, false), mkBase(3, false, false), mkBase(0, false, true), mkBase(2, true, false), mkBase(8, false, false), mkBase(16, true, false))
	} else {
		for v := 0; v < 6; v++ {
			bases = append(bases, mkBase(v, false, false), mkBase(v, true, false))
		}
		bases = append(bases, mkBase(0, false, true), mkBase(3, true, true), mkBase(8, false, false), mkBase(10, false, false), mkBase(8, true, false), mkBase(16, true, false), mkBase(18, true, false))
	}
	for _, b := range bases {
		d, res := c07Lint(c, b, b.files)
		run.Eval(1)
		if d == nil || res.Proc.Crash != "" || res.Proc.TimedOut || !d.SummaryDone {
			run.Inconclusive("base run failed: " + core.Trunc(res.Proc.Stderr, 300))
			continue
		}
		b.dump = d
		if c.Replay != "" {
			continue
		}
		// enumerate (rule, reporter) pairs present in the report
		type pair struct {
			file     string
			ord      int
			name     string
			reporter string
		}
		seen := map[pair]bool{}
		ordOf := func(path string, first int) (int, string) {
			k := 0
			for _, e := range d.Entries {
				if e.Path != path {
					continue
				}
				if e.Rule.First == first {
					return k, e.Rule.Name
				}
				k++
			}
			return -1, ""
		}
		var pairs []pair
		for _, r := range d.Reports {
			if !isCheckName(r.Reporter) {
				continue
			}
			ord, name := ordOf(r.Path, r.RuleFirst)
			if ord < 0 {
				continue
			}
			p := pair{r.Path, ord, name, r.Reporter}
			if !seen[p] {
				seen[p] = true
				pairs = append(pairs, p)
			}
		}
		forms := []string{"disable", "snooze-future", "snooze-expired", "file/disable", "file/snooze-future", "file/snooze-expired"}
		// (a comment at column 0 above an indented list item is not promised by the documentation and YAML attaches
		// it to the enclosing node, so that placement is not generated)
		rulePlacements := []string{"above-item", "above-then-plain", "above-then-blank", "trail-first", "trail-expr", "trail-other", "between-fields", "after-last"}
		filePlacements := []string{"file-top", "file-between"}
		for pi, p := range pairs {
			if b.online && !isOnline(p.reporter) {
				continue // offline reporters are covered by the offline bases
			}
			r := c.Rand(fmt.Sprintf("c07-%d-%v-%v", b.variant, b.online, b.crlf), pi)
			for _, f := range forms {
				pls := rulePlacements
				if strings.HasPrefix(f, "file/") {
					pls = filePlacements
				}
				// quick tier: a seed-chosen third of the placements per (pair, form); thorough: all
				for _, pl := range pls {
					if c.Quick() && r.Intn(4) != 0 {
						continue
					}
					sp := "name"
					// name(prom) / name(+tag) are only defined for checks bound to one server whose identity is name(prom)
					if b.online && serverBoundChecks[p.reporter] {
						switch r.Intn(3) {
						case 1:
							sp = "name(prom)"
						case 2:
							// (the server only has the tag in these variants; see scenarioConfig)
							if eff := b.variant % 8; eff%3 == 2 || b.twoServers {
								sp = "name(+tag)"
							}
						}
						if b.twoServers {
							sp = []string{"name", "name(prom)", "name(+tag)", "name(promb)", "name(+dev)"}[r.Intn(5)]
						}
					}
					cs := c07Case{Variant: b.variant, Online: b.online, CRLF: b.crlf, File: p.file, RuleOrd: p.ord, RuleName: p.name, Reporter: p.reporter, Form: f, Spelling: sp, Placement: pl}
					jobs = append(jobs, job{b, cs})
					// pairs of comments for the same check (insertion placements only), thinned
					// (not after the last field: YAML gives the first line of a comment block there to the rule above
					// and the following lines to the rule below, which no documentation promises either way)
					if !strings.HasPrefix(pl, "trail-") && pl != "after-last" && (!c.Quick() || r.Intn(3) == 0) {
						cs.Pair = []string{"expired-before", "expired-after", "same-twice"}[r.Intn(3)]
						jobs = append(jobs, job{b, cs})
					}
				}
			}
		}
	}

	// long-lived process scenarios run beside the one-shot jobs
	nWatch := c.N(2, 6)
	watchOuts := make([]c07WatchOut, nWatch)
	watchDone := make(chan struct{})
	if c.Replay == "" {
		go func() {
			core.Parallel(nWatch, nWatch, func(i int) { watchOuts[i] = c07Watch(c, i) })
			close(watchDone)
		}()
	} else {
		close(watchDone)
	}
	core.Parallel(len(jobs), 16, func(j int) {
		b, cs := jobs[j].b, jobs[j].cs
		if b.dump == nil {
			return
		}
		v, note, nontrivial := c07Check(c, b, cs)
		run.Eval(1)
		if note != "" {
			run.Inconclusive(note)
			return
		}
		if v != nil {
			run.Violate(*v)
		}
		if nontrivial {
			run.Nontrivial(fmt.Sprintf("%s|%s|%s|%s|%s", cs.Reporter, cs.Form, cs.Placement, cs.Spelling, cs.Pair))
			if cs.Pair != "" {
				run.Count("comment_pair_cases_"+cs.Pair, 1)
			}
			run.Distinct("reporters_targeted", cs.Reporter)
		}
		if j%(len(jobs)/6+1) == 0 {
			run.Sample(cs)
		}
	})
	run.Extra("server_requests_seen", srv.Requests.Load())
	<-watchDone
	if c.Replay == "" {
		for _, wo := range watchOuts {
			run.Eval(1)
			run.Count("watch_iterations_observed", int64(wo.iterations))
			run.Count("watch_rule_iterations_after_expiry_judged", int64(wo.afterSeen))
			run.Count("watch_rule_iterations_before_expiry_judged", int64(wo.beforeSeen))
			if wo.inconc != "" {
				run.Inconclusive("watch scenario: " + wo.inconc)
			}
			for _, v := range wo.viol {
				run.Violate(v)
			}
			if wo.afterSeen > 0 && wo.beforeSeen > 0 {
				run.Nontrivial(fmt.Sprintf("watch:after=%d:before=%d", min(wo.afterSeen, 3), min(wo.beforeSeen, 3)))
			}
		}
	}
	run.Assume("snooze timestamps are 2099-01-01 (future) and 2001-01-01 (expired): far from the run's clock, which is not controlled; in the `pint watch` scenarios snoozes expire 2.5-7.5 s into an 11 s run and each iteration is judged against the times pint itself recorded (H1 records carry the writer's clock), never against the harness clock")
	run.Assume("placements are those the documentation promises and that attach to the intended rule by YAML's comment rules; for reporters coming from a `locked` block a rule-level comment must change nothing, a file-level one is don't-care for the targeted reporter")
	if c.Replay != "" {
		if run.ViolationCount() > 0 {
			fmt.Println("REPLAY violated")
			return 1
		}
		fmt.Println("REPLAY held")
		return 0
	}
	return run.Finish("exploration",
		"base: the shared 'everything fires' scenario (15 alerting + 5 recording rules, configuration instantiating every check kind; offline and online against the engine-backed fake Prometheus; variants with locked blocks, rule{enable} lists, server tags; LF and CRLF files). For every (rule, reporter) pair present in the base report x comment form {disable, snooze future/expired, file/disable, file/snooze future/expired} x placement {above the item at item indent / column 0 / followed by a plain comment / by a blank line, trailing on first / expr / other field line, own line between fields, after the last field; file top, between rules} x spelling {name, name(prom), name(+tag)} (+ for a share: a second comment for the same check next to it - an expired snooze before or after, or the same comment twice): second run with the comment(s) inserted; oracle: H1 report multiset == base multiset with lines shifted minus exactly the targeted slice. Plus `pint watch` runs (interval 1.5 s) over rules whose snooze / file/snooze comments expire while the process runs: per iteration the check must be dispatched for the rule iff the iteration's decisions were taken after the expiry (judged on pint's own recorded times). Non-trivial = targeted slice non-empty while other reports exist; distinct by (reporter, form, placement, spelling).",
		core.Floors{MinEvaluations: int64(len(jobs)), MinNontrivial: 60, MaxInconclusiveFrac: 0.02})
}

var serverBoundChecks = map[string]bool{"promql/rate": true, "promql/series": true, "promql/vector_matching": true, "rule/duplicate": true, "labels/conflict": true, "alerts/external_labels": true, "promql/counter": true, "alerts/absent": true, "alerts/count": true}

func isOnline(name string) bool {
	for _, o := range onlineCheckNames {
		if o == name {
			return true
		}
	}
	return false
}

// c07Check inserts the comment, runs pint and compares with the expectation.
func c07Check(c *core.Ctx, b *c07Base, cs c07Case) (viol *core.Violation, inconclusive string, nontrivial bool) {
	d := b.dump
	// locate the rule
	var entry *core.DEntry
	k := 0
	for i := range d.Entries {
		e := &d.Entries[i]
		if e.Path != cs.File {
			continue
		}
		if k == cs.RuleOrd {
			entry = e
			break
		}
		k++
	}
	if entry == nil || entry.Rule.Name != cs.RuleName {
		return nil, "rule not found in base dump", false
	}
	nl := "\n"
	if b.crlf {
		nl = "\r\n"
	}
	src := b.files[cs.File]
	lines := strings.Split(src, nl)
	target := cs.Reporter
	switch cs.Spelling {
	case "name(prom)":
		target = cs.Reporter + "(prom)"
	case "name(+tag)":
		target = cs.Reporter + "(+prod)"
	case "name(promb)":
		target = cs.Reporter + "(promb)"
	case "name(+dev)":
		target = cs.Reporter + "(+dev)"
	}
	// with two servers a comment that names one of them is about the reports that server's check instance made
	serverOf := ""
	if b.twoServers {
		switch cs.Spelling {
		case "name(prom)", "name(+tag)":
			serverOf = "`prom` Prometheus server"
		case "name(promb)", "name(+dev)":
			serverOf = "`promb` Prometheus server"
		}
	}
	mentions := func(r core.DReport, what string) bool {
		if strings.Contains(r.Details, what) {
			return true
		}
		for _, dg := range r.Diagnostics {
			if strings.Contains(dg.Message, what) {
				return true
			}
		}
		return false
	}
	var text string
	switch cs.Form {
	case "disable":
		text = "# pint disable " + target
	case "snooze-future":
		text = "# pint snooze 2099-01-01T00:00:00Z " + target
	case "snooze-expired":
		text = "# pint snooze 2001-01-01T00:00:00Z " + target
	case "file/disable":
		text = "# pint file/disable " + target
	case "file/snooze-future":
		text = "# pint file/snooze 2099-01-01T00:00:00Z " + target
	case "file/snooze-expired":
		text = "# pint file/snooze 2001-01-01 " + target
	}
	first, last := entry.Rule.First, entry.Rule.Last
	itemLine := lines[first-1]
	itemIndent := len(itemLine) - len(strings.TrimLeft(itemLine, " "))
	fieldIndent := itemIndent + 2
	insertAt := 0 // new lines are inserted before this 1-based line (0 = none)
	var ins []string
	trailLine := 0
	exprLine := 0
	if entry.Rule.Expr != nil && len(entry.Rule.Expr.Pos) > 0 {
		exprLine = entry.Rule.Expr.Pos[0].Line
	}
	switch cs.Placement {
	case "above-item":
		insertAt, ins = first, []string{strings.Repeat(" ", itemIndent) + text}
	case "above-col0":
		insertAt, ins = first, []string{text}
	case "above-then-plain":
		insertAt, ins = first, []string{strings.Repeat(" ", itemIndent) + text, strings.Repeat(" ", itemIndent) + "# just a note"}
	case "above-then-blank":
		insertAt, ins = first, []string{strings.Repeat(" ", itemIndent) + text, ""}
	case "trail-first":
		trailLine = first
	case "trail-expr":
		trailLine = exprLine
	case "trail-other":
		// a single-line scalar field other than the first line and expr
		for l := first + 1; l <= last; l++ {
			if l != exprLine && strings.Contains(lines[l-1], ": ") && !strings.HasSuffix(strings.TrimSpace(lines[l-1]), ":") {
				trailLine = l
				break
			}
		}
		if trailLine == 0 {
			trailLine = exprLine
		}
	case "between-fields":
		if last > first {
			insertAt, ins = first+1, []string{strings.Repeat(" ", fieldIndent) + text}
		} else {
			insertAt, ins = first, []string{strings.Repeat(" ", itemIndent) + text}
		}
	case "after-last":
		insertAt, ins = last+1, []string{strings.Repeat(" ", fieldIndent) + text}
	case "file-top":
		insertAt, ins = 1, []string{text}
	case "file-between":
		insertAt, ins = first, []string{text}
	}
	if cs.Pair != "" && trailLine == 0 && len(ins) > 0 {
		// an expired snooze changes nothing and a repeated comment says the same thing twice: the result must be
		// what the first comment alone gives
		indent := ins[0][:len(ins[0])-len(strings.TrimLeft(ins[0], " "))]
		expiredText := "# pint snooze 2001-01-01T00:00:00Z " + target
		if strings.HasPrefix(cs.Form, "file/") {
			expiredText = "# pint file/snooze 2001-01-01T00:00:00Z " + target
		}
		switch cs.Pair {
		case "expired-before":
			ins = append([]string{indent + expiredText}, ins...)
		case "expired-after":
			ins = append([]string{ins[0], indent + expiredText}, ins[1:]...)
		case "same-twice":
			ins = append([]string{ins[0], ins[0]}, ins[1:]...)
		}
	}
	var out []string
	if trailLine > 0 {
		out = append([]string{}, lines...)
		out[trailLine-1] = out[trailLine-1] + " " + text
	} else {
		out = append(out, lines[:insertAt-1]...)
		out = append(out, ins...)
		out = append(out, lines[insertAt-1:]...)
	}
	files := map[string]string{}
	for n, dd := range b.files {
		files[n] = dd
	}
	files[cs.File] = strings.Join(out, nl)

	got, res := c07Lint(c, b, files)
	if got == nil || res.Proc.Crash != "" || res.Proc.TimedOut || !got.SummaryDone {
		return nil, fmt.Sprintf("second run failed (%+v): %s", cs, core.Trunc(res.Proc.Stderr, 200)), false
	}
	shift := func(l int) int {
		if insertAt > 0 && l >= insertAt {
			return l + len(ins)
		}
		return l
	}
	ident := func(l int) int { return l }
	fileLevel := strings.HasPrefix(cs.Form, "file/")
	expired := strings.HasSuffix(cs.Form, "expired")
	// (mixed: only the first config block is locked; the checks of the blocks after it obey rule-level comments)
	lockedSource := (b.locked && scenarioConfigReporters[cs.Reporter]) || (b.mixed && scenarioFirstBlockReporters[cs.Reporter])
	inSlice := func(r core.DReport) bool {
		if r.Path != cs.File || r.Reporter != cs.Reporter {
			return false
		}
		if serverOf != "" && !mentions(r, serverOf) {
			return false
		}
		if fileLevel {
			return true
		}
		return r.RuleFirst == first
	}
	if serverOf != "" {
		// only judged when every report of this reporter on the rule names its server
		for _, r := range d.Reports {
			if r.Path == cs.File && r.Reporter == cs.Reporter && (fileLevel || r.RuleFirst == first) && !mentions(r, "`prom` Prometheus server") && !mentions(r, "`promb` Prometheus server") {
				return nil, "", false
			}
		}
	}
	removeSlice := !expired
	dontCareTarget := false
	if lockedSource {
		if fileLevel {
			dontCareTarget = true // the statement only speaks about rule-level comments for locked blocks
		} else if cs.Reporter == "promql/range_query" && b.online {
			dontCareTarget = true // two instances (base: not locked, config block: locked) report under this name
		} else {
			removeSlice = false
		}
	}
	want := map[string]int{}
	sliceSize, others := 0, 0
	for _, r := range d.Reports {
		sh := ident
		if r.Path == cs.File {
			sh = shift
		}
		if inSlice(r) {
			sliceSize++
			if dontCareTarget || removeSlice {
				continue
			}
		} else {
			others++
		}
		want[shiftedKey(r, sh)]++
	}
	gotSet := map[string]int{}
	for _, r := range got.Reports {
		if dontCareTarget && r.Path == cs.File && r.Reporter == cs.Reporter && (fileLevel || r.RuleFirst == shift(first)) {
			continue
		}
		gotSet[shiftedKey(r, ident)]++
	}
	missing, extra := diffMultiset(want, gotSet)
	nontrivial = sliceSize > 0 && others > 0
	if len(missing)+len(extra) == 0 {
		return nil, "", nontrivial
	}
	kind := "other-reports-changed"
	stillThere := false
	for _, e := range extra {
		if strings.Contains(e, "|"+cs.Reporter+"|") {
			stillThere = true
		}
	}
	switch {
	case stillThere && removeSlice:
		kind = "not-suppressed"
	case expired && len(missing) > 0:
		kind = "expired-snooze-suppresses"
	case lockedSource && !removeSlice && len(missing) > 0:
		kind = "locked-check-suppressed"
	}
	fb := map[string][]byte{"pint.hcl": []byte(b.cfg), "cmdline.txt": []byte(res.CmdLine)}
	for n, dd := range files {
		fb[n] = []byte(dd)
	}
	return &core.Violation{
		Sig:   fmt.Sprintf("%s:%s:%s:%s", kind, cs.Form+map[bool]string{true: "+" + cs.Pair, false: ""}[cs.Pair != ""], cs.Placement, cs.Reporter),
		What:  fmt.Sprintf("comment %q (%s) on rule %q: reports are not base minus the targeted slice. missing: %s | unexpected: %s", text, cs.Placement, cs.RuleName, core.Trunc(strings.Join(missing, " ;; "), 600), core.Trunc(strings.Join(extra, " ;; "), 600)),
		Case:  cs,
		Files: fb,
	}, "", nontrivial
}
