package props

import (
	"fmt"
	"math/rand"
	"sort"
	"strings"
	"time"

	"github.com/prometheus/prometheus/model/labels"
	promParser "github.com/prometheus/prometheus/promql/parser"

	"github.com/cloudflare/pint/verif/core"
	"github.com/cloudflare/pint/verif/promfake"
)

func init() { Registry["C16"] = runC16 }

// presence classes of a metric in the served database
const (
	c16Present      = "present"
	c16Never        = "never"
	c16OtherLabels  = "present-with-other-label-values"
	c16Disappeared  = "disappeared-3h-ago"
	c16Intermittent = "intermittent"
	c16JustAppeared = "appeared-20s-ago"
)

type c16Rule struct {
	Kind     string   `json:"kind"`
	Name     string   `json:"name"`
	Expr     string   `json:"expr"`
	Comments []string `json:"comments,omitempty"`
}

type c16Case struct {
	Classes map[string]string `json:"classes"` // metric -> presence class
	Rules   []c16Rule         `json:"rules"`
	Ignore  []string          `json:"ignore_metrics,omitempty"`
}

// (M0 and M2 differ from m0 and m2 only in letter case: distinct metrics for Prometheus)
var c16Metrics = []string{"m0", "m1", "m2", "m3", "M0", "M2"}

func c16DB(classes map[string]string, now time.Time) *promfake.DB {
	step := 5 * time.Minute
	from := now.Add(-30 * time.Hour).Truncate(step)
	to := now.Add(3 * time.Hour)
	db := &promfake.DB{}
	db.Series = append(db.Series, promfake.SeriesAt(map[string]string{"__name__": "up", "job": "prom", "instance": "i0"}, from, to, step, 1))
	for _, m := range c16Metrics {
		mk := func(job, inst string, f, t time.Time) {
			db.Series = append(db.Series, promfake.SeriesAt(map[string]string{"__name__": m, "job": job, "instance": inst}, f, t, step, 1))
		}
		switch classes[m] {
		case c16Present:
			mk("a", "i1", from, to)
			mk("b", "i2", from, to)
		case c16OtherLabels:
			mk("zzz", "i9", from, to)
		case c16Disappeared:
			mk("a", "i1", from, now.Add(-3*time.Hour))
		case c16Intermittent:
			s := promfake.Series{Labels: map[string]string{"__name__": m, "job": "a", "instance": "i1"}}
			for t, k := from, 0; !t.After(to); t, k = t.Add(step), k+1 {
				// one hour on, one hour off; on around "now" (phase chosen so that now-2h..now+3h is on)
				if t.After(now.Add(-2*time.Hour)) || (k/12)%2 == 0 {
					s.Samples = append(s.Samples, promfake.Sample{Ts: t.UnixMilli(), V: 1})
				}
			}
			db.Series = append(db.Series, s)
		case c16JustAppeared:
			// a brand new series: its first sample is 20 s old, so only an evaluation at "now" can see it
			s := promfake.Series{Labels: map[string]string{"__name__": m, "job": "a", "instance": "i1"}}
			for t := now.Add(-20 * time.Second); !t.After(to); t = t.Add(15 * time.Second) {
				s.Samples = append(s.Samples, promfake.Sample{Ts: t.UnixMilli(), V: 1})
			}
			db.Series = append(db.Series, s)
		case c16Never:
		}
	}
	return db
}

func c16RandCase(r *rand.Rand) c16Case {
	cs := c16Case{Classes: map[string]string{}}
	all := []string{c16Present, c16Never, c16OtherLabels, c16Disappeared, c16Intermittent, c16JustAppeared}
	// at least one present and one never metric
	perm := r.Perm(len(c16Metrics))
	cs.Classes[c16Metrics[perm[0]]] = c16Present
	cs.Classes[c16Metrics[perm[1]]] = c16Never
	for _, i := range perm[2:] {
		cs.Classes[c16Metrics[i]] = all[r.Intn(len(all))]
	}
	sel := func() string {
		m := c16Metrics[r.Intn(len(c16Metrics))]
		switch r.Intn(6) {
		case 0:
			return m + `{job="a"}`
		case 1:
			return m + `{job=~"a|b"}`
		case 2:
			return m + `{job="a", instance="i1"}`
		case 3:
			return m + `{job!="x"}`
		case 4:
			return `{__name__="` + m + `"}`
		}
		return m
	}
	expr := func() string {
		// joins against a side that always returns: the selector providing the labels is still checked, the ones
		// covered by an `or vector(n)` fallback are not
		switch r.Intn(12) {
		case 7:
			return sel() + " * on() group_left() vector(100)"
		case 8:
			return sel() + " / on() group_left() (" + sel() + " or vector(1))"
		case 9:
			return "sum(" + sel() + ") / on() sum(" + sel() + " or vector(1))"
		case 10:
			return sel() + " or vector(0)"
		case 11:
			return sel() + " > on() group_left() (sum(" + sel() + ") or vector(0))"
		}
		switch r.Intn(7) {
		case 0:
			return "sum(" + sel() + ") by (job) > 0"
		case 1:
			return sel() + " / " + sel()
		case 2:
			return "rate(" + sel() + "[5m]) > 0"
		case 3:
			return "count(" + sel() + ") > 1"
		case 4:
			return sel() + " == 1 and on(job) " + sel()
		case 5:
			return "max_over_time(" + sel() + "[10m])"
		}
		return sel() + " > 0"
	}
	n := 4 + r.Intn(3)
	for i := 0; i < n; i++ {
		ru := c16Rule{Kind: "alert", Name: fmt.Sprintf("Alert%d", i), Expr: expr()}
		if r.Intn(3) == 0 {
			ru.Kind, ru.Name = "record", fmt.Sprintf("rec:rule%d", i)
		}
		if r.Intn(8) == 0 {
			ru.Comments = append(ru.Comments, "# pint disable promql/series("+c16Metrics[r.Intn(len(c16Metrics))]+")")
		}
		cs.Rules = append(cs.Rules, ru)
	}
	// sometimes a recording rule in the set produces a missing metric
	if r.Intn(3) == 0 {
		var never []string
		for m, c := range cs.Classes {
			if c == c16Never {
				never = append(never, m)
			}
		}
		sort.Strings(never)
		if len(never) > 0 {
			cs.Rules = append(cs.Rules, c16Rule{Kind: "record", Name: never[r.Intn(len(never))], Expr: "sum(up)"})
		}
	}
	// sometimes an ALERTING rule is named like a missing metric: that is not a producer of the metric
	if r.Intn(3) == 0 {
		var never []string
		for m, c := range cs.Classes {
			if c == c16Never {
				never = append(never, m)
			}
		}
		sort.Strings(never)
		if len(never) > 0 {
			cs.Rules = append(cs.Rules, c16Rule{Kind: "alert", Name: never[r.Intn(len(never))], Expr: "up == 0"})
		}
	}
	if r.Intn(6) == 0 {
		cs.Ignore = []string{c16Metrics[r.Intn(len(c16Metrics))]}
	}
	return cs
}

func (cs c16Case) yaml() string {
	var b strings.Builder
	b.WriteString("groups:\n- name: g\n  rules:\n")
	for _, ru := range cs.Rules {
		for _, c := range ru.Comments {
			b.WriteString("  " + c + "\n")
		}
		fmt.Fprintf(&b, "  - %s: %s\n    expr: '%s'\n", ru.Kind, ru.Name, strings.ReplaceAll(ru.Expr, "'", "''"))
	}
	return b.String()
}

func c16Selectors(expr string) []*promParser.VectorSelector {
	node, err := promParser.ParseExpr(expr)
	if err != nil {
		return nil
	}
	var out []*promParser.VectorSelector
	promParser.Inspect(node, func(n promParser.Node, _ []promParser.Node) error {
		if vs, ok := n.(*promParser.VectorSelector); ok {
			out = append(out, vs)
		}
		return nil
	})
	return out
}

// c16FallbackCovered: start offsets of the selectors that sit on the left of an `or` whose right side is vector(n).
func c16FallbackCovered(expr string) map[int]bool {
	out := map[int]bool{}
	node, err := promParser.ParseExpr(expr)
	if err != nil {
		return out
	}
	promParser.Inspect(node, func(n promParser.Node, _ []promParser.Node) error {
		b, ok := n.(*promParser.BinaryExpr)
		if !ok || b.Op != promParser.LOR {
			return nil
		}
		rhs := b.RHS
		for {
			p, ok := rhs.(*promParser.ParenExpr)
			if !ok {
				break
			}
			rhs = p.Expr
		}
		if c, ok := rhs.(*promParser.Call); !ok || c.Func.Name != "vector" {
			return nil
		}
		promParser.Inspect(b.LHS, func(m promParser.Node, _ []promParser.Node) error {
			if vs, ok := m.(*promParser.VectorSelector); ok {
				out[int(vs.PosRange.Start)] = true
			}
			return nil
		})
		return nil
	})
	return out
}

func selMetric(vs *promParser.VectorSelector) string {
	if vs.Name != "" {
		return vs.Name
	}
	for _, lm := range vs.LabelMatchers {
		if lm.Name == labels.MetricName && lm.Type == labels.MatchEqual {
			return lm.Value
		}
	}
	return ""
}

type c16Outcome struct {
	viol            []core.Violation
	inconc          string
	nontrivial      []string
	problems        int
	selectors       int
	fallbackCovered int
}

func c16Check(c *core.Ctx, cs c16Case) (out c16Outcome) {
	now := time.Now()
	db := c16DB(cs.Classes, now)
	srv := promfake.NewServer(db, time.Now)
	defer srv.Close()
	cfg := fmt.Sprintf("prometheus \"prom\" {\n  uri = %q\n  timeout = \"60s\"\n}\ncheck \"promql/series\" {\n  lookbackRange = \"6h\"\n  lookbackStep = \"5m\"\n", srv.URL)
	if len(cs.Ignore) > 0 {
		cfg += "  ignoreMetrics = [\"" + strings.Join(cs.Ignore, "\", \"") + "\"]\n"
	}
	cfg += "}\nchecks {\n  enabled = [\"promql/series\"]\n}\n"
	yml := cs.yaml()
	res := RunLint(c, map[string]string{"rules/r.yml": yml}, LintOpts{Config: cfg, WantDump: true, Paths: []string{"rules"}, Timeout: 120 * time.Second, Args: []string{"--fail-on", "fatal"}})
	files := map[string][]byte{"rules/r.yml": []byte(yml), "pint.hcl": []byte(cfg), "stderr.txt": []byte(res.Proc.Stderr)}
	if res.Proc.TimedOut || res.Dump == nil || !res.Dump.SummaryDone {
		out.inconc = "pint run did not complete: " + core.Trunc(res.Proc.Stderr, 200)
		return out
	}
	if res.Proc.Crash != "" {
		out.viol = append(out.viol, core.Violation{Sig: "crash:" + res.Proc.CrashSig, What: "pint crashed: " + res.Proc.CrashSig, Case: cs, Files: files})
		return out
	}
	eng := promfake.NewEngine()
	// reports per rule
	type rep struct {
		core.DReport
	}
	produced := map[string]bool{}
	for _, ru := range cs.Rules {
		if ru.Kind == "record" {
			produced[ru.Name] = true
		}
	}
	for ri, ru := range cs.Rules {
		sels := c16Selectors(ru.Expr)
		// reports of this rule
		var reps []core.DReport
		for _, r := range res.Dump.Reports {
			if r.Reporter == "promql/series" && r.RuleName == ru.Name {
				reps = append(reps, r)
			}
		}
		out.problems += len(reps)
		covered := func(vs *promParser.VectorSelector, wantBug bool) (bool, string) {
			for _, r := range reps {
				if r.Summary != "query on nonexistent series" && r.Summary != "unknown alert referenced" {
					continue
				}
				for _, d := range r.Diagnostics {
					// the caret range is an offset range into the expression value
					if d.First-1 >= int(vs.PosRange.Start) && d.Last <= int(vs.PosRange.End)+1 {
						if !wantBug || r.Severity == "Bug" {
							return true, d.Message
						}
					}
				}
			}
			return false, ""
		}
		fallback := c16FallbackCovered(ru.Expr)
		seen := map[string]bool{}
		for _, vs := range sels {
			m := selMetric(vs)
			if m == "" || seen[vs.String()] {
				continue
			}
			seen[vs.String()] = true
			out.selectors++
			vec, _, err := promfake.Instant(eng, db, vs.String(), time.Now())
			if err != nil {
				continue
			}
			class := cs.Classes[m]
			matcherKinds := "none"
			if len(vs.LabelMatchers) > 1 {
				var ks []string
				for _, lm := range vs.LabelMatchers {
					if lm.Name != labels.MetricName {
						ks = append(ks, lm.Type.String())
					}
				}
				matcherKinds = strings.Join(ks, "")
			}
			out.nontrivial = append(out.nontrivial, class+"|"+matcherKinds)
			// (1) a selector that currently returns series is never reported as missing
			if len(vec) > 0 {
				if ok, msg := covered(vs, false); ok {
					out.viol = append(out.viol, core.Violation{
						Sig:   "reported-missing-but-present:" + class,
						What:  fmt.Sprintf("rule %d (%s): promql/series reports selector `%s` (%s) but an instant query for it returns %d series on the same database", ri, ru.Name, vs.String(), msg, len(vec)),
						Case:  cs,
						Files: files,
					})
				}
				continue
			}
			// (2) a metric with no sample in the lookback window, not produced by a rule and not exempted draws a Bug
			if class == c16Never {
				exempt := produced[m]
				for _, ig := range cs.Ignore {
					if ig == m {
						exempt = true
					}
				}
				for _, cm := range ru.Comments {
					if strings.Contains(cm, "promql/series("+m+")") || strings.HasSuffix(strings.TrimSpace(cm), "disable promql/series") {
						exempt = true
					}
				}
				if fallback[int(vs.PosRange.Start)] {
					// documented: a query with an `or vector(n)` fallback is not reported for the metrics it covers
					out.fallbackCovered++
					exempt = true
				}
				if exempt {
					continue
				}
				if ok, _ := covered(vs, true); !ok {
					out.viol = append(out.viol, core.Violation{
						Sig:   "never-present-metric-not-reported-as-bug",
						What:  fmt.Sprintf("rule %d (%s): metric %s has no sample in the lookback window, no rule produces it and nothing exempts it, but promql/series reports no Bug on selector `%s` (reports of this rule: %d)", ri, ru.Name, m, vs.String(), len(reps)),
						Case:  cs,
						Files: files,
					})
				}
			}
		}
	}
	return out
}

func runC16(c *core.Ctx) int {
	run := core.NewRun(c)
	if c.Replay != "" {
		var cs c16Case
		if err := core.LoadCase(c.Replay, &cs); err != nil {
			fmt.Println("cannot load case:", err)
			return core.ExitInconclusive
		}
		o := c16Check(c, cs)
		for _, v := range o.viol {
			fmt.Println("REPLAY violated:", v.Sig, v.What)
		}
		if len(o.viol) > 0 {
			return 1
		}
		fmt.Println("REPLAY held")
		return 0
	}
	// thorough tier: one long-lived `pint watch` process beside the one-shot cases (about nine minutes)
	var watchOut *c16WatchOut
	watchDone := make(chan struct{})
	if !c.Quick() {
		go func() {
			o := c16Watch(c)
			watchOut = &o
			close(watchDone)
		}()
	} else {
		close(watchDone)
	}
	n := c.N(400, 4000)
	core.Parallel(n, 16, func(i int) {
		cs := c16RandCase(c.Rand("c16", i))
		o := c16Check(c, cs)
		run.Eval(1)
		if o.inconc != "" {
			run.Inconclusive(o.inconc)
			return
		}
		run.Count("series_problems_seen", int64(o.problems))
		run.Count("selectors_judged", int64(o.selectors))
		run.Count("selectors_covered_by_or_vector_fallback", int64(o.fallbackCovered))
		for _, v := range o.viol {
			run.Violate(v)
		}
		hasNever, hasPresent := false, false
		for _, cl := range cs.Classes {
			if cl == c16Never {
				hasNever = true
			}
			if cl == c16Present {
				hasPresent = true
			}
		}
		if hasNever && hasPresent {
			for _, k := range o.nontrivial {
				run.Nontrivial(k)
			}
		}
		if i%(n/6+1) == 0 {
			run.Sample(cs)
		}
	})
	<-watchDone
	if watchOut != nil {
		run.Eval(1)
		run.Count("watch_iterations_observed", int64(watchOut.iterations))
		run.Count("watch_iterations_judged_after_staleness_bound", int64(watchOut.judgedAfter))
		run.Count("watch_iterations_reporting_missing_before_appearance", int64(watchOut.reportedEarly))
		run.Count("watch_instant_queries_for_late_metric", int64(watchOut.instantAsked))
		if watchOut.inconc != "" {
			run.Inconclusive("watch scenario: " + watchOut.inconc)
		}
		for _, v := range watchOut.viol {
			run.Violate(v)
		}
		if watchOut.judgedAfter > 0 && watchOut.reportedEarly > 0 {
			run.Nontrivial("watch:late-metric")
		}
		run.Assume("watch scenario (thorough tier): bounded progress instead of an unbounded 'eventually' - an iteration starting more than cache lifetime (5 min) + sweep period (2 min) + one interval + 30 s after the metric appeared must not report it missing; iterations before the bound are not judged; iteration start times are pint's own (H1 records)")
	}
	run.Assume("the served data is fixed relative to the start of each case: presence classes have their edges hours away from 'now' and samples extend 3 h past it, so the wall clock cannot flip a verdict during a run")
	run.Assume("completeness is only demanded for expressions without or/unless fallbacks, vector(), absent() and ALERTS, where pint documents that every selector is checked")
	return run.Finish("exploration",
		"per case: 4-6 rules over metrics m0..m3 with matchers (=, =~, !=, __name__), a database assigning each metric a presence class (present, never, present with other label values, disappeared 3 h ago, intermittent), optional recording rules producing a missing metric, disable comments and ignoreMetrics; the real pint binary lints against an engine-backed fake Prometheus API with promql/series (lookback 6h/5m). Oracle: (1) no promql/series 'missing' problem may point into a selector whose direct instant evaluation on the same database returns series; (2) a selector whose metric has no sample at all, is produced by no rule and is not exempted must draw a Bug. Non-trivial = case with a never-present and a present metric; distinct by (presence class, matcher kinds).",
		core.Floors{MinEvaluations: int64(n), MinNontrivial: 8, MaxInconclusiveFrac: 0.03})
}
