package props

// C09 binary replays: the same configurations run through the real pint binary (lint, ci in
// a scratch git repository, watch); the H1 dump shows which (entry, check) jobs were dispatched.

import (
	"fmt"
	"math/rand"
	"os"
	"os/exec"
	"path/filepath"
	"strings"
	"syscall"
	"time"

	"github.com/cloudflare/pint/verif/core"
	"github.com/cloudflare/pint/verif/gitrepo"
)

type c09BinMismatch struct {
	sig, what string
	focus     c09Focus
}

type c09BinResult struct {
	inconc   string
	decided  int
	dontcare int
	applies  int
	states   map[string]int
	mism     []c09BinMismatch
	stderr   string
	extra    map[string][]byte
}

var c09DumpStates = map[string]string{"noop": "unmodified", "added": "added", "modified": "modified", "moved": "renamed", "removed": "removed"}

func c09FactsFromDump(e core.DEntry) c09Rule {
	f := c09Rule{Path: e.Path, Group: e.GroupName, Name: e.Rule.Name, Kind: e.Rule.Type}
	for _, l := range e.GroupLabels {
		f.GroupLabels = append(f.GroupLabels, c09KV{l.Key.Value, l.Value.Value})
	}
	for _, l := range e.Rule.Labels {
		f.Labels = append(f.Labels, c09KV{l.Key.Value, l.Value.Value})
	}
	for _, l := range e.Rule.Annotations {
		f.Ann = append(f.Ann, c09KV{l.Key.Value, l.Value.Value})
	}
	if e.Rule.For != nil {
		f.HasFor, f.For = true, e.Rule.For.Value
	}
	if e.Rule.KeepFiringFor != nil {
		f.HasKFF, f.KFF = true, e.Rule.KeepFiringFor.Value
	}
	return f
}

// c09CIPlan derives the base-branch version of the vocabulary: some rules differ (-> modified),
// some are missing (-> added), one extra rule exists only on the base branch (-> removed), and
// one file may have another name (-> renamed). Which state pint assigns is read from its dump
// (classification itself is C03's subject).
func c09CIPlan(seed int64, vocab []c09Rule) (mainFiles map[string]string, renamedFrom, renamedTo string) {
	r := rand.New(rand.NewSource(seed))
	var base []c09Rule
	for _, v := range vocab {
		switch r.Intn(4) {
		case 1:
			m := v
			if m.Kind == "alerting" {
				m.Expr = "up == 1"
			} else {
				m.Expr = "sum(up) by (instance)"
			}
			base = append(base, m)
		case 2:
			// added on the branch
		default:
			base = append(base, v)
		}
	}
	gone := c09Alert("rules/a/alerts.yml", "zgone", nil, "GoneAlert", "5m", "", kv("severity", "critical"), kv("summary", "gone"))
	base = append(base, gone)
	mainFiles = c09RenderFiles(base)
	if r.Intn(2) == 0 {
		if d, ok := mainFiles["rules/b/records.yml"]; ok {
			delete(mainFiles, "rules/b/records.yml")
			mainFiles["rules/b/old_records.yml"] = d
			renamedFrom, renamedTo = "rules/b/old_records.yml", "rules/b/records.yml"
		}
	}
	return mainFiles, renamedFrom, renamedTo
}

func c09RunBinary(c *core.Ctx, env *c09Env, cs c09Case, inproc *c09Outcome) (out c09BinResult) {
	out.states = map[string]int{}
	out.extra = map[string][]byte{}
	type ent struct {
		facts c09Rule
		state string
		key   string
		known int // index in env.facts or -1
	}
	var ents []ent
	disp := map[string]map[int]bool{} // entry key -> blocks whose marker was dispatched
	dkey := func(path, name string, first int, state string) string {
		return fmt.Sprintf("%s\x00%s\x00%d\x00%s", path, name, first, state)
	}
	addDispatch := func(ds []core.DDispatch) {
		for _, d := range ds {
			if !strings.Contains(d.Check, "zzblk") {
				continue
			}
			k := dkey(d.Path, d.Name, d.First, d.State)
			if disp[k] == nil {
				disp[k] = map[int]bool{}
			}
			for b := range cs.Blocks {
				if strings.Contains(d.Check, c09Marker(b)) {
					disp[k][b] = true
				}
			}
		}
	}
	fromDump := func(d *core.Dump) {
		for _, e := range d.Entries {
			if e.PathError != "" || e.Rule.Err != "" {
				continue
			}
			f := c09FactsFromDump(e)
			known := -1
			if i, ok := env.byKey[c09Key(f.Path, f.Name)]; ok {
				known = i
			}
			ents = append(ents, ent{f, c09DumpStates[e.State], dkey(e.Path, e.Rule.Name, e.Rule.First, e.State), known})
		}
		addDispatch(d.Dispatch)
	}

	switch cs.Mode {
	case "lint":
		res := RunLint(c, env.files, LintOpts{Config: cs.Config, Global: []string{"--offline"}, WantDump: true, Paths: []string{"rules", "other"}, Timeout: 60 * time.Second})
		out.stderr = res.Proc.Stderr
		if res.Proc.TimedOut || res.Proc.Crash != "" || res.Dump == nil || res.DumpErr != nil || !res.Dump.SummaryDone {
			out.inconc = fmt.Sprintf("pint lint did not complete (timeout=%v crash=%q exit=%d): %s", res.Proc.TimedOut, res.Proc.Crash, res.Proc.Exit, core.Trunc(res.Proc.Stderr, 300))
			return out
		}
		fromDump(res.Dump)
		if len(ents) != env.n {
			out.inconc = fmt.Sprintf("pint lint discovered %d rules, expected %d", len(ents), env.n)
			return out
		}
	case "ci":
		dir := filepath.Join(c.Scratch, fmt.Sprintf("c09repo-%d", caseSeq.Add(1)))
		defer os.RemoveAll(dir)
		repo, err := gitrepo.New(dir)
		if err != nil {
			out.inconc = "git: " + err.Error()
			return out
		}
		mainFiles, from, _ := c09CIPlan(cs.CISeed, env.vocab)
		_ = repo.Write("README.md", "base\n")
		for n, d := range mainFiles {
			_ = repo.Write(n, d)
			out.extra["main/"+n] = []byte(d)
		}
		if _, err := repo.Commit("base"); err != nil {
			out.inconc = "git: " + err.Error()
			return out
		}
		_, _ = repo.Git("checkout", "-q", "-b", "pr")
		if from != "" {
			_ = repo.Remove(from)
		}
		for n := range mainFiles {
			if _, ok := env.files[n]; !ok && n != from {
				_ = repo.Remove(n)
			}
		}
		for n, d := range env.files {
			_ = repo.Write(n, d)
		}
		if _, err := repo.Commit("change rules"); err != nil {
			out.inconc = "git: " + err.Error()
			return out
		}
		res := RunLintIn(c, dir, nil, LintOpts{Config: cs.Config, Global: []string{"--offline"}, Command: "ci", WantDump: true, Env: repo.Env(), Timeout: 60 * time.Second})
		out.stderr = res.Proc.Stderr
		if res.Proc.TimedOut || res.Proc.Crash != "" || res.Dump == nil || res.DumpErr != nil || !res.Dump.SummaryDone {
			out.inconc = fmt.Sprintf("pint ci did not complete (timeout=%v crash=%q exit=%d): %s", res.Proc.TimedOut, res.Proc.Crash, res.Proc.Exit, core.Trunc(res.Proc.Stderr, 300))
			return out
		}
		fromDump(res.Dump)
		if len(ents) < env.n {
			out.inconc = fmt.Sprintf("pint ci discovered %d rules, expected at least %d", len(ents), env.n)
			return out
		}
	case "watch":
		ds, stderr, problem := c09Watch(c, env, cs.Config)
		out.stderr = stderr
		if problem != "" {
			out.inconc = problem
			return out
		}
		seen := map[string]bool{}
		for _, d := range ds {
			k := dkey(d.Path, d.Name, d.First, d.State)
			if seen[k] {
				continue
			}
			seen[k] = true
			i, ok := env.byKey[c09Key(d.Path, d.Name)]
			if !ok {
				out.inconc = "pint watch dispatched a rule that is not in the vocabulary: " + d.Path + " " + d.Name
				return out
			}
			ents = append(ents, ent{env.facts[i], c09DumpStates[d.State], k, i})
		}
		addDispatch(ds)
	default:
		out.inconc = "unknown mode " + cs.Mode
		return out
	}

	for _, e := range ents {
		out.states[e.state]++
		for bi, b := range cs.Blocks {
			observed := disp[e.key][bi]
			foc := c09Focus{Block: bi, Path: e.facts.Path, Name: e.facts.Name, Cmd: cs.Mode, State: e.state, Pint: observed}
			// binary and in-process observation of the same (configuration, rule, command, state) must agree
			if inproc != nil && inproc.obs != nil && e.known >= 0 && e.state != "" {
				if t := inproc.obs[cs.Mode][e.state]; t != nil && e.known < len(t) && bi < len(t[e.known]) && t[e.known][bi] != observed {
					foc.Ref = t[e.known][bi]
					sig := "binary-differs-from-in-process:" + cs.Mode
					if c09PollutionSensitive(b, e.facts, env.vocab, cs.Mode, e.state) {
						sig = c09SigGroupLabel // the order in which rules are looked at differs between the two
					}
					out.mism = append(out.mism, c09BinMismatch{
						sig: sig,
						what: fmt.Sprintf("pint %s dispatched marker of block #%d %s for rule %s %q in state %s: %v, but Config.GetChecksForEntry called directly with command %s and that state selects it: %v",
							cs.Mode, bi, b.shape(), e.facts.Path, e.facts.Name, e.state, observed, cs.Mode, t[e.known][bi]),
						focus: foc,
					})
				}
			}
			exp, decided, _ := c09Expect(b, e.facts, cs.Mode, e.state)
			if !decided || e.state == "" {
				out.dontcare++
				continue
			}
			out.decided++
			if exp {
				out.applies++
			}
			if exp != observed {
				foc.Ref = exp
				sig, why := c09KnownShape(b, e.facts, env.vocab, cs.Mode, e.state, observed)
				if sig == "" {
					sig = "binary:" + cs.Mode + ":selection-mismatch"
				} else {
					why = "; " + why
				}
				out.mism = append(out.mism, c09BinMismatch{
					sig: sig,
					what: fmt.Sprintf("pint %s: block #%d %s, rule %s %q (%s) in state %s: marker check dispatched=%v, documented semantics say the block applies=%v%s",
						cs.Mode, bi, b.shape(), e.facts.Path, e.facts.Name, e.facts.Kind, e.state, observed, exp, why),
					focus: foc,
				})
			}
		}
	}
	return out
}

func c09ReportBinary(run *core.Run, env *c09Env, cs c09Case, br c09BinResult) {
	run.Count("binary_cases_"+cs.Mode, 1)
	if br.inconc != "" {
		run.Eval(1)
		run.Inconclusive("binary replay (" + cs.Mode + "): " + br.inconc)
		return
	}
	run.Eval(br.decided)
	run.Count("binary_decisions_"+cs.Mode, int64(br.decided))
	run.Count("binary_decisions_block_applies", int64(br.applies))
	for st, n := range br.states {
		run.Distinct("binary_"+cs.Mode+"_states", st)
		run.Count("binary_"+cs.Mode+"_entries_"+st, int64(n))
	}
	seen := map[string]bool{}
	for _, m := range br.mism {
		if seen[m.sig] {
			continue
		}
		seen[m.sig] = true
		n := 0
		for _, x := range br.mism {
			if x.sig == m.sig {
				n++
			}
		}
		v := cs
		f := m.focus
		v.Focus = &f
		files := env.violationFiles(cs.Config)
		files["stderr.txt"] = []byte(br.stderr)
		for k, d := range br.extra {
			files[k] = d
		}
		run.Violate(core.Violation{Sig: m.sig, What: fmt.Sprintf("%s (%d decisions of this run with this signature)", m.what, n), Case: v, Files: files})
	}
}

// c09Watch runs `pint watch glob` until the sentinel block's marker has been dispatched for
// every rule (dispatching is sequential in entry order and the sentinel is the last block, so
// at that point every dispatch line of the first scan has been written), then stops it.
// Time only bounds the wait: a timeout makes the case inconclusive.
func c09Watch(c *core.Ctx, env *c09Env, cfgText string) (ds []core.DDispatch, stderr string, problem string) {
	dir := filepath.Join(c.Scratch, fmt.Sprintf("c09watch-%d", caseSeq.Add(1)))
	defer os.RemoveAll(dir)
	for name, data := range env.files {
		p := filepath.Join(dir, name)
		_ = os.MkdirAll(filepath.Dir(p), 0o755)
		_ = os.WriteFile(p, []byte(data), 0o644)
	}
	outDir := filepath.Join(dir, ".out")
	_ = os.MkdirAll(outDir, 0o755)
	cfgPath := filepath.Join(outDir, "pint.hcl")
	_ = os.WriteFile(cfgPath, []byte(cfgText), 0o644)
	dpath := filepath.Join(outDir, "dump.jsonl")
	errPath := filepath.Join(outDir, "stderr.txt")
	errFile, err := os.Create(errPath)
	if err != nil {
		return nil, "", err.Error()
	}
	defer errFile.Close()
	cmd := exec.Command(c.Pint, "-c", cfgPath, "-l", "error", "--no-color", "--offline", "watch", "--listen", "127.0.0.1:0", "--interval", "1h", "glob", "rules", "other")
	cmd.Dir = dir
	cmd.Env = []string{"PATH=" + os.Getenv("PATH"), "HOME=" + os.Getenv("HOME"), "TZ=UTC", "LC_ALL=C", "NO_COLOR=", "PINT_VERIF_DUMP=" + dpath}
	cmd.Stderr = errFile
	if err := cmd.Start(); err != nil {
		return nil, "", "cannot start pint watch: " + err.Error()
	}
	done := make(chan error, 1)
	go func() { done <- cmd.Wait() }()
	stop := func() {
		_ = cmd.Process.Signal(syscall.SIGTERM)
		select {
		case <-done:
		case <-time.After(5 * time.Second):
			_ = cmd.Process.Kill()
			<-done
		}
	}
	deadline := time.Now().Add(40 * time.Second)
	complete := false
	for time.Now().Before(deadline) {
		select {
		case <-done:
			b, _ := os.ReadFile(errPath)
			return nil, string(b), "pint watch exited by itself: " + core.Trunc(string(b), 300)
		case <-time.After(100 * time.Millisecond):
		}
		d, err := core.ReadDump(dpath)
		if err != nil || d == nil {
			continue // file not there yet or a line half written
		}
		n := 0
		for _, x := range d.Dispatch {
			if strings.Contains(x.Check, c09SentinelMarker) {
				n++
			}
		}
		if n >= env.n {
			ds = d.Dispatch
			complete = true
			break
		}
	}
	stop()
	b, _ := os.ReadFile(errPath)
	if !complete {
		return nil, string(b), "pint watch did not dispatch the sentinel check for every rule within 40s"
	}
	return ds, string(b), ""
}
