package props

// C03, identical copies of a rule inside one file.
//
// The statement compares the content of every HEAD rule with the base version of
// its file. When a file holds the same content more than once (the same recording
// rule copied into two groups, an alert pasted twice) that comparison is a
// one-to-one pairing of copies: with b copies at the base and h copies at HEAD,
// min(b,h) HEAD copies are untouched and h-min(b,h) are new. This file holds
//   - the reference rule for such groups (c03DupAccept, c03JudgeCopies),
//   - a history generator whose base files always hold identical copies and whose
//     branch touches those files (c03GenCopiesCase), and
//   - hand-written histories of the same family (c03DirectedCopies).

import (
	"fmt"
	"hash/fnv"
	"math/rand"
	"sort"
	"strings"

	"github.com/cloudflare/pint/verif/core"
)

func c03Hash(s string) uint32 {
	h := fnv.New32a()
	_, _ = h.Write([]byte(s))
	return h.Sum32()
}

// c03DupSkip: why a group of identical copies is not judged by counting ("" = it is).
func c03DupSkip(o *c03Origin) string {
	if c03ChainClass(strings.Join(o.chain, ">")) == "renamed-onto-path-deleted-earlier-on-branch" {
		// listed finding (getChangeByPath picks the stale deletion record): pint has lost the
		// base version of such a file, which the single-rule signatures already report
		return "history-of-listed-finding"
	}
	if len(o.cands) != 1 {
		return "base-version-arguable"
	}
	return ""
}

func c03CopiesRelation(h, b int) string {
	switch {
	case b == 0:
		return "none-at-base"
	case h == b:
		return "same-count"
	case h < b:
		return "fewer-at-head"
	}
	return "more-at-head"
}

// c03DupAccept: what one HEAD copy may be, compared with one candidate base version that
// holds b copies of its content while the HEAD file holds h.
//
//	h <= b: every HEAD copy has a partner of its own at the base, so each of them is
//	        untouched: unmodified, or renamed when the file moved;
//	h >  b: b of the copies are untouched and h-b are new (added, or modified when pint pairs
//	        them by name with another base rule); which ones is not decided here, the number
//	        is (c03JudgeCopies).
func c03DupAccept(accept map[string]bool, h, b int, same bool, o *c03Origin) (why, detail string) {
	if c03DupSkip(o) == "history-of-listed-finding" {
		c03AddSet(accept, c03States...)
		return "duplicate-content", ""
	}
	ident := "unmodified"
	if !same {
		ident = "renamed"
	}
	detail = "copies=" + c03CopiesRelation(h, b)
	if h <= b {
		c03AddSet(accept, ident)
		return "identical-copies", detail
	}
	if b > 0 {
		c03AddSet(accept, ident)
	}
	c03AddSet(accept, "added", "modified")
	if !same {
		c03AddSet(accept, "renamed")
	}
	return "identical-copies-some-new", detail
}

type c03DupStats struct {
	groups        int // groups of identical copies seen at HEAD or base (first run of a history)
	touchedGroups int // ... in a file the branch touched and whose base version holds >= 2 copies
	pairwise      int // HEAD copies whose state is fully determined (h <= b)
	counted       int // groups judged by counting (h > b)
	skipped       map[string]int
	shapes        []string
}

// c03JudgeCopies applies the counting rule to every group of identical copies of one HEAD
// file. ws and states are parallel (one entry per HEAD rule of the file, in file order).
func c03JudgeCopies(ws []c03Want, states []string, record bool, st *c03DupStats) (problems []c03Problem) {
	type grp struct {
		w      c03Want
		states []string
	}
	groups := map[string]*grp{}
	var order []string
	for i, w := range ws {
		if w.DupGroup == "" {
			continue
		}
		g := groups[w.DupGroup]
		if g == nil {
			g = &grp{w: w}
			groups[w.DupGroup] = g
			order = append(order, w.DupGroup)
		}
		g.states = append(g.states, states[i])
	}
	for _, id := range order {
		g := groups[id]
		w := g.w
		h, b := w.DupHead, w.DupBase
		if record {
			st.groups++
			if b >= 2 && w.Chain != "untouched" {
				st.touchedGroups++
			}
			where := "same-path"
			if !w.DupSame {
				where = "file-renamed"
			}
			st.shapes = append(st.shapes, fmt.Sprintf("base=%d head=%d %s history=%s", b, h, where, c03ChainClass(w.Chain)))
		}
		if !w.DupCounts {
			if record {
				if st.skipped == nil {
					st.skipped = map[string]int{}
				}
				st.skipped[w.DupSkip]++
			}
			continue
		}
		if len(g.states) != h {
			continue // cannot happen: the group is made of the h HEAD copies
		}
		if h <= b {
			if record {
				st.pairwise += h
			}
			continue // every copy is judged on its own (Accept holds one state)
		}
		if record {
			st.counted++
		}
		n := map[string]int{}
		for _, s := range g.states {
			n[s]++
		}
		hist := c03ChainClass(w.Chain)
		desc := fmt.Sprintf("%s %q occurs %d times in the base version of the file and %d times at HEAD; pint says %v", w.Kind, w.Name, b, h, g.states)
		if w.DupSame {
			switch {
			case n["unmodified"] < b:
				problems = append(problems, c03Problem{
					fmt.Sprintf("copies:too-few-unmodified:copies=%s:history=%s", c03CopiesRelation(h, b), hist),
					fmt.Sprintf("%s: %d of the copies are untouched, but only %d are reported unmodified", desc, b, n["unmodified"]),
				})
			case n["unmodified"] > b:
				problems = append(problems, c03Problem{
					fmt.Sprintf("copies:too-many-unmodified:copies=%s:history=%s", c03CopiesRelation(h, b), hist),
					fmt.Sprintf("%s: %d of the copies are new, but %d are reported unmodified", desc, h-b, n["unmodified"]),
				})
			}
			continue
		}
		switch {
		case n["unmodified"] > 0:
			problems = append(problems, c03Problem{
				fmt.Sprintf("copies:unmodified-in-renamed-file:copies=%s:history=%s", c03CopiesRelation(h, b), hist),
				desc + ": the file was renamed, none of them can be unmodified",
			})
		case n["renamed"] < b:
			problems = append(problems, c03Problem{
				fmt.Sprintf("copies:too-few-renamed:copies=%s:history=%s", c03CopiesRelation(h, b), hist),
				fmt.Sprintf("%s: %d of the copies moved with the file untouched, but only %d are reported renamed", desc, b, n["renamed"]),
			})
		}
	}
	return problems
}

func c03DupEvidence(run *core.Run, cs c03Case, o c03Outcome) {
	if cs.Copies {
		run.Count("copies_histories", 1)
	}
	d := o.dup
	if d.groups == 0 {
		return
	}
	run.Count("copies_histories_with_identical_copies_judged", 1)
	run.Count("copies_groups_seen", int64(d.groups))
	run.Count("copies_groups_with_2plus_base_copies_in_file_touched_by_branch", int64(d.touchedGroups))
	run.Count("copies_head_rules_judged_pairwise", int64(d.pairwise))
	run.Count("copies_groups_judged_by_count", int64(d.counted))
	for k, v := range d.skipped {
		run.Count("copies_groups_not_judged_"+k, int64(v))
	}
	for _, s := range d.shapes {
		run.Distinct("copies_group_shapes", s)
	}
}

// ---- generator ----

type c03Loc struct{ gi, ri int }

// c03CopySets: content key -> positions, for keys that occur more than once in f.
func c03CopySets(f *c03File) (keys []string, sets map[string][]c03Loc) {
	all := map[string][]c03Loc{}
	for gi, grp := range f.Groups {
		for ri, r := range grp.Rules {
			k := c03Key(r, f)
			all[k] = append(all[k], c03Loc{gi, ri})
		}
	}
	sets = map[string][]c03Loc{}
	for k, v := range all {
		if len(v) > 1 {
			sets[k] = v
			keys = append(keys, k)
		}
	}
	sort.Strings(keys)
	return keys, sets
}

func (g *c03Gen) insertRule(f *c03File, gi, at int, r c03Rule) {
	rs := f.Groups[gi].Rules
	rs = append(rs, c03Rule{})
	copy(rs[at+1:], rs[at:])
	rs[at] = r
	f.Groups[gi].Rules = rs
}

// plantCopy puts one more copy of src into f: same content, any place (also a group of its
// own), any layout.
func (g *c03Gen) plantCopy(f *c03File, src c03Rule) {
	nr := src.clone()
	if g.r.Intn(2) == 0 {
		g.randLayout(&nr)
	}
	if g.r.Intn(4) == 0 {
		grp := c03Group{Name: fmt.Sprintf("group%d", g.tok())}
		at := g.r.Intn(len(f.Groups) + 1)
		f.Groups = append(f.Groups, c03Group{})
		copy(f.Groups[at+1:], f.Groups[at:])
		f.Groups[at] = grp
		f.Groups[at].Rules = []c03Rule{nr}
		return
	}
	gi := g.r.Intn(len(f.Groups))
	g.insertRule(f, gi, g.r.Intn(len(f.Groups[gi].Rules)+1), nr)
}

// otherRule: a rule of f that is not one of the identical copies (ok=false if there is none).
func (g *c03Gen) otherRule(f *c03File) (c03Loc, bool) {
	_, sets := c03CopySets(f)
	in := map[c03Loc]bool{}
	for _, ls := range sets {
		for _, l := range ls {
			in[l] = true
		}
	}
	var cand []c03Loc
	for gi, grp := range f.Groups {
		for ri := range grp.Rules {
			if !in[c03Loc{gi, ri}] {
				cand = append(cand, c03Loc{gi, ri})
			}
		}
	}
	if len(cand) == 0 {
		return c03Loc{}, false
	}
	return cand[g.r.Intn(len(cand))], true
}

func (g *c03Gen) removeRule(f *c03File, l c03Loc) {
	f.Groups[l.gi].Rules = append(f.Groups[l.gi].Rules[:l.ri], f.Groups[l.gi].Rules[l.ri+1:]...)
	c03DropEmptyGroups(f)
}

// copiesOp applies one operation to the file with identity id (the one that holds identical
// copies). Returns "" when the file is gone or the operation does not apply.
func (g *c03Gen) copiesOp(s c03Snap, id int) string {
	p := g.pathByID(s, id)
	if p == "" {
		return ""
	}
	f := s[p]
	keys, sets := c03CopySets(f)
	var set []c03Loc
	if len(keys) > 0 {
		set = sets[keys[g.r.Intn(len(keys))]]
	}
	at := func(l c03Loc) *c03Rule { return &f.Groups[l.gi].Rules[l.ri] }
	switch k := g.r.Intn(100); {
	case k < 26: // the classic: some other rule of the file is edited
		if l, ok := g.otherRule(f); ok {
			return "copies-edit-other-rule+" + g.modifyRule(at(l))
		}
		gi := g.r.Intn(len(f.Groups))
		g.insertRule(f, gi, g.r.Intn(len(f.Groups[gi].Rules)+1), g.newRule())
		return "copies-add-other-rule"
	case k < 36:
		return "copies-layout+" + g.layoutEdit(f)
	case k < 46: // one copy goes away
		if len(set) > 0 {
			g.removeRule(f, set[g.r.Intn(len(set))])
			return "copies-delete-one-copy"
		}
	case k < 56: // one more copy
		if len(set) > 0 {
			g.plantCopy(f, *at(set[0]))
			return "copies-add-one-copy"
		}
	case k < 63: // one copy is edited, the others stay
		if len(set) > 0 {
			return "copies-edit-one-copy+" + g.modifyRule(at(set[g.r.Intn(len(set))]))
		}
	case k < 67: // all copies get the same new expression
		if len(set) > 0 {
			e := g.newExpr(at(set[0]).Kind)
			for _, l := range set {
				at(l).Expr = e
			}
			return "copies-edit-all-copies-alike"
		}
	case k < 72: // a copy moves inside the file
		if len(set) > 0 {
			l := set[g.r.Intn(len(set))]
			r := *at(l)
			g.removeRule(f, l)
			gi := g.r.Intn(len(f.Groups))
			g.insertRule(f, gi, g.r.Intn(len(f.Groups[gi].Rules)+1), r)
			return "copies-move-one-copy"
		}
	case k < 79: // the file is renamed, content untouched
		np := g.newPath(s)
		delete(s, p)
		s[np] = f
		g.free(p)
		return "rename-file"
	case k < 84: // renamed and another rule edited
		if l, ok := g.otherRule(f); ok && f.nRules() >= 4 {
			np := g.newPath(s)
			delete(s, p)
			s[np] = f
			g.free(p)
			return "rename-file+" + g.modifyRule(at(l))
		}
	case k < 89:
		gi := g.r.Intn(len(f.Groups))
		g.insertRule(f, gi, g.r.Intn(len(f.Groups[gi].Rules)+1), g.newRule())
		return "copies-add-other-rule"
	case k < 93:
		if l, ok := g.otherRule(f); ok {
			g.removeRule(f, l)
			return "copies-delete-other-rule"
		}
	case k < 96: // file-level control comment: every rule of the file changes
		if len(f.FilePint) > 0 && g.r.Intn(2) == 0 {
			f.FilePint = f.FilePint[1:]
			return "file-pint-comment-remove"
		}
		c := g.newFilePint()
		for _, o := range f.FilePint {
			if o == c {
				return ""
			}
		}
		f.FilePint = append(f.FilePint, c)
		return "file-pint-comment-add"
	default: // a second set of copies appears on the branch
		if l, ok := g.otherRule(f); ok {
			g.plantCopy(f, *at(l))
			return "copies-duplicate-other-rule"
		}
	}
	return ""
}

// c03GenCopiesCase: a history whose base holds identical copies of a rule in at least one
// file, and whose branch touches that file (first thing it does), then goes on with a mix of
// operations on the copies, on the rest of the file and of the ordinary generator.
func c03GenCopiesCase(r *rand.Rand, idx int) c03Case {
	g := &c03Gen{r: r, pending: map[int][]c03Pending{}}
	cs := c03Case{Idx: 100000 + idx, Copies: true}
	s := c03Snap{}
	nf := 1 + r.Intn(3)
	var ids []int
	for i := 0; i < nf; i++ {
		f := g.newFile(1, 5)
		s[g.newPath(s)] = f
		ids = append(ids, f.ID)
	}
	// files that get copies: one, sometimes two
	r.Shuffle(len(ids), func(i, j int) { ids[i], ids[j] = ids[j], ids[i] })
	nd := 1
	if len(ids) > 1 && r.Intn(4) == 0 {
		nd = 2
	}
	ids = ids[:nd]
	for _, id := range ids {
		f := s[g.pathByID(s, id)]
		sets := 1
		if f.nRules() >= 2 && r.Intn(4) == 0 {
			sets = 2
		}
		for k := 0; k < sets; k++ {
			l, ok := g.otherRule(f)
			if !ok {
				break
			}
			src := f.Groups[l.gi].Rules[l.ri]
			extra := 1
			switch x := r.Intn(10); {
			case x >= 9:
				extra = 3
			case x >= 6:
				extra = 2
			}
			for i := 0; i < extra; i++ {
				g.plantCopy(f, src)
			}
		}
	}
	cs.Base = append(cs.Base, c03Commit{Ops: []string{"base"}, Files: s.clone()})
	if r.Intn(4) == 0 {
		// an older commit on main: the copies have different blame
		p := g.pathByID(s, ids[0])
		cs.Base = append(cs.Base, c03Commit{Ops: []string{g.layoutEdit(s[p])}, Files: s.clone()})
	}
	base := s.clone()
	g.freed = nil
	nc := 1 + r.Intn(4)
	for c := 0; c < nc; c++ {
		ops := g.applyPending(s, c)
		n := 1 + r.Intn(2)
		for i := 0; i < n; i++ {
			op := ""
			if c == 0 && i == 0 || r.Intn(10) < 7 {
				for tries := 0; tries < 20 && op == ""; tries++ {
					op = g.copiesOp(s, ids[r.Intn(len(ids))])
				}
			}
			if op == "" {
				op = g.oneOp(s, c, nc)
			}
			ops = append(ops, op)
		}
		cs.Branch = append(cs.Branch, c03Commit{Ops: ops, Files: s.clone()})
	}
	if r.Intn(3) == 0 {
		m := base
		g.pending = map[int][]c03Pending{}
		for c := 0; c < 1+r.Intn(2); c++ {
			op := ""
			if r.Intn(2) == 0 {
				op = g.copiesOp(m, ids[0])
			}
			if op == "" {
				op = g.oneOp(m, 0, 1)
			}
			cs.Advance = append(cs.Advance, c03Commit{Ops: []string{op}, Files: m.clone()})
		}
	}
	return cs
}

// c03DirectedCopies: hand-written histories over files that hold identical copies (part of
// every run, independent of the seed).
func c03DirectedCopies() []c03Case {
	var out []c03Case
	const f1, f2 = "rules/f1.yml", "rules/f2.yml"
	type step func(g *c03Gen, s c03Snap) string
	// base: f1 holds `others` ordinary rules and `copies` identical copies of one more rule,
	// spread over `groups` groups; f2 is an ordinary file.
	build := func(seed int64, others, copies, groups int, relayout bool, steps []step, advance []step) {
		g := &c03Gen{r: rand.New(rand.NewSource(seed)), pending: map[int][]c03Pending{}}
		s := c03Snap{}
		f := g.newFile(others+1, others+1)
		f.FilePint = nil
		all := f.allRules()
		src := all[len(all)-1]
		for i := 1; i < copies; i++ {
			nr := src.clone()
			if relayout {
				g.randLayout(&nr)
			}
			all = append(all, nr)
		}
		// copies first, in the middle, last: rotate by seed
		rot := int(seed) % len(all)
		all = append(all[rot:], all[:rot]...)
		f.Groups = nil
		for i := 0; i < groups; i++ {
			f.Groups = append(f.Groups, c03Group{Name: fmt.Sprintf("group%d", g.tok())})
		}
		for i, r := range all {
			gi := i * groups / len(all)
			f.Groups[gi].Rules = append(f.Groups[gi].Rules, r)
		}
		c03DropEmptyGroups(f)
		s[f1] = f
		o := g.newFile(3, 3)
		o.FilePint = nil
		s[f2] = o
		cs := c03Case{Idx: -100 - len(out), Copies: true}
		cs.Base = []c03Commit{{Ops: []string{"base"}, Files: s.clone()}}
		base := s.clone()
		for _, st := range steps {
			op := st(g, s)
			cs.Branch = append(cs.Branch, c03Commit{Ops: []string{op}, Files: s.clone()})
		}
		m := base
		for _, st := range advance {
			op := st(g, m)
			cs.Advance = append(cs.Advance, c03Commit{Ops: []string{op}, Files: m.clone()})
		}
		out = append(out, cs)
	}
	theCopies := func(f *c03File) []c03Loc {
		keys, sets := c03CopySets(f)
		if len(keys) == 0 {
			return nil
		}
		return sets[keys[0]]
	}
	editOther := func(p string) step {
		return func(g *c03Gen, s c03Snap) string {
			f := s[p]
			if l, ok := g.otherRule(f); ok {
				r := &f.Groups[l.gi].Rules[l.ri]
				r.Expr = g.newExpr(r.Kind)
			}
			return "copies-edit-other-rule+mod-expr"
		}
	}
	deleteCopy := func(which int) step {
		return func(g *c03Gen, s c03Snap) string {
			ls := theCopies(s[f1])
			g.removeRule(s[f1], ls[which%len(ls)])
			return "copies-delete-one-copy"
		}
	}
	addCopy := func(top bool) step {
		return func(g *c03Gen, s c03Snap) string {
			f := s[f1]
			ls := theCopies(f)
			nr := f.Groups[ls[0].gi].Rules[ls[0].ri].clone()
			if top {
				g.insertRule(f, 0, 0, nr)
			} else {
				last := len(f.Groups) - 1
				g.insertRule(f, last, len(f.Groups[last].Rules), nr)
			}
			return "copies-add-one-copy"
		}
	}
	rename := func(from, to string) step {
		return func(g *c03Gen, s c03Snap) string {
			s[to] = s[from]
			delete(s, from)
			return "rename-file"
		}
	}

	// 1. copies in two groups, another rule of the file edited
	build(201, 2, 2, 2, false, []step{editOther(f1)}, nil)
	// 2. three copies in one group (laid out differently), the middle one deleted
	build(202, 2, 3, 1, true, []step{deleteCopy(1)}, nil)
	// 3. a third copy added above the two that exist
	build(203, 2, 2, 1, false, []step{addCopy(true)}, nil)
	// 4. a third copy added below, then another rule edited
	build(204, 3, 2, 2, true, []step{addCopy(false), editOther(f1)}, nil)
	// 5. file with copies renamed, then another rule edited (large file: git keeps calling it a rename)
	build(205, 4, 2, 2, true, []step{rename(f1, "rules/moved/f1.yml"), editOther("rules/moved/f1.yml")}, nil)
	// 6. one of two copies edited
	build(206, 2, 2, 1, false, []step{func(g *c03Gen, s c03Snap) string {
		l := theCopies(s[f1])[1]
		r := &s[f1].Groups[l.gi].Rules[l.ri]
		r.Expr = g.newExpr(r.Kind)
		return "copies-edit-one-copy+mod-expr"
	}}, nil)
	// 7. whitespace and comments only, in a file with four copies
	build(207, 1, 4, 2, true, []step{func(g *c03Gen, s c03Snap) string {
		f := s[f1]
		f.Header = append(f.Header, "touched")
		f.Indent = 2 - f.Indent
		return "copies-layout+reindent"
	}}, nil)
	// 8. main advances on the file while the branch edits another rule of it
	build(208, 3, 2, 2, false, []step{editOther(f1)}, []step{editOther(f1), deleteCopy(0)})
	// 9. nothing but copies in the file; a new rule is added
	build(209, 0, 3, 1, true, []step{func(g *c03Gen, s c03Snap) string {
		g.insertRule(s[f1], 0, 1, g.newRule())
		return "copies-add-other-rule"
	}}, nil)
	// 10. a copy deleted in one commit and put back in the next, another rule edited in between
	{
		var saved *c03File
		build(210, 2, 2, 1, false, []step{
			func(g *c03Gen, s c03Snap) string { saved = s[f1].clone(); return deleteCopy(0)(g, s) },
			editOther(f2),
			func(g *c03Gen, s c03Snap) string { s[f1] = saved.clone(); return "revert-file" },
			editOther(f1),
		}, nil)
	}
	return out
}
