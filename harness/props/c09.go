package props

// C09 - rule{} match/ignore blocks select rules by their documented boolean meaning.
//
// Observation: the real config.Load + Config.GetChecksForEntry (in-process, entries produced by
// the real GlobFinder over a fixed vocabulary of 24 rules, State set to each of the five
// values, command set through the context exactly as cmd/pint does) - every rule{} block of a
// generated configuration carries a marker check (`name "zzblkNNq" {}`), so "the block's checks
// are applied to this rule" is visible as "the marker check is in the returned list". A sample
// of the configurations is replayed through the pint binary (lint, ci in a scratch git
// repository, watch) where the H1 dump shows which (entry, check) jobs were dispatched.
// Oracle: the reference evaluator of c09ref.go.

import (
	"context"
	"fmt"
	"io"
	"log/slog"
	"os"
	"path/filepath"
	"sort"
	"strings"
	"sync"
	"time"

	"github.com/prometheus/client_golang/prometheus"
	"github.com/prometheus/common/model"

	"github.com/cloudflare/pint/internal/config"
	"github.com/cloudflare/pint/internal/discovery"
	"github.com/cloudflare/pint/internal/git"
	"github.com/cloudflare/pint/internal/parser"
	"github.com/cloudflare/pint/verif/core"
)

func init() { Registry["C09"] = runC09 }

type c09Focus struct {
	Block int    `json:"block"`
	Path  string `json:"path"`
	Name  string `json:"name"`
	Cmd   string `json:"command"`
	State string `json:"state"`
	Pint  bool   `json:"pint_applies_block"`
	Ref   bool   `json:"reference_applies_block"`
}

type c09Case struct {
	Mode   string     `json:"mode"` // inproc | lint | ci | watch
	Origin string     `json:"origin"`
	Blocks []c09Block `json:"blocks"`
	Config string     `json:"config"`
	CISeed int64      `json:"ci_seed,omitempty"`
	Focus  *c09Focus  `json:"focus,omitempty"`
}

// ---- in-process environment ----

type c09Env struct {
	dir    string
	vocab  []c09Rule
	files  map[string]string
	n      int       // number of rules of the vocabulary
	facts  []c09Rule // facts[i] describes entry i of discover() (from the model, not from pint's parse)
	byKey  map[string]int
	cfgSeq int
	mu     sync.Mutex
}

var c09States = map[string]discovery.ChangeType{
	"unmodified": discovery.Noop,
	"added":      discovery.Added,
	"modified":   discovery.Modified,
	"renamed":    discovery.Moved,
	"removed":    discovery.Removed,
}

var c09Cmds = map[string]config.ContextCommandVal{
	"ci":    config.CICommand,
	"lint":  config.LintCommand,
	"watch": config.WatchCommand,
}

func c09Key(path, name string) string { return path + "\x00" + name }

// c09Setup writes the vocabulary, makes its directory the working directory of this process
// (so that the real GlobFinder yields the same relative paths `pint lint rules other` sees)
// and discovers the entries once.
func c09Setup(c *core.Ctx) (*c09Env, error) {
	for _, p := range []*string{&c.VerifDir, &c.Pint, &c.Scratch, &c.Replay} {
		if *p != "" && !filepath.IsAbs(*p) {
			if a, err := filepath.Abs(*p); err == nil {
				*p = a
			}
		}
	}
	slog.SetDefault(slog.New(slog.NewTextHandler(io.Discard, &slog.HandlerOptions{Level: slog.Level(100)})))
	env := &c09Env{dir: filepath.Join(c.Scratch, "c09-vocab"), vocab: c09Vocabulary(), byKey: map[string]int{}}
	env.files = c09RenderFiles(env.vocab)
	for name, data := range env.files {
		p := filepath.Join(env.dir, name)
		if err := os.MkdirAll(filepath.Dir(p), 0o755); err != nil {
			return nil, err
		}
		if err := os.WriteFile(p, []byte(data), 0o644); err != nil {
			return nil, err
		}
	}
	if err := os.Chdir(env.dir); err != nil {
		return nil, err
	}
	entries, err := env.discover()
	if err != nil {
		return nil, err
	}
	env.n = len(entries)
	return env, nil
}

// discover runs the real GlobFinder over the vocabulary files and returns the entries in the
// order of env.facts. Every configuration is evaluated on freshly discovered entries: pint's
// Entry.Labels() may write into the parsed file (see the group-label finding), so entries must
// not be shared between evaluations or goroutines if the observation is to be deterministic.
func (env *c09Env) discover() ([]discovery.Entry, error) {
	finder := discovery.NewGlobFinder([]string{"rules", "other"}, git.NewPathFilter(nil, nil, nil), parser.PrometheusSchema, model.UTF8Validation, nil)
	found, err := finder.Find()
	if err != nil {
		return nil, fmt.Errorf("GlobFinder: %w", err)
	}
	first := len(env.facts) == 0
	byModel := map[string]c09Rule{}
	for _, r := range env.vocab {
		byModel[c09Key(r.Path, r.Name)] = r
	}
	var entries []discovery.Entry
	if !first {
		entries = make([]discovery.Entry, len(env.facts))
	}
	n := 0
	for _, e := range found {
		if e.PathError != nil || e.Rule.Error.Err != nil {
			return nil, fmt.Errorf("vocabulary file %s does not parse: %v %v", e.Path.Name, e.PathError, e.Rule.Error.Err)
		}
		k := c09Key(e.Path.Name, e.Rule.Name())
		f, ok := byModel[k]
		if !ok {
			return nil, fmt.Errorf("discovered a rule that is not in the vocabulary: %s %s", e.Path.Name, e.Rule.Name())
		}
		if string(e.Rule.Type()) != f.Kind {
			return nil, fmt.Errorf("rule %s %s: kind %s, model says %s", e.Path.Name, e.Rule.Name(), e.Rule.Type(), f.Kind)
		}
		if first {
			env.byKey[k] = len(entries)
			entries = append(entries, e)
			env.facts = append(env.facts, f)
		} else {
			entries[env.byKey[k]] = e
		}
		n++
	}
	if n != len(env.vocab) {
		return nil, fmt.Errorf("discovered %d rules, vocabulary has %d", n, len(env.vocab))
	}
	return entries, nil
}

func (env *c09Env) load(text string) (cfg config.Config, err error) {
	env.mu.Lock()
	env.cfgSeq++
	p := filepath.Join(filepath.Dir(env.dir), fmt.Sprintf("c09cfg-%d.hcl", env.cfgSeq))
	env.mu.Unlock()
	if err = os.WriteFile(p, []byte(text), 0o644); err != nil {
		return cfg, err
	}
	defer os.Remove(p)
	cfg, _, err = config.Load(p, true)
	return cfg, err
}

func c09Ctx(cmd string) context.Context {
	return context.WithValue(context.Background(), config.CommandKey, c09Cmds[cmd])
}

// observe returns, per block, whether pint selected the block's marker check for the entry.
func c09Observe(cfg *config.Config, gen *config.PrometheusGenerator, e discovery.Entry, cmd string, nblocks int) []bool {
	out := make([]bool, nblocks)
	for _, chk := range cfg.GetChecksForEntry(c09Ctx(cmd), gen, e) {
		s := chk.String()
		if !strings.Contains(s, "zzblk") {
			continue
		}
		for b := 0; b < nblocks; b++ {
			if strings.Contains(s, c09Marker(b)) {
				out[b] = true
			}
		}
	}
	return out
}

type c09Mismatch struct {
	block, entry int
	cmd, state   string
	pint, ref    bool
	sig, what    string
}

type c09Outcome struct {
	loaded     bool
	loadErr    string
	panicMsg   string
	decided    int
	dontcare   map[string]int
	selected   []int // per block, decided decisions
	unselected []int
	mism       []c09Mismatch
	// obs[cmd][state][entry][block], kept for the binary replays
	obs map[string]map[string][][]bool
}

// c09EvalInproc: the deciding step for one configuration.
func c09EvalInproc(env *c09Env, blocks []c09Block, keepObs bool) (out c09Outcome) {
	out.dontcare = map[string]int{}
	out.selected = make([]int, len(blocks))
	out.unselected = make([]int, len(blocks))
	defer func() {
		if r := recover(); r != nil {
			out.panicMsg = fmt.Sprint(r)
		}
	}()
	text := c09RenderConfig(blocks, false)
	cfg, err := env.load(text)
	if err != nil {
		out.loadErr = err.Error()
		return out
	}
	out.loaded = true
	entries, err := env.discover()
	if err != nil {
		out.panicMsg = "discovery failed: " + err.Error()
		return out
	}
	gen := config.NewPrometheusGenerator(cfg, prometheus.NewRegistry())
	if keepObs {
		out.obs = map[string]map[string][][]bool{}
	}
	for _, cmd := range c09Commands {
		if keepObs {
			out.obs[cmd] = map[string][][]bool{}
		}
		for _, st := range c09StateNames {
			var table [][]bool
			for ei := range entries {
				e := entries[ei]
				e.State = c09States[st]
				obs := c09Observe(&cfg, gen, e, cmd, len(blocks))
				if keepObs {
					table = append(table, obs)
				}
				for bi := range blocks {
					exp, decided, why := c09Expect(blocks[bi], env.facts[ei], cmd, st)
					if !decided {
						out.dontcare[why]++
						continue
					}
					out.decided++
					if exp {
						out.selected[bi]++
					} else {
						out.unselected[bi]++
					}
					if obs[bi] != exp {
						out.mism = append(out.mism, c09Mismatch{block: bi, entry: ei, cmd: cmd, state: st, pint: obs[bi], ref: exp})
					}
				}
			}
			if keepObs {
				out.obs[cmd][st] = table
			}
		}
	}
	// name the failing shape of (at most a few) mismatches
	for i := range out.mism {
		if i >= 24 {
			break
		}
		m := &out.mism[i]
		m.sig, m.what = c09Classify(env, entries, &cfg, blocks, *m)
	}
	return out
}

// c09PintMatch converts one sub-block of the loaded configuration restricted to one kind.
func c09OnlyKind(m config.Match, kind string) config.Match {
	var o config.Match
	switch kind {
	case "path":
		o.Path = m.Path
	case "name":
		o.Name = m.Name
	case "kind":
		o.Kind = m.Kind
	case "label":
		o.Label = m.Label
	case "annotation":
		o.Annotation = m.Annotation
	case "for":
		o.For = m.For
	case "keep_firing_for":
		o.KeepFiringFor = m.KeepFiringFor
	case "command":
		o.Command = m.Command
	case "state":
		o.State = m.State
	}
	return o
}

// c09Classify names the failing shape of a mismatch. It does not take part in the verdict
// (which is the block-level comparison above); it localises the mismatch with pint's exported
// Match.IsMatch so that the signature says which condition kind / which combination rule fails.
func c09Classify(env *c09Env, entries []discovery.Entry, cfg *config.Config, blocks []c09Block, m c09Mismatch) (sig, what string) {
	b := blocks[m.block]
	f := env.facts[m.entry]
	e := entries[m.entry]
	e.State = c09States[m.state]
	ctx := c09Ctx(m.cmd)
	where := fmt.Sprintf("block #%d %s, rule %s %q (%s), command %s, state %s: pint applies=%v, documented semantics=%v",
		m.block, b.shape(), f.Path, f.Name, f.Kind, m.cmd, m.state, m.pint, m.ref)

	// Known shapes first: is pint's answer what the documented semantics give (a) once a sibling
	// rule's override of a group label has been written into the group's labels
	// (parser.MergeMaps writes through shared items), (b) with patterns anchored by
	// concatenation ("^"+p+"$": a top-level alternation escapes the anchors), (c) both?
	if sig, why := c09KnownShape(b, f, env.vocab, m.cmd, m.state, m.pint); sig != "" {
		return sig, where + "; " + why
	}
	if m.block >= len(cfg.Rules) {
		return "mismatch:unlocalised", where
	}
	pr := cfg.Rules[m.block]
	type sub struct {
		word string
		idx  int
		ref  c09Cond
		pint config.Match
	}
	var subs []sub
	if len(pr.Match) == len(b.Match) && len(pr.Ignore) == len(b.Ignore) {
		for i := range b.Match {
			subs = append(subs, sub{"match", i, b.Match[i], pr.Match[i]})
		}
		for i := range b.Ignore {
			subs = append(subs, sub{"ignore", i, b.Ignore[i], pr.Ignore[i]})
		}
	}
	noDefault := c09RefOpts{Anchor: c09AnchorFull}
	// knownDev: pint's answer for a (part of a) sub-block is what one of the two recognisable
	// deviations (by-concatenation anchoring, overwritten group label) gives; such a part is
	// not blamed again, the search goes on for what else differs.
	facts := append([]c09Rule{f}, c09PollutionVariants(f, env.vocab)...)
	knownDev := func(c c09Cond, pv bool) bool {
		for _, pf := range facts {
			for _, a := range []int{c09AnchorFull, c09AnchorConcat} {
				if v, d := c09RefCond(c, true, pf, m.cmd, m.state, c09RefOpts{Anchor: a}); d && v == pv {
					return true
				}
			}
		}
		return false
	}
	// 1. a single condition kind evaluated alone
	for _, s := range subs {
		for _, k := range s.ref.kinds() {
			rv, d := c09RefCond(s.ref.only(k), true, f, m.cmd, m.state, noDefault)
			if !d {
				continue
			}
			pv := c09OnlyKind(s.pint, k).IsMatch(ctx, e.Path.Name, e)
			if pv == rv || knownDev(s.ref.only(k), pv) {
				continue
			}
			detail := ""
			switch k {
			case "for":
				detail = ":op" + strings.SplitN(s.ref.For, " ", 2)[0]
			case "keep_firing_for":
				detail = ":op" + strings.SplitN(s.ref.KFF, " ", 2)[0]
			case "path", "name", "label", "annotation":
				if uv, _ := c09RefCond(s.ref.only(k), true, f, m.cmd, m.state, c09RefOpts{Anchor: c09AnchorNone}); uv == pv {
					detail = ":as-if-unanchored"
				}
				if k == "label" {
					// would the answer be right if only the rule's own labels were looked at?
					f2 := f
					f2.GroupLabels = nil
					if gv, _ := c09RefCond(s.ref.only(k), true, f2, m.cmd, m.state, noDefault); gv == pv {
						detail = ":as-if-group-labels-unseen"
					}
				}
			}
			return "condition:" + k + detail, fmt.Sprintf("%s; the %s condition of %s #%d alone: pint=%v documented=%v", where, k, s.word, s.idx, pv, rv)
		}
	}
	// 2. the conjunction inside one sub-block (no state defaulting on either side)
	for _, s := range subs {
		rv, d := c09RefCond(s.ref, true, f, m.cmd, m.state, noDefault)
		if !d {
			continue
		}
		if pv := s.pint.IsMatch(ctx, e.Path.Name, e); pv != rv && !knownDev(s.ref, pv) {
			return "conjunction:" + s.word + "{" + strings.Join(s.ref.kinds(), ",") + "}",
				fmt.Sprintf("%s; every condition of %s #%d alone agrees but the sub-block as a whole: pint=%v documented=%v", where, s.word, s.idx, pv, rv)
		}
	}
	// 3. the combination of the sub-blocks / state defaulting, described with the answers pint
	// itself gives for each sub-block (without state defaulting)
	anyIgnore, anyMatch, matchNoState := false, false, len(b.Match) == 0
	subTrue := func(word string, i int, c c09Cond) bool {
		for _, s := range subs {
			if s.word == word && s.idx == i {
				return s.pint.IsMatch(ctx, e.Path.Name, e)
			}
		}
		v, _ := c09RefCond(c, true, f, m.cmd, m.state, noDefault)
		return v
	}
	for i, ig := range b.Ignore {
		if subTrue("ignore", i, ig) {
			anyIgnore = true
		}
	}
	for i, mt := range b.Match {
		if subTrue("match", i, mt) {
			anyMatch = true
			if mt.State == nil {
				matchNoState = true
			}
		}
	}
	cnt := func(n int) string {
		if n >= 2 {
			return "2+"
		}
		return fmt.Sprint(n)
	}
	inDefault := c09StateIn(c09DefaultStates(m.cmd), m.state)
	return fmt.Sprintf("combination:match=%s:ignore=%s:some-ignore-true=%v:some-match-true=%v:default-states-decide=%v:state-in-default=%v:pint-applies=%v",
		cnt(len(b.Match)), cnt(len(b.Ignore)), anyIgnore, anyMatch, matchNoState, inDefault, m.pint), where + "; every sub-block evaluated alone agrees with the documentation, the combination does not"
}

// c09Minimise shrinks a violating configuration: keep only the block, then drop sub-blocks
// and single conditions while the same decision still mismatches.
func c09Minimise(env *c09Env, blocks []c09Block, m c09Mismatch) ([]c09Block, c09Mismatch) {
	still := func(bs []c09Block, bi int) bool {
		exp, decided, _ := c09Expect(bs[bi], env.facts[m.entry], m.cmd, m.state)
		if !decided || exp != m.ref {
			return false
		}
		// the whole evaluation is repeated in the original order: what pint answers for one
		// rule may depend on which rules were looked at before (group-label finding)
		o := c09EvalInproc(env, bs, true)
		if !o.loaded || o.panicMsg != "" || o.obs == nil {
			return false
		}
		return o.obs[m.cmd][m.state][m.entry][bi] == m.pint
	}
	cur := []c09Block{blocks[m.block]}
	if !still(cur, 0) {
		return blocks, m
	}
	m.block = 0
	clone := func(b c09Block) c09Block {
		return c09Block{Match: append([]c09Cond(nil), b.Match...), Ignore: append([]c09Cond(nil), b.Ignore...)}
	}
	for changed := true; changed; {
		changed = false
		b := cur[0]
		for i := range b.Match {
			t := clone(b)
			t.Match = append(t.Match[:i], t.Match[i+1:]...)
			if still([]c09Block{t}, 0) {
				cur, changed = []c09Block{t}, true
				break
			}
		}
		if changed {
			continue
		}
		for i := range b.Ignore {
			t := clone(b)
			t.Ignore = append(t.Ignore[:i], t.Ignore[i+1:]...)
			if still([]c09Block{t}, 0) {
				cur, changed = []c09Block{t}, true
				break
			}
		}
		if changed {
			continue
		}
	outer:
		for i := range b.Match {
			for _, k := range b.Match[i].kinds() {
				t := clone(b)
				t.Match[i] = t.Match[i].without(k)
				if still([]c09Block{t}, 0) {
					cur, changed = []c09Block{t}, true
					break outer
				}
			}
		}
		if changed {
			continue
		}
	outer2:
		for i := range b.Ignore {
			for _, k := range b.Ignore[i].kinds() {
				t := clone(b)
				t.Ignore[i] = t.Ignore[i].without(k)
				if len(t.Ignore[i].kinds()) == 0 {
					continue
				}
				if still([]c09Block{t}, 0) {
					cur, changed = []c09Block{t}, true
					break outer2
				}
			}
		}
	}
	return cur, m
}

func (env *c09Env) violationFiles(cfgText string) map[string][]byte {
	files := map[string][]byte{"pint.hcl": []byte(cfgText)}
	for n, d := range env.files {
		files[n] = []byte(d)
	}
	return files
}

// c09Report turns the mismatches of one configuration into violations: one per signature.
func c09Report(run *core.Run, env *c09Env, cs c09Case, o c09Outcome, minimised map[string]int) {
	if len(o.mism) == 0 {
		return
	}
	run.Count("mismatching_decisions", int64(len(o.mism)))
	seen := map[string]bool{}
	for _, m := range o.mism {
		if m.sig == "" || seen[m.sig] {
			continue
		}
		seen[m.sig] = true
		n := 0
		for _, x := range o.mism {
			if x.sig == m.sig {
				n++
			}
		}
		blocks, mm := cs.Blocks, m
		what := m.what
		if minimised[m.sig] < 2 { // the core keeps three replays per signature; shrinking more is wasted work
			minimised[m.sig]++
			blocks, mm = c09Minimise(env, cs.Blocks, m)
			if len(blocks) != len(cs.Blocks) || blocks[0].shape() != cs.Blocks[m.block].shape() {
				what += fmt.Sprintf(" [minimised to %s]", blocks[mm.block].shape())
			}
		}
		v := cs
		v.Blocks = blocks
		v.Config = c09RenderConfig(blocks, false)
		f := env.facts[m.entry]
		v.Focus = &c09Focus{Block: mm.block, Path: f.Path, Name: f.Name, Cmd: m.cmd, State: m.state, Pint: m.pint, Ref: m.ref}
		run.Violate(core.Violation{
			Sig:   m.sig,
			What:  fmt.Sprintf("%s (%d of this configuration's classified mismatching decisions share the signature; %d mismatches in all)", what, n, len(o.mism)),
			Case:  v,
			Files: env.violationFiles(v.Config),
		})
	}
}

func c09LoadErrClass(s string) string {
	switch {
	case strings.Contains(s, "ignore block must have at least one condition"):
		return "ignore block must have at least one condition"
	}
	if i := strings.LastIndex(s, ": "); i >= 0 {
		s = s[i+2:]
	}
	return core.Trunc(s, 80)
}

func runC09(c *core.Ctx) int {
	run := core.NewRun(c)
	env, err := c09Setup(c)
	if err != nil {
		fmt.Println("C09 setup failed:", err)
		run.Inconclusive("setup: " + err.Error())
		return run.Finish("exploration", "setup failed", core.Floors{MinEvaluations: 1, MinNontrivial: 1})
	}
	if c.Replay != "" {
		return c09Replay(c, env)
	}

	// ---- case list: a function of (seed, tier) only ----
	var cases []c09Case
	for i, bs := range c09DocExamples() {
		cases = append(cases, c09Case{Mode: "inproc", Origin: fmt.Sprintf("doc-example:%d", i), Blocks: bs})
	}
	draws := c.N(1, 12)
	for d := 0; d < draws; d++ {
		for mask := 0; mask < 1<<len(c09Kinds); mask++ {
			g := &c09Gen{r: c.Rand("c09-exh", d*1024+mask), vocab: env.vocab, pTrue: 85, pAlt: 12}
			t := g.target()
			cases = append(cases, c09Case{Mode: "inproc", Origin: fmt.Sprintf("exhaustive-match:%03x:%d", mask, d),
				Blocks: []c09Block{{Match: []c09Cond{g.cond(mask, t, false)}}}})
			if mask != 0 {
				g.pTrue = 80
				cases = append(cases, c09Case{Mode: "inproc", Origin: fmt.Sprintf("exhaustive-ignore:%03x:%d", mask, d),
					Blocks: []c09Block{{Ignore: []c09Cond{g.cond(mask, t, true)}}}})
			}
		}
	}
	nRand := c.N(600, 12000)
	firstRandom := len(cases)
	for i := 0; i < nRand; i++ {
		g := &c09Gen{r: c.Rand("c09-rand", i), vocab: env.vocab, pTrue: 85, pAlt: 12}
		cases = append(cases, c09Case{Mode: "inproc", Origin: fmt.Sprintf("random:%d", i), Blocks: g.randBlocks()})
	}
	nLint, nCI, nWatch := c.N(10, 60), c.N(10, 60), c.N(4, 16)

	// ---- in-process: every decision of every configuration ----
	outcomes := make([]c09Outcome, len(cases))
	c09Phase("generated")
	core.Parallel(len(cases), 16, func(i int) {
		keep := i >= firstRandom && i < firstRandom+3*(nLint+nCI+nWatch) || i < 10
		outcomes[i] = c09EvalInproc(env, cases[i].Blocks, keep)
	})
	c09Phase("inproc done")
	var binCandidates []int
	minimised := map[string]int{}
	for i, o := range outcomes {
		cs := cases[i]
		cs.Config = c09RenderConfig(cs.Blocks, false)
		run.Count("configurations", 1)
		switch {
		case o.panicMsg != "":
			run.Eval(1)
			run.Inconclusive("panic while evaluating a configuration in-process (C18 territory): " + core.Trunc(o.panicMsg, 200) + " config: " + core.Trunc(cs.Config, 300))
			continue
		case !o.loaded:
			run.Count("configs_rejected_at_load", 1)
			run.Distinct("load_rejections", c09LoadErrClass(o.loadErr))
			continue
		}
		run.Count("configs_loaded", 1)
		run.Eval(o.decided)
		for why, n := range o.dontcare {
			run.Count("dontcare_"+why, int64(n))
		}
		for bi, b := range cs.Blocks {
			run.Count("decisions_block_applies", int64(o.selected[bi]))
			run.Count("decisions_block_does_not_apply", int64(o.unselected[bi]))
			if o.selected[bi] > 0 && o.unselected[bi] > 0 {
				run.Nontrivial(b.shape())
			}
			for _, sb := range append(append([]c09Cond{}, b.Match...), b.Ignore...) {
				if len(sb.alternationFields()) > 0 {
					run.Count("subblocks_with_top_level_alternation", 1)
				}
			}
		}
		c09Report(run, env, cs, o, minimised)
		if (i >= firstRandom || i < 10) && o.obs != nil {
			binCandidates = append(binCandidates, i)
		}
		if i%(len(cases)/6+1) == 3 {
			run.Sample(map[string]any{"origin": cs.Origin, "config": core.Trunc(strings.TrimPrefix(cs.Config, c09Header), 700),
				"decided": o.decided, "applies": o.selected, "does_not_apply": o.unselected, "mismatches": len(o.mism)})
		}
	}
	c09Phase("reported")
	c09Coverage(run, env, cases, outcomes)
	c09Phase("coverage")

	// ---- binary replays of a sample ----
	type binJob struct {
		idx  int
		mode string
		seed int64
	}
	var jobs []binJob
	take := func(mode string, n int) {
		for k := 0; k < n && len(binCandidates) > 0; k++ {
			idx := binCandidates[0]
			binCandidates = binCandidates[1:]
			jobs = append(jobs, binJob{idx, mode, c.Rand("c09-ci", idx).Int63()})
		}
	}
	// interleave so that the doc examples (first candidates) go to different modes
	for round := 0; round < 3; round++ {
		take("lint", (nLint+2)/3)
		take("ci", (nCI+2)/3)
		take("watch", (nWatch+2)/3)
	}
	core.Parallel(len(jobs), 16, func(j int) {
		jb := jobs[j]
		cs := cases[jb.idx]
		cs.Mode, cs.CISeed = jb.mode, jb.seed
		// every binary run also carries blocks that depend on nothing but the command, so that
		// the command each pint sub-command puts into the context is observed in every run
		// (appended: the indices of the configuration's own blocks stay what they were in-process)
		cs.Blocks = append(append([]c09Block(nil), cs.Blocks...), c09CommandProbes()...)
		cs.Config = c09RenderConfig(cs.Blocks, jb.mode == "watch")
		br := c09RunBinary(c, env, cs, &outcomes[jb.idx])
		c09ReportBinary(run, env, cs, br)
	})

	c09Phase("binary done")
	run.Assume("the marker check `name \"zzblkNNq\" {}` stands for \"the checks of the block\": all checks of a block share the block's match/ignore lists (config.newParsedRule), so one check per block observes the block's selection")
	run.Assume("don't-care (not compared): removed rules (no configurable check runs on them, nothing to observe); an ignore{} without state under `ci` on an unmodified rule (the documentation can be read both ways)")
	run.Assume("label conditions are evaluated on the rule's labels overlaid on the group's labels (Prometheus semantics; property statement), not on the rule's own labels only as one sentence of the documentation says for recording rules")
	return run.Finish("exploration",
		"configurations: the documentation's examples; for every subset of the nine condition kinds (path, name, kind, label, annotation, for, keep_firing_for, command, state) one block with a single match{} and one block with a single ignore{} using exactly that subset (values drawn so that they hold for a chosen target rule/command/state with probability ~0.85, 12% of regexps with a top-level `|`); random configurations of 1-4 blocks with 0-2 match and 0-2 ignore sub-blocks. Each configuration is loaded with the real config.Load and every block is decided for 24 rules x 3 commands x 5 states through the real Config.GetChecksForEntry; a sample is replayed through the pint binary (lint, ci in a scratch git repository, watch) using the H1 dispatch dump. Oracle: independent reference evaluator of the documented semantics. Evaluations = compared (block, rule, command, state) decisions. Non-trivial = block for which the vocabulary x commands x states contains both a decision 'applies' and a decision 'does not apply'; distinct by the block's condition-subset signature.",
		core.Floors{MinEvaluations: int64(c.N(300000, 8000000)), MinNontrivial: c.N(300, 600), MaxInconclusiveFrac: 0.001})
}

// c09Coverage records which outcome every condition kind had (reference view) so the evidence
// shows that both truth values of every kind, every operator and every state/command were met.
func c09Coverage(run *core.Run, env *c09Env, cases []c09Case, outcomes []c09Outcome) {
	o := c09RefOpts{Anchor: c09AnchorFull}
	for i, cs := range cases {
		if !outcomes[i].loaded {
			continue
		}
		for _, b := range cs.Blocks {
			for wi, list := range [][]c09Cond{b.Match, b.Ignore} {
				word := []string{"match", "ignore"}[wi]
				for _, sb := range list {
					for _, k := range sb.kinds() {
						tv, fv := false, false
						for _, f := range env.facts {
							for _, cmd := range c09Commands {
								for _, st := range c09StateNames[:4] {
									if v, d := c09RefKind(k, sb, wi == 1, f, cmd, st, o); d {
										if v {
											tv = true
										} else {
											fv = true
										}
									}
								}
								if k != "command" && k != "state" {
									break
								}
							}
						}
						key := word + ":" + k
						switch k {
						case "for":
							key += "(" + strings.SplitN(sb.For, " ", 2)[0] + ")"
						case "keep_firing_for":
							key += "(" + strings.SplitN(sb.KFF, " ", 2)[0] + ")"
						}
						if tv {
							run.Distinct("condition_outcomes", key+" true")
						}
						if fv {
							run.Distinct("condition_outcomes", key+" false")
						}
					}
				}
			}
		}
	}
	keys := run.DistinctKeys("condition_outcomes")
	sort.Strings(keys)
	run.Extra("condition_outcomes_list", keys)
}

func c09Replay(c *core.Ctx, env *c09Env) int {
	var cs c09Case
	if err := core.LoadCase(c.Replay, &cs); err != nil {
		fmt.Println("cannot load case:", err)
		return core.ExitInconclusive
	}
	o := c09EvalInproc(env, cs.Blocks, true)
	fmt.Printf("REPLAY mode=%s origin=%s loaded=%v decided=%d in-process mismatches=%d\n", cs.Mode, cs.Origin, o.loaded, o.decided, len(o.mism))
	if o.panicMsg != "" {
		fmt.Println("REPLAY panic:", o.panicMsg)
	}
	if !o.loaded {
		fmt.Println("REPLAY configuration rejected at load:", o.loadErr)
	}
	bad := 0
	for i, m := range o.mism {
		bad++
		if i < 8 {
			fmt.Println("REPLAY violated:", m.sig, "-", m.what)
		}
	}
	if cs.Mode != "inproc" && cs.Mode != "" && o.loaded {
		cs.Config = c09RenderConfig(cs.Blocks, cs.Mode == "watch")
		br := c09RunBinary(c, env, cs, &o)
		fmt.Printf("REPLAY binary mode=%s inconclusive=%q decisions=%d mismatches=%d\n", cs.Mode, br.inconc, br.decided, len(br.mism))
		for i, m := range br.mism {
			bad++
			if i < 8 {
				fmt.Println("REPLAY violated:", m.sig, "-", m.what)
			}
		}
	}
	if bad > 0 {
		fmt.Printf("REPLAY verdict: VIOLATED (%d mismatching decisions)\n", bad)
		return 1
	}
	fmt.Println("REPLAY verdict: held")
	return 0
}

var c09T0 = time.Now()

// c09Phase prints phase timing to stderr when C09_TIMING is set (diagnostics only).
func c09Phase(name string) {
	if os.Getenv("C09_TIMING") != "" {
		fmt.Fprintf(os.Stderr, "c09 phase %-14s %6.1fs\n", name, time.Since(c09T0).Seconds())
	}
}
