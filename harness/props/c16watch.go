package props

import (
	"bufio"
	"encoding/json"
	"fmt"
	"os"
	"os/exec"
	"path/filepath"
	"strings"
	"syscall"
	"time"

	"github.com/cloudflare/pint/verif/core"
	"github.com/cloudflare/pint/verif/promfake"
)

// A long-lived pint process (`pint watch`) and a metric that appears while it runs. The statement ("never reports a
// selector as missing when an instant query for that selector currently returns series") is about what the server
// returns NOW; pint may answer from its query cache, whose documented lifetime for an instant query is 5 minutes, swept
// every 2 minutes. Restated as bounded progress: an iteration that starts more than
//     5 min (cache lifetime) + 2 min (sweep period) + one watch interval + 30 s
// after the metric appeared must no longer report it as missing. Iterations before that bound are not judged. The first
// iterations (before the metric exists) must report it, otherwise the scenario observed nothing.
// Thorough tier only: one run takes about nine minutes and runs beside the other cases.

const (
	c16WatchInterval = 20 * time.Second
	c16AppearAfter   = 50 * time.Second
	c16StaleBound    = 5*time.Minute + 2*time.Minute + c16WatchInterval + 30*time.Second
	c16WatchRun      = c16AppearAfter + c16StaleBound + 3*c16WatchInterval
)

type c16WatchOut struct {
	viol          []core.Violation
	inconc        string
	iterations    int
	judgedAfter   int
	reportedEarly int
	instantAsked  int
}

func c16Watch(c *core.Ctx) c16WatchOut {
	out := c16WatchOut{}
	start := time.Now()
	mk := func(withLate bool) *promfake.DB {
		db := &promfake.DB{}
		from, to := start.Add(-2*time.Hour), start.Add(c16WatchRun+10*time.Minute)
		db.Series = append(db.Series, promfake.SeriesAt(map[string]string{"__name__": "up", "job": "a", "instance": "i1"}, from, to, 30*time.Second, 1))
		db.Series = append(db.Series, promfake.SeriesAt(map[string]string{"__name__": "steady_metric", "job": "a", "instance": "i1"}, from, to, 30*time.Second, 1))
		if withLate {
			db.Series = append(db.Series, promfake.SeriesAt(map[string]string{"__name__": "late_metric", "job": "a", "instance": "i1"}, start.Add(c16AppearAfter-20*time.Second), to, 15*time.Second, 1))
		}
		return db
	}
	srv := promfake.NewServer(mk(false), time.Now)
	defer srv.Close()
	dir, err := os.MkdirTemp(c.Scratch, "c16watch-")
	if err != nil {
		out.inconc = err.Error()
		return out
	}
	defer os.RemoveAll(dir)
	_ = os.MkdirAll(filepath.Join(dir, "rules"), 0o755)
	rules := "groups:\n- name: g\n  rules:\n  - alert: Late\n    expr: late_metric > 0\n  - alert: Steady\n    expr: steady_metric > 0\n"
	cfg := fmt.Sprintf("prometheus \"prom\" {\n  uri = %q\n  timeout = \"30s\"\n}\ncheck \"promql/series\" {\n  lookbackRange = \"2h\"\n  lookbackStep = \"5m\"\n}\nchecks {\n  enabled = [\"promql/series\"]\n}\n", srv.URL)
	_ = os.WriteFile(filepath.Join(dir, "rules", "r.yml"), []byte(rules), 0o644)
	_ = os.WriteFile(filepath.Join(dir, "pint.hcl"), []byte(cfg), 0o644)
	dump := filepath.Join(dir, "dump.jsonl")
	cmd := exec.Command(c.Pint, "-c", "pint.hcl", "-l", "error", "--no-color", "watch", "--interval", c16WatchInterval.String(), "--listen", "127.0.0.1:0", "glob", "rules")
	cmd.Dir = dir
	cmd.Env = append(os.Environ(), "PINT_VERIF_DUMP="+dump)
	var stderr strings.Builder
	cmd.Stderr = &stderr
	if err := cmd.Start(); err != nil {
		out.inconc = "cannot start pint watch: " + err.Error()
		return out
	}
	time.Sleep(time.Until(start.Add(c16AppearAfter)))
	srv.SetDB(mk(true))
	appeared := time.Now()
	time.Sleep(time.Until(start.Add(c16WatchRun)))
	_ = cmd.Process.Signal(syscall.SIGTERM)
	done := make(chan error, 1)
	go func() { done <- cmd.Wait() }()
	select {
	case <-done:
	case <-time.After(30 * time.Second):
		_ = cmd.Process.Kill()
		<-done
	}
	if strings.Contains(stderr.String(), "panic:") || strings.Contains(stderr.String(), "fatal error:") {
		out.viol = append(out.viol, core.Violation{Sig: "watch-crash", What: "pint watch crashed: " + core.Trunc(stderr.String(), 400)})
		return out
	}
	for _, rq := range srv.Log {
		if rq.Path == "query" && strings.Contains(rq.Query, "late_metric") {
			out.instantAsked++
		}
	}
	f, err := os.Open(dump)
	if err != nil {
		out.inconc = "pint watch wrote no H1 dump: " + core.Trunc(stderr.String(), 300)
		return out
	}
	defer f.Close()
	type rec struct {
		Ts       int64  `json:"ts"`
		Kind     string `json:"kind"`
		Name     string `json:"name"`
		RuleName string `json:"rule_name"`
		Reporter string `json:"reporter"`
		Summary  string `json:"summary"`
	}
	type iter struct {
		firstDispatch int64
		lateMissing   bool
		seen          map[string]bool
	}
	var iters []*iter
	var cur *iter
	sc := bufio.NewScanner(f)
	sc.Buffer(make([]byte, 1<<20), 1<<26)
	for sc.Scan() {
		var rc rec
		if json.Unmarshal(sc.Bytes(), &rc) != nil || rc.Ts == 0 {
			continue
		}
		switch rc.Kind {
		case "dispatch":
			key := rc.Name + "|" + rc.Reporter
			if cur == nil || cur.seen[key] {
				cur = &iter{firstDispatch: rc.Ts, seen: map[string]bool{}}
				iters = append(iters, cur)
			}
			cur.seen[key] = true
		case "arrival":
			if cur != nil && rc.Reporter == "promql/series" && rc.RuleName == "Late" {
				cur.lateMissing = true
			}
		}
	}
	out.iterations = len(iters)
	if len(iters) < 5 {
		out.inconc = fmt.Sprintf("only %d iterations observed", len(iters))
		return out
	}
	bound := appeared.Add(c16StaleBound).UnixNano()
	for k, it := range iters {
		if it.firstDispatch < appeared.UnixNano() && it.lateMissing {
			out.reportedEarly++
		}
		if it.firstDispatch > bound {
			out.judgedAfter++
			if it.lateMissing {
				out.viol = append(out.viol, core.Violation{
					Sig:   "reported-missing-but-present:watch:stale-beyond-cache-lifetime",
					What:  fmt.Sprintf("`pint watch` iteration %d started %.0f s after late_metric appeared on the server (cache lifetime 5 min + sweep 2 min + interval + 30 s = %.0f s) and promql/series still reports the selector as missing; instant queries for it seen by the server during the run: %d", k+1, float64(it.firstDispatch-appeared.UnixNano())/1e9, c16StaleBound.Seconds(), out.instantAsked),
					Case:  map[string]any{"scenario": "watch", "interval": c16WatchInterval.String(), "appear_after": c16AppearAfter.String(), "bound": c16StaleBound.String()},
					Files: map[string][]byte{"rules/r.yml": []byte(rules), "pint.hcl": []byte(cfg), "stderr.txt": []byte(stderr.String())},
				})
				break
			}
		}
	}
	if out.reportedEarly == 0 {
		out.inconc = "the metric was never reported missing before it appeared: the scenario observed nothing"
	}
	if out.judgedAfter == 0 && out.inconc == "" {
		out.inconc = "no iteration started after the staleness bound"
	}
	return out
}
