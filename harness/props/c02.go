package props

import (
	"encoding/json"
	"encoding/xml"
	"fmt"
	"os"
	"path/filepath"
	"strings"
	"time"

	"github.com/cloudflare/pint/verif/core"
	"github.com/cloudflare/pint/verif/gen"
)

func init() { Registry["C02"] = runC02 }

type c02Case struct {
	Origin  string   `json:"origin"`
	Input   string   `json:"input"`
	Relaxed bool     `json:"relaxed"`
	Thanos  bool     `json:"thanos"`
	Team    bool     `json:"teamcity"`
	Race    bool     `json:"race"`
	Flags   []string `json:"flags,omitempty"` // extra `pint lint` flags (--require-owner, --show-duplicates)
}

func c02Config(relaxed, thanos bool) string {
	var p []string
	if relaxed {
		p = append(p, `  relaxed = [".*"]`)
	}
	if thanos {
		p = append(p, `  schema = "thanos"`)
	}
	if len(p) == 0 {
		return ""
	}
	return "parser {\n" + strings.Join(p, "\n") + "\n}\n"
}

// lineCountGenerous: number of lines under the most generous reading of "line break".
func lineCountGenerous(s string) int {
	n := countLines(s)
	alt := s
	alt = strings.ReplaceAll(alt, "\r\n", "\n")
	alt = strings.ReplaceAll(alt, "\r", "\n")
	alt = strings.ReplaceAll(alt, "\u0085", "\n")
	alt = strings.ReplaceAll(alt, "\u2028", "\n")
	alt = strings.ReplaceAll(alt, "\u2029", "\n")
	if m := countLines(alt); m > n {
		n = m
	}
	return n
}

// teamcityWellFormed checks every ##teamcity line: attributes are name='value' with | escapes.
func teamcityWellFormed(stderr string) (blocks int, err error) {
	lines := strings.Split(stderr, "\n")
	for i := 0; i < len(lines); i++ {
		l := lines[i]
		if !strings.HasPrefix(l, "##teamcity[") {
			if strings.Contains(l, "##teamcity[") {
				return blocks, fmt.Errorf("teamcity message not at line start: %q", core.Trunc(l, 200))
			}
			continue
		}
		body := strings.TrimPrefix(l, "##teamcity[")
		sp := strings.IndexByte(body, ' ')
		if sp < 0 {
			return blocks, fmt.Errorf("no attributes: %q", core.Trunc(l, 200))
		}
		name := body[:sp]
		rest := body[sp:]
		for {
			rest = strings.TrimLeft(rest, " ")
			if rest == "]" {
				break
			}
			eq := strings.Index(rest, "='")
			if eq < 0 {
				return blocks, fmt.Errorf("malformed attribute in %q", core.Trunc(l, 300))
			}
			j := eq + 2
			closed := false
			for j < len(rest) {
				c := rest[j]
				if c == '|' {
					j += 2
					continue
				}
				if c == '\'' {
					closed = true
					j++
					break
				}
				if c == '[' || c == ']' {
					return blocks, fmt.Errorf("unescaped %q inside value in %q", string(c), core.Trunc(l, 300))
				}
				j++
			}
			if !closed {
				return blocks, fmt.Errorf("value not terminated on its line (raw newline or quote problem): %q", core.Trunc(l, 300))
			}
			rest = rest[j:]
			if rest == "" {
				return blocks, fmt.Errorf("message not closed: %q", core.Trunc(l, 300))
			}
		}
		if name == "testStarted" {
			blocks++
		}
	}
	return blocks, nil
}

type c02Outcome struct {
	viol    []core.Violation
	reports int
	key     string
	timeout bool
}

func c02Check(c *core.Ctx, cs c02Case) c02Outcome {
	out := c02Outcome{}
	files := map[string]string{"rules.yml": cs.Input}
	o := LintOpts{
		Config:   c02Config(cs.Relaxed, cs.Thanos),
		Global:   []string{"--offline"},
		TeamCity: cs.Team,
		WantJSON: true, WantCS: true, WantDump: true,
		Race:    cs.Race,
		Args:    cs.Flags,
		Timeout: 20 * time.Second,
	}
	res := RunLint(c, files, o)
	if res.Proc.TimedOut {
		// decide a hang by re-running this single input alone with a long limit
		o.Timeout = 120 * time.Second
		res = RunLint(c, files, o)
		if res.Proc.TimedOut {
			out.viol = append(out.viol, core.Violation{Sig: "hang", What: "pint lint did not terminate within 120s", Case: cs, Files: map[string][]byte{"rules.yml": []byte(cs.Input), "stderr.txt": []byte(res.Proc.Stderr)}})
			return out
		}
	}
	mk := func(sig, what string) {
		out.viol = append(out.viol, core.Violation{Sig: sig, What: what + " | " + res.CmdLine, Case: cs,
			Files: map[string][]byte{"rules.yml": []byte(cs.Input), "stderr.txt": []byte(res.Proc.Stderr), "pint.hcl": []byte(o.Config)}})
	}
	if res.Proc.Crash != "" {
		mk("crash:"+res.Proc.Crash+":"+res.Proc.CrashSig, "pint lint crashed ("+res.Proc.Crash+") in "+res.Proc.CrashSig)
		return out
	}
	if res.Proc.Exit != 0 && res.Proc.Exit != 1 {
		mk(fmt.Sprintf("exit:%d", res.Proc.Exit), fmt.Sprintf("unexpected exit status %d", res.Proc.Exit))
		return out
	}
	if !res.JSONPresent {
		// run did not complete linting (e.g. "no matching files") - only acceptable with an error message
		if res.Proc.Exit == 0 {
			mk("no-json", "exit 0 without a JSON report")
		}
		return out
	}
	if res.JSONErr != nil {
		mk("json-unparsable", "JSON report does not parse: "+res.JSONErr.Error())
		return out
	}
	n := lineCountGenerous(cs.Input)
	for _, r := range res.JSON {
		if len(r.Lines) == 0 {
			mk("json-empty-lines:"+r.Reporter, "report without lines: "+r.Problem)
			continue
		}
		for _, l := range r.Lines {
			if l < 1 || l > n {
				mk("line-out-of-file:"+r.Reporter, fmt.Sprintf("report %q (%s) line %d outside [1,%d]", r.Problem, r.Reporter, l, n))
				break
			}
		}
	}
	// checkstyle must be XML
	var anyXML struct {
		XMLName xml.Name
		Files   []struct {
			Errors []struct {
				Line string `xml:"line,attr"`
			} `xml:"error"`
		} `xml:"file"`
	}
	if err := xml.Unmarshal(res.CS, &anyXML); err != nil {
		mk("checkstyle-unparsable", "checkstyle output is not XML: "+err.Error())
	} else {
		cnt := 0
		for _, f := range anyXML.Files {
			cnt += len(f.Errors)
		}
		if cnt != len(res.JSON) {
			mk("checkstyle-count", fmt.Sprintf("checkstyle has %d errors, JSON %d reports", cnt, len(res.JSON)))
		}
	}
	if cs.Team {
		blocks, err := teamcityWellFormed(res.Proc.Stderr)
		if err != nil {
			mk("teamcity-malformed", err.Error())
		} else if blocks != len(res.JSON) {
			mk("teamcity-count", fmt.Sprintf("teamcity has %d tests, JSON %d reports", blocks, len(res.JSON)))
		}
	}
	if res.DumpErr != nil || res.Dump == nil {
		mk("dump-missing", fmt.Sprintf("hook dump unreadable: %v", res.DumpErr))
		return out
	}
	d := res.Dump
	if len(d.Reports) != len(res.JSON) {
		mk("dump-json-count", fmt.Sprintf("dump has %d reports, JSON %d", len(d.Reports), len(res.JSON)))
	}
	for _, r := range d.Reports {
		for _, dg := range r.Diagnostics {
			for _, p := range dg.Pos {
				if p.Line < 1 || p.Line > n {
					mk("diag-line-out-of-file:"+r.Reporter, fmt.Sprintf("diagnostic of %q (%s) at line %d outside [1,%d]", r.Summary, r.Reporter, p.Line, n))
				}
			}
			if len(dg.Pos) == 0 {
				mk("diag-empty-pos:"+r.Reporter, fmt.Sprintf("diagnostic of %q (%s) has no position", r.Summary, r.Reporter))
			}
		}
	}
	// totality: every erroneous entry is reported, every clean entry is dispatched
	for _, e := range d.Entries {
		switch {
		case e.Rule.Err != "":
			found := false
			for _, r := range d.Reports {
				if r.Reporter == "yaml/parse" && r.First == e.Rule.ErrLine && strings.Contains(r.Summary, e.Rule.Err) {
					found = true
				}
			}
			if !found {
				mk("rule-error-not-reported", fmt.Sprintf("rule error %q at line %d has no report", e.Rule.Err, e.Rule.ErrLine))
			}
		case e.PathError != "":
			found := false
			for _, r := range d.Reports {
				if strings.HasPrefix(e.PathError, "error at line ") {
					rest := e.PathError[len("error at line "):]
					if i := strings.Index(rest, ": "); i >= 0 {
						if r.Reporter == "yaml/parse" && fmt.Sprint(r.First) == rest[:i] && r.Summary == rest[i+2:] {
							found = true
						}
					}
				}
				if r.Summary == e.PathError {
					found = true
				}
				for _, dg := range r.Diagnostics {
					if dg.Message == e.PathError {
						found = true
					}
				}
			}
			if !found {
				mk("path-error-not-reported", fmt.Sprintf("path error %q has no report", e.PathError))
			}
		default:
			if len(e.DisabledChecks) == 0 && len(e.Rule.Comments) == 0 {
				found := false
				for _, dp := range d.Dispatch {
					if dp.Path == e.Path && dp.First == e.Rule.First {
						found = true
						break
					}
				}
				if !found {
					mk("rule-not-checked", fmt.Sprintf("rule %q at lines %d-%d reached no check", e.Rule.Name, e.Rule.First, e.Rule.Last))
				}
			}
		}
	}
	out.reports = len(res.JSON)
	if out.reports > 0 {
		reps := map[string]bool{}
		for _, r := range res.JSON {
			k := r.Reporter
			if r.Reporter == "yaml/parse" {
				k += ":" + errClass(r.Problem)
			}
			reps[k] = true
		}
		var ks []string
		for k := range reps {
			ks = append(ks, k)
		}
		out.key = fmt.Sprintf("relaxed=%v thanos=%v %s", cs.Relaxed, cs.Thanos, strings.Join(sortedStrings(ks), ","))
	}
	return out
}

// errClass abstracts a parse error message (digits and quoted parts removed).
func errClass(s string) string {
	var b strings.Builder
	inq := false
	for _, c := range s {
		switch {
		case c == '`' || c == '"' || c == '\'':
			inq = !inq
		case inq:
		case c >= '0' && c <= '9':
		default:
			b.WriteRune(c)
		}
	}
	out := b.String()
	if len(out) > 60 {
		out = out[:60]
	}
	return out
}

func c02Inputs(c *core.Ctx, n int) (inputs []string, origins []string) {
	add := func(origin, s string) {
		if len(s) > 64*1024 {
			s = s[:64*1024]
		}
		inputs = append(inputs, s)
		origins = append(origins, origin)
	}
	for _, cf := range gen.ReadCorpus(c.Repo, gen.IsYAMLName) {
		add("corpus:"+cf.Test+":"+cf.Name, cf.Data)
	}
	for i, s := range gen.StressDocs() {
		add(fmt.Sprintf("stress:%d", i), s)
	}
	base := len(inputs)
	hostile := gen.HostileExprs()
	i := 0
	for len(inputs) < n {
		r := c.Rand("c02", i)
		i++
		switch r.Intn(10) {
		case 0, 1:
			o := gen.DefaultGenOpts()
			o.Escapes, o.BlankInside, o.IndentInd, o.CRLF = true, true, true, true
			d := gen.RandDoc(r, o)
			add("randdoc", d.Render().Text)
		case 2:
			o := gen.DefaultGenOpts()
			o.Escapes, o.BlankInside, o.IndentInd = true, true, true
			o.Exprs = hostile
			d := gen.RandDoc(r, o)
			add("randdoc-hostile-expr", d.Render().Text)
		case 3, 4, 5:
			sd := gen.RandSchemaDoc(r.Int63(), 3)
			add("schema:"+strings.Join(sd.Faults, "+"), sd.Text)
		case 6:
			sd := gen.RandSchemaDoc(r.Int63(), 3)
			add("schema-mut", gen.Mutate(r, sd.Text, 1+r.Intn(4)))
		case 7:
			o := gen.DefaultGenOpts()
			o.Escapes, o.BlankInside, o.IndentInd, o.CRLF = true, true, true, true
			d := gen.RandDoc(r, o)
			add("randdoc-mut", gen.Mutate(r, d.Render().Text, 1+r.Intn(4)))
		default:
			src := inputs[r.Intn(base)]
			add("corpus-mut", gen.Mutate(r, src, 1+r.Intn(5)))
		}
	}
	return inputs, origins
}

func runC02(c *core.Ctx) int {
	run := core.NewRun(c)
	if c.Replay != "" {
		var cs c02Case
		if err := core.LoadCase(c.Replay, &cs); err != nil {
			fmt.Println("cannot load case:", err)
			return core.ExitInconclusive
		}
		if b, err := os.ReadFile(filepath.Join(c.Replay, "rules.yml")); err == nil {
			cs.Input = string(b)
		}
		o := c02Check(c, cs)
		for _, v := range o.viol {
			fmt.Printf("REPLAY violated: %s: %s\n", v.Sig, v.What)
		}
		if len(o.viol) == 0 {
			fmt.Println("REPLAY held")
			return 0
		}
		return 1
	}
	nInputs := c.N(1200, 25000)
	inputs, origins := c02Inputs(c, nInputs)
	type job struct {
		idx             int
		relaxed, thanos bool
		team, race      bool
	}
	var jobs []job
	for i := range inputs {
		for m := 0; m < 4; m++ {
			relaxed, thanos := m&1 == 1, m&2 == 2
			jobs = append(jobs, job{i, relaxed, thanos, false, false})
			if !c.Quick() || i%4 == m {
				jobs = append(jobs, job{i, relaxed, thanos, true, false})
			}
			if !c.Quick() && c.PintRace != "" && i%10 == m {
				jobs = append(jobs, job{i, relaxed, thanos, false, true})
			}
		}
	}
	core.Parallel(len(jobs), 16, func(j int) {
		jb := jobs[j]
		cs := c02Case{Origin: origins[jb.idx], Input: inputs[jb.idx], Relaxed: jb.relaxed, Thanos: jb.thanos, Team: jb.team, Race: jb.race}
		switch (jb.idx + j) % 4 {
		case 1:
			cs.Flags = []string{"--require-owner"}
		case 2:
			cs.Flags = []string{"--show-duplicates"}
		case 3:
			cs.Flags = []string{"--require-owner", "--show-duplicates"}
		}
		run.Count("runs_with_flags_"+strings.Join(cs.Flags, "_"), 1)
		o := c02Check(c, cs)
		run.Eval(1)
		for _, v := range o.viol {
			run.Violate(v)
		}
		if o.key != "" {
			run.Nontrivial(o.key)
			run.Count("runs_with_reports", 1)
		}
		run.Count("reports_rendered", int64(o.reports))
		if jb.team {
			run.Count("teamcity_runs", 1)
		}
		if jb.race {
			run.Count("race_instrumented_runs", 1)
		}
		run.Distinct("origin_kinds", strings.SplitN(cs.Origin, ":", 2)[0])
		if j%(len(jobs)/6+1) == 0 {
			run.Sample(map[string]any{"origin": cs.Origin, "relaxed": cs.Relaxed, "thanos": cs.Thanos, "teamcity": cs.Team, "input": core.Trunc(cs.Input, 400), "reports": o.reports})
		}
	})
	run.Extra("inputs", len(inputs))
	b, _ := json.Marshal(map[string]int{"corpus_and_stress": len(inputs)})
	_ = b
	run.Assume("a hang is decided by a 120s re-run of the single input; line counts use the most generous set of line breaks (LF, CR, CRLF, NEL, LS, PS)")
	return run.Finish("exploration",
		"inputs: repository YAML fixtures (txtar members), hand-written YAML stress documents, structure-aware generated documents with 0-3 faulty schema slots, generated documents over all scalar styles (incl. hostile PromQL), and byte/line/token mutations of all of them; each run as pint lint children in strict/relaxed x prometheus/thanos mode with console+JSON+checkstyle (and TeamCity) renderers and the H1 dump. Monitors: crash/hang, exit status, renderer well-formedness and report counts, line ranges inside the file, diagnostics positions inside the file, every erroneous entry reported, every clean entry dispatched. Non-trivial = run that produced >=1 report; distinct by (mode, set of reporters with parse-error class).",
		core.Floors{MinEvaluations: int64(len(jobs)), MinNontrivial: 20})
}
