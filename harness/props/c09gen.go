package props

// C09 configuration generator: value pools over the vocabulary and targeted drawing (a
// condition value is drawn so that it holds for a chosen target rule with high probability,
// otherwise conjunctions of many conditions would be false for every rule and the case trivial).

import (
	"math/rand"
)

var (
	c09PathPool = []string{
		"rules/.*", "rules/a/.*", "rules/b/.*", "rules/a", "rules/a.*", "rules/a/alerts.yml", `.*\.yml`, `.*\.yaml`,
		".*/b/.*", "rules/(a|b)/.*", "other/.*", "alerts.yml", "rules/[^/]+", ".*", "(rules/a/.*|rules/b/.*)", "rules/b/records.ym",
	}
	c09PathAlt  = []string{"rules/a/.*|rules/b/.*", "rules/ab.yml|rules/b/.*", "other/.*|rules/a"}
	c09NamePool = []string{
		"High.*", ".*Down", "Down", "High", "ErrorRate", ".*ErrorRate.*", "job:.*", ".*:sum", "job:up:sum", "(Instance|Target)Down",
		".+", "[A-Z].*", "[a-z:_0-9]+", "DiskFull", "Critical", "HighErrorRate", "TargetDown", "up:sum", "(InstanceDown|DiskFull)", ".*:rate5m",
	}
	c09NameAlt     = []string{"InstanceDown|DiskFull", "Down|Critical", "job:up:sum|up:sum", "HighLatency|job:errors"}
	c09LabelKeys   = []string{"severity", "team", "tier", "sev.*", "t.*", ".*", "sev", "(team|tier)", "everity"}
	c09LabelKeyAlt = []string{"team|sev", "tier|severity"}
	c09LabelVals   = []string{"critical", "warning", "(warning|critical)", "infra", "db", "1", "2", "crit.*", "crit", ".*", ".*critical", "page", "info", "[a-z]+", "warning-only"}
	c09LabelValAlt = []string{"warning|critical", "page|critical", "infra|1"}
	c09AnnKeys     = []string{"summary", "runbook", "description", "run.*", ".*", "sum", "(summary|description)"}
	c09AnnKeyAlt   = []string{"summary|run", "description|runbook"}
	c09AnnVals     = []string{".*down.*", ".*[Dd]own.*", "https://.*", "Instance down", "down", ".*", "High error rate", ".*critical", "Target down", "x", "https://runbooks/", "[A-Z].*"}
	c09AnnValAlt   = []string{"down|critical", "Target down|x", "https://runbooks/high|.*disk"}
	c09Ops         = []string{"=", "!=", "<", "<=", ">", ">="}
	c09ForDurs     = []string{"0s", "1m", "2m", "5m", "10m", "1h", "300s", "15m", "60s"}
	c09KFFDurs     = []string{"5m", "10m", "1m", "600s"}
	c09Commands    = []string{"ci", "lint", "watch"}
	c09StateLists  = [][]string{
		{"any"}, {"added"}, {"modified"}, {"renamed"}, {"removed"}, {"unmodified"},
		{"added", "modified"}, {"added", "modified", "renamed"}, {"unmodified", "renamed"}, {"removed", "unmodified"},
		{"any", "added"}, {"modified", "modified"}, {"added", "modified", "renamed", "removed"}, {"renamed", "any"},
	}
)

type c09Target struct {
	rule  c09Rule
	cmd   string
	state string
}

type c09Gen struct {
	r     *rand.Rand
	vocab []c09Rule
	// pTrue: probability (percent) that a condition is drawn to hold for the target
	pTrue int
	// pAlt: probability (percent) that a regexp is drawn from the top-level-alternation pools
	pAlt int
}

func (g *c09Gen) target() c09Target {
	return c09Target{rule: g.vocab[g.r.Intn(len(g.vocab))], cmd: c09Commands[g.r.Intn(3)], state: c09StateNames[g.r.Intn(4)]} // never "removed"
}

// pick draws a candidate for which want(cand) holds if possible (when aimed), else any.
func (g *c09Gen) pick(n int, aimed, wantVal bool, holds func(i int) bool) int {
	if aimed {
		var ok []int
		for i := 0; i < n; i++ {
			if holds(i) == wantVal {
				ok = append(ok, i)
			}
		}
		if len(ok) > 0 {
			return ok[g.r.Intn(len(ok))]
		}
	}
	return g.r.Intn(n)
}

func (g *c09Gen) pool(plain, alt []string) []string {
	if g.r.Intn(100) < g.pAlt {
		return alt
	}
	return plain
}

// cond draws a sub-block with exactly the condition kinds of mask (bit i = c09Kinds[i]).
func (g *c09Gen) cond(mask int, t c09Target, inIgnore bool) c09Cond {
	var c c09Cond
	o := c09RefOpts{Anchor: c09AnchorFull}
	for bit, kind := range c09Kinds {
		if mask&(1<<bit) == 0 {
			continue
		}
		aimed := true
		want := g.r.Intn(100) < g.pTrue
		try := func(mk func(i int) c09Cond, n int) c09Cond {
			i := g.pick(n, aimed, want, func(i int) bool {
				v, _ := c09RefKind(kind, mk(i), inIgnore, t.rule, t.cmd, t.state, o)
				return v
			})
			return mk(i)
		}
		switch kind {
		case "path":
			p := g.pool(c09PathPool, c09PathAlt)
			c.Path = try(func(i int) c09Cond { return c09Cond{Path: p[i]} }, len(p)).Path
		case "name":
			p := g.pool(c09NamePool, c09NameAlt)
			c.Name = try(func(i int) c09Cond { return c09Cond{Name: p[i]} }, len(p)).Name
		case "kind":
			ks := []string{"alerting", "recording"}
			c.Kind = try(func(i int) c09Cond { return c09Cond{Kind: ks[i]} }, 2).Kind
		case "command":
			c.Command = try(func(i int) c09Cond { return c09Cond{Command: c09Commands[i]} }, 3).Command
		case "state":
			c.State = try(func(i int) c09Cond { return c09Cond{State: c09StateLists[i]} }, len(c09StateLists)).State
		case "label":
			ks := g.pool(c09LabelKeys, c09LabelKeyAlt)
			vs := g.pool(c09LabelVals, c09LabelValAlt)
			x := try(func(i int) c09Cond {
				return c09Cond{HasLabel: true, LabelKey: ks[i/len(vs)], LabelVal: vs[i%len(vs)]}
			}, len(ks)*len(vs))
			c.HasLabel, c.LabelKey, c.LabelVal = true, x.LabelKey, x.LabelVal
		case "annotation":
			ks := g.pool(c09AnnKeys, c09AnnKeyAlt)
			vs := g.pool(c09AnnVals, c09AnnValAlt)
			x := try(func(i int) c09Cond {
				return c09Cond{HasAnn: true, AnnKey: ks[i/len(vs)], AnnVal: vs[i%len(vs)]}
			}, len(ks)*len(vs))
			c.HasAnn, c.AnnKey, c.AnnVal = true, x.AnnKey, x.AnnVal
		case "for":
			c.For = try(func(i int) c09Cond {
				return c09Cond{For: c09Ops[i/len(c09ForDurs)] + " " + c09ForDurs[i%len(c09ForDurs)]}
			}, len(c09Ops)*len(c09ForDurs)).For
		case "keep_firing_for":
			c.KFF = try(func(i int) c09Cond {
				return c09Cond{KFF: c09Ops[i/len(c09KFFDurs)] + " " + c09KFFDurs[i%len(c09KFFDurs)]}
			}, len(c09Ops)*len(c09KFFDurs)).KFF
		}
	}
	return c
}

// randMask draws a non-empty (unless allowEmpty) subset of condition kinds, small subsets likelier.
func (g *c09Gen) randMask(allowEmpty bool) int {
	for {
		n := 1 + g.r.Intn(3)
		if g.r.Intn(6) == 0 {
			n = 4 + g.r.Intn(3)
		}
		if allowEmpty && g.r.Intn(12) == 0 {
			return 0
		}
		m := 0
		for i := 0; i < n; i++ {
			m |= 1 << g.r.Intn(len(c09Kinds))
		}
		if m != 0 {
			return m
		}
	}
}

// randBlocks: 1-4 blocks with 0-2 match and 0-2 ignore sub-blocks each. Within a block the
// match sub-blocks aim at (possibly different) targets; an ignore aims at the same target as
// a match half of the time (so that "ignore dominates match" is exercised on a rule for
// which both hold), and is drawn to hold less often.
func (g *c09Gen) randBlocks() []c09Block {
	nb := 1 + g.r.Intn(4)
	blocks := make([]c09Block, nb)
	for bi := range blocks {
		nm, ni := g.r.Intn(3), g.r.Intn(3)
		t := g.target()
		save := g.pTrue
		for j := 0; j < nm; j++ {
			tt := t
			if j > 0 && g.r.Intn(2) == 0 {
				tt = g.target()
			}
			g.pTrue = 85
			blocks[bi].Match = append(blocks[bi].Match, g.cond(g.randMask(true), tt, false))
		}
		for j := 0; j < ni; j++ {
			tt := t
			if g.r.Intn(2) == 0 {
				tt = g.target()
			}
			g.pTrue = 75
			mask := g.randMask(false)
			if mask == 1<<6 { // an ignore{} with only keep_firing_for is refused at load time
				mask |= 1 << g.r.Intn(6)
			}
			blocks[bi].Ignore = append(blocks[bi].Ignore, g.cond(mask, tt, true))
		}
		g.pTrue = save
	}
	return blocks
}

// c09DocExamples: the examples of docs/configuration.md, as blocks.
func c09DocExamples() [][]c09Block {
	return [][]c09Block{
		{{Match: []c09Cond{{Path: "rules/.*", Kind: "alerting", HasLabel: true, LabelKey: "severity", LabelVal: "(warning|critical)"}}, Ignore: []c09Cond{{Command: "watch"}}}},
		{{Ignore: []c09Cond{{Command: "watch"}, {Command: "lint"}}}},
		{{Match: []c09Cond{{For: ">= 5m"}}}},
		{{Match: []c09Cond{{KFF: "> 5m"}}}},
		{{Match: []c09Cond{{State: []string{"any"}}}}},
		{{}},                     // a block with neither match nor ignore
		{{Match: []c09Cond{{}}}}, // an empty match{}
		{{Match: []c09Cond{{Kind: "alerting"}, {Kind: "recording", Name: "job:.*"}}, Ignore: []c09Cond{{Path: "rules/a/.*"}, {HasLabel: true, LabelKey: "team", LabelVal: "db"}}}},
		{{Match: []c09Cond{{HasLabel: true, LabelKey: "team", LabelVal: "db"}}}, {Match: []c09Cond{{HasLabel: true, LabelKey: "severity", LabelVal: "warning"}}}},
		{{Ignore: []c09Cond{{State: []string{"unmodified"}}}}, {Ignore: []c09Cond{{State: []string{"added", "modified"}, Kind: "alerting"}}}},
	}
}

// c09CommandProbes: blocks whose selection depends only on the command.
func c09CommandProbes() []c09Block {
	any := []string{"any"}
	return []c09Block{
		{Match: []c09Cond{{Command: "ci", State: any}}},
		{Match: []c09Cond{{Command: "lint", State: any}}},
		{Match: []c09Cond{{Command: "watch", State: any}}},
		{Match: []c09Cond{{State: any}}, Ignore: []c09Cond{{Command: "watch"}}},
		{Match: []c09Cond{{State: any}}, Ignore: []c09Cond{{Command: "lint"}, {Command: "ci"}}},
	}
}
