package props

// C13 — slicing a range query is invisible in its result.
//
// The real promapi client (FailoverGroup -> Prometheus.RangeQuery, cache on) is
// run against a fake Prometheus answering from a presence model. Cases run in
// child processes of this (race-detector) binary so that a crash, a runaway
// allocation or a data race report of one batch is captured and attributed.

import (
	"bufio"
	"encoding/json"
	"fmt"
	"hash/fnv"
	"io"
	"log/slog"
	"math/rand"
	"os"
	"path/filepath"
	"regexp"
	"runtime"
	"runtime/pprof"
	"sort"
	"strconv"
	"strings"
	"sync"
	"sync/atomic"
	"time"

	"github.com/cloudflare/pint/verif/core"
)

func init() {
	Registry["C13"] = runC13
	Children["C13-child"] = c13Child
	Children["C13-case"] = c13DumpCase
}

// c13DumpCase: verifh C13-case <tier> <seed> <idx> <dir> writes case idx of the
// (seed, tier) case list as a replay directory (debugging aid).
func c13DumpCase(args []string) int {
	if len(args) < 4 {
		fmt.Fprintln(os.Stderr, "usage: verifh C13-case tier seed idx dir")
		return 64
	}
	seed, _ := strconv.ParseInt(args[1], 10, 64)
	idx, _ := strconv.Atoi(args[2])
	c := &core.Ctx{ID: "C13", Tier: args[0], Seed: seed}
	cases := c13Cases(c, c.N(c13Quick, c13Thorough))
	if idx < 0 || idx >= len(cases) {
		return 64
	}
	b, _ := json.MarshalIndent(map[string]any{"property": "C13", "case": cases[idx]}, "", " ")
	_ = os.MkdirAll(args[3], 0o755)
	if err := os.WriteFile(filepath.Join(args[3], "case.json"), b, 0o644); err != nil {
		fmt.Fprintln(os.Stderr, err)
		return 1
	}
	return 0
}

const (
	c13FaultEvery  = 3
	c13AloneBudget = 48
	c13Quick       = 3000
	c13Thorough    = 40000
)

// ---------------------------------------------------------------- generator

var c13Steps = []int64{
	1, 2, 7, 13, 15, 30, // small
	60, 300, // what pint's own checks use most
	420, 660, 3000, 4200, 5400, // do not divide two hours
	900, 1800, 3600, 7200, // divide two hours
	7201, 9000, 10800, 14400, // between 2h and 4h: slice size is rounded up to the step
	14401, 18000, 25200, 43200, 86400, 90000, // above 4h: two hours round to zero
}

var c13SliceCounts = []int{0, 1, 2, 3, 4, 6, 9, 13, 20, 37}

var c13LabelSets = []map[string]string{
	{},
	{"job": "a"},
	{"job": "b"},
	{"instance": "a"},
	{"job": "a", "instance": "x"},
	{"__name__": "m", "job": "a"},
	{"a": "1", "c": "1"},
	{"b": "1", "c": "1"},
	{"__name__": "m"},
	{"job": "a", "instance": "x", "zone": "z"},
}

// c13SliceGuess is only used to aim presence patterns at the places where the
// client is expected to cut; the oracle takes the real cuts from the server log.
func c13SliceGuess(step time.Duration) time.Duration {
	q := (2 * time.Hour).Round(step)
	if q < step {
		q = step
	}
	return q
}

func c13Gen(r *rand.Rand) c13Case {
	var stepS int64
	switch x := r.Intn(100); {
	case x < 2:
		stepS = c13Steps[r.Intn(2)] // 1s, 2s: a slice has thousands of points, kept rare
	case x < 10:
		stepS = c13Steps[2+r.Intn(4)]
	case x < 85:
		stepS = c13Steps[6+r.Intn(len(c13Steps)-6)]
	default:
		stepS = 20 + r.Int63n(20000)
	}
	return c13GenWith(r, stepS, c13SliceCounts[r.Intn(len(c13SliceCounts))])
}

func c13GenWith(r *rand.Rand, stepS int64, ks int) c13Case {
	step := time.Duration(stepS) * time.Second
	slice := c13SliceGuess(step)
	perSlice := int64(slice / step)
	nSeries := 1 + []int{0, 0, 1, 1, 2, 2, 3, 4}[r.Intn(8)]
	// keep a case small: about 3000 evaluated (point, series) pairs per repetition
	if perSlice > 500 {
		nSeries = 1
	} else if perSlice > 100 && nSeries > 2 {
		nSeries = 2
	}
	if most := int(1500 / (perSlice * int64(nSeries))); ks > most {
		ks = most
		if ks < 2 {
			ks = 2
		}
	}
	cs := c13Case{StepS: stepS}
	cs.Feats = append(cs.Feats, fmt.Sprintf("step=%ds", stepS), fmt.Sprintf("slices~%d", ks))

	sec := int64(time.Second)
	var lb int64 // seconds
	if ks == 0 {
		lb = 1 + r.Int63n(int64(slice/time.Second)-1+1)
		if lb >= int64(slice/time.Second) {
			lb = int64(slice/time.Second) - 1
		}
		if lb < 1 {
			lb = 1
		}
	} else {
		j := []int64{0, 1, -1, stepS, -stepS, r.Int63n(int64(slice / time.Second))}[r.Intn(6)]
		lb = int64(ks)*int64(slice/time.Second) + j
		if lb < 1 {
			lb = int64(ks) * int64(slice/time.Second)
		}
	}
	base := time.Unix(1600000000+r.Int63n(200000000), 0).UTC().Truncate(slice)
	sl := int64(slice / time.Second)
	off := []int64{0, 1, -1, stepS, -stepS, sl / 2, sl/2 - 1, sl/2 + 1, r.Int63n(sl), r.Int63n(sl)}[r.Intn(10)]
	start := base.Add(time.Duration(off) * time.Second)
	end := start.Add(time.Duration(lb) * time.Second)
	if ks >= 1 && r.Intn(10) < 3 {
		eoff := []int64{0, -1, 1, stepS - 1, stepS, -stepS}[r.Intn(6)]
		e2 := end.Truncate(slice).Add(time.Duration(eoff) * time.Second)
		if e2.Sub(start) > time.Second {
			end = e2
			cs.Feats = append(cs.Feats, "end-near-boundary")
		}
	}
	dur := end.Sub(start)
	if r.Intn(10) < 3 {
		// the way RelativeRange behaves: sub-second start, end taken a moment later
		start = start.Add(time.Duration(r.Int63n(sec)))
		end = start.Add(dur + time.Duration(r.Int63n(50000)))
		cs.Feats = append(cs.Feats, "sub-second")
	}
	cs.StartNs, cs.EndNs, cs.DurNs = start.UnixNano(), end.UnixNano(), int64(dur)
	cs.Concurrency = []int{1, 2, 3, 4, 8, 16}[r.Intn(6)]
	cs.MaxDelayUs = []int{0, 300, 1000, 3000, 3000}[r.Intn(5)]
	for k := 0; k < 5; k++ {
		cs.DelaySeeds = append(cs.DelaySeeds, r.Int63())
	}

	// guessed grid and seams
	stepMs := stepS * 1000
	var first int64
	var anchors []int64 // grid indices of guessed seams
	if dur >= slice && end.Sub(start) > step {
		rs := start.Round(slice)
		f := rs
		if rs.After(start) {
			f = rs.Add(-slice)
		}
		first = f.UnixMilli()
		for t := f.Add(slice); t.Before(end); t = t.Add(slice) {
			anchors = append(anchors, (t.UnixMilli()-first)/stepMs)
		}
	} else {
		first = (start.UnixNano() + 500000) / 1000000
	}
	n := (end.UnixMilli()-first)/stepMs + 1
	if n < 1 {
		n = 1
	}
	if len(anchors) == 0 {
		for k := 0; k < 1+r.Intn(3); k++ {
			anchors = append(anchors, r.Int63n(n))
		}
		sort.Slice(anchors, func(i, j int) bool { return anchors[i] < anchors[j] })
	}

	perm := r.Perm(len(c13LabelSets))
	for si := 0; si < nSeries; si++ {
		bits, name := c13Pattern(r, n, perSlice, anchors)
		c13LimitRuns(bits, anchors, 40)
		cs.Feats = append(cs.Feats, name)
		sr := c13Series{Labels: c13LabelSets[perm[si]]}
		jitter := r.Intn(2) == 0
		const pad = 3
		for i := int64(0); i < int64(len(bits)); i++ {
			if !bits[i] {
				continue
			}
			j := i
			for j+1 < int64(len(bits)) && bits[j+1] {
				j++
			}
			from := first + (i-pad)*stepMs
			to := first + (j-pad)*stepMs + stepMs
			if jitter {
				from -= r.Int63n(stepMs)
				to = first + (j-pad)*stepMs + 1 + r.Int63n(stepMs)
			}
			sr.Intervals = append(sr.Intervals, [2]int64{from, to})
			i = j
		}
		if r.Intn(5) == 0 {
			// presence shorter than a step that falls between two grid points: must stay invisible
			for k := 0; k < 3; k++ {
				i := r.Int63n(int64(len(bits)))
				if bits[i] || stepMs < 3 {
					continue
				}
				g := first + (i-pad)*stepMs
				a := g + 1 + r.Int63n(stepMs-2)
				b := a + 1 + r.Int63n(g+stepMs-a)
				if b > g+stepMs {
					b = g + stepMs
				}
				sr.Intervals = append(sr.Intervals, [2]int64{a, b})
			}
			cs.Feats = append(cs.Feats, "between-grid-points")
		}
		sr.Intervals = c13Normalise(sr.Intervals)
		cs.Series = append(cs.Series, sr)
	}
	return cs
}

// c13Pattern returns presence bits for grid indices -3 .. n+2 (bit i is grid index i-3).
func c13Pattern(r *rand.Rand, n, perSlice int64, anchors []int64) ([]bool, string) {
	const pad = 3
	ln := n + 2*pad
	bits := make([]bool, ln)
	set := func(gi int64, v bool) {
		if i := gi + pad; i >= 0 && i < ln {
			bits[i] = v
		}
	}
	fill := func(v bool) {
		for i := range bits {
			bits[i] = v
		}
	}
	runs := func() {
		i := int64(0)
		on := r.Intn(2) == 0
		for i < ln {
			var l int64
			if on {
				l = []int64{1, 1, 2, 3, 5, perSlice - 1, perSlice, perSlice + 1, 3 * perSlice, r.Int63n(2*perSlice+2) + 1}[r.Intn(10)]
			} else {
				l = []int64{1, 1, 1, 2, 3, r.Int63n(perSlice+1) + 1}[r.Intn(6)]
			}
			if l < 1 {
				l = 1
			}
			for k := int64(0); k < l && i < ln; k++ {
				bits[i] = on
				i++
			}
			on = !on
		}
	}
	anchor := func() int64 { return anchors[r.Intn(len(anchors))] }
	switch r.Intn(12) {
	case 0:
		fill(true)
		return bits, "all"
	case 1:
		return bits, "none"
	case 2:
		runs()
		return bits, "runs"
	case 3:
		p := int64(2 + r.Intn(2))
		ph := r.Int63n(p)
		inv := r.Intn(2) == 0
		for i := int64(0); i < ln; i++ {
			bits[i] = ((i+ph)%p == 0) != inv
		}
		return bits, "alternating"
	case 4, 5:
		switch r.Intn(3) {
		case 0:
			fill(true)
		case 1:
		default:
			runs()
		}
		for _, a := range anchors {
			if r.Intn(5) == 0 {
				continue
			}
			for o := int64(-2); o <= 2; o++ {
				set(a+o, r.Intn(2) == 0)
			}
		}
		return bits, "seam-local"
	case 6:
		fill(true)
		set(anchor()+int64(r.Intn(3)-1), false)
		return bits, "one-gap-at-seam"
	case 7:
		fill(true)
		for _, a := range anchors {
			set(a+int64(r.Intn(3)-1), false)
		}
		return bits, "gap-at-every-seam"
	case 8:
		a := anchor() + int64(r.Intn(3)-2)
		for gi := int64(-pad); gi <= a; gi++ {
			set(gi, true)
		}
		if r.Intn(2) == 0 {
			g := []int64{1, 2, 5}[r.Intn(3)]
			for gi := a + g + 1; gi < n+pad; gi++ {
				set(gi, true)
			}
		}
		return bits, "run-ends-at-seam"
	case 9:
		a := anchor() + int64(r.Intn(3)-1)
		for gi := a; gi < n+pad; gi++ {
			set(gi, true)
		}
		return bits, "run-starts-at-seam"
	case 10:
		for _, a := range anchors {
			if r.Intn(2) == 0 {
				set(a+int64(r.Intn(3)-1), true)
			}
		}
		set(anchor()+int64(r.Intn(3)-1), true)
		return bits, "single-points-at-seams"
	default:
		k := r.Intn(len(anchors))
		a := anchors[k]
		b := a + perSlice
		if k+1 < len(anchors) {
			b = anchors[k+1]
		}
		a += int64(r.Intn(3) - 1)
		b += int64(r.Intn(3) - 1)
		for gi := a; gi < b; gi++ {
			set(gi, true)
		}
		return bits, "one-slice-only"
	}
}

func c13Cases(c *core.Ctx, n int) []c13Case {
	cases := make([]c13Case, 0, n)
	// stratified part: every listed step with every slice-count class
	k := 0
	for _, ks := range c13SliceCounts {
		for _, st := range c13Steps {
			if len(cases) >= n/2 {
				break
			}
			if st <= 2 && ks > 2 {
				continue // same shape as ks=2 after the size limit
			}
			cases = append(cases, c13GenWith(c.Rand("c13-strat", k), st, ks))
			k++
		}
	}
	for i := 0; len(cases) < n; i++ {
		cases = append(cases, c13Gen(c.Rand("c13", i)))
	}
	// Undelivered-slice scenario on every third case whose query is cut into
	// slices. Drawn from its own stream: the cases themselves stay what they were.
	for i := range cases {
		if r := c.Rand("c13-fault", i); r.Intn(c13FaultEvery) == 0 {
			cases[i].Fault = c13FaultPlan(r, &cases[i])
		}
	}
	return cases
}

// ---------------------------------------------------------------- child

type c13Job struct {
	Idx  int     `json:"idx"`
	Case c13Case `json:"case"`
}

type c13Line struct {
	Start   *int        `json:"start,omitempty"`
	Done    *c13Outcome `json:"done,omitempty"`
	HeapHit []int       `json:"heap_limit_inflight,omitempty"`
	HeapMB  uint64      `json:"heap_mb,omitempty"`
}

// c13Child: verifh C13-child <jobs.json> <out.jsonl> <workers>
func c13Child(args []string) int {
	if len(args) < 3 {
		fmt.Fprintln(os.Stderr, "usage: verifh C13-child jobs.json out.jsonl workers")
		return 64
	}
	b, err := os.ReadFile(args[0])
	if err != nil {
		fmt.Fprintln(os.Stderr, err)
		return 64
	}
	var jobs []c13Job
	if err := json.Unmarshal(b, &jobs); err != nil {
		fmt.Fprintln(os.Stderr, err)
		return 64
	}
	workers, _ := strconv.Atoi(args[2])
	// the client logs every failed slice request; the fault scenario produces thousands
	slog.SetDefault(slog.New(slog.NewTextHandler(io.Discard, &slog.HandlerOptions{Level: slog.LevelError + 8})))
	outF, err := os.OpenFile(args[1], os.O_CREATE|os.O_WRONLY|os.O_TRUNC, 0o644)
	if err != nil {
		fmt.Fprintln(os.Stderr, err)
		return 64
	}
	var mu sync.Mutex
	inflight := map[int]bool{}
	write := func(l c13Line) {
		lb, _ := json.Marshal(l)
		_, _ = outF.Write(append(lb, '\n'))
	}
	limitMB := uint64(256)
	if v, err := strconv.Atoi(os.Getenv("C13_HEAP_MB")); err == nil && v > 0 {
		limitMB = uint64(v)
	}
	var stop atomic.Bool
	go func() {
		var ms runtime.MemStats
		for !stop.Load() {
			time.Sleep(50 * time.Millisecond)
			runtime.ReadMemStats(&ms)
			if ms.HeapAlloc>>20 > limitMB {
				mu.Lock()
				var ids []int
				for id := range inflight {
					ids = append(ids, id)
				}
				sort.Ints(ids)
				write(c13Line{HeapHit: ids, HeapMB: ms.HeapAlloc >> 20})
				_ = outF.Sync()
				os.Exit(97)
			}
		}
	}()
	if pf := os.Getenv("C13_CPUPROF"); pf != "" { // debugging aid
		if f, err := os.Create(pf); err == nil {
			_ = pprof.StartCPUProfile(f)
			defer pprof.StopCPUProfile()
		}
	}
	srv := newC13Server()
	core.Parallel(len(jobs), workers, func(i int) {
		j := jobs[i]
		mu.Lock()
		inflight[j.Idx] = true
		idx := j.Idx
		write(c13Line{Start: &idx})
		mu.Unlock()
		t0 := time.Now()
		o := c13RunCase(srv, &j.Case)
		o.Idx = j.Idx
		if os.Getenv("C13_DEBUG") != "" { // timing aid, never part of a verdict
			fmt.Fprintf(os.Stderr, "case %d: %dms step=%ds slices=%d requests=%d grid=%d ranges=%d conc=%d delay=%dus\n", j.Idx, time.Since(t0).Milliseconds(), j.Case.StepS, o.Slices, o.Requests, o.GridPoints, o.Ranges, j.Case.Concurrency, j.Case.MaxDelayUs)
		}
		mu.Lock()
		delete(inflight, j.Idx)
		write(c13Line{Done: &o})
		mu.Unlock()
	})
	stop.Store(true)
	srv.Close()
	_ = outF.Close()
	return 0
}

// ---------------------------------------------------------------- parent

type c13BatchResult struct {
	outs    map[int]c13Outcome
	started map[int]bool
	heapHit bool
	heapMB  uint64
	proc    core.ProcResult
	races   []string
}

var c13BatchSeq atomic.Int64

func c13RunBatch(c *core.Ctx, jobs []c13Job, workers int, timeout time.Duration) c13BatchResult {
	res := c13BatchResult{outs: map[int]c13Outcome{}, started: map[int]bool{}}
	self, err := os.Executable()
	if err != nil {
		res.proc.Crash = "start"
		res.proc.Stderr = err.Error()
		return res
	}
	id := c13BatchSeq.Add(1)
	in := filepath.Join(c.Scratch, fmt.Sprintf("c13-jobs-%d.json", id))
	out := filepath.Join(c.Scratch, fmt.Sprintf("c13-out-%d.jsonl", id))
	defer os.Remove(in)
	defer os.Remove(out)
	b, _ := json.Marshal(jobs)
	_ = os.WriteFile(in, b, 0o644)
	env := []string{"GORACE=halt_on_error=0 atexit_sleep_ms=100", "GOMAXPROCS=4"}
	if v := os.Getenv("C13_HEAP_MB"); v != "" {
		env = append(env, "C13_HEAP_MB="+v)
	}
	res.proc = core.RunProc(self, []string{"C13-child", in, out, strconv.Itoa(workers)}, core.ProcOpts{Dir: c.Scratch, Env: env, Timeout: timeout})
	if f, err := os.Open(out); err == nil {
		sc := bufio.NewScanner(f)
		sc.Buffer(make([]byte, 1<<20), 256<<20)
		for sc.Scan() {
			var l c13Line
			if json.Unmarshal(sc.Bytes(), &l) != nil {
				continue
			}
			switch {
			case l.Start != nil:
				res.started[*l.Start] = true
			case l.Done != nil:
				res.outs[l.Done.Idx] = *l.Done
			case l.HeapMB > 0:
				res.heapHit = true
				res.heapMB = l.HeapMB
			}
		}
		f.Close()
	}
	res.races = c13RaceReports(res.proc.Stderr)
	return res
}

var c13RaceSep = "=================="

// c13RaceReports cuts the race detector's reports out of a child's stderr.
func c13RaceReports(stderr string) (out []string) {
	for _, blk := range strings.Split(stderr, c13RaceSep) {
		if strings.Contains(blk, "WARNING: DATA RACE") {
			out = append(out, strings.TrimSpace(blk))
		}
	}
	return out
}

func c13StripRaces(stderr string) string {
	var keep []string
	for _, blk := range strings.Split(stderr, c13RaceSep) {
		if !strings.Contains(blk, "WARNING: DATA RACE") {
			keep = append(keep, blk)
		}
	}
	return strings.Join(keep, "\n")
}

var c13FrameRe = regexp.MustCompile(`(?m)^\s*github\.com/cloudflare/pint/(\S+)\(.*$`)

// c13Frames lists the pint (and harness) functions named in a stack dump, in order.
func c13Frames(text string) (out []string) {
	for _, m := range c13FrameRe.FindAllStringSubmatch(text, -1) {
		out = append(out, m[1])
	}
	return out
}

func c13RaceSig(report string) string {
	pintFrame, harnessFrame := "", ""
	for _, f := range c13Frames(report) {
		if strings.HasPrefix(f, "verif/") {
			if harnessFrame == "" {
				harnessFrame = f
			}
			continue
		}
		if pintFrame == "" {
			pintFrame = f
		}
	}
	switch {
	case pintFrame != "":
		return "data-race:" + pintFrame
	case harnessFrame != "":
		return "data-race:harness:" + harnessFrame
	}
	return "data-race:unattributed"
}

func c13Key(cs *c13Case) string {
	b, _ := json.Marshal(struct {
		A, B, C, D int64
		S          []c13Series
	}{cs.StartNs, cs.EndNs, cs.StepS, cs.DurNs, cs.Series})
	h := fnv.New64a()
	_, _ = h.Write(b)
	return strconv.FormatUint(h.Sum64(), 16)
}

type c13Agg struct {
	run   *core.Run
	cases []c13Case
}

func (a *c13Agg) outcome(o c13Outcome) {
	run := a.run
	cs := a.cases[o.Idx]
	run.Eval(1)
	for _, v := range o.Viols {
		run.Violate(core.Violation{Sig: v.Sig, What: v.What, Case: cs, Files: map[string][]byte{"observed.txt": []byte(v.Obs)}})
	}
	if o.Inconc != "" {
		run.Inconclusive(fmt.Sprintf("case %d: %s", o.Idx, o.Inconc))
		return
	}
	run.Count("repetitions_judged", int64(o.Reps))
	run.Count("requests_seen_by_server", int64(o.Requests))
	run.Count("grid_points_first_repetition", int64(o.GridPoints))
	run.Count("duplicate_evaluations_at_seams", int64(o.DupPoints))
	run.Count("returned_ranges_first_repetition", int64(o.Ranges))
	run.Count("single_missing_samples_next_to_a_seam", int64(o.SeamGaps))
	run.Count("runs_continuing_across_a_seam", int64(o.SeamMerges))
	run.Count("cached_repeat_requests_reaching_server", int64(o.CachedReqs))
	run.Count("step_change_probes_compared_with_fresh_client", int64(o.StepChanges))
	run.Max("max_slices_in_a_case", int64(o.Slices))
	run.Distinct("slices_per_case", fmt.Sprintf("%02d", o.Slices))
	run.Distinct("steps_s", fmt.Sprintf("%06d", cs.StepS))
	if cs.StepS > 4*3600 {
		run.Count("cases_step_above_4h", 1)
		if o.Slices >= 2 {
			run.Count("cases_step_above_4h_with_2+_slices", 1)
		}
	}
	if o.GridBefore {
		run.Count("cases_grid_starting_before_start", 1)
	}
	if o.Slices >= 2 {
		run.Count("cases_with_2+_slices", 1)
		if len(o.Orders) >= 2 {
			run.Count("cases_with_2+_distinct_completion_orders", 1)
		}
		for _, ord := range o.Orders {
			run.Distinct("completion_orders", fmt.Sprintf("%d:%s", o.Slices, ord))
		}
		if o.SeamChange {
			run.Nontrivial(c13Key(&cs))
		}
	}
	for _, f := range cs.Feats {
		if !strings.Contains(f, "=") && !strings.Contains(f, "~") {
			run.Distinct("presence_patterns", f)
		}
	}
	if cs.Fault != nil {
		run.Count("undelivered_slice_cases_planned", 1)
	}
	if fo := o.Fault; fo != nil {
		run.Count("undelivered_slice_cases_run", 1)
		run.Count("undelivered_slice_outcome_"+fo.Outcome, 1)
		if fo.Undelivered > 0 {
			run.Count("undelivered_slice_cases_slice_really_undelivered", 1)
			run.Count("undelivered_slice_requests", int64(fo.Undelivered))
			run.Distinct("undelivered_slice_kinds", fo.Kind)
			run.Distinct("undelivered_slice_kind_x_position", fo.Kind+":"+fo.Position)
			if fo.ErrClass != "" {
				run.Distinct("undelivered_slice_kind_x_error_returned", fo.Kind+":"+fo.ErrClass)
			}
			if fo.Slices >= 2 && fo.Answered >= 1 {
				run.Count("undelivered_slice_cases_with_other_slices_answered", 1)
				if fo.HoldSamples {
					run.Count("undelivered_slice_cases_with_other_slices_answered_and_samples_in_lost_slice", 1)
					run.Distinct("undelivered_slice_kinds_discriminating", fo.Kind)
					run.Count("undelivered_slice_useful_cases_kind_"+fo.Kind, 1)
				}
			}
			run.Count("undelivered_slice_recovery_"+fo.Recovery, 1)
			if fo.Outcome == "complete-result" {
				run.Distinct("undelivered_slice_kinds_with_complete_result", fo.Kind)
			}
		}
	}
	if o.Idx%(len(a.cases)/6+1) == 0 {
		t := cs.times()
		run.Sample(map[string]any{
			"start": t.start.Format(time.RFC3339Nano), "end": t.end.Format(time.RFC3339Nano), "step": t.step.String(), "dur": t.dur.String(),
			"series": len(cs.Series), "features": cs.Feats, "concurrency": cs.Concurrency,
			"slices_seen": o.Slices, "grid_points": o.GridPoints, "ranges_returned": o.Ranges,
			"slice_completion_orders": o.Orders, "seam_gaps": o.SeamGaps,
		})
	}
}

// crashKind classifies a child's stderr ignoring race reports.
func c13Crash(p core.ProcResult) (kind, sig string) {
	text := c13StripRaces(p.Stderr)
	kind, sig = core.ClassifyCrash(text, p.Signal)
	if kind == "" {
		return kind, sig
	}
	i := strings.Index(text, "panic: ")
	if i < 0 {
		i = strings.Index(text, "fatal error: ")
	}
	if i >= 0 {
		for _, f := range c13Frames(text[i:]) {
			if !strings.HasPrefix(f, "verif/") {
				return kind, f
			}
		}
	}
	return kind, sig
}

func (a *c13Agg) races(c *core.Ctx, br c13BatchResult, jobs []c13Job) {
	if len(br.races) == 0 {
		return
	}
	a.run.Count("race_reports", int64(len(br.races)))
	batch := make([]c13Case, 0, len(jobs))
	for _, j := range jobs {
		batch = append(batch, j.Case)
	}
	for _, rep := range br.races {
		a.run.Violate(core.Violation{
			Sig:   c13RaceSig(rep),
			What:  "the race detector reported a data race while range queries of this batch were running: " + core.Trunc(rep, 300),
			Case:  c13Case{Batch: batch},
			Files: map[string][]byte{"race.txt": []byte(rep)},
		})
	}
}

// alone re-runs one case in its own child; that run decides crashes and runaway allocation.
func (a *c13Agg) alone(c *core.Ctx, j c13Job) {
	br := c13RunBatch(c, []c13Job{j}, 1, 120*time.Second)
	a.races(c, br, []c13Job{j})
	if o, ok := br.outs[j.Idx]; ok {
		a.outcome(o)
		return
	}
	a.run.Eval(1)
	kind, sig := c13Crash(br.proc)
	files := map[string][]byte{"stderr.txt": []byte(c13Cut(br.proc.Stderr, 200000))}
	switch {
	case br.heapHit:
		a.run.Violate(core.Violation{Sig: "runaway-memory", What: fmt.Sprintf("run alone in a fresh process, RangeQuery did not return and the heap grew past %d MB", br.heapMB), Case: j.Case, Files: files})
	case kind == "panic" || kind == "fatal" || kind == "signal":
		a.run.Violate(core.Violation{Sig: "crash:" + kind + ":" + sig, What: "run alone in a fresh process, the query crashed the process (" + kind + ") in " + sig, Case: j.Case, Files: files})
	case br.proc.TimedOut:
		a.run.Inconclusive(fmt.Sprintf("case %d: watchdog (120s) fired with the case running alone", j.Idx))
	default:
		a.run.Inconclusive(fmt.Sprintf("case %d: child ended without a verdict (exit %d): %s", j.Idx, br.proc.Exit, core.Trunc(br.proc.Stderr, 200)))
	}
}

func runC13(c *core.Ctx) int {
	run := core.NewRun(c)
	if c.Replay != "" {
		return c13Replay(c, run)
	}
	n := c.N(c13Quick, c13Thorough)
	cases := c13Cases(c, n)
	agg := &c13Agg{run: run, cases: cases}
	run.Count("race_reports", 0)
	run.Count("batches_ended_early", 0)
	const batchSize = 40
	var batches [][]c13Job
	for i := 0; i < len(cases); i += batchSize {
		var b []c13Job
		for k := i; k < i+batchSize && k < len(cases); k++ {
			b = append(b, c13Job{Idx: k, Case: cases[k]})
		}
		batches = append(batches, b)
	}
	// Single-case re-runs decide crashes and runaway allocation; their number is
	// bounded so that a tree where every case blows up still ends quickly.
	var aloneBudget atomic.Int64
	aloneBudget.Store(c13AloneBudget)
	core.Parallel(len(batches), 16, func(bi int) {
		remaining := batches[bi]
		for len(remaining) > 0 {
			br := c13RunBatch(c, remaining, 4, 300*time.Second)
			run.Count("child_processes", 1)
			agg.races(c, br, remaining)
			var suspects, notStarted []c13Job
			for _, j := range remaining {
				if o, ok := br.outs[j.Idx]; ok {
					agg.outcome(o)
				} else if br.started[j.Idx] {
					suspects = append(suspects, j)
				} else {
					notStarted = append(notStarted, j)
				}
			}
			if len(suspects)+len(notStarted) == 0 {
				break
			}
			run.Count("batches_ended_early", 1)
			if len(suspects) == 0 {
				for _, j := range notStarted {
					run.Eval(1)
					run.Inconclusive(fmt.Sprintf("case %d: child ended before the case was started (exit %d): %s", j.Idx, br.proc.Exit, core.Trunc(br.proc.Stderr, 200)))
				}
				break
			}
			for _, j := range suspects {
				if aloneBudget.Add(-1) >= 0 {
					agg.alone(c, j)
				} else {
					run.Eval(1)
					run.Count("suspects_not_rerun_alone", 1)
					run.Inconclusive(fmt.Sprintf("case %d: was running when its batch ended early (heap limit, crash or watchdog); the %d single-case re-runs of this run were used up", j.Idx, c13AloneBudget))
				}
			}
			remaining = notStarted
		}
	})
	run.Assume("the fake server evaluates a slice at start, start+step, ... <= end with millisecond timestamps and refuses what Prometheus refuses (step <= 0, end < start, more than 11000 points)")
	run.Assume("a series is present at a timestamp iff the timestamp lies in one of its intervals; no staleness/lookback window is modelled")
	run.Assume("a query whose slice was not delivered is only judged when RangeQuery returns a result without an error; a query that fails as a whole yields nothing to compare")
	// The undelivered-slice scenario must have been observed, not only planned:
	// when it was not, the floor on evaluations is made unreachable so that the
	// run ends INCONCLUSIVE (unless it has violations to report).
	floors := core.Floors{MinEvaluations: int64(n), MinNontrivial: n / 5, MaxInconclusiveFrac: 0.02}
	planned := run.Counter("undelivered_slice_cases_planned")
	useful := run.Counter("undelivered_slice_cases_with_other_slices_answered_and_samples_in_lost_slice")
	kinds := run.DistinctCount("undelivered_slice_kinds_discriminating")
	if planned > 0 && (useful*4 < planned || (n >= c13Quick && kinds < len(c13FaultKinds()))) {
		fmt.Printf("NOTE property=C13: the undelivered-slice scenario observed too little (planned=%d, with another slice answered and samples in the lost slice=%d, kinds=%d of %d); the run cannot end HELD\n",
			planned, useful, kinds, len(c13FaultKinds()))
		run.Extra("undelivered_slice_floor_missed", true)
		floors.MinEvaluations = int64(n) + 1
	}
	return run.Finish("exploration",
		"cases: (start, end, step, lookback, client concurrency, 1-5 series with presence intervals) - every listed step (1s..25h, incl. 7s/13s/7m/11m/50m/70m/90m, 2h+1s..4h and above 4h) crossed with lookbacks from below one slice to 37 slices, starts/ends on, next to and between slice boundaries and with sub-second parts, presence patterns aimed at the seams (all, none, runs, alternating, random bits around every seam, one missing sample at/before/after a seam, run ending/starting at a seam, single points, one slice only, presence shorter than a step between grid points). Each case = 5 repetitions with different per-slice server delays (0-3ms) + one repetition answered from the client's cache, through FailoverGroup.RangeQuery of the real client. Oracle per repetition: (1) evaluated timestamps logged by the server form one gap-free progression of the step covering [start,end]; (2) every present grid point in exactly one returned range, no absent one in any, consecutive present points in the same range; (3) ranges equal run -> [first, last+step-1s] and equal AppendSampleToRanges+ExpandRangesEnd applied once to all samples; (4) all repetitions return the same ranges in the same sequence; plus crash / runaway allocation / data race reports of the child processes. Every third sliced case additionally runs the undelivered-slice scenario: one more query during which the answer of 1-5 chosen slices never reaches the client (15 kinds: held past the client's per-request deadline, caller's context ended while the slice is held, connection cut before/inside the answer, HTTP 4xx/5xx with and without a Prometheus error body, 200 with status=error / not JSON / wrong result type / empty object) while the other slices are answered, then the same query again with a healthy server; whenever RangeQuery returns a result without an error it is judged by (1)-(3) over the grid of ALL slice requests the server saw, answered or not. Non-trivial = case whose query was cut into >= 2 slices and where some series changes presence within one step of a seam (by content hash).",
		floors)
}

func c13Replay(c *core.Ctx, run *core.Run) int {
	var cs c13Case
	if err := core.LoadCase(c.Replay, &cs); err != nil {
		fmt.Println("cannot load case:", err)
		return core.ExitInconclusive
	}
	var jobs []c13Job
	if len(cs.Batch) > 0 {
		for i, b := range cs.Batch {
			jobs = append(jobs, c13Job{Idx: i, Case: b})
		}
	} else {
		jobs = []c13Job{{Idx: 0, Case: cs}}
	}
	workers := 1
	if len(jobs) > 1 {
		workers = 4
	}
	br := c13RunBatch(c, jobs, workers, 300*time.Second)
	violated := false
	for _, rep := range br.races {
		violated = true
		fmt.Println("REPLAY violated:", c13RaceSig(rep))
		fmt.Println(c13Cut(rep, 4000))
	}
	for _, j := range jobs {
		o, ok := br.outs[j.Idx]
		if !ok {
			kind, sig := c13Crash(br.proc)
			switch {
			case br.heapHit:
				violated = true
				fmt.Printf("REPLAY violated: runaway-memory (heap %d MB)\n", br.heapMB)
			case kind == "panic" || kind == "fatal" || kind == "signal":
				violated = true
				fmt.Printf("REPLAY violated: crash:%s:%s\n", kind, sig)
			default:
				fmt.Printf("REPLAY inconclusive: case %d has no verdict (timed out=%v exit=%d) %s\n", j.Idx, br.proc.TimedOut, br.proc.Exit, core.Trunc(br.proc.Stderr, 300))
			}
			continue
		}
		if o.Inconc != "" {
			fmt.Println("REPLAY inconclusive:", o.Inconc)
		}
		for _, v := range o.Viols {
			violated = true
			fmt.Println("REPLAY violated:", v.Sig, v.What)
			if len(jobs) == 1 {
				fmt.Println(c13Cut(v.Obs, 8000))
			}
		}
		if len(jobs) == 1 {
			fmt.Printf("REPLAY observed: slices=%d requests=%d grid_points=%d ranges=%d completion_orders=%v\n", o.Slices, o.Requests, o.GridPoints, o.Ranges, o.Orders)
		}
	}
	if violated {
		return 1
	}
	fmt.Println("REPLAY held")
	return 0
}

func c13Cut(s string, n int) string {
	if len(s) > n {
		return s[:n] + "\n...(cut)"
	}
	return s
}

// c13LimitRuns keeps the number of presence runs of a series bounded (the
// client's merge is quadratic in the number of ranges): when there are more
// than max runs, only the neighbourhood of the guessed seams keeps its pattern.
func c13LimitRuns(bits []bool, anchors []int64, max int) {
	count := func() (n int) {
		for i, b := range bits {
			if b && (i == 0 || !bits[i-1]) {
				n++
			}
		}
		return n
	}
	if count() <= max {
		return
	}
	const pad = 3
	keep := make([]bool, len(bits))
	for _, a := range anchors {
		for o := int64(-12); o <= 12; o++ {
			if i := a + o + pad; i >= 0 && i < int64(len(bits)) {
				keep[i] = true
			}
		}
	}
	for i := range bits {
		if !keep[i] {
			bits[i] = true
		}
	}
}
