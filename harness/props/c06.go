package props

import (
	"fmt"
	"math/rand"
	"sort"
	"strings"
	"time"

	"github.com/cloudflare/pint/internal/diags"
	"github.com/cloudflare/pint/internal/output"
	"github.com/cloudflare/pint/internal/parser"

	"github.com/cloudflare/pint/verif/core"
	"github.com/cloudflare/pint/verif/gen"
)

func init() { Registry["C06"] = runC06 }

type c06Case struct {
	Doc    string `json:"doc"`
	Strict bool   `json:"strict"`
	Binary bool   `json:"binary"`
	Nested int    `json:"nested,omitempty"` // the rule document is embedded this many block scalars deep (Doc is the whole file)
	Carets int64  `json:"carets,omitempty"` // seed for the sub-ranges whose rendering is checked
	// Masked: the document as the YAML decoder sees it when a control comment hides text inside a block scalar (hidden
	// bytes are spaces); positions are read back from this text, it has the same lines and columns as Doc
	Masked string `json:"masked,omitempty"`
}

// c06Embed wraps a rule document into an outer YAML file as a block scalar, depth times (a ConfigMap, a ConfigMap
// rendered into a List as a string ...). Returns the file and by how many lines / columns the document moved.
func c06Embed(doc string, depth int, r interface{ Intn(int) int }) (text string, dLine, dCol int) {
	text = doc
	for d := 0; d < depth; d++ {
		ind := 2 + r.Intn(3)
		head := []string{"apiVersion: v1", "kind: ConfigMap", "data:", strings.Repeat(" ", ind-1) + "rules.yml: |"}
		if d > 0 || r.Intn(2) == 0 {
			head = []string{"items:", "  spec: x", "  " + []string{"rendered", "alerts", "content"}[r.Intn(3)] + ": |"}
			ind = 3 + r.Intn(3)
		}
		var out []string
		out = append(out, head...)
		for _, l := range strings.Split(strings.TrimSuffix(text, "\n"), "\n") {
			if l == "" {
				out = append(out, "")
			} else {
				out = append(out, strings.Repeat(" ", ind)+l)
			}
		}
		text = strings.Join(out, "\n") + "\n"
		dLine += len(head)
		dCol += ind
	}
	return text, dLine, dCol
}

// c06Carets renders one diagnostic for a sub-range of a field through the real InjectDiagnostics and compares the
// carets with the characters the positions address. Rule: the carets are drawn under the last line of the range, one
// per displayed character whose first byte is addressed, and that line is printed as it is in the file.
func c06Carets(doc string, lines []string, pos []core.PosRange, first, last int) string {
	units := expandPos(pos)
	if first < 1 || last > len(units) || first > last {
		return ""
	}
	sub := units[first-1 : last]
	lastLine := 0
	for _, u := range sub {
		lastLine = max(lastLine, u.line)
	}
	if lastLine < 1 || lastLine > len(lines) {
		return ""
	}
	src := strings.TrimSuffix(lines[lastLine-1], "\r")
	want := map[int]bool{} // rune index -> caret
	addressed := map[int]bool{}
	for _, u := range sub {
		if u.line == lastLine {
			addressed[u.col] = true
		}
	}
	ri := 0
	for bi := range lines[lastLine-1] {
		if addressed[bi+1] {
			want[ri] = true
		}
		ri++
	}
	if len(want) == 0 {
		return "" // only a line break is addressed on that line
	}
	pr := make(diags.PositionRanges, len(pos))
	for i, p := range pos {
		pr[i] = diags.PositionRange{Line: p.Line, FirstColumn: p.FirstColumn, LastColumn: p.LastColumn}
	}
	var rendered string
	func() {
		defer func() {
			if r := recover(); r != nil {
				rendered = fmt.Sprintf("PANIC: %v", r)
			}
		}()
		rendered = diags.InjectDiagnostics(doc, []diags.Diagnostic{{Message: "MSG", Pos: pr, FirstColumn: first, LastColumn: last}}, output.None)
	}()
	if strings.HasPrefix(rendered, "PANIC") {
		return "render-panic: " + rendered
	}
	out := strings.Split(rendered, "\n")
	for i, l := range out {
		bar := strings.Index(l, " | ")
		if bar < 0 || strings.TrimSpace(l[:bar]) != fmt.Sprint(lastLine) {
			continue
		}
		if strings.TrimSuffix(l[bar+3:], "\r") != src {
			return fmt.Sprintf("source line %d printed as %q, file has %q", lastLine, l[bar+3:], src)
		}
		if i+1 >= len(out) || !strings.HasSuffix(out[i+1], " MSG") {
			return fmt.Sprintf("no caret line under line %d: %q", lastLine, rendered)
		}
		cl := strings.TrimSuffix(out[i+1], " MSG")
		if len(cl) < bar+3 {
			return fmt.Sprintf("caret line too short under line %d: %q", lastLine, out[i+1])
		}
		got := map[int]bool{}
		for ci, ch := range cl[bar+3:] {
			if ch == '^' {
				got[ci] = true
			}
		}
		for k := range want {
			if !got[k] {
				return fmt.Sprintf("character %d of line %d (%q) is addressed but has no caret: %q", k, lastLine, src, out[i+1])
			}
		}
		for k := range got {
			if !want[k] {
				return fmt.Sprintf("caret under character %d of line %d (%q) which is not addressed (addressed byte columns %v): %q", k, lastLine, src, sortedInts(addressed), out[i+1])
			}
		}
		return ""
	}
	return fmt.Sprintf("line %d not printed: %q", lastLine, rendered)
}

func sortedInts(m map[int]bool) []int {
	var out []int
	for k := range m {
		out = append(out, k)
	}
	sort.Ints(out)
	return out
}

type posUnit struct{ line, col int }

func expandPos(p []core.PosRange) []posUnit {
	var out []posUnit
	for _, r := range p {
		for c := r.FirstColumn; c <= r.LastColumn; c++ {
			out = append(out, posUnit{r.Line, c})
		}
	}
	return out
}

func toCorePos(p diags.PositionRanges) []core.PosRange {
	out := make([]core.PosRange, len(p))
	for i, r := range p {
		out[i] = core.PosRange{Line: r.Line, FirstColumn: r.FirstColumn, LastColumn: r.LastColumn}
	}
	return out
}

// readBack checks that the units spell value. Rule (no stricter than the statement): unit i <-> value byte i; a unit
// one past the end of its line is a line break and may stand for "\n" or for the space a fold turned it into;
// trailing line breaks of the value may have no unit.
func readBack(lines []string, units []posUnit, value string) string {
	v := value
	// tolerate missing units for trailing newlines
	for len(v) > len(units) && strings.HasSuffix(v, "\n") {
		v = v[:len(v)-1]
	}
	if len(units) != len(v) {
		return fmt.Sprintf("count: %d position units for a value of %d bytes (%d without trailing newlines)", len(units), len(value), len(v))
	}
	for i, u := range units {
		if u.line < 1 || u.line > len(lines) {
			return fmt.Sprintf("outside-file: unit %d at line %d, file has %d lines", i, u.line, len(lines))
		}
		l := lines[u.line-1]
		want := v[i]
		switch {
		case u.col >= len(l)+1 || (u.col == len(l) && strings.HasSuffix(l, "\r")):
			// past the end of the line: a line break (in an embedded document the column offset of the block is
			// added to the unit of an empty line as well, so it can lie further right than one past the end)
			if want != '\n' && want != ' ' {
				return fmt.Sprintf("spell: unit %d (%d:%d) is a line break but value byte is %q", i, u.line, u.col, want)
			}
		case u.col < 1:
			return fmt.Sprintf("outside-line: unit %d at %d:%d, line has %d bytes", i, u.line, u.col, len(l))
		default:
			if l[u.col-1] != want {
				return fmt.Sprintf("spell: unit %d (%d:%d) reads %q but value byte is %q", i, u.line, u.col, l[u.col-1], want)
			}
		}
	}
	return ""
}

type c06Field struct {
	rule  int
	path  string
	value string
	pos   []core.PosRange
}

func c06Fields(f parser.File) (fields []c06Field, rules []parser.Rule) {
	ord := 0
	for _, g := range f.Groups {
		for _, r := range g.Rules {
			rules = append(rules, r)
			add := func(path string, n *parser.YamlNode) {
				if n != nil {
					fields = append(fields, c06Field{rule: ord, path: path, value: n.Value, pos: toCorePos(n.Pos)})
				}
			}
			addMap := func(name string, m *parser.YamlMap) {
				if m == nil {
					return
				}
				for _, it := range m.Items {
					add(name+".key."+it.Key.Value, it.Key)
					add(name+"."+it.Key.Value, it.Value)
				}
			}
			if rr := r.RecordingRule; rr != nil {
				add("record", &rr.Record)
				add("expr", rr.Expr.Value)
				addMap("labels", rr.Labels)
			}
			if ar := r.AlertingRule; ar != nil {
				add("alert", &ar.Alert)
				add("expr", ar.Expr.Value)
				add("for", ar.For)
				add("keep_firing_for", ar.KeepFiringFor)
				addMap("labels", ar.Labels)
				addMap("annotations", ar.Annotations)
			}
			ord++
		}
	}
	return fields, rules
}

// dominantFeature picks the feature that names the root cause when a scalar (or a rule) carries several.
func dominantFeature(style string, feats []string) string {
	for _, f := range []string{"dq-escape", "indent-indicator", "blank-inside"} {
		for _, x := range feats {
			if x == f {
				return f
			}
		}
	}
	if len(feats) == 0 {
		return "no-risky-feature:" + style
	}
	return strings.Join(sortedStrings(feats), "+") + ":" + style
}

type c06Outcome struct {
	viol    []core.Violation
	keys    []string // non-trivial distinct keys
	fields  int
	diagsOK int
	carets  int
}

func c06Check(c *core.Ctx, cs c06Case, rend *gen.Rendered) c06Outcome {
	out := c06Outcome{}
	files := map[string][]byte{"rules.yml": []byte(cs.Doc)}
	f, panicked := c19Parse(cs.Doc, cs.Strict)
	if panicked != "" {
		out.viol = append(out.viol, core.Violation{Sig: "parser-panic", What: "parser panicked: " + panicked, Case: cs, Files: files})
		return out
	}
	if f.Error.Err != nil {
		return out
	}
	src := cs.Doc
	if cs.Masked != "" {
		src = cs.Masked
	}
	lines := strings.Split(src, "\n")
	if strings.HasSuffix(src, "\n") {
		lines = lines[:len(lines)-1]
	}
	for i := range lines {
		_ = i
	}
	fields, rules := c06Fields(f)
	info := map[string]gen.FieldInfo{}
	if rend != nil {
		for _, fi := range rend.Fields {
			info[fmt.Sprintf("%d/%s", fi.Rule, fi.Path)] = fi
		}
	}
	for _, fd := range fields {
		out.fields++
		fi, known := info[fmt.Sprintf("%d/%s", fd.rule, fd.path)]
		feats := "?"
		style := "?"
		if known {
			feats = strings.Join(fi.Features, "+")
			style = fi.Style.String()
		}
		if feats == "" {
			feats = "none"
		}
		units := expandPos(fd.pos)
		mk := func(kind, what string) {
			_ = kind
			out.viol = append(out.viol, core.Violation{
				Sig:   "positions-do-not-spell-value:" + dominantFeature(style, fi.Features),
				What:  fmt.Sprintf("field %s of rule %d (style %s, features %s): %s | value %q | positions %v", fd.path, fd.rule, style, feats, what, core.Trunc(fd.value, 120), fd.pos),
				Case:  cs,
				Files: files,
			})
		}
		if msg := readBack(lines, units, fd.value); msg != "" {
			mk(strings.SplitN(msg, ":", 2)[0], msg)
			continue
		}
		if cs.Carets != 0 && len(units) > 0 {
			cr := rand.New(rand.NewSource(cs.Carets + int64(out.fields)))
			for k := 0; k < 2; k++ {
				a := 1 + cr.Intn(len(units))
				b := a + cr.Intn(min(len(units)-a+1, 12))
				if k == 1 {
					a, b = 1, len(units)
				}
				out.carets++
				if msg := c06Carets(src, lines, fd.pos, a, b); msg != "" {
					out.viol = append(out.viol, core.Violation{
						Sig:   "carets-miss-the-addressed-characters:" + map[bool]string{true: "non-ascii-line", false: "ascii-line"}[strings.ContainsFunc(fd.value, func(r rune) bool { return r > 127 })],
						What:  fmt.Sprintf("field %s of rule %d, diagnostic columns %d-%d of value %q: %s", fd.path, fd.rule, a, b, core.Trunc(fd.value, 80), msg),
						Case:  cs,
						Files: files,
					})
					break
				}
			}
		}
		if known {
			// every unit inside the source extent the writer gave this field
			// (blank lines that follow a block scalar belong to it - keep chomping - although the writer
			// emitted them as the gap before the next field)
			lastOK := max(fi.Ext.LastLine, fi.Ext.KeyLine)
			for lastOK < len(lines) && strings.TrimRight(lines[lastOK], "\r") == "" {
				lastOK++
			}
			for _, u := range units {
				if u.line < fi.Ext.FirstLine || u.line > lastOK {
					mk("outside-extent", fmt.Sprintf("unit at line %d outside the field's source lines %d-%d", u.line, fi.Ext.FirstLine, fi.Ext.LastLine))
					break
				}
			}
			if len(fd.value) > 0 && (len(fi.Features) > 0 || fi.Style != gen.Plain || fi.Ext.LastLine > fi.Ext.FirstLine) {
				out.keys = append(out.keys, fmt.Sprintf("%s|%s|lines=%d", style, feats, min(fi.Ext.LastLine-fi.Ext.FirstLine+1, 5)))
			}
		}
	}
	// rule line ranges enclose all fields and lie inside the file
	for i, r := range rules {
		if r.Error.Err != nil {
			continue
		}
		if r.Lines.First < 1 || r.Lines.Last > len(lines) || r.Lines.First > r.Lines.Last {
			out.viol = append(out.viol, core.Violation{Sig: "rule-lines-outside-file", What: fmt.Sprintf("rule %d lines %d-%d, file has %d lines", i, r.Lines.First, r.Lines.Last, len(lines)), Case: cs, Files: files})
			continue
		}
		for _, fd := range fields {
			if fd.rule != i {
				continue
			}
			for _, p := range fd.pos {
				if p.Line < r.Lines.First || p.Line > r.Lines.Last {
					fi := info[fmt.Sprintf("%d/%s", fd.rule, fd.path)]
					feats := strings.Join(fi.Features, "+")
					if feats == "" {
						feats = "none"
					}
					out.viol = append(out.viol, core.Violation{Sig: "rule-lines-do-not-enclose-field:" + dominantFeature(fi.Style.String(), fi.Features), What: fmt.Sprintf("rule %d lines %d-%d do not enclose field %s at line %d", i, r.Lines.First, r.Lines.Last, fd.path, p.Line), Case: cs, Files: files})
					break
				}
			}
		}
		if rend != nil && i < len(rend.Rules) && cs.Strict {
			ri := rend.Rules[i]
			// the rule must not swallow lines of other rules: compare with the writer's extent
			// blank lines after the rule's last line may belong to a keep-chomped block scalar
			lastOK := ri.Last
			for lastOK < len(lines) && strings.TrimRight(lines[lastOK], "\r") == "" {
				lastOK++
			}
			if r.Lines.First < ri.First || r.Lines.Last > lastOK {
				feats := map[string]bool{}
				for _, fi := range rend.Fields {
					if fi.Rule == i {
						for _, ft := range fi.Features {
							feats[ft] = true
						}
					}
				}
				var fl []string
				for k := range feats {
					fl = append(fl, k)
				}
				fs := strings.Join(sortedStrings(fl), "+")
				if fs == "" {
					fs = "none"
				}
				out.viol = append(out.viol, core.Violation{Sig: "rule-lines-exceed-rule:" + dominantFeature("", fl), What: fmt.Sprintf("rule %d reported lines %d-%d but its source lines are %d-%d", i, r.Lines.First, r.Lines.Last, ri.First, ri.Last), Case: cs, Files: files})
			}
		}
	}
	// diagnostics of the real binary: the column range must address characters of the field the positions belong to
	if cs.Binary {
		opts := LintOpts{Global: []string{"--offline"}, WantDump: true, Timeout: 30 * time.Second,
			Config: "rule {\n  label \"severity\" {\n    value = \"(critical)\"\n    required = true\n  }\n  annotation \"summary\" {\n    value = \"nomatch\"\n    required = true\n  }\n  name \"nomatch.*\" {\n  }\n  reject \".* .*\" {\n    label_values = true\n    annotation_values = true\n  }\n}\n"}
		if !cs.Strict {
			opts.Config += "parser {\n  relaxed = [\".*\"]\n}\n"
		}
		res := RunLint(c, map[string]string{"rules.yml": cs.Doc}, opts)
		if res.Dump != nil && res.Proc.Crash == "" {
			for _, rep := range res.Dump.Reports {
				for _, dg := range rep.Diagnostics {
					// find the field whose positions these are
					var owner *core.DNode
					ambiguous := false
					for ei := range res.Dump.Entries {
						e := &res.Dump.Entries[ei]
						nodes := []*core.DNode{e.Rule.NameNode, e.Rule.Expr, e.Rule.For, e.Rule.KeepFiringFor, e.Rule.LabelsKey, e.Rule.AnnotationKey}
						for li := range e.Rule.Labels {
							nodes = append(nodes, &e.Rule.Labels[li].Key, &e.Rule.Labels[li].Value)
						}
						for li := range e.Rule.Annotations {
							nodes = append(nodes, &e.Rule.Annotations[li].Key, &e.Rule.Annotations[li].Value)
						}
						for _, n := range nodes {
							if n != nil && fmt.Sprint(n.Pos) == fmt.Sprint(dg.Pos) {
								if owner != nil && owner.Value != n.Value {
									// two fields claim the same positions (a position defect the field monitor
									// above reports): the diagnostic cannot be attributed to one of them
									ambiguous = true
								}
								owner = n
							}
						}
					}
					if owner == nil || ambiguous {
						continue
					}
					if msg := readBack(lines, expandPos(owner.Pos), owner.Value); msg != "" {
						continue // already reported by the field monitor above
					}
					if dg.First < 1 || dg.Last < dg.First || dg.Last > max(len(owner.Value), 1) {
						out.viol = append(out.viol, core.Violation{Sig: "diagnostic-columns-outside-value:" + rep.Reporter, What: fmt.Sprintf("diagnostic %q of %s has columns %d-%d but the field value %q has %d bytes", dg.Message, rep.Reporter, dg.First, dg.Last, core.Trunc(owner.Value, 80), len(owner.Value)), Case: cs, Files: files})
						continue
					}
					out.diagsOK++
				}
			}
		}
	}
	return out
}

func runC06(c *core.Ctx) int {
	run := core.NewRun(c)
	if c.Replay != "" {
		var cs c06Case
		if err := core.LoadCase(c.Replay, &cs); err != nil {
			fmt.Println("cannot load case:", err)
			return core.ExitInconclusive
		}
		o := c06Check(c, cs, nil)
		for _, v := range o.viol {
			fmt.Println("REPLAY violated:", v.Sig, v.What)
		}
		if len(o.viol) > 0 {
			return 1
		}
		fmt.Println("REPLAY held")
		return 0
	}
	n := c.N(30000, 600000)
	nBinary := c.N(1500, 15000)
	step := n/nBinary + 1
	core.Parallel(n, 16, func(i int) {
		r := c.Rand("c06", i)
		o := gen.DefaultGenOpts()
		o.Escapes = r.Intn(4) == 0
		o.BlankInside = r.Intn(3) == 0
		o.IndentInd = r.Intn(5) == 0
		o.CRLF = r.Intn(8) == 0
		o.NonASCII = r.Intn(3) == 0
		// one document in six is embedded one or two block scalars deep (relaxed parser, YAML inside YAML); those
		// use none of the spellings with known position defects, so whatever fails there is about nesting
		nested := 0
		if r.Intn(6) == 0 {
			nested = 1 + r.Intn(2)
			o.Escapes, o.BlankInside, o.IndentInd, o.CRLF = false, false, false, false
		}
		d := gen.RandDoc(r, o)
		strict := true
		if r.Intn(3) == 0 {
			d.BareRules = true
			d.Header = nil
			strict = false
		} else if r.Intn(4) == 0 {
			strict = false
		}
		rend := d.Render()
		cs := c06Case{Doc: rend.Text, Strict: strict, Binary: i%step == 0, Carets: int64(i) + 1}
		if nested > 0 {
			var dl int
			cs.Doc, dl, _ = c06Embed(rend.Text, nested, r)
			cs.Nested, cs.Strict = nested, false
			for k := range rend.Fields {
				rend.Fields[k].Ext.KeyLine += dl
				rend.Fields[k].Ext.FirstLine += dl
				rend.Fields[k].Ext.LastLine += dl
			}
			for k := range rend.Rules {
				rend.Rules[k].First += dl
				rend.Rules[k].Last += dl
			}
			run.Count(fmt.Sprintf("nested_depth_%d_documents", nested), 1)
		}
		if nested == 0 && !o.CRLF && r.Intn(6) == 0 {
			// a line hidden by `# pint ignore/line` inside a literal block scalar: the decoder sees spaces there
			var cand []int
			for k, fi := range rend.Fields {
				if fi.Style == gen.Literal && fi.Ext.LastLine > fi.Ext.FirstLine && fi.Ext.FirstLine > fi.Ext.KeyLine {
					cand = append(cand, k)
				}
			}
			if len(cand) > 0 {
				k := cand[r.Intn(len(cand))]
				at := rend.Fields[k].Ext.FirstLine // insert after this 1-based line
				dl := strings.Split(cs.Doc, "\n")
				first := dl[at-1]
				ind := first[:len(first)-len(strings.TrimLeft(first, " "))]
				payload := []string{"{% if hidden %}", "- alert: Fake", "key: [unclosed", "żółć «x»", "x"}[r.Intn(5)]
				hidden := ind + payload + " # pint ignore/line"
				masked := strings.Repeat(" ", len(ind+payload+" ")) + "# pint ignore/line"
				mk := func(line string) string {
					out := append(append(append([]string{}, dl[:at]...), line), dl[at:]...)
					return strings.Join(out, "\n")
				}
				cs.Doc, cs.Masked = mk(hidden), mk(masked)
				for j := range rend.Fields {
					e := &rend.Fields[j].Ext
					if e.KeyLine > at {
						e.KeyLine++
					}
					if e.FirstLine > at {
						e.FirstLine++
					}
					if e.LastLine >= at && (j == k || e.LastLine > at) {
						e.LastLine++
					}
				}
				for j := range rend.Rules {
					if rend.Rules[j].First > at {
						rend.Rules[j].First++
					}
					if rend.Rules[j].Last >= at {
						rend.Rules[j].Last++
					}
				}
				cs.Binary = false
				run.Count("documents_with_text_hidden_inside_a_block_scalar", 1)
			}
		}
		oc := c06Check(c, cs, &rend)
		run.Eval(1)
		run.Count("fields_read_back", int64(oc.fields))
		run.Count("caret_renderings_checked", int64(oc.carets))
		if o.NonASCII {
			run.Count("documents_with_multibyte_values", 1)
		}
		run.Count("diagnostics_checked", int64(oc.diagsOK))
		for _, v := range oc.viol {
			run.Violate(v)
		}
		for _, k := range oc.keys {
			run.Nontrivial(k)
		}
		if i%(n/6+1) == 0 {
			run.Sample(map[string]any{"strict": strict, "doc": core.Trunc(cs.Doc, 500)})
		}
	})
	run.Assume("read-back rule: unit i is value byte i; a unit past the end of its line is a line break spelling \\n or the space of a fold; trailing line breaks of a value may have no unit; for CRLF files the unit after the \\r counts as the line break")
	run.Assume("each generated field is tagged with the risky features of its spelling (dq-escape, blank-inside, indent-indicator, multiline-plain, multiline-quoted, more-indented-line, sq-quote, flow); a violation's signature carries the scalar style and that feature set")
	return run.Finish("exploration",
		"documents from the all-style generator (plain, single/double quoted, literal and folded blocks with every chomping indicator, explicit indentation indicators, multi-line plain and quoted scalars, blank lines inside, escapes, flow mappings, comments and blank lines at every gap, indentation 1-4, CRLF, strict groups and bare relaxed lists) parsed in-process; for every extracted field the positions are read back from the file unit by unit against the value, units must stay inside the field's source lines, rule line ranges must enclose their fields, stay inside the file and inside the rule's own source lines; a sample is run through the pint binary and every diagnostic's column range must address bytes of the field its positions belong to. Non-trivial = quoted, block, multi-line or feature-carrying field; distinct by (style, features, line count).",
		core.Floors{MinEvaluations: int64(n), MinNontrivial: 30})
}
