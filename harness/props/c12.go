package props

import (
	"fmt"
	"regexp"
	"slices"
	"sort"
	"strings"

	promParser "github.com/prometheus/prometheus/promql/parser"

	"github.com/cloudflare/pint/internal/parser/utils"

	"github.com/cloudflare/pint/verif/core"
	"github.com/cloudflare/pint/verif/gen"
	"github.com/cloudflare/pint/verif/promfake"
)

func init() { Registry["C12"] = runC12 }

type c12Case struct {
	Expr string              `json:"expr"`
	DBs  [][]promfake.Series `json:"dbs"`
}

func deadClass(reason string) string {
	switch {
	case strings.Contains(reason, "will never be matched"):
		return "join-cannot-match"
	case strings.Contains(reason, "`unless` query always returns"):
		return "unless-always-suppressed"
	case strings.Contains(reason, "which is not possible"):
		return "static-comparison"
	case strings.Contains(reason, "right hand side is never used"):
		return "or-rhs-never-used"
	}
	return "other"
}

func vecKey(v []promfake.ResultSeries) string {
	var ks []string
	for _, s := range v {
		var ls []string
		for k, val := range s.Labels {
			ls = append(ls, k+"="+val)
		}
		sort.Strings(ls)
		ks = append(ks, strings.Join(ls, ",")+fmt.Sprintf("=>%g", s.Value))
	}
	sort.Strings(ks)
	return strings.Join(ks, ";")
}

var deadLabelRe = regexp.MustCompile("have the `([^`]+)` label")

// c12Cause describes, from engine observations, the situation in which a refuted claim was made: which modifier the
// owning operation has, whether the label the claim talks about is in the modifier's list and which operand's series
// actually carry it. It identifies a root cause far better than pint's message text.
func c12Cause(expr, class string, d utils.Source, owner *promParser.BinaryExpr, cands []*promParser.BinaryExpr, db *promfake.DB) string {
	if owner == nil {
		return "no-owner"
	}
	switch class {
	case "or-rhs-never-used":
		if owner.VectorMatching != nil && owner.VectorMatching.On && len(owner.VectorMatching.MatchingLabels) == 0 {
			// what makes pint believe the left side always returns
			hasAnd := false
			promParser.Inspect(owner.LHS, func(n promParser.Node, _ []promParser.Node) error {
				if b, ok := n.(*promParser.BinaryExpr); ok && b.Op == promParser.LAND {
					hasAnd = true
				}
				return nil
			})
			if hasAnd {
				return "or-with-on():left-side-has-and"
			}
			return "or-with-on():left-side-shape=" + astShape(owner.LHS, 1)
		}
		return "or-left-side-always-returns"
	case "static-comparison":
		hasBool := owner.ReturnBool
		for _, b := range cands {
			// a comparison around or inside the flagged one
			hasBool = hasBool || b.ReturnBool
		}
		promParser.Inspect(owner, func(n promParser.Node, _ []promParser.Node) error {
			if b, ok := n.(*promParser.BinaryExpr); ok && b.ReturnBool {
				hasBool = true
			}
			return nil
		})
		if hasBool {
			return "bool-modifier"
		}
		cause := "constant-operands"
		for _, side := range []promParser.Expr{owner.LHS, owner.RHS} {
			promParser.Inspect(side, func(n promParser.Node, _ []promParser.Node) error {
				if _, ok := n.(*promParser.AggregateExpr); ok {
					cause = "aggregation-of-constant"
				}
				if c, ok := n.(*promParser.Call); ok && c.Func.Name != "vector" && cause != "aggregation-of-constant" {
					cause = "function-of-constant"
				}
				return nil
			})
		}
		return cause
	}
	if class == "unless-always-suppressed" {
		return "rhs-shape=" + astShape(owner.RHS, 2)
	}
	vm := owner.VectorMatching
	mod := "none"
	switch {
	case vm.On:
		mod = "on"
	case len(vm.MatchingLabels) > 0:
		mod = "ignoring"
	}
	if vm.Card == promParser.CardManyToOne || vm.Card == promParser.CardOneToMany {
		mod += "+group"
	}
	label := ""
	if m := deadLabelRe.FindStringSubmatch(d.IsDeadReason); m != nil {
		label = m[1]
	}
	inList := false
	for _, l := range vm.MatchingLabels {
		if l == label {
			inList = true
		}
	}
	has := func(e promParser.Expr) string {
		vec, sc, err := promfake.Instant(theEngine(), db, expr[e.PositionRange().Start:e.PositionRange().End], engT)
		if err != nil || sc {
			return "unknown"
		}
		if len(vec) == 0 {
			return "empty"
		}
		for _, sr := range vec {
			if _, ok := sr.Labels[label]; ok {
				return "yes"
			}
		}
		return "no"
	}
	rpr := owner.RHS.PositionRange()
	flagged, other := owner.LHS, owner.RHS
	if rpr.Start <= d.Position.Start && rpr.End >= d.Position.End {
		flagged, other = owner.RHS, owner.LHS
	}
	opClass := "arith-or-cmp"
	if owner.Op.IsSetOperator() {
		opClass = owner.Op.String()
	}
	cause := fmt.Sprintf("%s:%s:label-in-list=%v:flagged-side-has-label=%s:other-side-has-label=%s", mod, opClass, inList, has(flagged), has(other))
	union := false
	promParser.Inspect(other, func(n promParser.Node, _ []promParser.Node) error {
		if b, ok := n.(*promParser.BinaryExpr); ok && b.Op == promParser.LOR {
			union = true
		}
		return nil
	})
	if union {
		// the verdict is taken per branch of the union and attached to the flagged side as a whole
		return "other-side-is-union"
	}
	if vm.On && has(flagged) == "no" && has(other) == "no" {
		// neither side carries L: what makes pint believe the other side can?
		belief := ""
		promParser.Inspect(other, func(n promParser.Node, _ []promParser.Node) error {
			b, ok := n.(*promParser.BinaryExpr)
			if !ok || b.VectorMatching == nil {
				return nil
			}
			switch {
			case b.VectorMatching.On && slices.Contains(b.VectorMatching.MatchingLabels, label):
				// an inner operation with on(L): pint adds L to what its result can carry
				belief = "other-side-has-inner-on(L)"
			case slices.Contains(b.VectorMatching.Include, label) && belief == "":
				// an inner group_left(L)/group_right(L): L is copied from a side that does not have it
				belief = "other-side-has-inner-group-modifier(L)"
			}
			return nil
		})
		if belief != "" {
			return "on:" + belief
		}
	}
	if !vm.On {
		// without on() pint relies on the labels it believes the other side is guaranteed to carry: the shape of
		// that side tells apart the ways in which that belief goes wrong
		cause += ":other-side-shape=" + astShape(other, 3)
	}
	return cause
}

// astShape: the outer node kinds of an expression (the side pint believes carries the label), e.g. fn>agg>sel
func astShape(e promParser.Expr, depth int) string {
	if depth == 0 {
		return "."
	}
	switch n := e.(type) {
	case *promParser.ParenExpr:
		return astShape(n.Expr, depth)
	case *promParser.Call:
		for _, a := range n.Args {
			if a.Type() == promParser.ValueTypeVector || a.Type() == promParser.ValueTypeMatrix {
				return "fn>" + astShape(a, depth-1)
			}
		}
		return "fn"
	case *promParser.AggregateExpr:
		k := "agg"
		switch {
		case n.Without:
			k = "agg-without"
		case len(n.Grouping) > 0:
			k = "agg-by"
		}
		return k + ">" + astShape(n.Expr, depth-1)
	case *promParser.BinaryExpr:
		return "bin(" + n.Op.String() + ")"
	case *promParser.VectorSelector:
		return "sel"
	case *promParser.MatrixSelector:
		return "range"
	case *promParser.SubqueryExpr:
		return "subq>" + astShape(n.Expr, depth-1)
	case *promParser.UnaryExpr:
		return "neg>" + astShape(n.Expr, depth-1)
	case *promParser.NumberLiteral:
		return "num"
	}
	return "other"
}

// unionVariants: when side (an operand of op) contains a union, pint takes its verdict per branch of the union; return
// the text of op with the outermost union inside side replaced by each of its branches in turn.
func unionVariants(expr string, op *promParser.BinaryExpr, side promParser.Expr) (out []string) {
	var union *promParser.BinaryExpr
	promParser.Inspect(side, func(n promParser.Node, _ []promParser.Node) error {
		if b, ok := n.(*promParser.BinaryExpr); ok && b.Op == promParser.LOR && union == nil {
			union = b
		}
		return nil
	})
	if union == nil {
		return nil
	}
	var branches []promParser.Expr
	var flatten func(e promParser.Expr)
	flatten = func(e promParser.Expr) {
		for {
			p, ok := e.(*promParser.ParenExpr)
			if !ok {
				break
			}
			e = p.Expr
		}
		if b, ok := e.(*promParser.BinaryExpr); ok && b.Op == promParser.LOR {
			flatten(b.LHS)
			flatten(b.RHS)
			return
		}
		branches = append(branches, e)
	}
	flatten(union)
	opr, ur := op.PositionRange(), union.PositionRange()
	for _, br := range branches {
		r := br.PositionRange()
		out = append(out, expr[opr.Start:ur.Start]+"("+expr[r.Start:r.End]+")"+expr[ur.End:opr.End])
	}
	return out
}

type c12Outcome struct {
	viol    []core.Violation
	keys    []string
	dead    int
	inconc  int
	evalErr int
}

// c12Check: for every dead source of the expression, the operation it belongs to must return nothing on every database.
func c12Check(cs c12Case) (out c12Outcome) {
	defer func() {
		if r := recover(); r != nil {
			out.viol = append(out.viol, core.Violation{Sig: "analyser-panic", What: fmt.Sprintf("panic while analysing %q: %v", cs.Expr, r), Case: cs})
		}
	}()
	node, err := promParser.ParseExpr(cs.Expr)
	if err != nil {
		return out
	}
	var dead []utils.Source
	for _, s := range utils.LabelsSource(cs.Expr, node) {
		s.WalkSources(func(x utils.Source) {
			if x.IsDead {
				dead = append(dead, x)
			}
		})
	}
	if len(dead) == 0 {
		return out
	}
	// all binary expressions of the query
	var bins []*promParser.BinaryExpr
	promParser.Inspect(node, func(n promParser.Node, _ []promParser.Node) error {
		if b, ok := n.(*promParser.BinaryExpr); ok {
			bins = append(bins, b)
		}
		return nil
	})
	seen := map[string]bool{}
	for _, d := range dead {
		class := deadClass(d.IsDeadReason)
		if class == "other" && d.IsDeadReason == "" {
			// an enclosing arithmetic operation with a number wiped the reason (calculateStaticReturn passes the flag
			// on without it): the claim is the one made inside
			for _, b := range bins {
				rr := b.RHS.PositionRange()
				if b.Op == promParser.LOR && rr.Start <= d.Position.Start && rr.End >= d.Position.End {
					class = "or-rhs-never-used"
				}
			}
			if class == "other" {
				for _, b := range bins {
					pr := b.PositionRange()
					if b.Op.IsComparisonOperator() && ((pr.Start <= d.Position.Start && pr.End >= d.Position.End) || (pr.Start >= d.Position.Start && pr.End <= d.Position.End)) {
						class = "static-comparison"
					}
				}
			}
		}
		id := fmt.Sprintf("%s@%d-%d", class, d.Position.Start, d.Position.End)
		if seen[id] {
			continue
		}
		seen[id] = true
		out.dead++
		// enclosing binary expressions of the dead part
		var enc []*promParser.BinaryExpr
		for _, b := range bins {
			pr := b.PositionRange()
			if pr.Start <= d.Position.Start && pr.End >= d.Position.End && d.Position.End > d.Position.Start {
				enc = append(enc, b)
			}
		}
		if len(enc) == 0 {
			enc = bins
		}
		mod := "plain"
		for _, b := range enc {
			if b.VectorMatching != nil {
				switch {
				case b.VectorMatching.On:
					mod = "on"
				case len(b.VectorMatching.MatchingLabels) > 0:
					mod = "ignoring"
				}
				if b.VectorMatching.Card == promParser.CardManyToOne || b.VectorMatching.Card == promParser.CardOneToMany {
					mod += "+group"
				}
				break
			}
		}
		op := ""
		if len(enc) > 0 {
			op = enc[len(enc)-1].Op.String()
		}
		out.keys = append(out.keys, fmt.Sprintf("%s|%s|%s", class, op, mod))
		// the vector-matching operation the flag belongs to: innermost enclosing binary expression with vector matching
		// (for static comparisons: innermost enclosing comparison)
		var owner *promParser.BinaryExpr
		claimLabel := ""
		if m := deadLabelRe.FindStringSubmatch(d.IsDeadReason); m != nil {
			claimLabel = m[1]
		}
		claimOn := strings.Contains(d.IsDeadReason, "from `on(...)`")
		for _, b := range enc {
			ok := b.VectorMatching != nil
			switch class {
			case "static-comparison":
				ok = b.Op.IsComparisonOperator()
			case "or-rhs-never-used":
				rr := b.RHS.PositionRange()
				ok = b.Op == promParser.LOR && rr.Start <= d.Position.Start && rr.End >= d.Position.End
			case "join-cannot-match":
				// the claim names a label and (for on) the modifier list it comes from
				if ok && claimOn {
					ok = b.VectorMatching.On && slices.Contains(b.VectorMatching.MatchingLabels, claimLabel)
				} else if ok {
					ok = !b.VectorMatching.On
				}
				// (for `or` pint computes the verdict but never attaches it, so an `or` is never the owner)
				if b.Op == promParser.LOR {
					ok = false
				}
				// the claim names the side of the operation it is about
				if ok {
					side := b.RHS.PositionRange()
					if strings.HasPrefix(d.IsDeadReason, "The left hand side") {
						side = b.LHS.PositionRange()
					}
					ok = side.Start <= d.Position.Start && side.End >= d.Position.End
				}
			}
			if !ok {
				continue
			}
			if owner == nil || (b.PositionRange().End-b.PositionRange().Start) < (owner.PositionRange().End-owner.PositionRange().Start) {
				owner = b
			}
		}
		var cands []*promParser.BinaryExpr
		for _, b := range enc {
			if class == "join-cannot-match" && b.VectorMatching == nil {
				continue
			}
			if class == "static-comparison" && !b.Op.IsComparisonOperator() && b.VectorMatching == nil {
				continue
			}
			cands = append(cands, b)
		}
		if class == "static-comparison" {
			// the position pint keeps for such a source can be that of a larger node; the comparison the claim is
			// about may enclose it or lie inside it
			cands = nil
			for _, b := range bins {
				if !b.Op.IsComparisonOperator() {
					continue
				}
				pr := b.PositionRange()
				encl := pr.Start <= d.Position.Start && pr.End >= d.Position.End
				inside := pr.Start >= d.Position.Start && pr.End <= d.Position.End
				if encl || inside {
					cands = append(cands, b)
					if owner == nil {
						owner = b
					}
				}
			}
		}
		if class == "unless-always-suppressed" {
			// the flagged source is the left side of an `unless on()`; functions around the operation widen the
			// position pint keeps for it, so the operation may enclose the position or lie inside it
			cands, owner = nil, nil
			for _, b := range bins {
				if b.Op != promParser.LUNLESS || b.VectorMatching == nil || !b.VectorMatching.On || len(b.VectorMatching.MatchingLabels) > 0 {
					continue
				}
				pr := b.PositionRange()
				encl := pr.Start <= d.Position.Start && pr.End >= d.Position.End
				inside := pr.Start >= d.Position.Start && pr.End <= d.Position.End
				if encl || inside {
					cands = append(cands, b)
					if owner == nil {
						owner = b
					}
				}
			}
		}
		for di, dbs := range cs.DBs {
			db := &promfake.DB{Series: dbs}
			held, inconclusive := false, false
			var witness string
			var trace []string
			for _, b := range cands {
				sub := cs.Expr[b.PositionRange().Start:b.PositionRange().End]
				rpr := b.RHS.PositionRange()
				inRHS := rpr.Start <= d.Position.Start && rpr.End >= d.Position.End
				needEq := class == "or-rhs-never-used" || (b.Op == promParser.LUNLESS && inRHS && class == "join-cannot-match")
				if class == "or-rhs-never-used" && (b.Op != promParser.LOR || !inRHS) {
					continue
				}
				// evaluate the operation (and, when the flagged side is a union, the operation with the union replaced
				// by each of its branches: the claim is then about one branch only)
				subs := []string{sub}
				if class == "join-cannot-match" {
					side := b.LHS
					if inRHS {
						side = b.RHS
					}
					subs = append(subs, unionVariants(cs.Expr, b, side)...)
				}
				if class == "static-comparison" {
					// a comparison with a union is folded per branch of the union
					subs = append(subs, unionVariants(cs.Expr, b, b.LHS)...)
					subs = append(subs, unionVariants(cs.Expr, b, b.RHS)...)
				}
				for vi, sub := range subs {
					vec, isScalar, e := promfake.Instant(theEngine(), db, sub, engT)
					if e != nil {
						out.evalErr++
						inconclusive = true
						continue
					}
					if isScalar {
						inconclusive = true // a scalar is not a series
						continue
					}
					if needEq {
						// the flagged right side contributes nothing iff the operation returns what its left side returns
						lhsExpr := cs.Expr[b.LHS.PositionRange().Start:b.LHS.PositionRange().End]
						left, sc2, e2 := promfake.Instant(theEngine(), db, lhsExpr, engT)
						if e2 != nil || sc2 {
							inconclusive = true
							continue
						}
						if vecKey(vec) == vecKey(left) {
							held = true
						} else if witness == "" && vi == 0 {
							witness = fmt.Sprintf("`%s` returns %d series but its left side alone %d", sub, len(vec), len(left))
						}
						continue
					}
					trace = append(trace, fmt.Sprintf("%q=>%d", sub, len(vec)))
					if len(vec) == 0 {
						held = true
					} else if witness == "" && vi == 0 {
						witness = fmt.Sprintf("`%s` returns %d series, e.g. %v", sub, len(vec), vec[0].Labels)
					}
				}
			}
			if held {
				continue
			}
			if inconclusive || witness == "" {
				out.inconc++
				continue
			}
			out.viol = append(out.viol, core.Violation{
				Sig:  fmt.Sprintf("dead-code-claim-refuted:%s:%s", class, c12Cause(cs.Expr, class, d, owner, cands, db)),
				What: fmt.Sprintf("pint marks part of %q dead (%s; source position %d-%d) but on database %d %s [evaluated: %s]", cs.Expr, d.IsDeadReason, d.Position.Start, d.Position.End, di, witness, strings.Join(trace, " ")),
				Case: cs,
			})
			break
		}
	}
	return out
}

func runC12(c *core.Ctx) int {
	run := core.NewRun(c)
	if c.Replay != "" {
		var cs c12Case
		if err := core.LoadCase(c.Replay, &cs); err != nil {
			fmt.Println("cannot load case:", err)
			return core.ExitInconclusive
		}
		o := c12Check(cs)
		for _, v := range o.viol {
			fmt.Println("REPLAY violated:", v.Sig, v.What)
		}
		if len(o.viol) > 0 {
			return 1
		}
		fmt.Println("REPLAY held")
		return 0
	}
	n := c.N(30000, 400000)
	// the statement's fragment: selectors, label-preserving functions, aggregations, arithmetic/comparison/set operators
	// with all modifiers; number literals, vector(n) and bool for the folding rules
	o := gen.FullPQ()
	o.LabelRewrite = false
	o.Absent = false
	o.Subquery = false
	o.Offset = false
	o.TopK = true
	core.Parallel(n, 16, func(i int) {
		r := c.Rand("c12", i)
		oo := o
		oo.Depth = 2 + r.Intn(3)
		expr := gen.RandExpr(r, oo)
		if i%2 == 1 {
			expr = gen.JoinShapeExpr(r, oo)
		}
		var dbs [][]promfake.Series
		for k := 0; k < 6; k++ {
			dbs = append(dbs, randDB(r, oo.Metrics, []string{"job", "instance", "a", "b"}, []string{"x", "y"}, true).Series)
		}
		oc := c12Check(c12Case{Expr: expr, DBs: dbs})
		run.Eval(1)
		run.Count("dead_claims_checked", int64(oc.dead))
		run.Count("claims_inconclusive_scalar_or_error", int64(oc.inconc))
		for _, v := range oc.viol {
			run.Violate(v)
		}
		for _, k := range oc.keys {
			run.Nontrivial(k)
		}
		if oc.dead > 0 && i%7 == 0 {
			run.Sample(map[string]any{"expr": expr, "dead_claims": oc.dead})
		}
	})
	run.Assume("every series of every metric carries every universe label (job, instance, a, b); metrics share label tuples so ordinary joins match; a claim must hold on all 6 databases; a scalar-valued operation is inconclusive (a scalar is not a series)")
	run.Assume("a join/unless/static claim holds iff SOME binary expression enclosing the flagged part is empty (pint attaches the flag at one of them); an `or` claim holds iff eval(A or B) = eval(A)")
	return run.Finish("exploration",
		"typed random PromQL of the stated fragment (selectors with all matcher types, label-preserving instant/range functions, aggregations by/without incl. topk/quantile, arithmetic/comparison(bool)/set operators with on/ignoring/group_left/group_right, numbers and vector(n)), depth 2-4, each with 6 dense databases. Oracle: for every source utils.LabelsSource marks dead, the real PromQL engine evaluates the enclosing operation(s) and the claim must hold on every database. Non-trivial = expression with >=1 dead source; distinct by (reason class, operator, modifier kind).",
		core.Floors{MinEvaluations: int64(n), MinNontrivial: 8})
}
