package props

import (
	"context"
	"fmt"
	"math/rand"
	"regexp"
	"runtime/debug"
	"sort"
	"strings"
	"sync"
	"time"

	"github.com/prometheus/common/model"
	"github.com/prometheus/prometheus/promql"
	promParser "github.com/prometheus/prometheus/promql/parser"

	"github.com/cloudflare/pint/internal/checks"
	"github.com/cloudflare/pint/internal/discovery"
	"github.com/cloudflare/pint/internal/parser"
	"github.com/cloudflare/pint/internal/parser/utils"

	"github.com/cloudflare/pint/verif/core"
	"github.com/cloudflare/pint/verif/gen"
	"github.com/cloudflare/pint/verif/promfake"
)

func init() { Registry["C04"] = runC04 }

var engT = time.Unix(1700000000, 0)

var (
	engOnce sync.Once
	eng     *promql.Engine
)

func theEngine() *promql.Engine {
	engOnce.Do(func() { eng = promfake.NewEngine() })
	return eng
}

var universeLabels = []string{"job", "instance", "a", "b", "cv", "dst"}

// randDB: 1-4 series per metric; dense = every series carries every data label and tuples are shared between metrics.
func randDB(r *rand.Rand, metrics, lbls, vals []string, dense bool) *promfake.DB {
	db := &promfake.DB{}
	var shared [][]string
	for i := 0; i < 2+r.Intn(3); i++ {
		t := make([]string, len(lbls))
		for j := range lbls {
			t[j] = vals[r.Intn(len(vals))]
		}
		shared = append(shared, t)
	}
	for _, m := range metrics {
		n := 1 + r.Intn(4)
		seen := map[string]bool{}
		for i := 0; i < n; i++ {
			l := map[string]string{"__name__": m}
			var t []string
			if dense || r.Intn(2) == 0 {
				t = shared[r.Intn(len(shared))]
			} else {
				t = make([]string, len(lbls))
				for j := range lbls {
					t[j] = vals[r.Intn(len(vals))]
				}
			}
			for j, ln := range lbls {
				if dense || r.Intn(4) > 0 {
					l[ln] = t[j]
				}
			}
			key := fmt.Sprint(l)
			if seen[key] {
				continue
			}
			seen[key] = true
			s := promfake.Series{Labels: l}
			v := float64(r.Intn(3))
			for k := 25; k >= 0; k-- {
				if !dense && r.Intn(30) == 0 {
					continue
				}
				s.Samples = append(s.Samples, promfake.Sample{Ts: engT.Add(time.Duration(-k) * time.Minute).UnixMilli(), V: v + float64(25-k)*float64(r.Intn(2))})
			}
			db.Series = append(db.Series, s)
		}
	}
	return db
}

var backtickRe = regexp.MustCompile("`[^`]*`")

func reasonClass(s string) string {
	s = backtickRe.ReplaceAllString(s, "`_`")
	// pint words the same claim in two ways ("`a > b` always evaluates to ..." when it has the source fragments,
	// "this query always evaluates to ..." otherwise): one class
	if i := strings.Index(s, " always evaluates to"); i >= 0 {
		s = "this query" + s[i:]
	}
	if len(s) > 110 {
		s = s[:110]
	}
	return s
}

type c04Case struct {
	Expr string            `json:"expr"`
	DB   []promfake.Series `json:"db"`
}

// templateCheckLabels runs the real alerts/template check on an alert whose annotation references every universe label
// and returns the labels it reported as non-existent.
func templateCheckLabels(expr string) (reported map[string]bool, err string) {
	var ann []string
	for _, l := range universeLabels {
		ann = append(ann, "{{ $labels."+l+" }}")
	}
	yml := "- alert: A\n  expr: |-\n    " + strings.ReplaceAll(expr, "\n", " ") + "\n  annotations:\n    summary: '" + strings.Join(ann, " ") + "'\n"
	p := parser.NewParser(false, parser.PrometheusSchema, model.UTF8Validation)
	f := p.Parse(strings.NewReader(yml))
	if f.Error.Err != nil || len(f.Groups) == 0 || len(f.Groups[0].Rules) == 0 {
		return nil, "cannot build the synthetic alert"
	}
	rule := f.Groups[0].Rules[0]
	if rule.AlertingRule == nil || rule.AlertingRule.Expr.SyntaxError != nil {
		return nil, "synthetic alert did not parse"
	}
	entry := discovery.Entry{Rule: rule, State: discovery.Noop, Path: discovery.Path{Name: "a.yml", SymlinkTarget: "a.yml"}, File: &f, Group: &f.Groups[0]}
	reported = map[string]bool{}
	for _, pr := range checks.NewTemplateCheck().Check(context.Background(), entry, []discovery.Entry{entry}) {
		if pr.Summary != "template uses non-existent label" {
			continue
		}
		for _, d := range pr.Diagnostics {
			if m := tmplLabelRe.FindStringSubmatch(d.Message); m != nil {
				reported[m[1]] = true
			}
		}
	}
	return reported, ""
}

var tmplLabelRe = regexp.MustCompile("^Template is using `([^`]+)` label")

type c04Outcome struct {
	viol       []core.Violation
	nontrivial bool
	shape      string
	evalErr    bool
	nonEmpty   bool
}

func exprShape(node promParser.Node) string {
	var b strings.Builder
	promParser.Inspect(node, func(n promParser.Node, _ []promParser.Node) error {
		switch x := n.(type) {
		case *promParser.BinaryExpr:
			b.WriteString(x.Op.String())
			if x.VectorMatching != nil {
				if x.VectorMatching.On {
					b.WriteString("/on")
				} else if len(x.VectorMatching.MatchingLabels) > 0 {
					b.WriteString("/ign")
				}
				b.WriteString("/" + x.VectorMatching.Card.String())
			}
			b.WriteString(" ")
		case *promParser.AggregateExpr:
			b.WriteString(x.Op.String())
			if x.Without {
				b.WriteString("/without ")
			} else if len(x.Grouping) > 0 {
				b.WriteString("/by ")
			} else {
				b.WriteString(" ")
			}
		case *promParser.Call:
			b.WriteString(x.Func.Name + " ")
		case *promParser.SubqueryExpr:
			b.WriteString("subq ")
		}
		return nil
	})
	return b.String()
}

func c04Check(cs c04Case) (out c04Outcome) {
	defer func() {
		if r := recover(); r != nil {
			out.viol = append(out.viol, core.Violation{Sig: "analyser-panic", What: fmt.Sprintf("panic while analysing %q: %v\n%s", cs.Expr, r, string(debug.Stack())), Case: cs})
		}
	}()
	node, err := promParser.ParseExpr(cs.Expr)
	if err != nil {
		return out
	}
	srcs := utils.LabelsSource(cs.Expr, node)
	db := &promfake.DB{Series: cs.DB}
	vec, isScalar, eerr := promfake.Instant(theEngine(), db, cs.Expr, engT)
	if eerr != nil {
		out.evalErr = true
		return out
	}
	if isScalar || len(vec) == 0 {
		return out
	}
	out.nonEmpty = true
	out.shape = exprShape(node)
	var live []utils.Source
	for _, s := range srcs {
		if !s.IsDead {
			live = append(live, s)
		}
		if s.FixedLabels || len(s.ExcludedLabels) > 0 {
			out.nontrivial = true
		}
	}
	// (general) every returned series is consistent with at least one live branch
	for _, sr := range vec {
		ok := false
		var firstBad, badReason string
		for _, s := range live {
			all := true
			for l := range sr.Labels {
				if !s.CanHaveLabel(l) {
					all = false
					if firstBad == "" {
						firstBad = l
						badReason = s.LabelExcludeReason(l).Reason
					}
					break
				}
			}
			if all {
				ok = true
				break
			}
		}
		if !ok {
			var deadReasons []string
			for _, s := range srcs {
				if s.IsDead {
					deadReasons = append(deadReasons, reasonClass(s.IsDeadReason))
				}
			}
			sort.Strings(deadReasons)
			sig := "series-fits-no-live-branch:"
			if len(live) == 0 || (firstBad == "" && len(deadReasons) > 0) {
				sig += "all-branches-dead:" + strings.Join(uniq(deadReasons), "|")
			} else if len(deadReasons) > 0 {
				sig += "dead-branch-returns:" + strings.Join(uniq(deadReasons), "|")
			} else {
				sig += "label-wrongly-excluded:" + reasonClass(badReason)
			}
			out.viol = append(out.viol, core.Violation{Sig: sig,
				What: fmt.Sprintf("Prometheus returns series %v for %q but no live branch pint derived admits it (%d branches, %d live; label %q: %s)", sr.Labels, cs.Expr, len(srcs), len(live), firstBad, badReason),
				Case: cs})
			break
		}
	}
	// (single branch) the real check's report must never name a label some returned series carries
	if len(srcs) == 1 {
		reported, terr := templateCheckLabels(cs.Expr)
		if terr == "" {
			for l := range reported {
				if srcs[0].CanHaveLabel(l) {
					out.viol = append(out.viol, core.Violation{Sig: "check-and-analyser-disagree", What: fmt.Sprintf("alerts/template reports label %q for %q but the single source says it can have it", l, cs.Expr), Case: cs})
				}
				for _, sr := range vec {
					if _, has := sr.Labels[l]; has {
						out.viol = append(out.viol, core.Violation{Sig: "false-positive:" + reasonClass(srcs[0].LabelExcludeReason(l).Reason),
							What: fmt.Sprintf("alerts/template reports `template uses non-existent label` for %q on single-branch query %q, but Prometheus returns %v", l, cs.Expr, sr.Labels), Case: cs})
						return out
					}
				}
			}
			for _, l := range universeLabels {
				if !srcs[0].IsDead && !srcs[0].CanHaveLabel(l) && !reported[l] {
					out.viol = append(out.viol, core.Violation{Sig: "check-and-analyser-disagree", What: fmt.Sprintf("single source of %q cannot have %q but alerts/template did not report it", cs.Expr, l), Case: cs})
				}
			}
		}
	}
	return out
}

func runC04(c *core.Ctx) int {
	run := core.NewRun(c)
	if c.Replay != "" {
		var cs c04Case
		if err := core.LoadCase(c.Replay, &cs); err != nil {
			fmt.Println("cannot load case:", err)
			return core.ExitInconclusive
		}
		o := c04Check(cs)
		for _, v := range o.viol {
			fmt.Println("REPLAY violated:", v.Sig, v.What)
		}
		if len(o.viol) > 0 {
			return 1
		}
		fmt.Println("REPLAY held")
		return 0
	}
	n := c.N(20000, 300000)
	nDB := c.N(4, 8)
	o := gen.FullPQ()
	core.Parallel(n, 16, func(i int) {
		r := c.Rand("c04", i)
		oo := o
		oo.Depth = 1 + r.Intn(4)
		expr := gen.RandExpr(r, oo)
		if i%4 == 3 {
			expr = gen.JoinShapeExpr(r, oo)
		}
		for k := 0; k < nDB; k++ {
			db := randDB(r, oo.Metrics, []string{"job", "instance", "a", "b"}, []string{"x", "y"}, k == 0)
			oc := c04Check(c04Case{Expr: expr, DB: db.Series})
			run.Eval(1)
			if oc.evalErr {
				run.Count("engine_errors", 1)
				continue
			}
			if oc.nonEmpty {
				run.Count("evaluations_with_series", 1)
			}
			for _, v := range oc.viol {
				run.Violate(v)
			}
			if oc.nonEmpty && oc.nontrivial {
				run.Nontrivial(oc.shape)
			}
		}
		if i%(n/6+1) == 0 {
			run.Sample(map[string]any{"expr": expr})
		}
	})
	run.Assume("Prometheus's evaluation = the vendored promql engine over an in-memory storage.Queryable at a fixed timestamp; databases over metrics foo/bar/baz and labels job/instance/a/b with partial label sets (one dense database per expression)")
	return run.Finish("exploration",
		"typed random PromQL (depth 1-4: selectors with all matcher types, aggregations by/without/none incl. topk/quantile/count_values, instant and range functions, label_replace/label_join, absent, vector/scalar/time, unary minus, numbers, arithmetic/comparison(bool)/set operators with on/ignoring/group_left/group_right(include), subqueries, offsets) x 4 (quick) or 8 (thorough) random databases. Oracle: every series the engine returns must be admitted (CanHaveLabel for all its labels) by at least one non-dead source of utils.LabelsSource; for single-source queries the real alerts/template check runs on a synthetic alert referencing every universe label and must never report a label a returned series carries. Non-trivial = engine result non-empty and some source has fixed or excluded labels; distinct by operator skeleton.",
		core.Floors{MinEvaluations: int64(n), MinNontrivial: 50})
}
