package props

// C15, load shapes: a burst of DISTINCT requests started at the same moment on
// one failover group whose first reachable upstream is healthy but slow to get
// through (it answers every request it receives, well inside the configured
// timeout, yet the group's worker pool or rate limiter lets only a few through
// at a time). Most of the burst therefore waits inside pint - for longer than
// the per-request timeout - before it is sent at all.
//
// The statement: "a request is answered by the first upstream in configured
// order that is reachable; later upstreams are contacted only after connection
// errors, timeouts or server errors from all earlier ones". Waiting in pint's
// own queue is none of these, so every request of the burst has to be answered
// by that upstream, and no check may report an outage.
//
// The verdict never asks "was it fast enough". It uses an inequality between
// quantities measured on one monotonic clock in the child process:
//
//	a timeout reported for a request occupies one of the c query workers of
//	that upstream for at least the configured timeout t (a timer cannot fire
//	early, and the timeout is meant for the request, not for the queue). The
//	workers handle one job at a time, so k reported timeouts need a window of
//	at least ceil(k/c) * t. The window observed around the whole burst
//	(started before the first call, stopped after the last return) contains
//	all of them; a machine stall can only make it LONGER.
//
// k timeouts inside a window shorter than ceil(k/c) * t are therefore
// impossible for code that gives every request its own timeout, however slow
// or loaded the machine is. Timeouts that do fit into the window (a genuine
// stall of more than t while one request was in flight) make that one case
// inconclusive, never a violation.

import (
	"context"
	"encoding/json"
	"fmt"
	"sort"
	"strings"
	"sync"
	"time"

	"github.com/prometheus/common/model"

	"github.com/cloudflare/pint/internal/checks"
	"github.com/cloudflare/pint/internal/config"
	"github.com/cloudflare/pint/internal/discovery"
	"github.com/cloudflare/pint/internal/parser"
	"github.com/cloudflare/pint/internal/promapi"
	"github.com/cloudflare/pint/verif/core"
)

// c15BurstSpec is the load shape of one case.
type c15BurstSpec struct {
	Endpoint    string `json:"endpoint"` // query | query_range | metadata | check:<reporter>
	Throttle    string `json:"throttle"` // latency: the upstream takes delay_ms per request; ratelimit: pint's own rateLimit spaces the requests
	N           int    `json:"n"`        // distinct requests started at once
	Concurrency int    `json:"concurrency"`
	RateLimit   int    `json:"rate_limit"`
	TimeoutMs   int    `json:"timeout_ms"`
	DelayMs     int    `json:"delay_ms"`
}

func (b c15BurstSpec) String() string {
	return fmt.Sprintf("%s/%s/n=%d/c=%d/rl=%d/t=%dms/d=%dms", b.Endpoint, b.Throttle, b.N, b.Concurrency, b.RateLimit, b.TimeoutMs, b.DelayMs)
}

// one request as a healthy fault server saw it (nanoseconds on the burst clock)
type c15BurstReq struct {
	Key      string `json:"key"`
	ArriveNs int64  `json:"arrive_ns"`
	DoneNs   int64  `json:"done_ns"`
	Aborted  bool   `json:"aborted,omitempty"` // the client went away before the answer was due
}

// one request of the burst as the caller saw it
type c15BurstItem struct {
	Key    string  `json:"key"`
	CallNs int64   `json:"call_ns"`
	RetNs  int64   `json:"ret_ns"`
	Call   c15Call `json:"call"`
}

type c15BurstObs struct {
	Items []c15BurstItem `json:"items"`
	// per upstream: the requests it received (healthy upstreams only)
	Reqs [][]c15BurstReq `json:"requests"`
	// per upstream: query -> first error pint logged for that query at that URI
	LoggedByQuery []map[string]string `json:"logged_by_query"`
	// from before the first call until after the last return
	TotalNs int64 `json:"total_ns"`
}

const c15BurstMaxN = 64

const c15BurstCheck = "check:" + checks.CostCheckName

// ---- case list ----

func c15BurstCases(c *core.Ctx) []c15Case {
	layouts := [][]string{
		{"healthy"},
		{"healthy", "healthy"},
		{"refused", "healthy", "healthy"},
	}
	if !c.Quick() {
		layouts = append(layouts,
			[]string{"healthy", "refused"},
			[]string{"http500", "healthy"},
			[]string{"server_error", "healthy", "refused"},
		)
	}
	endpoints := []string{"query", "query_range", "metadata", c15BurstCheck}
	// Every shape keeps N * (time per request) / concurrency at about twice
	// timeout+1s, so that roughly half of the burst is still queued inside pint
	// when a budget that had started at the moment of the call would run out.
	shapes := []c15BurstSpec{
		{Throttle: "latency", N: 40, Concurrency: 1, RateLimit: 1000, TimeoutMs: 400, DelayMs: 60},
		{Throttle: "latency", N: 40, Concurrency: 2, RateLimit: 1000, TimeoutMs: 400, DelayMs: 120},
		{Throttle: "ratelimit", N: 48, Concurrency: 2, RateLimit: 20, TimeoutMs: 400, DelayMs: 2},
	}
	if !c.Quick() {
		shapes = append(shapes,
			c15BurstSpec{Throttle: "latency", N: 60, Concurrency: 4, RateLimit: 1000, TimeoutMs: 300, DelayMs: 180},
			c15BurstSpec{Throttle: "latency", N: 30, Concurrency: 1, RateLimit: 1000, TimeoutMs: 1000, DelayMs: 150},
			c15BurstSpec{Throttle: "ratelimit", N: 60, Concurrency: 1, RateLimit: 25, TimeoutMs: 300, DelayMs: 2},
		)
	}
	var out []c15Case
	n := 0
	for _, modes := range layouts {
		for _, sh := range shapes {
			if sh.Throttle == "ratelimit" && modes[0] != "healthy" {
				// every upstream has its own limiter: behind a failing first upstream
				// the requests arrive already spaced out and nothing queues up
				continue
			}
			for _, ep := range endpoints {
				spec := sh
				spec.Endpoint = ep
				// a seed-chosen few more or fewer requests: the queue length is not a constant
				spec.N += c.Rand("c15-burst-n", n).Intn(9) - 4
				if spec.N > c15BurstMaxN {
					spec.N = c15BurstMaxN
				}
				out = append(out, c15Case{Modes: modes, Target: "burst:" + ep, Strict: n%2 == 1, Burst: &spec})
				n++
			}
		}
	}
	return out
}

func c15BurstHCL(uris []string, cs c15Case) string {
	b := cs.Burst
	return c15HCLWith(uris, cs.Strict, fmt.Sprintf("%dms", b.TimeoutMs), b.Concurrency, b.RateLimit)
}

// ---- child side ----

func c15BurstRules() string {
	var b strings.Builder
	b.WriteString("groups:\n- name: burst\n  rules:\n")
	for i := 0; i < c15BurstMaxN; i++ {
		fmt.Fprintf(&b, "  - record: burst_r%d\n    expr: burst_metric_%d\n", i, i)
	}
	return b.String()
}

// parsed once, before anything runs concurrently (see c15ParsedRules)
var (
	c15BurstParseOnce sync.Once
	c15BurstFile      parser.File
)

func c15BurstParsedRules() parser.File {
	c15BurstParseOnce.Do(func() {
		p := parser.NewParser(true, parser.PrometheusSchema, model.UTF8Validation)
		c15BurstFile = p.Parse(strings.NewReader(c15BurstRules()))
	})
	return c15BurstFile
}

// c15BurstKey is the "query" attribute pint logs (and the form value the
// server sees) for the i-th request of a burst.
func c15BurstKey(endpoint string, i int) string {
	switch endpoint {
	case "query", c15BurstCheck:
		return fmt.Sprintf("count(burst_metric_%d)", i)
	case "query_range":
		return fmt.Sprintf("burst_metric_%d", i)
	case "metadata":
		return fmt.Sprintf("burst_metric_%d_total", i)
	}
	return ""
}

func c15ExecuteBurst(ctx context.Context, cfg *config.Config, gen *config.PrometheusGenerator, fg *promapi.FailoverGroup, ups []*c15Upstream, o *c15Obs) {
	b := o.Case.Burst
	if b.N < 1 || b.N > c15BurstMaxN || c15BurstKey(b.Endpoint, 0) == "" {
		o.SetupErr = "bad burst spec " + b.String()
		return
	}
	// check level: one rule (one distinct query) per request, checks resolved up front
	var entries []discovery.Entry
	var chks []checks.RuleChecker
	if b.Endpoint == c15BurstCheck {
		file := c15BurstParsedRules()
		if len(file.Groups) != 1 || len(file.Groups[0].Rules) != c15BurstMaxN {
			o.SetupErr = "burst rules did not parse"
			return
		}
		for _, rule := range file.Groups[0].Rules {
			lines := []int{}
			for l := rule.Lines.First; l <= rule.Lines.Last; l++ {
				lines = append(lines, l)
			}
			entries = append(entries, discovery.Entry{
				File:          &file,
				Group:         &file.Groups[0],
				Path:          discovery.Path{Name: "burst.yml", SymlinkTarget: "burst.yml"},
				ModifiedLines: lines,
				Rule:          rule,
				State:         discovery.Noop,
			})
		}
		for i := 0; i < b.N; i++ {
			var chk checks.RuleChecker
			for _, c := range cfg.GetChecksForEntry(ctx, gen, entries[i]) {
				if c.Reporter() == checks.CostCheckName && c.Meta().Online {
					chk = c
					break
				}
			}
			if chk == nil {
				o.SetupErr = "check " + checks.CostCheckName + " was not configured for a burst rule"
				return
			}
			chks = append(chks, chk)
		}
	}

	for _, u := range ups {
		c15Logs.watch(u.uri)
	}
	defer func() {
		for _, u := range ups {
			m := c15Logs.takeQueries(u.uri)
			if o.Burst != nil {
				o.Burst.LoggedByQuery = append(o.Burst.LoggedByQuery, m)
			}
		}
	}()
	t0 := time.Now()
	for _, u := range ups {
		u.mu.Lock()
		u.t0 = t0
		u.delay = time.Duration(b.DelayMs) * time.Millisecond
		u.mu.Unlock()
	}
	items := make([]c15BurstItem, b.N)
	done := make(chan struct{})
	go func() {
		var wg sync.WaitGroup
		for i := range items {
			wg.Add(1)
			go func() {
				defer wg.Done()
				it := &items[i]
				it.Key = c15BurstKey(b.Endpoint, i)
				it.Call.Target = o.Case.Target
				defer func() {
					if p := recover(); p != nil {
						it.Call.Panic = fmt.Sprint(p)
						it.Call.PanicFrame = "burst"
					}
					it.RetNs = time.Since(t0).Nanoseconds()
				}()
				it.CallNs = time.Since(t0).Nanoseconds()
				c15BurstCall(ctx, fg, b.Endpoint, it, entries, chks, i)
			}()
		}
		wg.Wait()
		close(done)
	}()
	select {
	case <-done:
	case <-time.After(45 * time.Second):
		o.Hung = true
		o.ElapsedMs = time.Since(t0).Milliseconds()
		return
	}
	total := time.Since(t0)
	o.ElapsedMs = total.Milliseconds()
	obs := &c15BurstObs{Items: items, TotalNs: total.Nanoseconds()}
	for _, u := range ups {
		u.mu.Lock()
		if u.srv == nil {
			o.Requests = append(o.Requests, -1)
		} else {
			o.Requests = append(o.Requests, u.requests)
		}
		obs.Reqs = append(obs.Reqs, append([]c15BurstReq(nil), u.reqs...))
		u.mu.Unlock()
	}
	o.Burst = obs
}

func c15BurstCall(ctx context.Context, fg *promapi.FailoverGroup, endpoint string, it *c15BurstItem, entries []discovery.Entry, chks []checks.RuleChecker, i int) {
	r := &it.Call
	r.Called = true
	var err error
	switch endpoint {
	case "query":
		var res *promapi.QueryResult
		res, err = fg.Query(ctx, it.Key)
		if err == nil && res != nil {
			r.ResultURI = res.URI
			if len(res.Series) > 0 {
				r.ResultIdent = res.Series[0].Labels.Get("ident")
			}
		}
	case "query_range":
		var res *promapi.RangeQueryResult
		res, err = fg.RangeQuery(ctx, it.Key, promapi.NewRelativeRange(time.Hour, time.Minute)) // one slice = one job
		if err == nil && res != nil {
			r.ResultURI = res.URI
			if len(res.Series.Ranges) > 0 {
				r.ResultIdent = res.Series.Ranges[0].Labels.Get("ident")
			}
		}
	case "metadata":
		var res *promapi.MetadataResult
		res, err = fg.Metadata(ctx, it.Key)
		if err == nil && res != nil {
			r.ResultURI = res.URI
			if len(res.Metadata) > 0 {
				r.ResultIdent = res.Metadata[0].Help
			}
		}
	case c15BurstCheck:
		r.CheckFound = true
		for _, pr := range chks[i].Check(ctx, entries[i], entries) {
			text := ""
			for _, d := range pr.Diagnostics {
				text += d.Message + " "
			}
			r.Problems = append(r.Problems, c15Problem{Reporter: pr.Reporter, Summary: pr.Summary, Severity: pr.Severity.String(), Text: core.Trunc(text, 300)})
		}
		r.OK = true
		return
	}
	if err != nil {
		c15RecordErr(err, r)
		return
	}
	r.OK = true
}

// ---- parent side: the oracle ----

func c15IsTimeoutText(s string) bool {
	return strings.Contains(s, "deadline exceeded") || strings.Contains(s, "connection timeout") || strings.Contains(s, "Client.Timeout") || strings.Contains(s, "i/o timeout")
}

// c15BurstAnswering: the first upstream in configured order that is reachable.
// Everything before it fails at once (closed port, 5xx).
func c15BurstAnswering(modes []string) int {
	for i, m := range modes {
		switch m {
		case "healthy":
			return i
		case "refused", "http500", "server_error":
		default:
			return -1
		}
	}
	return -1
}

type c15BurstFacts struct {
	Answering      int
	Answered       int   // requests answered by the first reachable upstream and by nobody else
	BeyondBudget   int   // of those: still inside pint more than timeout+1s after the call
	MaxWaitMs      int64 // longest time between the call and the arrival at that upstream
	TimedOut       []int // requests pint reported as timed out at that upstream
	NeverSent      int   // of those: the upstream never received them
	PassedOn       int   // requests a later upstream received
	ReceivedByA    int
	AbortedAtA     int
	NeedNs, HaveNs int64
}

func c15JudgeBurst(o c15Obs) (v c15Verdict, f c15BurstFacts) {
	cs := o.Case
	b := cs.Burst
	switch {
	case o.SetupErr != "":
		v.Inconc = "setup: " + o.SetupErr
		return
	case o.Hung:
		v.Inconc = "watchdog: burst not finished within 45s for " + cs.key()
		return
	case o.Burst == nil || len(o.Burst.Items) != b.N || len(o.Burst.Reqs) != len(cs.Modes) || len(o.Burst.LoggedByQuery) != len(cs.Modes):
		v.Inconc = "burst: incomplete observation for " + cs.key()
		return
	}
	a := c15BurstAnswering(cs.Modes)
	if a < 0 {
		v.Inconc = "burst: no reachable upstream in " + strings.Join(cs.Modes, ",")
		return
	}
	f.Answering = a
	ep := b.Endpoint
	seen := map[string]bool{}
	add := func(sig, what string) {
		if seen[sig] {
			return
		}
		seen[sig] = true
		files := c15Files(o)
		v.Viol = append(v.Viol, core.Violation{
			Sig:   sig,
			What:  fmt.Sprintf("%s [burst %s on upstreams %s, required=%v; requests per upstream %v; burst took %dms]", what, b.String(), strings.Join(cs.Modes, ","), cs.Strict, o.Requests, o.Burst.TotalNs/1e6),
			Case:  c15Replay{Cases: []c15Case{cs}, Workers: 1},
			Files: files,
		})
	}

	atA := map[string][]c15BurstReq{}
	for _, r := range o.Burst.Reqs[a] {
		atA[r.Key] = append(atA[r.Key], r)
		f.ReceivedByA++
		if r.Aborted {
			f.AbortedAtA++
		}
	}
	later := map[string]int{}
	for j := a + 1; j < len(cs.Modes); j++ {
		for _, r := range o.Burst.Reqs[j] {
			if _, ok := later[r.Key]; !ok {
				later[r.Key] = j
			}
		}
		// an upstream that cannot record (closed port): pint's own log tells
		for k := range o.Burst.LoggedByQuery[j] {
			if _, ok := later[k]; !ok {
				later[k] = j
			}
		}
	}
	logA := o.Burst.LoggedByQuery[a]
	// pint logged something for this URI but nothing could be attributed to a
	// query: the log format is not the one this monitor reads; no verdict from it
	attributionBroken := len(logA) == 0 && a < len(o.Logged) && len(o.Logged[a]) > 0
	budget := time.Duration(b.TimeoutMs)*time.Millisecond + time.Second

	var env []string
	for i, it := range o.Burst.Items {
		if it.Call.Panic != "" {
			add("burst:panic:"+ep, fmt.Sprintf("panic during request %d of the burst: %s", i, it.Call.Panic))
			continue
		}
		if it.Call.SetupErr != "" {
			v.Inconc = "setup: " + it.Call.SetupErr
			return
		}
		unable := ""
		for _, p := range it.Call.Problems {
			if p.Summary == "unable to run checks" {
				unable = p.Text
			}
		}
		var answered bool
		if ep == c15BurstCheck {
			answered = unable == ""
		} else {
			answered = it.Call.OK && it.Call.ResultURI == o.URIs[a] && it.Call.ResultIdent == o.Tokens[a]
		}
		j, passedOn := later[it.Key]
		if passedOn {
			f.PassedOn++
		}
		if answered && !passedOn {
			f.Answered++
			if rs := atA[it.Key]; len(rs) > 0 {
				wait := rs[0].ArriveNs - it.CallNs
				f.MaxWaitMs = max(f.MaxWaitMs, wait/1e6)
				if wait > budget.Nanoseconds() {
					f.BeyondBudget++
				}
			}
			continue
		}
		// Not answered by the first reachable upstream, or somebody after it was
		// asked as well. What did pint get from that upstream for this request?
		cause := logA[it.Key]
		if cause == "" && a == len(cs.Modes)-1 {
			// it is the last one: the error handed to the caller is its error
			if ep == c15BurstCheck {
				cause = unable
			} else if !it.Call.OK {
				cause = it.Call.ErrText
			}
		}
		served := false
		for _, r := range atA[it.Key] {
			if !r.Aborted {
				served = true
			}
		}
		switch {
		case cause == "" && attributionBroken:
			v.Inconc = "burst: pint's error log could not be attributed to single requests"
			return
		case cause == "" && passedOn:
			add("burst:contacted-after-OK:"+ep, fmt.Sprintf("request %d (%s): upstream %d received it although upstream %d is reachable and pint logged no failure of that upstream for it (it %s)", i, it.Key, j, a, map[bool]string{true: "had answered it", false: "never received it"}[served]))
		case cause == "" && ep != c15BurstCheck && it.Call.OK:
			add("burst:wrong-answer-source:"+ep, fmt.Sprintf("request %d (%s): the answer should come from upstream %d (token %s) but carries token %q and URI %q", i, it.Key, a, o.Tokens[a], it.Call.ResultIdent, it.Call.ResultURI))
		case cause == "":
			add("burst:error-despite-reachable:"+ep, fmt.Sprintf("request %d (%s): upstream %d is reachable and pint logged no failure for it, but the caller got %q %+v", i, it.Key, a, it.Call.ErrText, it.Call.Problems))
		case c15IsTimeoutText(cause):
			f.TimedOut = append(f.TimedOut, i)
			if len(atA[it.Key]) == 0 {
				f.NeverSent++
			}
		default:
			env = append(env, cause)
		}
	}
	if len(v.Viol) > 0 {
		return
	}
	if len(env) > 0 {
		v.Inconc = fmt.Sprintf("environment: %d requests to a healthy upstream failed without a timeout: %s", len(env), core.Trunc(env[0], 200))
		return
	}
	if k := len(f.TimedOut); k > 0 {
		c := max(b.Concurrency, 1)
		f.NeedNs = int64((k+c-1)/c) * int64(b.TimeoutMs) * 1e6
		f.HaveNs = o.Burst.TotalNs
		if f.HaveNs < f.NeedNs {
			what := "returned as unavailable"
			sig := "burst:queue-wait-counted-as-timeout:"
			if f.PassedOn > 0 {
				what = "passed on to a later upstream"
			}
			if ep == c15BurstCheck {
				what = "reported as an outage by the check"
			}
			first := o.Burst.Items[f.TimedOut[0]]
			add(sig+ep+":"+b.Throttle,
				fmt.Sprintf("upstream %d is healthy and answers every request after the configured delay (it received %d, %d of which the client abandoned before the answer was due), yet pint reported %d of the %d requests as timed out there (%d of them it never received) and they were %s, e.g. %s. %d timeouts of %dms each on %d worker(s) need at least %dms; the whole burst, from before the first call to after the last return, took %dms: the timeout was running while the requests waited inside pint",
					a, f.ReceivedByA, f.AbortedAtA, k, b.N, f.NeverSent, what, first.Key, k, b.TimeoutMs, c, f.NeedNs/1e6, f.HaveNs/1e6))
			return
		}
		v.Inconc = fmt.Sprintf("timing: %d timeouts at a healthy upstream fit into the %dms the burst took (machine stalled)", k, f.HaveNs/1e6)
	}
	return
}

// c15AccountBurst: evidence of what the load-shape cases observed.
func c15AccountBurst(run *core.Run, o c15Obs) {
	cs := o.Case
	b := cs.Burst
	v, f := c15JudgeBurst(o)
	run.Count("burst_cases", 1)
	if v.Inconc != "" {
		run.Inconclusive(v.Inconc)
		if strings.HasPrefix(v.Inconc, "timing:") {
			run.Count("burst_cases_inconclusive_machine_stalled", 1)
		}
		return
	}
	for _, x := range v.Viol {
		run.Violate(x)
	}
	run.Distinct("burst_shapes", fmt.Sprintf("%s|%s|c=%d|%s", b.Endpoint, b.Throttle, b.Concurrency, strings.Join(cs.Modes, ",")))
	run.Distinct("burst_endpoints", b.Endpoint)
	run.Count("burst_requests_started_at_once", int64(b.N))
	run.Count("burst_requests_answered_by_first_reachable_upstream", int64(f.Answered))
	run.Count("burst_requests_answered_after_waiting_in_pint_longer_than_timeout_plus_1s", int64(f.BeyondBudget))
	run.Count("burst_requests_reported_timed_out", int64(len(f.TimedOut)))
	run.Count("burst_requests_passed_on_to_a_later_upstream", int64(f.PassedOn))
	run.Max("burst_max_wait_inside_pint_ms", f.MaxWaitMs)
	run.Max("burst_max_total_ms", o.Burst.TotalNs/1e6)
	total := 0
	for _, r := range o.Requests {
		if r > 0 {
			total += r
		}
	}
	run.Count("requests_seen_by_fault_servers", int64(total))
	if len(v.Viol) > 0 {
		return
	}
	// The shape was reached when more requests than there are workers were still
	// waiting inside pint after timeout+1s and were answered all the same.
	if f.BeyondBudget > b.Concurrency {
		run.Count("burst_cases_with_queue_wait_beyond_the_request_budget", 1)
		run.Nontrivial(cs.key())
	} else {
		run.Inconclusive(fmt.Sprintf("burst %s: only %d requests waited longer than timeout+1s (max wait %dms)", b.String(), f.BeyondBudget, f.MaxWaitMs))
	}
}

func c15BurstSample(o c15Obs) map[string]any {
	_, f := c15JudgeBurst(o)
	waits := []int64{}
	atA := map[string]int64{}
	if o.Burst != nil && f.Answering < len(o.Burst.Reqs) {
		for _, r := range o.Burst.Reqs[f.Answering] {
			if _, ok := atA[r.Key]; !ok {
				atA[r.Key] = r.ArriveNs
			}
		}
		for _, it := range o.Burst.Items {
			if t, ok := atA[it.Key]; ok {
				waits = append(waits, (t-it.CallNs)/1e6)
			}
		}
	}
	sort.Slice(waits, func(i, j int) bool { return waits[i] < waits[j] })
	j, _ := json.Marshal(o.Case.Burst)
	return map[string]any{
		"modes": o.Case.Modes, "target": o.Case.Target, "required": o.Case.Strict, "burst": json.RawMessage(j),
		"requests_per_upstream": o.Requests, "burst_total_ms": o.ElapsedMs,
		"answered_by_first_reachable": f.Answered, "answered_after_waiting_longer_than_timeout_plus_1s": f.BeyondBudget,
		"reported_timed_out": len(f.TimedOut), "wait_inside_pint_ms_sorted": waits,
	}
}
