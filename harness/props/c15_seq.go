package props

// C15, fault sequences: ONE failover group lives through a sequence of steps.
// Before every step each upstream is put into a (possibly different) fault
// mode, then one request that cannot be answered from the cache is made on the
// group (an API call with a key unique to the step, or - as the last step - a
// real online check).
//
// The statement quantifies over fault sequences and says for every request: it
// "is answered by the first upstream in configured order that is reachable;
// later upstreams are contacted only after connection errors, timeouts or
// server (5xx) errors from all earlier ones". What happened to EARLIER requests
// is not part of that sentence, so every step is judged by the same reference
// automaton as a cell of the static fault table (c15Judge), with the fault
// modes that were in force during that step. A group that remembers which
// upstream answered last, that marks an upstream as dead after a failure, or
// that keeps an error around, behaves like a fresh group on every static cell
// and differently only here.
//
// What makes a step independent of wall-clock time:
//
//   - the upstreams keep their address for the whole sequence (a bound socket
//     that never listens holds the port; the listening socket of a step shares
//     it through SO_REUSEPORT), so "refused" <-> "reachable" is a change of the
//     same URI, and nobody else can get the port in between;
//   - every step has its own listener, handler and counters per upstream; they
//     are torn down (connections reset, handlers waited for) before the counts
//     are read, so a request that pint abandoned cannot be counted in a later
//     step; requests that carry a key (query, query_range, metadata) are
//     checked against the key of the step on top of that;
//   - keep-alive is switched off on these servers: pint's HTTP client holds no
//     idle connection at a step boundary, so a changed mode is never met by a
//     request written into a connection the old listener had already closed;
//   - the only state pint legitimately carries from one request to the next is
//     modelled: a successful config / flags answer of an upstream is cached
//     under (upstream, endpoint) - from then on that upstream counts as
//     reachable for that endpoint and as not observable (it answers without
//     being contacted). The 404 mode (which switches an API off for good on
//     config / flags / metadata) is not part of the sequence alphabet.

import (
	"context"
	"encoding/json"
	"errors"
	"fmt"
	"net"
	"net/http"
	"net/http/httptest"
	"os"
	"path/filepath"
	"runtime/debug"
	"strings"
	"syscall"
	"time"

	"github.com/prometheus/client_golang/prometheus"

	"github.com/cloudflare/pint/internal/config"
	"github.com/cloudflare/pint/internal/promapi"
	"github.com/cloudflare/pint/verif/core"
)

type c15SeqStep struct {
	Modes  []string `json:"modes"`  // fault mode of each upstream during this step, in configured order
	Target string   `json:"target"` // api:<endpoint> | check:<reporter> (a check only as the last step)
}

type c15SeqSpec struct {
	Family string       `json:"family"`
	Steps  []c15SeqStep `json:"steps"`
}

func (s c15SeqSpec) String() string {
	parts := make([]string, 0, len(s.Steps))
	for _, st := range s.Steps {
		parts = append(parts, strings.Join(st.Modes, ",")+">"+strings.TrimPrefix(st.Target, "api:"))
	}
	return s.Family + "[" + strings.Join(parts, ";") + "]"
}

// what one step looked like from outside
type c15SeqStepObs struct {
	Requests  []int      `json:"requests"` // per upstream; -1: refused during this step (cannot count)
	Paths     [][]string `json:"paths"`
	Keys      [][]string `json:"keys"` // per upstream: query / metric value of every request ("" on config and flags)
	Logged    [][]string `json:"logged"`
	Call      c15Call    `json:"call"`
	ElapsedMs int64      `json:"elapsed_ms"`
}

type c15SeqObs struct {
	Steps []c15SeqStepObs `json:"steps"`
}

// ---- case list ----

var (
	c15SeqUnavail  = []string{"refused", "timeout", "http500", "server_error"}
	c15SeqQueryErr = []string{"bad_data", "execution", "bad_data_200", "execution_200"}
	c15SeqOther    = []string{"truncated", "garbage_200"}
)

func c15SeqKeyed(ep string) bool { return ep != "config" && ep != "flags" }

func c15SeqAllHealthy(n int) []string {
	out := make([]string, n)
	for i := range out {
		out[i] = "healthy"
	}
	return out
}

func c15SeqCases(c *core.Ctx) []c15Case {
	var out []c15Case
	add := func(family string, steps []c15SeqStep) {
		out = append(out, c15Case{
			Modes:  append([]string(nil), steps[0].Modes...),
			Target: "seq:" + family,
			Strict: len(out)%2 == 1,
			Seq:    &c15SeqSpec{Family: family, Steps: steps},
		})
	}
	checkNames := c15CheckNames()
	nSeq := 0

	// --- outage and recovery, systematically ---
	// Who is out: upstream 0 of 2; upstream 0 of 3; upstreams 0 and 1 of 3 with
	// both coming back; upstreams 0 and 1 of 3 with only upstream 1 coming back.
	type pattern struct {
		n       int
		out     []int
		back    []int
		partial bool
	}
	patterns := []pattern{
		{2, []int{0}, []int{0}, false},
		{3, []int{0}, []int{0}, false},
		{3, []int{0, 1}, []int{0, 1}, false},
		{3, []int{0, 1}, []int{1}, true},
	}
	epVariants := append(append([]string{}, c15Endpoints...), "mixed", "check")
	for _, umode := range c15SeqUnavail {
		for _, pat := range patterns {
			for _, epv := range epVariants {
				var ks []int
				var prefixes []bool
				if c.Quick() {
					rnd := c.Rand("c15-seq-blip", nSeq)
					ks = []int{1 + rnd.Intn(2)}
					prefixes = []bool{rnd.Intn(2) == 0}
				} else {
					ks = []int{1, 2, 3}
					prefixes = []bool{false, true}
				}
				for _, k := range ks {
					for _, prefix := range prefixes {
						rnd := c.Rand("c15-seq-blip-shape", nSeq)
						nSeq++
						ep := func() string {
							switch epv {
							case "mixed":
								return c15Endpoints[rnd.Intn(len(c15Endpoints))]
							case "check":
								// history on the keyed endpoints only: the check must meet an empty cache
								return []string{"query", "query_range", "query_range_sliced", "metadata"}[rnd.Intn(4)]
							}
							return epv
						}
						var steps []c15SeqStep
						if prefix {
							pep := ep()
							if !c15SeqKeyed(pep) {
								// a config / flags answer of upstream 0 would be cached and hide the outage
								pep = "query"
							}
							steps = append(steps, c15SeqStep{Modes: c15SeqAllHealthy(pat.n), Target: "api:" + pep})
						}
						down := c15SeqAllHealthy(pat.n)
						for j, i := range pat.out {
							down[i] = umode
							if j > 0 {
								// the second one is out in a seed-chosen way of its own
								down[i] = c15SeqUnavail[rnd.Intn(len(c15SeqUnavail))]
							}
						}
						for i := 0; i < k; i++ {
							steps = append(steps, c15SeqStep{Modes: append([]string(nil), down...), Target: "api:" + ep()})
						}
						up := append([]string(nil), down...)
						for _, i := range pat.back {
							up[i] = "healthy"
						}
						steps = append(steps, c15SeqStep{Modes: append([]string(nil), up...), Target: "api:" + ep()})
						if epv == "check" {
							// the first request after the recovery is a real online check
							steps[len(steps)-1].Target = "check:" + checkNames[nSeq%len(checkNames)]
						} else {
							// and once more: the group has to stay with the recovered upstream
							steps = append(steps, c15SeqStep{Modes: append([]string(nil), up...), Target: "api:" + ep()})
							if pat.partial {
								steps = append(steps, c15SeqStep{Modes: c15SeqAllHealthy(pat.n), Target: "api:" + ep()})
							}
						}
						add("outage-recovery", steps)
					}
				}
			}
		}
	}

	// --- flapping: an upstream goes away and comes back again and again ---
	for fi := 0; fi < c.N(8, 48); fi++ {
		rnd := c.Rand("c15-seq-flap", fi)
		n := 2 + rnd.Intn(2)
		who := rnd.Intn(n - 1) // never the last one alone: somebody has to take over
		umode := c15SeqUnavail[fi%len(c15SeqUnavail)]
		var steps []c15SeqStep
		for s := 0; s < 4+rnd.Intn(4); s++ {
			m := c15SeqAllHealthy(n)
			if s%2 == 0 {
				m[who] = umode
			} else if n == 3 && rnd.Intn(2) == 0 {
				m[(who+1)%n] = c15SeqUnavail[rnd.Intn(len(c15SeqUnavail))]
			}
			steps = append(steps, c15SeqStep{Modes: m, Target: "api:" + c15Endpoints[rnd.Intn(len(c15Endpoints))]})
		}
		add("flapping", steps)
	}

	// --- random walks over the whole alphabet ---
	weighted := []string{}
	for _, m := range c15SeqUnavail {
		w := 3
		if m == "timeout" {
			w = 1 // 1.1 s each
		}
		for i := 0; i < w; i++ {
			weighted = append(weighted, m)
		}
	}
	weighted = append(weighted, c15SeqQueryErr...)
	weighted = append(weighted, c15SeqOther...)
	for ri := 0; ri < c.N(120, 2000); ri++ {
		rnd := c.Rand("c15-seq-random", ri)
		n := 2 + rnd.Intn(2)
		l := 3 + rnd.Intn(5)
		keyedOnly := rnd.Intn(2) == 0
		var steps []c15SeqStep
		prev := c15SeqAllHealthy(n)
		for s := 0; s < l; s++ {
			m := make([]string, n)
			for i := range m {
				switch x := rnd.Intn(10); {
				case s > 0 && x < 3:
					m[i] = prev[i]
				case x < 7:
					m[i] = "healthy"
				default:
					m[i] = weighted[rnd.Intn(len(weighted))]
				}
			}
			ep := c15Endpoints[rnd.Intn(len(c15Endpoints))]
			if keyedOnly && !c15SeqKeyed(ep) {
				ep = "metadata"
			}
			steps = append(steps, c15SeqStep{Modes: m, Target: "api:" + ep})
			prev = m
		}
		if keyedOnly {
			steps[len(steps)-1].Target = "check:" + checkNames[rnd.Intn(len(checkNames))]
		}
		add("random-walk", steps)
	}
	return out
}

// ---- child side ----

const c15SoReusePort = 0xf // SO_REUSEPORT on linux (not exported by package syscall on amd64)

// c15SeqHoldPort binds a loopback port that stays ours for the whole sequence.
// The socket never listens: while no listener shares the port a connect() is
// answered with RST (ECONNREFUSED), exactly as for c15ClosedPort.
func c15SeqHoldPort() (fd, port int, err error) {
	fd, err = syscall.Socket(syscall.AF_INET, syscall.SOCK_STREAM|syscall.SOCK_CLOEXEC, 0)
	if err != nil {
		return 0, 0, err
	}
	fail := func(e error) (int, int, error) {
		_ = syscall.Close(fd)
		return 0, 0, e
	}
	if err = syscall.SetsockoptInt(fd, syscall.SOL_SOCKET, c15SoReusePort, 1); err != nil {
		return fail(fmt.Errorf("SO_REUSEPORT: %w", err))
	}
	if err = syscall.Bind(fd, &syscall.SockaddrInet4{Port: 0, Addr: [4]byte{127, 0, 0, 1}}); err != nil {
		return fail(err)
	}
	sa, err := syscall.Getsockname(fd)
	if err != nil {
		return fail(err)
	}
	in4, ok := sa.(*syscall.SockaddrInet4)
	if !ok {
		return fail(errors.New("not an inet4 socket"))
	}
	return fd, in4.Port, nil
}

func c15SeqListen(port int) (net.Listener, error) {
	lc := net.ListenConfig{Control: func(_, _ string, rc syscall.RawConn) error {
		var serr error
		if err := rc.Control(func(fd uintptr) {
			serr = syscall.SetsockoptInt(int(fd), syscall.SOL_SOCKET, c15SoReusePort, 1)
		}); err != nil {
			return err
		}
		return serr
	}}
	return lc.Listen(context.Background(), "tcp4", fmt.Sprintf("127.0.0.1:%d", port))
}

// c15SeqServe starts the fault server of one upstream for one step on the held port.
func c15SeqServe(mode, token string, port int) (*c15Upstream, error) {
	l, err := c15SeqListen(port)
	if err != nil {
		return nil, err
	}
	u := &c15Upstream{mode: mode, token: token, conns: map[net.Conn]struct{}{}}
	u.srv = httptest.NewUnstartedServer(u)
	_ = u.srv.Listener.Close()
	u.srv.Listener = l
	u.srv.Config.SetKeepAlivesEnabled(false)
	u.srv.Config.ConnState = func(c net.Conn, st http.ConnState) {
		u.mu.Lock()
		switch st {
		case http.StateNew:
			u.conns[c] = struct{}{}
		case http.StateClosed, http.StateHijacked:
			delete(u.conns, c)
		}
		u.mu.Unlock()
	}
	u.srv.Start()
	u.uri = fmt.Sprintf("http://127.0.0.1:%d", port)
	return u, nil
}

// c15SeqKey is the query / metric value every request of an API step carries.
func c15SeqKey(target string, step int) string {
	switch target {
	case "api:query":
		return fmt.Sprintf("count(seq_metric_%d)", step)
	case "api:query_range":
		return fmt.Sprintf("seq_range_%d", step)
	case "api:query_range_sliced":
		return fmt.Sprintf("seq_sliced_%d", step)
	case "api:metadata":
		return fmt.Sprintf("seq_metric_%d_total", step)
	}
	return ""
}

func c15SeqCallAPI(ctx context.Context, fg *promapi.FailoverGroup, target string, step int, r *c15Call) {
	r.Called = true
	key := c15SeqKey(target, step)
	var err error
	switch target {
	case "api:query":
		var res *promapi.QueryResult
		res, err = fg.Query(ctx, key)
		if err == nil && res != nil {
			r.ResultURI = res.URI
			if len(res.Series) > 0 {
				r.ResultIdent = res.Series[0].Labels.Get("ident")
			}
		}
	case "api:query_range", "api:query_range_sliced":
		rng := promapi.NewRelativeRange(time.Hour, time.Minute)
		if target == "api:query_range_sliced" {
			rng = promapi.NewRelativeRange(6*time.Hour, 5*time.Minute)
		}
		var res *promapi.RangeQueryResult
		res, err = fg.RangeQuery(ctx, key, rng)
		if err == nil && res != nil {
			r.ResultURI = res.URI
			if len(res.Series.Ranges) > 0 {
				r.ResultIdent = res.Series.Ranges[0].Labels.Get("ident")
			}
		}
	case "api:config":
		var res *promapi.ConfigResult
		res, err = fg.Config(ctx, 0)
		if err == nil && res != nil {
			r.ResultURI = res.URI
			r.ResultIdent = res.Config.Global.ExternalLabels["ident"]
		}
	case "api:flags":
		var res *promapi.FlagsResult
		res, err = fg.Flags(ctx)
		if err == nil && res != nil {
			r.ResultURI = res.URI
			r.ResultIdent = res.Flags["ident"]
		}
	case "api:metadata":
		var res *promapi.MetadataResult
		res, err = fg.Metadata(ctx, key)
		if err == nil && res != nil {
			r.ResultURI = res.URI
			if len(res.Metadata) > 0 {
				r.ResultIdent = res.Metadata[0].Help
			}
		}
	default:
		r.SetupErr = "unknown target " + target
		return
	}
	if err != nil {
		c15RecordErr(err, r)
		return
	}
	r.OK = true
}

func c15SeqTimeout(spec *c15SeqSpec) string {
	for _, st := range spec.Steps {
		for _, m := range st.Modes {
			if m == "timeout" {
				return "100ms"
			}
		}
	}
	return "20s"
}

func c15SeqValid(cs c15Case) string {
	sp := cs.Seq
	if len(sp.Steps) == 0 || len(cs.Modes) == 0 || len(cs.Modes) > 3 {
		return "empty sequence"
	}
	for s, st := range sp.Steps {
		if len(st.Modes) != len(cs.Modes) {
			return fmt.Sprintf("step %d has %d upstreams, the group has %d", s, len(st.Modes), len(cs.Modes))
		}
		for _, m := range st.Modes {
			if m == "404" {
				return "the 404 mode is not part of the sequence alphabet"
			}
			if c15Class(m, "query") == c15DontCare && m != "truncated" && m != "garbage_200" {
				return "unknown mode " + m
			}
		}
		kind, name, _ := strings.Cut(st.Target, ":")
		switch kind {
		case "api":
			if _, ok := c15PathOf[name]; !ok {
				return "unknown endpoint " + name
			}
		case "check":
			if _, ok := c15Checks[name]; !ok {
				return "unknown check " + name
			}
			if s != len(sp.Steps)-1 {
				return "a check may only be the last step"
			}
			for _, before := range sp.Steps[:s] {
				if !c15SeqKeyed(strings.TrimPrefix(before.Target, "api:")) {
					return "a check step needs a history without config / flags calls"
				}
			}
		default:
			return "unknown target " + st.Target
		}
	}
	return ""
}

func c15ExecuteSeq(cs c15Case, index int, scratch string) (o c15Obs) {
	o.Index = index
	o.Case = cs
	if msg := c15SeqValid(cs); msg != "" {
		o.SetupErr = "sequence: " + msg
		return o
	}
	c15Seq.Lock()
	c15Seq.n++
	seq := c15Seq.n
	c15Seq.Unlock()
	n := len(cs.Modes)

	ports := make([]int, n)
	var fds []int
	defer func() {
		if !o.Hung {
			for _, fd := range fds {
				_ = syscall.Close(fd)
			}
		}
	}()
	for i := 0; i < n; i++ {
		fd, port, err := c15SeqHoldPort()
		if err != nil {
			o.SetupErr = "upstream: " + err.Error()
			return o
		}
		fds = append(fds, fd)
		ports[i] = port
		o.URIs = append(o.URIs, fmt.Sprintf("http://127.0.0.1:%d", port))
		o.Tokens = append(o.Tokens, fmt.Sprintf("u%dx%dp%d", i, seq, os.Getpid()))
		_ = c15Logs.take(o.URIs[i]) // nothing stale under a reused port
	}

	cfgPath := filepath.Join(scratch, fmt.Sprintf("c15-%d-%d.hcl", os.Getpid(), seq))
	if err := os.WriteFile(cfgPath, []byte(c15HCL(o.URIs, cs.Strict, c15SeqTimeout(cs.Seq))), 0o644); err != nil {
		o.SetupErr = "write config: " + err.Error()
		return o
	}
	defer os.Remove(cfgPath)
	cfg, _, err := config.Load(cfgPath, true)
	if err != nil {
		o.SetupErr = "config.Load: " + err.Error()
		return o
	}
	reg := prometheus.NewRegistry()
	gen := config.NewPrometheusGenerator(cfg, reg)
	if err = gen.GenerateStatic(); err != nil {
		o.SetupErr = "GenerateStatic: " + err.Error()
		return o
	}
	fg := gen.ServerWithName("prom")
	if fg == nil || fg.ServerCount() != n {
		o.SetupErr = "failover group not built as configured"
		gen.Stop()
		return o
	}
	ctx := context.WithValue(context.Background(), config.CommandKey, config.LintCommand)
	ctx = context.WithValue(ctx, promapi.AllPrometheusServers, gen.Servers())

	o.Seq = &c15SeqObs{}
	begin := time.Now()
	for s, st := range cs.Seq.Steps {
		ups := make([]*c15Upstream, n)
		closeAll := func() {
			for _, u := range ups {
				if u != nil {
					u.close()
				}
			}
		}
		for i, m := range st.Modes {
			if m == "refused" {
				// nobody listens on the held port now: make sure of it
				c, derr := net.DialTimeout("tcp4", fmt.Sprintf("127.0.0.1:%d", ports[i]), 5*time.Second)
				if derr == nil {
					_ = c.Close()
					o.SetupErr = fmt.Sprintf("step %d: upstream %d accepts connections although it has no listener", s, i)
				} else if !errors.Is(derr, syscall.ECONNREFUSED) {
					o.SetupErr = fmt.Sprintf("step %d: upstream %d: a connect is not refused but fails with %v", s, i, derr)
				}
				continue
			}
			u, serr := c15SeqServe(m, o.Tokens[i], ports[i])
			if serr != nil {
				o.SetupErr = fmt.Sprintf("step %d: upstream %d: %v", s, i, serr)
				break
			}
			ups[i] = u
		}
		if o.SetupErr != "" {
			closeAll()
			gen.Stop()
			return o
		}

		var call c15Call
		call.Target = st.Target
		done := make(chan struct{})
		start := time.Now()
		go func() {
			defer close(done)
			defer func() {
				if p := recover(); p != nil {
					call.Panic = fmt.Sprint(p)
					call.PanicFrame = c15FirstPintFrame(string(debug.Stack()))
				}
			}()
			if kind, name, _ := strings.Cut(st.Target, ":"); kind == "check" {
				c15CallCheck(ctx, &cfg, gen, name, &call)
			} else {
				c15SeqCallAPI(ctx, fg, st.Target, s, &call)
			}
		}()
		select {
		case <-done:
		case <-time.After(45 * time.Second):
			o.Hung = true
			o.ElapsedMs = time.Since(begin).Milliseconds()
			return o
		}
		so := c15SeqStepObs{Call: call, ElapsedMs: time.Since(start).Milliseconds()}
		// Tear the step's servers down first: connections are reset and every
		// handler has returned when close() comes back, so the counts are final and
		// nothing of this step can show up in the next one.
		closeAll()
		for i, u := range ups {
			if u == nil {
				so.Requests = append(so.Requests, -1)
				so.Paths = append(so.Paths, nil)
				so.Keys = append(so.Keys, nil)
			} else {
				u.mu.Lock()
				so.Requests = append(so.Requests, u.requests)
				so.Paths = append(so.Paths, append([]string(nil), u.paths...))
				so.Keys = append(so.Keys, append([]string(nil), u.keys...))
				u.mu.Unlock()
			}
			so.Logged = append(so.Logged, c15Logs.take(o.URIs[i]))
		}
		o.Seq.Steps = append(o.Seq.Steps, so)
	}
	o.ElapsedMs = time.Since(begin).Milliseconds()
	gen.Stop()
	return o
}

// ---- parent side: the oracle ----

type c15SeqFacts struct {
	Steps          int
	StepsJudged    int
	CheckSteps     int
	CacheModelled  int      // steps in which an upstream counted as reachable because its config / flags answer is cached
	FailedOver     int      // steps answered by an upstream other than the first
	Recoveries     int      // steps after a failover in which an upstream before the one that answered last is reachable again
	RecoveredAnsw  int      // of those: answered by the first reachable upstream
	RecoveryCells  []string // mode it came back from @ position | endpoint of the failover step -> endpoint now | n
	Transitions    []string // mode -> mode of one upstream between consecutive steps
	StepCells      []string // modes | endpoint | step index class (first / later)
	RequestsSeen   int
	StoppedAtStep  int
	StoppedBecause string
}

func c15SeqStepObsFor(o c15Obs, s int, eff []string, reqs []int) c15Obs {
	st := o.Case.Seq.Steps[s]
	ob := o.Seq.Steps[s]
	return c15Obs{
		Index:    o.Index,
		Case:     c15Case{Modes: eff, Target: st.Target, Strict: o.Case.Strict},
		URIs:     o.URIs,
		Tokens:   o.Tokens,
		Requests: reqs,
		Paths:    ob.Paths,
		Logged:   ob.Logged,
		Calls:    []c15Call{ob.Call},
	}
}

func c15SeqHistory(cs c15Case, upTo int) string {
	parts := []string{}
	for s := 0; s <= upTo && s < len(cs.Seq.Steps); s++ {
		st := cs.Seq.Steps[s]
		parts = append(parts, fmt.Sprintf("%d:[%s]%s", s, strings.Join(st.Modes, ","), strings.TrimPrefix(st.Target, "api:")))
	}
	return strings.Join(parts, " -> ")
}

func c15JudgeSeq(o c15Obs) (v c15Verdict, f c15SeqFacts) {
	cs := o.Case
	f.StoppedAtStep = -1
	switch {
	case o.SetupErr != "":
		v.Inconc = "setup: " + o.SetupErr
		return
	case o.Hung:
		v.Inconc = "watchdog: a step of " + cs.key() + " did not return within 45s"
		return
	case cs.Seq == nil || o.Seq == nil || len(o.Seq.Steps) != len(cs.Seq.Steps) || len(o.URIs) != len(cs.Modes) || len(o.Tokens) != len(cs.Modes):
		v.Inconc = "sequence: incomplete observation for " + cs.key()
		return
	}
	n := len(cs.Modes)
	f.Steps = len(cs.Seq.Steps)
	cached := make([]map[string]bool, n) // upstream -> endpoint (config, flags) it has answered successfully
	for i := range cached {
		cached[i] = map[string]bool{}
	}
	prevAnswered, prevEp := -1, ""
	stop := func(s int, why string) {
		f.StoppedAtStep, f.StoppedBecause = s, why
	}
	for s, st := range cs.Seq.Steps {
		ob := o.Seq.Steps[s]
		if len(ob.Requests) != n || len(ob.Paths) != n || len(ob.Keys) != n || len(ob.Logged) != n {
			v.Inconc = fmt.Sprintf("sequence: step %d incompletely observed", s)
			stop(s, v.Inconc)
			return
		}
		kind, _, _ := strings.Cut(st.Target, ":")
		ep := c15TargetEndpoint(st.Target)
		// requests that carry a key must carry the key of this step
		if want := c15SeqKey(st.Target, s); want != "" {
			for i := range ob.Keys {
				for _, k := range ob.Keys[i] {
					if k != want {
						v.Inconc = fmt.Sprintf("sequence: step %d: upstream %d received a request for %q, this step asks for %q", s, i, k, want)
						stop(s, v.Inconc)
						return
					}
				}
			}
		}
		eff := append([]string(nil), st.Modes...)
		reqs := append([]int(nil), ob.Requests...)
		modelled := false
		if kind == "api" && !c15SeqKeyed(ep) {
			for i := range eff {
				if cached[i][ep] {
					// answers from pint's cache, whatever the server does now, and is not contacted for it
					eff[i] = "healthy"
					if reqs[i] == 0 {
						reqs[i] = -1
					}
					modelled = true
				}
			}
		}
		if modelled {
			f.CacheModelled++
		}
		so := c15SeqStepObsFor(o, s, eff, reqs)
		sv := c15Judge(so)
		if sv.Inconc != "" {
			v.Inconc = fmt.Sprintf("step %d: %s", s, sv.Inconc)
			stop(s, v.Inconc)
			return
		}
		f.StepsJudged++
		if kind == "check" {
			f.CheckSteps++
		}
		for _, r := range ob.Requests {
			if r > 0 {
				f.RequestsSeen += r
			}
		}
		// ---- facts for the evidence ----
		cls := c15ClassesFor(eff, ep)
		firstOK := -1
		for i, c := range cls {
			if c == c15OK {
				firstOK = i
				break
			}
			if c != c15Unavail {
				break
			}
		}
		answered := -1
		if kind == "api" && ob.Call.OK {
			for i := range o.URIs {
				if ob.Call.ResultURI == o.URIs[i] && ob.Call.ResultIdent == o.Tokens[i] {
					answered = i
				}
			}
		} else if kind == "check" {
			// the last upstream that received a request of the check
			for i, r := range ob.Requests {
				if r > 0 && cls[i] == c15OK {
					answered = i
				}
			}
		}
		if answered > 0 {
			f.FailedOver++
		}
		if s > 0 {
			before := cs.Seq.Steps[s-1].Modes
			for i := range eff {
				f.Transitions = append(f.Transitions, before[i]+"->"+st.Modes[i])
			}
			if prevAnswered > 0 && firstOK >= 0 && firstOK < prevAnswered {
				f.Recoveries++
				f.RecoveryCells = append(f.RecoveryCells, fmt.Sprintf("%s->healthy@%d|%s->%s|n=%d", before[firstOK], firstOK, prevEp, ep, n))
				if answered == firstOK {
					f.RecoveredAnsw++
				}
			}
		}
		f.StepCells = append(f.StepCells, fmt.Sprintf("%s|%s|%s", strings.Join(st.Modes, ","), ep, map[bool]string{true: "first", false: "later"}[s == 0]))

		if len(sv.Viol) > 0 {
			for _, x := range sv.Viol {
				x.Sig = "sequence:" + x.Sig
				x.What = fmt.Sprintf("step %d of a sequence on ONE failover group (history %s; the group was last answered by upstream %d): %s", s, c15SeqHistory(cs, s), prevAnswered, x.What)
				x.Case = c15Replay{Cases: []c15Case{cs}, Workers: 1}
				x.Files = c15Files(o)
				v.Viol = append(v.Viol, x)
			}
			stop(s, "violation")
			return
		}
		// ---- what pint may legitimately remember ----
		if kind == "api" && !c15SeqKeyed(ep) && answered >= 0 {
			cached[answered][ep] = true
		}
		if answered >= 0 {
			prevAnswered, prevEp = answered, ep
		} else if kind == "api" {
			// nobody answered: the "last good" upstream stays what it was
			prevEp = ep
		}
	}
	return
}

func c15SeqText(o c15Obs) string {
	var b strings.Builder
	cs := o.Case
	fmt.Fprintf(&b, "sequence %s on one failover group, required=%v\n", cs.Seq.String(), cs.Strict)
	for i := range o.URIs {
		fmt.Fprintf(&b, "upstream %d: %s token %s\n", i, o.URIs[i], o.Tokens[i])
	}
	if o.Seq == nil {
		return b.String()
	}
	for s, ob := range o.Seq.Steps {
		if s >= len(cs.Seq.Steps) {
			break
		}
		st := cs.Seq.Steps[s]
		fmt.Fprintf(&b, "step %d: modes [%s] %s -> requests per upstream %v; ok=%v uri=%q token=%q err=%q problems=%+v\n",
			s, strings.Join(st.Modes, ","), st.Target, ob.Requests, ob.Call.OK, ob.Call.ResultURI, ob.Call.ResultIdent, ob.Call.ErrText, ob.Call.Problems)
	}
	return b.String()
}

func c15SeqFiles(o c15Obs) map[string][]byte {
	b, _ := json.MarshalIndent(o, "", " ")
	return map[string][]byte{
		"observation.json": b,
		"sequence.txt":     []byte(c15SeqText(o)),
		"pint.hcl":         []byte(c15HCL(c15PlaceholderURIs(o), o.Case.Strict, c15SeqTimeout(o.Case.Seq))),
		"rules.yml":        []byte(c15Rules),
	}
}

// c15AccountSeq: evidence of what the sequence cases observed.
func c15AccountSeq(run *core.Run, o c15Obs) {
	cs := o.Case
	v, f := c15JudgeSeq(o)
	run.Count("seq_cases", 1)
	run.Count("seq_steps_judged", int64(f.StepsJudged))
	run.Count("seq_check_steps_on_a_group_with_history", int64(f.CheckSteps))
	run.Count("seq_steps_with_a_cached_config_or_flags_answer_modelled", int64(f.CacheModelled))
	run.Count("seq_steps_answered_after_failing_over", int64(f.FailedOver))
	run.Count("seq_steps_after_a_failover_with_an_earlier_upstream_reachable_again", int64(f.Recoveries))
	run.Count("seq_steps_answered_by_the_recovered_earlier_upstream", int64(f.RecoveredAnsw))
	run.Count("requests_seen_by_fault_servers", int64(f.RequestsSeen))
	for _, c := range f.RecoveryCells {
		run.Distinct("seq_recovery_cells", c)
	}
	for _, t := range f.Transitions {
		run.Distinct("seq_mode_transitions", t)
	}
	for _, c := range f.StepCells {
		run.Distinct("seq_step_cells", c)
	}
	if cs.Seq != nil {
		run.Distinct("seq_families", cs.Seq.Family)
		run.Max("seq_max_steps", int64(len(cs.Seq.Steps)))
	}
	if o.ElapsedMs > 0 {
		run.Max("seq_max_case_ms", o.ElapsedMs)
	}
	if v.Inconc != "" {
		run.Inconclusive(v.Inconc)
		if strings.Contains(v.Inconc, "timing:") {
			run.Count("seq_cases_inconclusive_spurious_client_timeout", 1)
		}
		return
	}
	for _, x := range v.Viol {
		run.Violate(x)
	}
	if f.Recoveries > 0 {
		run.Count("seq_cases_with_a_recovery_after_failover", 1)
		run.Nontrivial(cs.key())
	}
}

func c15SeqSample(o c15Obs) map[string]any {
	steps := []map[string]any{}
	for s, ob := range o.Seq.Steps {
		st := o.Case.Seq.Steps[s]
		answered := -1
		for i := range o.URIs {
			if ob.Call.OK && ob.Call.ResultURI == o.URIs[i] {
				answered = i
			}
		}
		steps = append(steps, map[string]any{
			"modes": st.Modes, "target": st.Target, "requests_per_upstream": ob.Requests,
			"answered_by_upstream": answered, "error": ob.Call.ErrText, "problems": ob.Call.Problems,
		})
	}
	return map[string]any{"family": o.Case.Seq.Family, "required": o.Case.Strict, "one_group_steps": steps}
}
