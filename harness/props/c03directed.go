package props

import (
	"math/rand"
)

// c03Directed: hand-written histories for shapes that the random generator reaches only
// rarely. They are part of every run (independent of the seed).
func c03Directed() []c03Case {
	var out []c03Case
	// mk returns a generator and a base snapshot with files rules/f1.yml.. of n rules each.
	mk := func(seed int64, files, n int) (*c03Gen, c03Snap) {
		g := &c03Gen{r: rand.New(rand.NewSource(seed)), pending: map[int][]c03Pending{}}
		s := c03Snap{}
		for i := 0; i < files; i++ {
			f := g.newFile(n, n)
			f.FilePint = nil
			s["rules/f"+string(rune('1'+i))+".yml"] = f
		}
		return g, s
	}
	type step func(g *c03Gen, s c03Snap) string
	build := func(seed int64, files, n int, prep step, steps []step, advance []step) {
		g, s := mk(seed, files, n)
		if prep != nil {
			prep(g, s)
		}
		cs := c03Case{Idx: -1 - len(out)}
		cs.Base = []c03Commit{{Ops: []string{"base"}, Files: s.clone()}}
		base := s.clone()
		for _, st := range steps {
			op := st(g, s)
			cs.Branch = append(cs.Branch, c03Commit{Ops: []string{op}, Files: s.clone()})
		}
		m := base
		for _, st := range advance {
			op := st(g, m)
			cs.Advance = append(cs.Advance, c03Commit{Ops: []string{op}, Files: m.clone()})
		}
		out = append(out, cs)
	}
	const f1, f2, f3 = "rules/f1.yml", "rules/f2.yml", "rules/f3.yml"
	rule := func(s c03Snap, p string, i int) *c03Rule { return &s[p].Groups[0].Rules[i] }
	rename := func(from, to string) step {
		return func(g *c03Gen, s c03Snap) string {
			s[to] = s[from]
			delete(s, from)
			return "rename-file"
		}
	}
	editExpr := func(p string, i int) step {
		return func(g *c03Gen, s c03Snap) string {
			r := rule(s, p, i)
			r.Expr = g.newExpr(r.Kind)
			return "mod-expr"
		}
	}
	oneGroup := func(g *c03Gen, s c03Snap) string {
		for _, f := range s {
			all := f.allRules()
			f.Groups = f.Groups[:1]
			f.Groups[0].Rules = all
		}
		return ""
	}

	// 1. a rule with an existing name inserted above the existing one
	build(101, 1, 3, oneGroup, []step{func(g *c03Gen, s c03Snap) string {
		nr := rule(s, f1, 1).clone()
		g.modifyRuleKeepName(&nr)
		rs := s[f1].Groups[0].Rules
		s[f1].Groups[0].Rules = append(append(append([]c03Rule(nil), rs[:1]...), nr), rs[1:]...)
		return "add-rule-same-name-above"
	}}, nil)
	// 2. same set of file-level disable comments in another order
	build(102, 1, 3, func(g *c03Gen, s c03Snap) string {
		s[f1].FilePint = []c03Comment{{"file/disable", "promql/rate"}, {"file/disable", "alerts/template"}}
		return ""
	}, []step{func(g *c03Gen, s c03Snap) string {
		fp := s[f1].FilePint
		fp[0], fp[1] = fp[1], fp[0]
		return "file-pint-comment-reorder"
	}}, nil)
	// 3. control comment changes its kind but not its value
	build(103, 1, 3, func(g *c03Gen, s c03Snap) string {
		oneGroup(g, s)
		rule(s, f1, 1).Pint = []c03Comment{{"disable", "alerts/for"}}
		return ""
	}, []step{func(g *c03Gen, s c03Snap) string {
		rule(s, f1, 1).Pint[0].Kind = "rule/owner"
		return "mod-pint-comment-retag"
	}}, nil)
	// 4. delete a file, rename another onto its path with an edit, then edit again
	build(104, 2, 4, oneGroup, []step{
		func(g *c03Gen, s c03Snap) string { delete(s, f1); return "delete-file" },
		func(g *c03Gen, s c03Snap) string { rename(f2, f1)(g, s); return "rename-file+" + editExpr(f1, 0)(g, s) },
		editExpr(f1, 2),
	}, nil)
	// 5. edit then revert, with an unrelated edit elsewhere
	{
		var saved *c03File
		build(105, 2, 3, oneGroup, []step{
			func(g *c03Gen, s c03Snap) string { saved = s[f1].clone(); return editExpr(f1, 1)(g, s) },
			editExpr(f2, 0),
			func(g *c03Gen, s c03Snap) string { s[f1] = saved.clone(); return "revert-file" },
		}, []step{editExpr(f1, 0)})
	}
	// 6. rename chain with an edit in the middle
	build(106, 2, 4, oneGroup, []step{rename(f1, "rules/x/a.yml"), editExpr("rules/x/a.yml", 3), rename("rules/x/a.yml", "rules/y/b.yml")}, []step{editExpr(f1, 1)})
	// 7. swap two files through a temporary name
	build(107, 2, 3, oneGroup, []step{rename(f1, "rules/tmp.yml"), rename(f2, f1), rename("rules/tmp.yml", f2)}, nil)
	// 8. delete then re-create the same path, one rule edited
	{
		var saved *c03File
		build(108, 2, 3, oneGroup, []step{
			func(g *c03Gen, s c03Snap) string { saved = s[f1].clone(); delete(s, f1); return "delete-file" },
			func(g *c03Gen, s c03Snap) string { s[f1] = saved; return "recreate-edited+" + editExpr(f1, 2)(g, s) },
		}, nil)
	}
	// 9. rename a file away, then add a new file at the old path
	build(109, 1, 3, oneGroup, []step{rename(f1, f3), func(g *c03Gen, s c03Snap) string { s[f1] = g.newFile(2, 2); return "add-file" }}, nil)
	// 10. modify, then rename (large file so that git keeps calling it a rename)
	build(110, 1, 6, oneGroup, []step{editExpr(f1, 4), rename(f1, f2)}, nil)
	// 11. file/disable replaced by an active file/snooze of the same check
	build(111, 1, 3, func(g *c03Gen, s c03Snap) string {
		s[f1].FilePint = []c03Comment{{"file/disable", "promql/rate"}}
		return ""
	}, []step{func(g *c03Gen, s c03Snap) string {
		s[f1].FilePint = []c03Comment{{"file/snooze", "2099-01-01T00:00:00Z promql/rate"}}
		return "file-pint-comment-disable-to-snooze"
	}}, nil)
	// 12. comment-only and whitespace-only commits
	build(112, 2, 4, oneGroup, []step{
		func(g *c03Gen, s c03Snap) string {
			rule(s, f1, 1).Plain = []string{"just a remark"}
			s[f1].Header = []string{"new header"}
			return "plain-comment-add"
		},
		func(g *c03Gen, s c03Snap) string {
			s[f1].Indent, s[f1].ListInd, s[f1].MapInd = 2-s[f1].Indent, 2-s[f1].ListInd, 1-s[f1].MapInd
			return "reindent"
		},
		func(g *c03Gen, s c03Snap) string {
			rule(s, f2, 0).Blank = 3
			rule(s, f2, 2).Trail = 2
			return "blank-lines"
		},
	}, []step{editExpr(f2, 1)})
	// 13. move a rule to another file
	build(113, 2, 3, oneGroup, []step{func(g *c03Gen, s c03Snap) string {
		r := *rule(s, f1, 1)
		s[f1].Groups[0].Rules = append(s[f1].Groups[0].Rules[:1], s[f1].Groups[0].Rules[2:]...)
		s[f2].Groups[0].Rules = append(s[f2].Groups[0].Rules, r)
		return "move-rule-to-other-file"
	}}, nil)
	// 14. main advances on the very file (and rule) the branch edits
	build(114, 1, 4, oneGroup, []step{editExpr(f1, 1)}, []step{editExpr(f1, 1), editExpr(f1, 3), rename(f1, f3)})
	// 15. swap the content of two paths inside one commit
	build(115, 2, 3, oneGroup, []step{func(g *c03Gen, s c03Snap) string { s[f1], s[f2] = s[f2], s[f1]; return "swap-in-one-commit" }}, nil)
	// 16. rule renamed (name field) and another rule takes the old name
	build(116, 1, 3, oneGroup, []step{func(g *c03Gen, s c03Snap) string {
		a, b := rule(s, f1, 0), rule(s, f1, 2)
		if a.Kind != b.Kind {
			b.Kind, b.For, b.KFF, b.Annotations = a.Kind, "", "", nil
		}
		a.Name, b.Name = b.Name, a.Name
		return "swap-rule-names"
	}}, nil)
	// 17. one commit touching every content field, one rule per field, one rule left alone
	build(117, 1, 11, func(g *c03Gen, s c03Snap) string {
		oneGroup(g, s)
		for i := range s[f1].Groups[0].Rules {
			r := rule(s, f1, i)
			n := g.tok()
			*r = c03Rule{Kind: "alert", Name: "Field" + string(rune('A'+i)), Expr: "sum(rate(m" + string(rune('a'+i)) + "_errors_total[5m])) > 1", For: "5m", KFF: "10m",
				Labels: []c03KV{{"severity", "page"}, {"team", "core"}}, Annotations: []c03KV{{"summary", "Something is wrong"}, {"description", "Look at it"}},
				Pint: []c03Comment{{"disable", "promql/series"}}, Blank: n % 2}
		}
		return ""
	}, []step{func(g *c03Gen, s c03Snap) string {
		r := func(i int) *c03Rule { return rule(s, f1, i) }
		r(0).Expr = "sum(rate(ma_errors_total[5m]))  >  1"
		r(1).For = "6m"
		r(2).KFF = ""
		r(3).Labels[1].V = "edge"
		r(4).Labels = r(4).Labels[:1]
		r(5).Annotations[0].V = "Something is very wrong"
		r(6).Annotations = append(r(6).Annotations, c03KV{"runbook_url", "https://example.com/runbook"})
		r(7).Pint[0].Val = "promql/rate"
		r(8).Pint = nil
		r(9).Kind, r(9).For, r(9).KFF, r(9).Annotations = "record", "", "", nil
		return "mod-every-field"
	}}, nil)
	return out
}
