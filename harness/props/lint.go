package props

import (
	"fmt"
	"os"
	"path/filepath"
	"strings"
	"sync/atomic"
	"time"

	"github.com/cloudflare/pint/verif/core"
)

// LintOpts describes one `pint lint` child.
type LintOpts struct {
	Config      string   // full HCL text ("" = no config file)
	Global      []string // global flags before the command (e.g. --offline, --workers 4)
	Args        []string // flags after "lint"
	Paths       []string // what to lint (default: all files given)
	Command     string   // lint (default) | ci
	MinSeverity string   // default info
	TeamCity    bool
	WantJSON    bool
	WantCS      bool
	WantDump    bool
	Env         []string
	Timeout     time.Duration
	Race        bool
	LogLevel    string // default error
	KeepDir     bool
}

type LintResult struct {
	Proc        core.ProcResult
	JSON        []core.JSONReport
	JSONErr     error
	JSONPresent bool
	JSONRaw     []byte
	CS          []byte
	Dump        *core.Dump
	DumpErr     error
	Dir         string
	CmdLine     string
}

var caseSeq atomic.Int64

// RunLint writes files into a fresh directory and runs pint there.
func RunLint(c *core.Ctx, files map[string]string, o LintOpts) LintResult {
	dir := filepath.Join(c.Scratch, fmt.Sprintf("case-%d", caseSeq.Add(1)))
	_ = os.MkdirAll(dir, 0o755)
	if !o.KeepDir {
		defer os.RemoveAll(dir)
	}
	return RunLintIn(c, dir, files, o)
}

// SymlinkPrefix marks a value of the files map as the target of a symbolic link to create.
const SymlinkPrefix = "\x00symlink:"

func RunLintIn(c *core.Ctx, dir string, files map[string]string, o LintOpts) LintResult {
	res := LintResult{Dir: dir}
	var names []string
	for name, data := range files {
		p := filepath.Join(dir, name)
		_ = os.MkdirAll(filepath.Dir(p), 0o755)
		if target, ok := strings.CutPrefix(data, SymlinkPrefix); ok {
			// a file entry of the form SymlinkPrefix+target is created as a symbolic link
			_ = os.Remove(p)
			_ = os.Symlink(target, p)
			names = append(names, name)
			continue
		}
		_ = os.WriteFile(p, []byte(data), 0o644)
		names = append(names, name)
	}
	out := filepath.Join(dir, ".out")
	_ = os.MkdirAll(out, 0o755)
	args := []string{}
	if o.Config != "" {
		_ = os.WriteFile(filepath.Join(out, "pint.hcl"), []byte(o.Config), 0o644)
		args = append(args, "-c", filepath.Join(out, "pint.hcl"))
	} else {
		args = append(args, "-c", filepath.Join(out, "nonexistent.hcl"))
		// an explicitly named missing config is an error; use an empty one instead
		_ = os.WriteFile(filepath.Join(out, "nonexistent.hcl"), []byte(""), 0o644)
	}
	ll := o.LogLevel
	if ll == "" {
		ll = "error"
	}
	args = append(args, "-l", ll, "--no-color")
	args = append(args, o.Global...)
	cmd := o.Command
	if cmd == "" {
		cmd = "lint"
	}
	args = append(args, cmd)
	if cmd == "lint" {
		ms := o.MinSeverity
		if ms == "" {
			ms = "info"
		}
		args = append(args, "--min-severity", ms)
	}
	if o.TeamCity {
		args = append(args, "--teamcity")
	}
	jpath := filepath.Join(out, "report.json")
	cpath := filepath.Join(out, "checkstyle.xml")
	dpath := filepath.Join(out, "dump.jsonl")
	if o.WantJSON {
		args = append(args, "--json", jpath)
	}
	if o.WantCS {
		args = append(args, "--checkstyle", cpath)
	}
	args = append(args, o.Args...)
	if cmd == "lint" {
		if len(o.Paths) > 0 {
			args = append(args, o.Paths...)
		} else {
			args = append(args, sortedStrings(names)...)
		}
	}
	env := append([]string{}, o.Env...)
	if o.WantDump {
		env = append(env, "PINT_VERIF_DUMP="+dpath)
	}
	bin := c.Pint
	if o.Race && c.PintRace != "" {
		bin = c.PintRace
	}
	to := o.Timeout
	if to == 0 {
		to = 30 * time.Second
	}
	res.CmdLine = "pint " + strings.Join(args, " ")
	res.Proc = core.RunProc(bin, args, core.ProcOpts{Dir: dir, Env: env, Timeout: to})
	if o.WantJSON {
		if b, err := os.ReadFile(jpath); err == nil {
			res.JSONPresent = true
			res.JSONRaw = b
			res.JSON, res.JSONErr = core.ReadJSONReports(jpath)
		}
	}
	if o.WantCS {
		res.CS, _ = os.ReadFile(cpath)
	}
	if o.WantDump {
		res.Dump, res.DumpErr = core.ReadDump(dpath)
	}
	return res
}

func sortedStrings(s []string) []string {
	out := append([]string(nil), s...)
	for i := 1; i < len(out); i++ {
		for j := i; j > 0 && out[j] < out[j-1]; j-- {
			out[j], out[j-1] = out[j-1], out[j]
		}
	}
	return out
}

// countLines: number of lines of a file the way a line-oriented reader sees it.
func countLines(s string) int {
	if s == "" {
		return 0
	}
	n := strings.Count(s, "\n")
	if !strings.HasSuffix(s, "\n") {
		n++
	}
	return n
}

func hasPintComment(s string) bool {
	for _, line := range strings.Split(s, "\n") {
		i := strings.IndexByte(line, '#')
		for i >= 0 {
			rest := strings.TrimLeft(line[i+1:], " \t#")
			if strings.HasPrefix(rest, "pint") {
				return true
			}
			j := strings.IndexByte(line[i+1:], '#')
			if j < 0 {
				break
			}
			i = i + 1 + j
		}
	}
	return false
}
