package props

import (
	"fmt"
	"os"
	"path/filepath"
	"strings"
	"time"

	"github.com/cloudflare/pint/verif/core"
	"github.com/cloudflare/pint/verif/gen"
)

func init() { Registry["C18"] = runC18 }

type c18Case struct {
	Config  string   `json:"config"`
	Feats   []string `json:"features"`
	HasProm bool     `json:"has_prometheus"`
	// Extra: files created next to the configuration (directories that a discovery block scans)
	Extra map[string]string `json:"extra_files,omitempty"`
}

// c18DiscoveryCases: filepath discovery whose template renders a captured path component into every templated field.
// Directory names are chosen so that the rendered value is or is not a valid regexp / URI / tag: whatever it is, the
// accepted configuration must lead to a lint run that ends with reports or an error message, never a crash.
func c18DiscoveryCases() (out []c18Case) {
	dirs := []string{"plain", "c++", "a(b", "[z", "x*y", "q?", "back\\slash", "sp ace", "{{", "per%cent"}
	fields := map[string]string{
		"include":  "  include = [\"rules/{{ $name }}/.+\"]\n",
		"exclude":  "  exclude = [\"{{ $name }}\"]\n",
		"tags":     "  tags = [\"{{ $name }}\"]\n",
		"failover": "  failover = [\"http://{{ $name }}:9090\"]\n",
		"headers":  "  headers = { \"X-{{ $name }}\": \"{{ $name }}\" }\n",
		"uri":      "",
		"name":     "",
	}
	for _, fld := range []string{"include", "exclude", "tags", "failover", "headers", "uri", "name"} {
		for _, d := range dirs {
			uri, name := "http://127.0.0.1:1", "prom-static"
			if fld == "uri" {
				uri = "http://127.0.0.1:1/{{ $name }}"
			}
			if fld == "name" || fld != "uri" {
				name = "prom-{{ $name }}"
			}
			cfg := "discovery {\n  filepath {\n    directory = \"disc\"\n    match = \"(?P<name>[^/]+)/servers\\\\.txt\"\n    template {\n      name = \"" + name + "\"\n      uri = \"" + uri + "\"\n      timeout = \"200ms\"\n    " + strings.ReplaceAll(fields[fld], "\n", "\n    ") + "}\n  }\n}\n"
			out = append(out, c18Case{Config: cfg, Feats: []string{"discovery.filepath.template." + fld + ":dir=" + d}, HasProm: true,
				Extra: map[string]string{"disc/" + d + "/servers.txt": "x\n", "disc/plain/servers.txt": "x\n"}})
		}
	}
	return out
}

type c18Outcome struct {
	accepted   bool
	loadCrash  string
	viol       []core.Violation
	ranChecks  map[string]bool // reporter names of configured checks that were dispatched
	inconc     string
	lintErrors int
}

func c18RuleFiles() map[string]string {
	files := map[string]string{}
	for n, d := range gen.HostileRuleFiles() {
		if n == "odd.yml" {
			var b strings.Builder
			b.WriteString("groups:\n- name: odd\n  rules:\n")
			for _, l := range strings.Split(strings.TrimSuffix(d, "\n"), "\n") {
				b.WriteString("  " + l + "\n")
			}
			d = b.String()
		}
		files["rules/"+n] = d
	}
	return files
}

func c18Check(c *core.Ctx, cs c18Case, extraFiles map[string]string) c18Outcome {
	out := c18Outcome{ranChecks: map[string]bool{}}
	dir := filepath.Join(c.Scratch, fmt.Sprintf("c18-%d", caseSeq.Add(1)))
	_ = os.MkdirAll(dir, 0o755)
	defer os.RemoveAll(dir)
	cfgPath := filepath.Join(dir, "pint.hcl")
	_ = os.WriteFile(cfgPath, []byte(cs.Config), 0o644)
	load := core.RunProc(c.Pint, []string{"-c", cfgPath, "-l", "error", "--no-color", "config"}, core.ProcOpts{Dir: dir, Timeout: 20 * time.Second})
	if load.TimedOut {
		out.inconc = "config load timed out"
		return out
	}
	if load.Crash != "" {
		// a crash while loading is not "rejected with an error" either
		out.viol = append(out.viol, core.Violation{Sig: "load-crash:" + load.CrashSig, What: "pint config crashed while loading the configuration: " + load.CrashSig, Case: cs,
			Files: map[string][]byte{"pint.hcl": []byte(cs.Config), "stderr.txt": []byte(load.Stderr)}})
		return out
	}
	if load.Exit != 0 {
		return out // rejected at load: trivially fine
	}
	out.accepted = true
	files := c18RuleFiles()
	for n, d := range extraFiles {
		files[n] = d
	}
	modes := [][]string{{"--offline"}}
	if cs.HasProm {
		modes = append(modes, []string{})
	}
	for _, global := range modes {
		res := RunLintIn(c, dir, files, LintOpts{Config: cs.Config, Global: global, WantDump: true, WantJSON: true, Paths: []string{"rules"}, Timeout: 60 * time.Second})
		if res.Proc.TimedOut {
			// decide a hang by re-running alone with a long limit
			res = RunLintIn(c, dir, files, LintOpts{Config: cs.Config, Global: global, WantDump: true, WantJSON: true, Paths: []string{"rules"}, Timeout: 150 * time.Second})
			if res.Proc.TimedOut {
				out.viol = append(out.viol, core.Violation{
					Sig:  "hang:" + strings.Join(global, ""),
					What: fmt.Sprintf("configuration accepted by `pint config` but `pint %s lint` did not terminate within 150s", strings.Join(global, " ")),
					Case: cs, Files: map[string][]byte{"pint.hcl": []byte(cs.Config), "stderr.txt": []byte(res.Proc.Stderr)},
				})
				continue
			}
		}
		if res.Proc.TimedOut {
			out.inconc = "lint timed out (" + strings.Join(global, " ") + "): " + core.Trunc(cs.Config, 300)
			tdir := filepath.Join(c.VerifDir, "replays", "C18", "timeouts")
			_ = os.MkdirAll(tdir, 0o755)
			_ = os.WriteFile(filepath.Join(tdir, fmt.Sprintf("%d.hcl", caseSeq.Add(1))), []byte(cs.Config), 0o644)
			_ = os.WriteFile(filepath.Join(tdir, fmt.Sprintf("%d.stderr", caseSeq.Load())), []byte(res.Proc.Stderr), 0o644)
			continue
		}
		if res.Proc.Crash != "" {
			out.viol = append(out.viol, core.Violation{
				Sig:  "crash:" + res.Proc.Crash + ":" + res.Proc.CrashSig,
				What: fmt.Sprintf("configuration accepted by `pint config` but `pint %s lint` crashed (%s) in %s", strings.Join(global, " "), res.Proc.Crash, res.Proc.CrashSig),
				Case: cs, Files: map[string][]byte{"pint.hcl": []byte(cs.Config), "stderr.txt": []byte(res.Proc.Stderr)},
			})
			continue
		}
		if res.Proc.Exit != 0 && !res.JSONPresent {
			out.lintErrors++
		}
		if res.Dump != nil {
			for _, d := range res.Dump.Dispatch {
				out.ranChecks[d.Reporter] = true
			}
		}
	}
	return out
}

func runC18(c *core.Ctx) int {
	run := core.NewRun(c)
	if c.Replay != "" {
		var cs c18Case
		if err := core.LoadCase(c.Replay, &cs); err != nil {
			fmt.Println("cannot load case:", err)
			return core.ExitInconclusive
		}
		if b, err := os.ReadFile(filepath.Join(c.Replay, "pint.hcl")); err == nil {
			cs.Config = string(b)
		}
		o := c18Check(c, cs, cs.Extra)
		fmt.Printf("REPLAY accepted=%v violations=%d\n", o.accepted, len(o.viol))
		for _, v := range o.viol {
			fmt.Println("REPLAY violated:", v.Sig, v.What)
		}
		if len(o.viol) > 0 {
			return 1
		}
		return 0
	}
	n := c.N(1500, 25000)
	var cases []c18Case
	// configurations found in the repository's own test scripts are part of the workload
	for _, cf := range gen.ReadCorpus(c.Repo, gen.IsHCLName) {
		if strings.Contains(cf.Data, "prometheus ") || strings.Contains(cf.Data, "discovery") || strings.Contains(cf.Data, "repository") {
			continue // they point at test servers that do not exist here
		}
		cases = append(cases, c18Case{Config: cf.Data, Feats: []string{"corpus:" + cf.Test}})
	}
	for _, s := range c18HandWritten() {
		cases = append(cases, c18Case{Config: s, Feats: []string{"handwritten"}})
	}
	cases = append(cases, c18DiscoveryCases()...)
	for i := 0; len(cases) < n; i++ {
		r := c.Rand("c18", i)
		o := gen.CfgOpts{MaxRules: 4, PromURIs: []string{"http://127.0.0.1:1", "http://127.0.0.1:1/prefix"}}
		if r.Intn(4) == 0 {
			o.ValidOnly = true
		}
		cfg := gen.RandCfg(r, o)
		cases = append(cases, c18Case{Config: cfg.Text, Feats: cfg.Features, HasProm: cfg.HasProm})
	}
	core.Parallel(len(cases), 16, func(i int) {
		cs := cases[i]
		o := c18Check(c, cs, cs.Extra)
		run.Eval(1)
		if len(cs.Extra) > 0 {
			run.Count("discovery_template_cases", 1)
			if o.accepted {
				run.Count("discovery_template_cases_accepted_at_load", 1)
			}
		}
		if o.inconc != "" {
			run.Inconclusive(o.inconc)
		}
		for _, v := range o.viol {
			run.Violate(v)
		}
		if !o.accepted {
			run.Count("configs_rejected_at_load", 1)
			return
		}
		run.Count("configs_accepted", 1)
		if o.lintErrors > 0 {
			run.Count("accepted_then_lint_error_message", 1)
		}
		configured := false
		for rep := range o.ranChecks {
			switch rep {
			case "promql/aggregate", "alerts/annotation", "rule/label", "query/cost", "alerts/count", "rule/for", "rule/reject", "rule/link", "rule/name", "promql/range_query", "rule/report":
				configured = true
				run.Distinct("configured_checks_run", rep)
			}
		}
		if configured {
			for _, f := range cs.Feats {
				run.Nontrivial(f)
			}
		}
		if i%(len(cases)/6+1) == 0 {
			run.Sample(map[string]any{"config": core.Trunc(cs.Config, 500), "accepted": o.accepted, "features": cs.Feats})
		}
	})
	run.Assume("load verdict = exit status of `pint -c F config`; a later lint that fails with an error message (not a panic) is accepted")
	return run.Finish("exploration",
		"configs: HCL generated over every block and option (ci, parser, owners, checks, check, prometheus pointing at a closed port, rule with match/ignore/enable/disable/locked and all 12 check blocks) with values drawn from classes valid / empty / zero / invalid / huge / templated / broken template / template followed by regexp metacharacters, plus the repository's own test configs; every config accepted by `pint config` is then used to lint four rule files whose names, labels, annotations and durations contain regexp and template metacharacters (offline, and online when it has prometheus blocks). Oracle: crash classifier on the lint child. Non-trivial = (block option, value class) pair that occurred in an accepted config whose configured check was actually dispatched (H1 dump).",
		core.Floors{MinEvaluations: int64(n), MinNontrivial: 20, MaxInconclusiveFrac: 0.02})
}

// c18HandWritten: configurations aimed at load-accepts/use-crashes corners seen while reading the code.
func c18HandWritten() []string {
	return []string{
		"rule {\n  range_query {\n    max = \"\"\n  }\n}\n",
		"rule {\n  label \"foo\" {\n    required = true\n  }\n}\n",
		"rule {\n  name \"{{ $alert }}.*\" {\n    severity = \"bug\"\n  }\n}\n",
		"rule {\n  label \"{{ $alert }}\" {\n    required = true\n  }\n}\n",
		"rule {\n  annotation \"summary\" {\n    value = \"{{ $labels.severity }}\"\n  }\n}\n",
		"rule {\n  annotation \"summary\" {\n    token = \"{{ $alert }}\"\n    value = \"x\"\n  }\n}\n",
		"rule {\n  label \"severity\" {\n    token = \"{{ $labels.severity }}\"\n    value = \".+\"\n  }\n}\n",
		"rule {\n  reject \"{{ $labels.team }}\" {\n    label_values = true\n    annotation_values = true\n    label_keys = true\n    annotation_keys = true\n  }\n}\n",
		"rule {\n  aggregate \"{{ $record }}\" {\n    keep = [\"job\"]\n  }\n}\n",
		"rule {\n  link \"{{ $alert }}\" {\n    uri = \"$1\"\n  }\n}\n",
		"rule {\n  match {\n    keep_firing_for = \"bogus\"\n  }\n  report {\n    comment = \"x\"\n    severity = \"info\"\n  }\n}\n",
		"rule {\n  match {\n    for = \"> \"\n  }\n  report {\n    comment = \"x\"\n    severity = \"info\"\n  }\n}\n",
		"rule {\n  ignore {\n    keep_firing_for = \"> 5m\"\n    command = \"lint\"\n  }\n  report {\n    comment = \"x\"\n    severity = \"info\"\n  }\n}\n",
		"rule {\n  match {\n    name = \"\\\\Qabc\"\n  }\n  report {\n    comment = \"x\"\n    severity = \"info\"\n  }\n}\n",
		"rule {\n  match {\n    path = \"a)|(b\"\n  }\n  report {\n    comment = \"x\"\n    severity = \"info\"\n  }\n}\n",
		"parser {\n  relaxed = [\"\\\\Qx\"]\n  include = [\"(?i)RULES/.*\"]\n}\n",
		"owners {\n  allowed = [\"\\\\Qa\"]\n}\n",
		"check \"promql/series\" {\n  ignoreMetrics = [\"\\\\Qfoo\"]\n}\n",
		"rule {\n  for {\n    min = \"0s\"\n    max = \"0s\"\n  }\n  keep_firing_for {\n    max = \"0s\"\n  }\n}\n",
		"rule {\n  alerts {\n    range = \"0s\"\n    step = \"0s\"\n    resolve = \"0s\"\n  }\n}\n",
		"rule {\n  cost {\n  }\n}\n",
		"rule {\n  enable = [\"rule/label\"]\n  disable = [\"rule/label\"]\n  locked = true\n  label \"x\" {\n    required = true\n  }\n}\n",
	}
}
