package props

// C14 — identical questions reach a Prometheus server once; concurrency stays bounded.
//
// Parent side: generates the trial list from (seed, tier), runs batches of
// trials in child processes of this same binary (built with -race) so that race
// reports and crashes can be captured and attributed, aggregates the verdicts of
// the per-trial monitors (c14run.go) and writes the evidence.

import (
	"encoding/json"
	"fmt"
	"math/rand"
	"os"
	"path/filepath"
	"regexp"
	"sort"
	"strings"
	"sync"
	"time"

	"github.com/cloudflare/pint/verif/core"
)

func init() { Registry["C14"] = runC14 }

var (
	c14Concurrencies = []int{1, 2, 4, 16}
	c14Steps         = []int64{60, 300, 420, 3600}
	c14MultiLookback = []int64{3 * 3600, 7 * 3600, 13 * 3600, 26 * 3600, 40 * 3600}
	c14SingleLook    = []int64{600, 1800, 3600}
)

func c14Expr(i int) string   { return fmt.Sprintf(`c14_metric_%d{job="j%d"}`, i, i) }
func c14Metric(i int) string { return fmt.Sprintf("c14_meta_%d", i) }

func c14GenCommon(r *rand.Rand, id int, mode string) c14Trial {
	return c14Trial{
		ID:          id,
		Mode:        mode,
		Concurrency: c14Concurrencies[r.Intn(len(c14Concurrencies))],
		Servers:     1,
		RateLimit:   []int{1000, 10000, 100000}[r.Intn(3)],
		Procs:       []int{2, 4, 8, 16}[r.Intn(4)],
		MaxDelayUs:  []int{0, 500, 2000, 5000}[r.Intn(4)],
		DelaySeed:   r.Int63n(1 << 40),
	}
}

func c14Callers(r *rand.Rand, t *c14Trial, k int) {
	burst := r.Intn(10) < 7
	for i := 0; i < k; i++ {
		c := c14Caller{Q: r.Intn(len(t.Questions))}
		if i < len(t.Questions) {
			c.Q = i // every question is asked at least once
		}
		if !burst && r.Intn(2) == 0 {
			c.DelayUs = r.Intn(3000)
		}
		t.Callers = append(t.Callers, c)
	}
}

func c14GenMixed(r *rand.Rand, id int) c14Trial {
	t := c14GenCommon(r, id, "mixed")
	nq := 1 + r.Intn(6)
	kinds := []string{"query", "range", "config", "flags", "metadata"}
	only := ""
	if r.Intn(4) == 0 {
		only = kinds[r.Intn(len(kinds))]
	}
	// range questions of one trial draw their times from a small pool, so that different
	// expressions are asked over identical times (a cache key that forgets the expression mixes them up)
	type tp struct{ end, look, step int64 }
	pool := make([]tp, 2)
	for i := range pool {
		look := c14MultiLookback[r.Intn(len(c14MultiLookback))]
		if r.Intn(2) == 0 {
			look = c14SingleLook[r.Intn(len(c14SingleLook))]
		}
		pool[i] = tp{end: int64(r.Intn(86400)), look: look, step: c14Steps[r.Intn(len(c14Steps))]}
		if pool[i].step >= look {
			pool[i].step = 60
		}
	}
	withFail := r.Intn(10) < 4
	if withFail && r.Intn(4) == 0 {
		t.Servers = 2
	}
	seen := map[string]bool{}
	for tries := 0; len(t.Questions) < nq && tries < 40; tries++ {
		q := c14Question{Kind: kinds[r.Intn(len(kinds))]}
		if only != "" {
			q.Kind = only
		}
		switch q.Kind {
		case "query":
			q.Expr = c14Expr(r.Intn(6))
		case "metadata":
			q.Expr = c14Metric(r.Intn(6))
		case "range":
			q.Expr = c14Expr(r.Intn(6))
			p := pool[r.Intn(len(pool))]
			q.EndOff, q.LookbackS, q.StepS = p.end, p.look, p.step
		}
		if seen[q.class()] {
			continue
		}
		seen[q.class()] = true
		single := q.Kind != "range" || q.LookbackS <= 3600
		if withFail && single && r.Intn(10) < 6 {
			q.FailA = 1 + r.Intn(3)
			q.KindA = []string{"500", "bad_data"}[r.Intn(2)]
			if t.Servers == 2 {
				q.KindA = "500"
				if r.Intn(2) == 0 {
					q.FailB = 1 + r.Intn(2)
					q.KindB = []string{"500", "bad_data"}[r.Intn(2)]
				}
			}
		}
		t.Questions = append(t.Questions, q)
	}
	k := []int{2, 3, 4, 8, 16, 32, 64}[r.Intn(7)]
	if k < len(t.Questions) {
		k = 2 * len(t.Questions)
	}
	c14Callers(r, &t, k)
	return t
}

// saturate: more distinct keys than workers, requests held open, so that the in-flight bound is actually reached.
func c14GenSaturate(r *rand.Rand, id int) c14Trial {
	t := c14GenCommon(r, id, "saturate")
	t.MaxDelayUs = []int{2000, 4000}[r.Intn(2)]
	if t.Concurrency >= 16 {
		t.MaxDelayUs = []int{8000, 12000}[r.Intn(2)]
	}
	t.MinDelayUs = t.MaxDelayUs / 2 // every request is held open, so that all workers are busy at once
	t.RateLimit = 100000
	for i := 0; i < 6; i++ {
		t.Questions = append(t.Questions, c14Question{Kind: "query", Expr: c14Expr(i)})
	}
	for i := 0; i < 6; i++ {
		t.Questions = append(t.Questions, c14Question{Kind: "metadata", Expr: c14Metric(i)})
	}
	t.Questions = append(t.Questions, c14Question{Kind: "config"}, c14Question{Kind: "flags"})
	nr := 1 + r.Intn(2)
	for i := 0; i < nr; i++ {
		t.Questions = append(t.Questions, c14Question{Kind: "range", Expr: c14Expr(i), EndOff: int64(r.Intn(86400)),
			LookbackS: []int64{26 * 3600, 40 * 3600}[r.Intn(2)], StepS: c14Steps[r.Intn(len(c14Steps))]})
	}
	c14Callers(r, &t, 2*len(t.Questions)+r.Intn(16))
	return t
}

// rangefail: multi-slice range questions whose slices fail; a failed slice cancels its siblings.
func c14GenRangeFail(r *rand.Rand, id int) c14Trial {
	t := c14GenCommon(r, id, "rangefail")
	nq := 1 + r.Intn(3)
	for i := 0; i < nq; i++ {
		t.Questions = append(t.Questions, c14Question{Kind: "range", Expr: c14Expr(i), EndOff: int64(r.Intn(86400)),
			LookbackS: c14MultiLookback[r.Intn(len(c14MultiLookback))], StepS: c14Steps[r.Intn(len(c14Steps))],
			FailA: 1 + r.Intn(3), KindA: []string{"500", "bad_data"}[r.Intn(2)]})
	}
	c14Callers(r, &t, []int{2, 4, 8, 16}[r.Intn(4)]*nq)
	return t
}

// corner: range questions with equal expression and step but different lookback share 2h slices.
func c14GenCorner(r *rand.Rand, id int) c14Trial {
	t := c14GenCommon(r, id, "corner")
	t.Concurrency = []int{4, 16}[r.Intn(2)]
	t.MaxDelayUs = []int{2000, 5000}[r.Intn(2)]
	t.RateLimit = 100000
	end := int64(r.Intn(86400))
	step := c14Steps[r.Intn(len(c14Steps))]
	looks := []int64{7 * 3600, 10 * 3600, 12 * 3600, 26 * 3600}
	r.Shuffle(len(looks), func(i, j int) { looks[i], looks[j] = looks[j], looks[i] })
	nq := 2 + r.Intn(2)
	for i := 0; i < nq; i++ {
		t.Questions = append(t.Questions, c14Question{Kind: "range", Expr: c14Expr(0), EndOff: end, LookbackS: looks[i], StepS: step})
	}
	c14Callers(r, &t, nq*(1+r.Intn(2)))
	for i := range t.Callers {
		t.Callers[i].DelayUs = 0
	}
	return t
}

func c14GenTrials(c *core.Ctx) []c14Trial {
	n := c.N(1500, 30000)
	trials := make([]c14Trial, 0, n)
	for i := 0; i < n; i++ {
		r := c.Rand("c14", i)
		var t c14Trial
		switch x := r.Intn(100); {
		case x < 70:
			t = c14GenMixed(r, i)
		case x < 85:
			t = c14GenSaturate(r, i)
		case x < 95:
			t = c14GenRangeFail(r, i)
		default:
			t = c14GenCorner(r, i)
		}
		trials = append(trials, t)
	}
	// moving-end scenario (c14mov.go): appended with ids of their own, so the trials above are what they always were
	nm := c.N(160, 3000)
	for i := 0; i < nm; i++ {
		trials = append(trials, c14GenMoving(c.Rand("c14-moving", i), n+i))
	}
	// cleanup-between-asks scenario (c14gc.go) and configured-through-a-file scenario (c14cfg.go): own ids, own streams
	ng := c.N(120, 2500)
	for i := 0; i < ng; i++ {
		trials = append(trials, c14GenGC(c.Rand("c14-gc", i), n+nm+i))
	}
	nc := c.N(80, 1500)
	for i := 0; i < nc; i++ {
		trials = append(trials, c14GenCfg(c.Rand("c14-cfg", i), n+nm+ng+i))
	}
	return trials
}

// ---- running batches in children ----

type c14Race struct {
	Sig   string
	Block string
}

var (
	c14MarkRe   = regexp.MustCompile(`^C14TRIAL (begin|end) (\d+)$`)
	c14AccessRe = regexp.MustCompile(`^(Write|Read|Previous write|Previous read|Atomic write|Atomic read|Previous atomic write|Previous atomic read) at `)
	c14FrameRe  = regexp.MustCompile(`^  (\S+)\(`)
	// innermost pint frame of a goroutine dump
	c14CrashFrameRe = regexp.MustCompile(`(?m)^github\.com/cloudflare/pint/(internal/\S+)\(`)
)

func c14RaceSig(block string) string {
	var frames []string
	lines := strings.Split(block, "\n")
	for i := 0; i < len(lines); i++ {
		if !c14AccessRe.MatchString(lines[i]) {
			continue
		}
		first, pint := "", ""
		for j := i + 1; j < len(lines) && strings.TrimSpace(lines[j]) != ""; j++ {
			if m := c14FrameRe.FindStringSubmatch(lines[j]); m != nil {
				if first == "" {
					first = m[1]
				}
				if pint == "" && strings.Contains(m[1], "github.com/cloudflare/pint/internal/") {
					pint = m[1]
				}
			}
		}
		f := pint
		if f == "" {
			f = first
		}
		f = strings.TrimPrefix(f, "github.com/cloudflare/pint/internal/")
		f = strings.TrimPrefix(f, "github.com/cloudflare/pint/")
		frames = append(frames, f)
	}
	sort.Strings(frames)
	if len(frames) == 0 {
		return "race:unparsed"
	}
	return "race:" + strings.Join(frames, "|")
}

type c14ChildView struct {
	races    map[int][]c14Race // by trial id (-1: outside any trial)
	open     int               // trial begun but not ended (-1 none)
	tail     string            // stderr after the last begin marker, race blocks removed
	raceMode bool
}

func c14ParseStderr(stderr string) c14ChildView {
	v := c14ChildView{races: map[int][]c14Race{}, open: -1}
	cur := -1
	var tail strings.Builder
	lines := strings.Split(stderr, "\n")
	for i := 0; i < len(lines); i++ {
		ln := lines[i]
		if strings.HasPrefix(ln, "C14CHILD race=true") {
			v.raceMode = true
		}
		if m := c14MarkRe.FindStringSubmatch(ln); m != nil {
			var id int
			fmt.Sscanf(m[2], "%d", &id)
			if m[1] == "begin" {
				cur = id
				v.open = id
				tail.Reset()
			} else {
				v.open = -1
				cur = -1
			}
			continue
		}
		if ln == "WARNING: DATA RACE" {
			j := i + 1
			for j < len(lines) && lines[j] != "==================" && !c14MarkRe.MatchString(lines[j]) {
				j++
			}
			block := strings.Join(lines[i:j], "\n")
			v.races[cur] = append(v.races[cur], c14Race{Sig: c14RaceSig(block), Block: block})
			if j < len(lines) && lines[j] == "==================" {
				i = j
			} else {
				i = j - 1
			}
			continue
		}
		tail.WriteString(ln)
		tail.WriteByte('\n')
	}
	v.tail = tail.String()
	return v
}

type c14Agg struct {
	mu       sync.Mutex
	outcomes map[int]c14Outcome
	races    map[int][]c14Race
	crashes  map[int]string // trial id -> crash description
	crashSig map[int]string
	lost     map[int]string // trials without outcome for other reasons
	raceMode bool
	children int
	hung     int
}

const c14MaxHung = 4

// c14RunBatch runs the trials in child processes until each has an outcome, a crash attribution or is given up.
func c14RunBatch(c *core.Ctx, agg *c14Agg, trials []c14Trial, repeat int, tag string) {
	exe, err := os.Executable()
	if err != nil {
		agg.mu.Lock()
		for _, t := range trials {
			agg.lost[t.ID] = "cannot find own executable: " + err.Error()
		}
		agg.mu.Unlock()
		return
	}
	pending := trials
	for round := 0; len(pending) > 0 && round < 6; round++ {
		agg.mu.Lock()
		hung := agg.hung
		agg.mu.Unlock()
		if hung >= c14MaxHung {
			// every hung trial costs the full watchdog; the run is inconclusive anyway
			agg.mu.Lock()
			for _, t := range pending {
				agg.lost[t.ID] = fmt.Sprintf("not run: %d trials already hit the watchdog", hung)
			}
			agg.mu.Unlock()
			return
		}
		in := filepath.Join(c.Scratch, fmt.Sprintf("c14-%s-%d.json", tag, round))
		outp := filepath.Join(c.Scratch, fmt.Sprintf("c14-%s-%d.out", tag, round))
		b, _ := json.Marshal(c14Batch{Trials: pending, Repeat: repeat})
		_ = os.WriteFile(in, b, 0o644)
		_ = os.Remove(outp)
		to := time.Duration(len(pending)*repeat)*4*time.Second + 90*time.Second
		res := core.RunProc(exe, []string{"C14-child", in, outp}, core.ProcOpts{
			Dir:     c.Scratch,
			Env:     []string{"GORACE=halt_on_error=0 history_size=3", "GOMAXPROCS=16"},
			Timeout: to,
		})
		view := c14ParseStderr(res.Stderr)
		got := map[int]bool{}
		agg.mu.Lock()
		agg.children++
		if view.raceMode {
			agg.raceMode = true
		}
		if data, err := os.ReadFile(outp); err == nil {
			for _, ln := range strings.Split(string(data), "\n") {
				if strings.TrimSpace(ln) == "" {
					continue
				}
				var o c14Outcome
				if json.Unmarshal([]byte(ln), &o) != nil {
					continue
				}
				got[o.ID] = true
				if strings.Contains(o.Inconc, "did not all return") {
					agg.hung++
				}
				if old, has := agg.outcomes[o.ID]; has {
					// repeated trial (replay): keep the first violating outcome, add up the rest
					if len(old.Viol) == 0 && len(o.Viol) > 0 {
						agg.outcomes[o.ID] = o
					}
					continue
				}
				agg.outcomes[o.ID] = o
			}
		}
		for id, rs := range view.races {
			agg.races[id] = append(agg.races[id], rs...)
		}
		var rest []c14Trial
		crashed := -1
		if view.open >= 0 && !res.TimedOut {
			// the child died inside this trial
			crashed = view.open
			kind, sig := core.ClassifyCrash(view.tail, res.Signal)
			if m := c14CrashFrameRe.FindStringSubmatch(view.tail); m != nil {
				sig = m[1]
			}
			if kind == "" {
				kind, sig = "exit", fmt.Sprintf("exit status %d", res.Exit)
			}
			agg.crashes[crashed] = c14Trunc(view.tail, 20000)
			agg.crashSig[crashed] = "crash:" + kind + ":" + sig
			got[crashed] = true
		}
		for _, t := range pending {
			if !got[t.ID] {
				rest = append(rest, t)
			}
		}
		if res.TimedOut {
			for _, t := range rest {
				agg.lost[t.ID] = "child batch timed out"
			}
			rest = nil
		}
		if len(rest) == len(pending) {
			for _, t := range rest {
				agg.lost[t.ID] = fmt.Sprintf("child produced nothing (exit %d): %s", res.Exit, core.Trunc(res.Stderr, 300))
			}
			rest = nil
		}
		agg.mu.Unlock()
		pending = rest
	}
	agg.mu.Lock()
	for _, t := range pending {
		agg.lost[t.ID] = "no outcome after 6 child rounds"
	}
	agg.mu.Unlock()
}

func c14NewAgg() *c14Agg {
	return &c14Agg{outcomes: map[int]c14Outcome{}, races: map[int][]c14Race{}, crashes: map[int]string{}, crashSig: map[int]string{}, lost: map[int]string{}}
}

func c14Files(t c14Trial, o *c14Outcome, extra map[string]string) map[string][]byte {
	files := map[string][]byte{}
	tb, _ := json.MarshalIndent(t, "", " ")
	files["trial.json"] = tb
	if o != nil && o.Observed != nil {
		ob, _ := json.MarshalIndent(o.Observed, "", " ")
		files["observed.json"] = ob
	}
	for k, v := range extra {
		files[k] = []byte(v)
	}
	return files
}

func runC14(c *core.Ctx) int {
	run := core.NewRun(c)
	if c.Replay != "" {
		return c14Replay(c)
	}
	trials := c14GenTrials(c)
	byID := map[int]c14Trial{}
	for _, t := range trials {
		byID[t.ID] = t
	}
	const batchSize = 25
	nb := (len(trials) + batchSize - 1) / batchSize
	batches := make([][]c14Trial, nb)
	for i, t := range trials {
		batches[i%nb] = append(batches[i%nb], t) // striped: every batch holds a mix of modes
	}
	agg := c14NewAgg()
	core.Parallel(nb, 8, func(i int) {
		c14RunBatch(c, agg, batches[i], 1, fmt.Sprintf("b%d", i))
	})

	// ---- fold the observations ----
	raceReports := 0
	porc := map[string]int64{}
	hist := map[string]int64{}
	sampled := 0
	watchdog := []string{}
	for _, t := range trials {
		run.Eval(1)
		run.Count("trials_"+t.Mode, 1)
		if rs := agg.races[t.ID]; len(rs) > 0 {
			raceReports += len(rs)
			for _, rc := range rs {
				o := agg.outcomes[t.ID]
				run.Violate(core.Violation{Sig: rc.Sig, What: "the race detector reported a data race while the trial was running: " + core.Trunc(rc.Block, 1500), Case: t,
					Files: c14Files(t, &o, map[string]string{"race.txt": rc.Block})})
			}
		}
		if sig, has := agg.crashSig[t.ID]; has {
			run.Count("child_crashes", 1)
			run.Violate(core.Violation{Sig: sig, What: "the process running the trial crashed: " + core.Trunc(agg.crashes[t.ID], 1500), Case: t,
				Files: c14Files(t, nil, map[string]string{"stderr.txt": agg.crashes[t.ID]})})
			continue
		}
		o, ok := agg.outcomes[t.ID]
		if !ok {
			run.Inconclusive(fmt.Sprintf("trial %d: %s", t.ID, agg.lost[t.ID]))
			continue
		}
		if o.Inconc != "" {
			run.Inconclusive(o.Inconc)
			if strings.Contains(o.Inconc, "did not all return") {
				watchdog = append(watchdog, o.Inconc)
			}
		}
		for _, v := range o.Viol {
			run.Violate(core.Violation{Sig: v.Sig, What: v.What, Case: t, Files: c14Files(t, &o, nil)})
		}
		s := o.Stats
		run.Count("requests_seen", int64(s.Requests))
		run.Count("requests_aborted_by_client", int64(s.Aborted))
		run.Count("caller_calls", int64(s.Callers))
		run.Count("keys_request_count_equals_model", int64(s.KeysExact))
		run.Count("keys_request_count_below_model", int64(s.KeysBelow))
		run.Count("range_slices_requested", int64(s.Slices))
		run.Count("corner_identical_slices_in_flight_together", int64(s.SharedOverlap))
		run.Count("corner_slices_requested_more_than_once", int64(s.SharedRepeated))
		if m := s.Moving; m != nil {
			run.Count("moving_end_callers", int64(m.Callers))
			run.Count("moving_end_cells_shared_by_callers_with_different_now", int64(m.SharedCells))
			run.Count("moving_end_repeat_calls_that_must_be_served_from_cache", int64(m.RepeatCalls))
			run.Count("moving_end_repeat_calls_after_earlier_caller_returned", int64(m.RepeatSequential))
			run.Count("moving_end_repeat_calls_while_earlier_caller_still_out", int64(m.RepeatWaiting))
			run.Count("moving_end_callers_served_answer_requested_with_another_end", int64(m.ServedOtherEnd))
			run.Count("moving_end_requests_with_a_callers_now_as_end", int64(m.MovingEndRequests))
			run.Count("moving_end_requests_with_aligned_end", int64(m.AlignedRequests))
			run.Count("moving_end_slice_groups_checked_for_reuse", int64(m.SliceGroupsChecked))
			run.Count("moving_end_slice_groups_held_by_2plus_callers", int64(m.SliceGroupsShared))
			run.Count("moving_end_pairs_same_start_other_cell_no_demand", int64(m.OtherCellPairs))
			run.Count("moving_end_pairs_same_grid_other_rounding_bucket_no_demand", int64(m.SameGridOtherRound))
			for _, d := range m.EndDistance {
				run.Distinct("moving_end_distance_between_callers_sharing_an_answer", d)
			}
			for _, q := range t.Questions {
				run.Distinct("moving_end_step_s", fmt.Sprintf("%04d", q.StepS))
				run.Distinct("moving_end_lookback_s", fmt.Sprintf("%06d", q.LookbackS))
			}
			nw := 0
			for _, cl := range t.Callers {
				if cl.Wave+1 > nw {
					nw = cl.Wave + 1
				}
			}
			switch {
			case nw == 1:
				run.Distinct("moving_end_schedule", "burst")
			case nw == len(t.Callers):
				run.Distinct("moving_end_schedule", "sequential")
			default:
				run.Distinct("moving_end_schedule", "waves")
			}
		}
		if g := s.GC; g != nil {
			run.Count("gc_cleanup_passes_between_waves", int64(g.Passes))
			run.Count("gc_cleanup_passes_while_callers_were_out", int64(g.PassesDuring))
			run.Count("gc_questions_answered_then_cleaned_then_asked_again", int64(g.QuestionsReask))
			run.Count("gc_calls_after_cleanup_that_must_be_served_from_cache", int64(g.Reasks))
			run.Count("gc_calls_after_cleanup_answer_never_read_back_before_it", int64(g.ReasksNoHit))
			run.Count("gc_calls_after_cleanup_answer_read_back_once_before_it", int64(g.ReasksOneHit))
			run.Count("gc_calls_after_cleanup_answer_read_back_2plus_before_it", int64(g.ReasksManyHits))
			run.Count("gc_questions_failed_then_cleaned_then_asked_again", int64(g.FailedThenAsked))
			run.Count("gc_requests_entering_after_first_cleanup_pass", int64(g.RequestsAfter))
			for _, k := range g.KindsNoHit {
				run.Distinct("gc_kinds_asked_again_after_cleanup_without_earlier_hit", k)
			}
			for _, k := range g.PassesBetween {
				run.Distinct("gc_complete_passes_between_answer_and_later_ask", k)
			}
			for _, k := range g.RoundsPerQ {
				run.Distinct("gc_waves_in_which_one_question_was_asked", k)
			}
			if t.GCDuring {
				run.Count("gc_trials_with_concurrent_cleanup", 1)
			}
		}
		if t.Mode == "cfg" {
			cc := fmt.Sprintf("%02d", t.Concurrency)
			if t.ConcAbsent {
				cc = "absent"
			}
			run.Count("cfg_trials_source_"+t.Source, 1)
			run.Distinct("cfg_source_x_concurrency", t.Source+"/"+cc)
			run.Distinct("cfg_source_x_upstreams", fmt.Sprintf("%s/%d", t.Source, t.Servers))
			run.Max("cfg_max_inflight_with_concurrency_"+cc, int64(s.MaxInflight))
			if s.Saturated && !t.ConcAbsent {
				run.Count("cfg_trials_inflight_reached_configured_concurrency", 1)
				run.Count("cfg_trials_inflight_reached_configured_concurrency_"+c14SourceKind(t.Source), 1)
			}
			if t.ConcAbsent {
				run.Count("cfg_trials_concurrency_absent_not_judged", 1)
			}
		} else {
			run.Max(fmt.Sprintf("max_inflight_at_concurrency_%02d", t.Concurrency), int64(s.MaxInflight))
			if s.Saturated {
				run.Count(fmt.Sprintf("trials_inflight_reached_concurrency_%02d", t.Concurrency), 1)
			}
		}
		for k, n := range s.Porcupine {
			porc[k] += int64(n)
		}
		switch m := s.MaxContention; {
		case m >= 32:
			hist["32+"]++
		case m >= 16:
			hist["16-31"]++
		case m >= 8:
			hist["08-15"]++
		case m >= 4:
			hist["04-07"]++
		case m >= 2:
			hist["02-03"]++
		default:
			hist["00-01"]++
		}
		switch {
		case t.Mode == "gc":
			// non-trivial: an answered question was asked again after a complete cleanup pass
			if s.GC != nil && s.GC.QuestionsReask > 0 {
				run.Nontrivial(o.Hash)
			}
		case t.Mode == "cfg":
			// non-trivial: the configured bound was reached (and is judged)
			if s.Saturated && !t.ConcAbsent {
				run.Nontrivial(o.Hash)
			}
		case s.MaxContention >= 2:
			run.Nontrivial(o.Hash)
		}
		if s.MaxContention >= 2 {
			run.Count("contended_questions", int64(s.ContendedKeys))
		}
		for _, q := range t.Questions {
			run.Distinct("endpoint_kinds", q.Kind)
		}
		run.Distinct("callers_per_trial", fmt.Sprintf("%02d", len(t.Callers)))
		if sampled < 6 && t.ID%(len(trials)/6+1) == 0 {
			sampled++
			run.Sample(map[string]any{"trial": t, "stats": s})
		}
	}
	if rs := agg.races[-1]; len(rs) > 0 {
		raceReports += len(rs)
		for _, rc := range rs {
			run.Violate(core.Violation{Sig: rc.Sig, What: "data race reported between trials: " + core.Trunc(rc.Block, 1500), Files: map[string][]byte{"race.txt": []byte(rc.Block)}})
		}
	}
	run.Extra("race_detector_enabled", agg.raceMode)
	run.Extra("race_reports", raceReports)
	run.Extra("porcupine_verdicts", porc)
	run.Extra("contention_histogram_max_callers_waiting_on_one_question", hist)
	run.Extra("child_processes", agg.children)
	run.Extra("watchdog_trials", watchdog)
	run.Assume("request stamps: Enter after the server has read the request, Leave before it writes the first response byte, one monotonic clock; the recorded interval lies inside the client's in-flight interval, equal stamps are not an overlap")
	run.Assume("range questions use fixed absolute times (a RangeQueryTimes whose String() is RelativeRange's), so no slice boundary depends on the wall clock; in moving trials every caller has its own fixed logical now, as RelativeRange callers arriving at different moments would")
	run.Assume("moving trials: two successful slice requests are the same question iff same expression, step and start and their ends are the same number of whole steps after the start AND round (time.Time.Round) to the same multiple of the step; only then a second request is a violation")
	run.Assume("cache lifetime is exercised only as 'not re-requested within a group that lives well under the 2-minute sweeper'")
	run.Assume("gc trials: cleanup passes are run through the exported FailoverGroup.CleanCache (the pass the 2-minute cleaner runs); a second request for an answered key is judged only if, by the recorded stamps, it entered the server less than 60s after the first answer left it (below every cache lifetime: 5m instant, 10m flags/metadata, >=10m range slices, 1h config as passed, 1h without a read); otherwise the trial is set aside as inconclusive")
	run.Assume("cfg trials: the configured concurrency is the number written in the configuration file the harness generated; trials whose file does not mention concurrency are counted, not judged")
	run.Assume("requests the client aborted (sibling slice failed) are excluded from overlap and in-flight monitors; rangefail trials use count/value monitors only")
	code := run.Finish("exploration",
		"trial = fresh FailoverGroup of the real promapi client (1-2 upstreams, concurrency 1/2/4/16) against observation servers, 2-64 concurrent callers over 1-17 questions of all five endpoint kinds, optional scripted leading failures (HTTP 500 / bad_data), per-request server delays 0-5ms. Monitors: identical requests overlapping in the server log; in-flight sweep vs concurrency; request count per key vs 1+scripted failures; value identity (question, upstream, request ordinal); equality among callers; porcupine history check per (upstream, question); race detector and crash monitor on the child running the trial. Moving trials (appended, own ids): 1-3 multi-slice range questions, every caller with its own logical now laid out inside/across the half-step cells of the question's step grid, arriving sequentially, in waves or as one burst; monitors: a slice question (same start, end in the same cell) answered successfully reaches the server once, newest slice held belongs to the caller's own cell, equal answers among callers of one cell. gc trials (appended, own ids): 2-8 questions of all kinds asked in 2-4 waves with 0-3 cache cleanup passes (FailoverGroup.CleanCache) between waves and, in a quarter of them, continuously while callers are out; all per-question monitors apply unchanged plus: an answered key requested again across a cleanup pass (non-trivial: an answered question was asked again after a complete pass). cfg trials (appended, own ids): the group is built by config.Load + PrometheusGenerator from a generated file (static prometheus block, discovery filepath template with one file or two merged files, discovery prometheusQuery template; concurrency 1-12 written in the file or absent; 1-2 upstreams with the first answering 500) and saturated with 15-20 distinct questions held open; in-flight per upstream vs the number in the file (non-trivial: the bound was reached). Non-trivial = trial (by hash of its spec) in which >= 2 callers of one question were waiting while that question's first request was being served (moving trials: >= 2 callers of one question had their now in the same cell).",
		core.Floors{MinEvaluations: int64(len(trials)), MinNontrivial: len(trials) / 4, MaxInconclusiveFrac: 0.02})
	if code == core.ExitHeld && !agg.raceMode {
		fmt.Println("INCONCLUSIVE property=C14: the harness was built without -race, the race monitor did not run")
		return core.ExitInconclusive
	}
	return code
}

func c14Replay(c *core.Ctx) int {
	var t c14Trial
	if err := core.LoadCase(c.Replay, &t); err != nil {
		fmt.Println("cannot load case:", err)
		return core.ExitInconclusive
	}
	const repeat = 40 // schedules are not reproducible: the same trial is run 40 times
	agg := c14NewAgg()
	c14RunBatch(c, agg, []c14Trial{t}, repeat, "replay")
	violated := false
	if o, ok := agg.outcomes[t.ID]; ok {
		for _, v := range o.Viol {
			violated = true
			fmt.Println("REPLAY violated:", v.Sig, v.What)
		}
		if o.Inconc != "" {
			fmt.Println("REPLAY inconclusive:", o.Inconc)
		}
	}
	for _, rs := range agg.races {
		for _, rc := range rs {
			violated = true
			fmt.Println("REPLAY violated:", rc.Sig)
			fmt.Println(core.Trunc(rc.Block, 1500))
		}
	}
	for id, sig := range agg.crashSig {
		violated = true
		fmt.Println("REPLAY violated:", sig, core.Trunc(agg.crashes[id], 1500))
	}
	for _, why := range agg.lost {
		fmt.Println("REPLAY inconclusive:", why)
	}
	fmt.Printf("REPLAY trial=%d mode=%s repeats=%d violated=%v race_detector=%v\n", t.ID, t.Mode, repeat, violated, agg.raceMode)
	if violated {
		return 1
	}
	return 0
}
