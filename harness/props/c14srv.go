package props

// Observation server for C14: a fake Prometheus API that logs every request
// with a key (endpoint + canonical form), the ordinal of the request for that
// key, and two stamps taken from one monotonic clock. Responses carry the pair
// (question, n) so that a caller's result identifies the request it came from.

import (
	"encoding/json"
	"fmt"
	"hash/fnv"
	"net/http"
	"net/http/httptest"
	"strconv"
	"strings"
	"sync"
	"time"
)

// c14Req is one request as seen by the server.
//
// Enter is stamped after the request (headers and form) has been read, Leave is
// stamped BEFORE the first byte of the response is written. The client that
// sent the request is therefore certainly still waiting for it during
// [Enter, Leave]: the recorded interval is contained in the true in-flight
// interval, so an overlap / in-flight count computed from recorded intervals
// never over-states what the client did.
type c14Req struct {
	Key    string `json:"key"`
	Class  string `json:"class"` // question class: query|<expr>, range|<expr>|<step>, metadata|<metric>, config, flags
	Slice  string `json:"slice,omitempty"`
	N      int    `json:"n"`
	Enter  int64  `json:"enter"`
	Leave  int64  `json:"leave"`
	Status string `json:"status"` // ok | fail | aborted | pending
	Delay  int64  `json:"delay_us"`
}

type c14Fail struct {
	Count int    `json:"count"`
	Kind  string `json:"kind"` // "500" (unavailable -> failover) | "bad_data" (query error -> stop)
}

type c14Server struct {
	name       string
	base       time.Time
	mu         sync.Mutex
	log        []*c14Req
	perKey     map[string]int
	fails      map[string]c14Fail // by class
	sliceFails bool               // rangefail mode: a failure spec applies only to a third of the slice keys
	delaySeed  int64
	maxDelayUs int
	minDelayUs int
	srv        *httptest.Server
}

func newC14Server(name string, base time.Time, fails map[string]c14Fail, sliceFails bool, delaySeed int64, minDelayUs, maxDelayUs int) *c14Server {
	s := &c14Server{
		name:       name,
		base:       base,
		perKey:     map[string]int{},
		fails:      fails,
		sliceFails: sliceFails,
		delaySeed:  delaySeed,
		maxDelayUs: maxDelayUs,
		minDelayUs: minDelayUs,
	}
	s.srv = httptest.NewServer(http.HandlerFunc(s.handle))
	return s
}

func (s *c14Server) stamp() int64 { return int64(time.Since(s.base)) }

func (s *c14Server) close() {
	s.srv.CloseClientConnections()
	s.srv.Close()
}

func (s *c14Server) snapshot() []c14Req {
	s.mu.Lock()
	defer s.mu.Unlock()
	out := make([]c14Req, 0, len(s.log))
	for _, r := range s.log {
		out = append(out, *r)
	}
	return out
}

func c14Hash(parts ...string) uint64 {
	h := fnv.New64a()
	for _, p := range parts {
		_, _ = h.Write([]byte(p))
		_, _ = h.Write([]byte{0})
	}
	return h.Sum64()
}

func c14Classify(path string, form map[string][]string) (class, slice string, ok bool) {
	get := func(k string) string {
		if v := form[k]; len(v) > 0 {
			return v[0]
		}
		return ""
	}
	switch {
	case strings.HasSuffix(path, "/api/v1/query"):
		return "query|" + get("query"), "", true
	case strings.HasSuffix(path, "/api/v1/query_range"):
		return "range|" + get("query") + "|" + get("step"), get("start") + ".." + get("end"), true
	case strings.HasSuffix(path, "/api/v1/status/config"):
		return "config", "", true
	case strings.HasSuffix(path, "/api/v1/status/flags"):
		return "flags", "", true
	case strings.HasSuffix(path, "/api/v1/metadata"):
		return "metadata|" + get("metric"), "", true
	}
	return "", "", false
}

func (s *c14Server) handle(w http.ResponseWriter, r *http.Request) {
	if err := r.ParseForm(); err != nil {
		http.Error(w, "bad form", http.StatusBadRequest)
		return
	}
	class, slice, ok := c14Classify(r.URL.Path, r.Form)
	if !ok {
		http.NotFound(w, r)
		return
	}
	key := r.URL.Path + "?" + r.Form.Encode() // Encode sorts by key

	s.mu.Lock()
	s.perKey[key]++
	n := s.perKey[key]
	delay := int64(0)
	if s.maxDelayUs > 0 && s.maxDelayUs >= s.minDelayUs {
		delay = int64(s.minDelayUs) + int64(c14Hash(strconv.FormatInt(s.delaySeed, 10), s.name, key, strconv.Itoa(n))%uint64(s.maxDelayUs-s.minDelayUs+1))
	}
	rec := &c14Req{Key: key, Class: class, Slice: slice, N: n, Status: "pending", Delay: delay}
	s.log = append(s.log, rec)
	rec.Enter = s.stamp()
	s.mu.Unlock()

	fail := false
	var kind string
	if f, has := s.fails[class]; has && n <= f.Count {
		if !s.sliceFails || c14Hash(key)%3 == 0 {
			fail = true
			kind = f.Kind
		}
	}

	aborted := false
	if delay > 0 {
		t := time.NewTimer(time.Duration(delay) * time.Microsecond)
		select {
		case <-t.C:
		case <-r.Context().Done():
			aborted = true
			t.Stop()
		}
	}
	if r.Context().Err() != nil {
		aborted = true
	}

	s.mu.Lock()
	rec.Leave = s.stamp()
	switch {
	case aborted:
		rec.Status = "aborted"
	case fail:
		rec.Status = "fail"
	default:
		rec.Status = "ok"
	}
	s.mu.Unlock()
	if aborted {
		return
	}

	if fail {
		switch kind {
		case "bad_data":
			w.Header().Set("Content-Type", "application/json")
			w.WriteHeader(http.StatusBadRequest)
			_, _ = w.Write([]byte(`{"status":"error","errorType":"bad_data","error":"c14 injected"}`))
		default:
			w.WriteHeader(http.StatusInternalServerError)
			_, _ = w.Write([]byte("c14 injected"))
		}
		return
	}

	ns := strconv.Itoa(n)
	var body any
	switch {
	case strings.HasPrefix(class, "query|"):
		body = map[string]any{"status": "success", "data": map[string]any{
			"resultType": "vector",
			"result": []any{map[string]any{
				"metric": map[string]string{"__name__": "c14", "q": r.Form.Get("query"), "n": ns, "srv": s.name},
				"value":  []any{1710028800, "1"},
			}},
		}}
	case strings.HasPrefix(class, "range|"):
		st, _ := strconv.ParseFloat(r.Form.Get("start"), 64)
		body = map[string]any{"status": "success", "data": map[string]any{
			"resultType": "matrix",
			"result": []any{map[string]any{
				"metric": map[string]string{"__name__": "c14", "q": r.Form.Get("query"), "step": r.Form.Get("step"), "s": slice, "n": ns, "srv": s.name},
				"values": []any{[]any{st, "1"}},
			}},
		}}
	case class == "config":
		body = map[string]any{"status": "success", "data": map[string]string{
			"yaml": fmt.Sprintf("global:\n  external_labels:\n    c14q: config\n    c14n: \"%s\"\n    c14srv: %s\n", ns, s.name),
		}}
	case class == "flags":
		body = map[string]any{"status": "success", "data": map[string]string{"c14q": "flags", "c14n": ns, "c14srv": s.name}}
	case strings.HasPrefix(class, "metadata|"):
		m := r.Form.Get("metric")
		body = map[string]any{"status": "success", "data": map[string]any{
			m: []any{map[string]string{"type": "gauge", "help": "c14q=" + m + " c14n=" + ns + " c14srv=" + s.name, "unit": ""}},
		}}
	}
	b, _ := json.Marshal(body)
	w.Header().Set("Content-Type", "application/json")
	w.Header().Set("Content-Length", strconv.Itoa(len(b)))
	w.WriteHeader(http.StatusOK)
	_, _ = w.Write(b)
}
