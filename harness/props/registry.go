// Package props holds one monitor per property (C01..C20).
package props

import "github.com/cloudflare/pint/verif/core"

// Registry maps a property id to its monitor; the return value is the exit code.
var Registry = map[string]func(*core.Ctx) int{}

// Children are internal sub-commands (batches executed in a child process so a
// crash cannot take the other monitors down).
var Children = map[string]func(args []string) int{}
