package props

import (
	"fmt"
	"math/rand"
	"strings"

	"github.com/prometheus/common/model"

	"github.com/cloudflare/pint/internal/diags"
	"github.com/cloudflare/pint/internal/parser"

	"github.com/cloudflare/pint/verif/core"
	"github.com/cloudflare/pint/verif/gen"
)

func init() { Registry["C19"] = runC19 }

type c19Case struct {
	Second     string   `json:"second,omitempty"` // a second bare rule list put under a sibling key of the outermost level
	SecondLine int      `json:"second_line,omitempty"`
	SecondCol  int      `json:"second_col,omitempty"`
	Kind       string   `json:"kind"` // strict-vs-relaxed | wrapper
	Doc        string   `json:"doc"`
	Wrapped    string   `json:"wrapped,omitempty"`
	DLine      int      `json:"dline,omitempty"`
	DCol       int      `json:"dcol,omitempty"`
	Shape      []string `json:"shape,omitempty"`
}

type flatRule struct {
	Type, Name, Expr string
	First, Last      int
	Err              string
	Pos              []string // "field=value@positions"
}

// posString renders positions displaced by (dl, dc). A unit on an empty source line (the line break of a blank line
// inside a multi-line scalar) sits at column 1 whatever the indentation of the surrounding text, so it is not displaced.
func posString(p diags.PositionRanges, dl, dc int, srcLines []string) string {
	var b strings.Builder
	for _, r := range p {
		if r.Line >= 1 && r.Line <= len(srcLines) && srcLines[r.Line-1] == "" {
			fmt.Fprintf(&b, "(%d:blank)", r.Line+dl)
			continue
		}
		fmt.Fprintf(&b, "(%d:%d-%d)", r.Line+dl, r.FirstColumn+dc, r.LastColumn+dc)
	}
	return b.String()
}

func flatten(f parser.File, dl, dc int, src string) []flatRule {
	srcLines := strings.Split(src, "\n")
	var out []flatRule
	for _, g := range f.Groups {
		for _, r := range g.Rules {
			fr := flatRule{Type: string(r.Type()), Name: r.Name(), First: r.Lines.First + dl, Last: r.Lines.Last + dl}
			if r.Error.Err != nil {
				fr.Err = fmt.Sprintf("%d:%s", r.Error.Line+dl, r.Error.Err)
			}
			add := func(field string, n *parser.YamlNode) {
				if n != nil {
					fr.Pos = append(fr.Pos, fmt.Sprintf("%s=%q@%s", field, n.Value, posString(n.Pos, dl, dc, srcLines)))
				}
			}
			addMap := func(field string, m *parser.YamlMap) {
				if m == nil {
					return
				}
				add(field+".key", m.Key)
				for _, it := range m.Items {
					add(field+"."+it.Key.Value+".k", it.Key)
					add(field+"."+it.Key.Value+".v", it.Value)
				}
			}
			if rr := r.RecordingRule; rr != nil {
				fr.Expr = rr.Expr.Value.Value
				add("record", &rr.Record)
				add("expr", rr.Expr.Value)
				addMap("labels", rr.Labels)
			}
			if ar := r.AlertingRule; ar != nil {
				fr.Expr = ar.Expr.Value.Value
				add("alert", &ar.Alert)
				add("expr", ar.Expr.Value)
				add("for", ar.For)
				add("keep_firing_for", ar.KeepFiringFor)
				addMap("labels", ar.Labels)
				addMap("annotations", ar.Annotations)
			}
			out = append(out, fr)
		}
	}
	return out
}

func c19Parse(content string, strict bool) (f parser.File, panicked string) {
	defer func() {
		if r := recover(); r != nil {
			panicked = fmt.Sprint(r)
		}
	}()
	p := parser.NewParser(strict, parser.PrometheusSchema, model.UTF8Validation)
	return p.Parse(strings.NewReader(content)), ""
}

func diffFlat(a, b []flatRule) string {
	if len(a) != len(b) {
		return fmt.Sprintf("count: rule count %d vs %d", len(a), len(b))
	}
	for i := range a {
		x, y := a[i], b[i]
		switch {
		case x.Type != y.Type:
			return fmt.Sprintf("type: rule %d type %s vs %s", i, x.Type, y.Type)
		case x.Name != y.Name:
			return fmt.Sprintf("name: rule %d name %q vs %q", i, x.Name, y.Name)
		case x.Expr != y.Expr:
			return fmt.Sprintf("expr: rule %d expr %q vs %q", i, x.Expr, y.Expr)
		case x.Err != y.Err:
			return fmt.Sprintf("error: rule %d error %q vs %q", i, x.Err, y.Err)
		case x.First != y.First || x.Last != y.Last:
			return fmt.Sprintf("lines: rule %d (%s) lines %d-%d vs %d-%d", i, x.Name, x.First, x.Last, y.First, y.Last)
		case strings.Join(x.Pos, "|") != strings.Join(y.Pos, "|"):
			for j := range x.Pos {
				if j >= len(y.Pos) || x.Pos[j] != y.Pos[j] {
					other := "(missing)"
					if j < len(y.Pos) {
						other = y.Pos[j]
					}
					return fmt.Sprintf("position-%s: rule %d (%s) position %s vs %s", strings.SplitN(strings.SplitN(x.Pos[j], "=", 2)[0], ".", 2)[0], i, x.Name, x.Pos[j], other)
				}
			}
			return fmt.Sprintf("position: rule %d positions differ", i)
		}
	}
	return ""
}

// wrap puts text under additional YAML structure; returns the wrapped text, the line and column displacement and the shape.
func c19Wrap(r *rand.Rand, text string, levels int, allowSeq bool) (string, int, int, []string) {
	lines := strings.Split(strings.TrimSuffix(text, "\n"), "\n")
	dl, dc := 0, 0
	var shape []string
	keys := []string{"spec", "data", "wrapper", "alerts", "config", "rule_files", "x"}
	for lv := 0; lv < levels; lv++ {
		ind := 1 + r.Intn(4)
		key := keys[r.Intn(len(keys))] + fmt.Sprint(lv)
		var out []string
		before, after := r.Intn(3), r.Intn(3)
		kind := "map"
		if allowSeq && lv == 0 && r.Intn(8) == 0 {
			kind = "embedded" // the rules are kept as text in a block scalar (ConfigMap style)
		} else if allowSeq && r.Intn(3) == 0 {
			kind = "seq"
			if r.Intn(3) == 0 {
				kind = "item" // the content is a list item itself (a list in a list when the content is a rule list)
			}
		}
		for i := 0; i < before; i++ {
			out = append(out, fmt.Sprintf("sibling%d_%d: %s", lv, i, []string{"1", "text", "[a, b]", "{k: v}", "'q'"}[r.Intn(5)]))
		}
		switch kind {
		case "map":
			out = append(out, key+":")
			for _, l := range lines {
				if l == "" {
					out = append(out, "")
				} else {
					out = append(out, strings.Repeat(" ", ind)+l)
				}
			}
			dl += before + 1
			dc += ind
			shape = append(shape, fmt.Sprintf("map(ind=%d,before=%d,after=%d)", ind, before, after))
		case "embedded":
			out = append(out, key+": |")
			for _, l := range lines {
				if l == "" {
					out = append(out, "")
				} else {
					out = append(out, strings.Repeat(" ", ind)+l)
				}
			}
			dl += before + 1
			dc += ind
			shape = append(shape, fmt.Sprintf("seq-embedded-text(ind=%d,before=%d,after=%d)", ind, before, after))
		case "item":
			// key:
			//   - other: 1        (optional earlier item)
			//   -
			//       <content>
			out = append(out, key+":")
			pre := r.Intn(3)
			switch pre {
			case 1:
				out = append(out, strings.Repeat(" ", ind)+"- other: 1")
			case 2:
				// (an earlier item that is a plain scalar)
				out = append(out, strings.Repeat(" ", ind)+"- justtext")
				pre = 1
			}
			out = append(out, strings.Repeat(" ", ind)+"-")
			cind := ind + 1 + r.Intn(4)
			for _, l := range lines {
				if l == "" {
					out = append(out, "")
				} else {
					out = append(out, strings.Repeat(" ", cind)+l)
				}
			}
			dl += before + 2 + pre
			dc += cind
			shape = append(shape, fmt.Sprintf("seq-item(ind=%d,before=%d,after=%d,pre=%d)", cind, before, after, pre))
		case "seq":
			// key:
			//   - other: 1        (optional earlier item)
			//   - inner:
			//       <content>
			out = append(out, key+":")
			pre := r.Intn(3)
			switch pre {
			case 1:
				out = append(out, strings.Repeat(" ", ind)+"- other: 1")
			case 2:
				out = append(out, strings.Repeat(" ", ind)+"- justtext")
				pre = 1
			}
			out = append(out, strings.Repeat(" ", ind)+"- inner"+fmt.Sprint(lv)+":")
			cind := ind + 2 + 1 + r.Intn(3)
			for _, l := range lines {
				if l == "" {
					out = append(out, "")
				} else {
					out = append(out, strings.Repeat(" ", cind)+l)
				}
			}
			dl += before + 2 + pre
			dc += cind
			shape = append(shape, fmt.Sprintf("seq(ind=%d,before=%d,after=%d,pre=%d)", cind, before, after, pre))
		}
		for i := 0; i < after; i++ {
			out = append(out, fmt.Sprintf("after%d_%d: %s", lv, i, []string{"1", "text", "[a, b]"}[r.Intn(3)]))
		}
		lines = out
	}
	// extra documents before / after (also empty, comment-only and null documents)
	if r.Intn(3) == 0 {
		var pre []string
		switch r.Intn(4) {
		case 0:
			pre = []string{"other: document", "---"}
			shape = append(shape, "doc-before")
		case 1:
			pre = []string{"---", "---"}
			shape = append(shape, "empty-doc-before")
		case 2:
			pre = []string{"---", "# Source: chart/templates/rules.yaml", "---"}
			shape = append(shape, "comment-doc-before")
		case 3:
			pre = []string{"~", "---"}
			shape = append(shape, "null-doc-before")
		}
		lines = append(pre, lines...)
		dl += len(pre)
	}
	if r.Intn(4) == 0 {
		lines = append(lines, "---", "trailing: document")
		shape = append(shape, "doc-after")
	}
	return strings.Join(lines, "\n") + "\n", dl, dc, shape
}

func c19Check(cs c19Case) (viol *core.Violation, nontrivial bool, key string) {
	files := map[string][]byte{"doc.yml": []byte(cs.Doc)}
	switch cs.Kind {
	case "strict-vs-relaxed":
		fs, p1 := c19Parse(cs.Doc, true)
		fr, p2 := c19Parse(cs.Doc, false)
		if p1 != "" || p2 != "" {
			return &core.Violation{Sig: "parser-panic", What: "parser panicked: " + p1 + p2, Case: cs, Files: files}, false, ""
		}
		if fs.Error.Err != nil {
			return nil, false, "" // not strict-valid: outside the statement
		}
		for _, g := range fs.Groups {
			if g.Error.Err != nil {
				return nil, false, ""
			}
		}
		a, b := flatten(fs, 0, 0, cs.Doc), flatten(fr, 0, 0, cs.Doc)
		for _, r := range a {
			if r.Err != "" {
				return nil, false, ""
			}
		}
		if d := diffFlat(a, b); d != "" {
			return &core.Violation{Sig: "strict-relaxed-differ:" + strings.SplitN(d, ":", 2)[0], What: "strict and relaxed mode disagree on a strict-valid file: " + d, Case: cs, Files: files}, true, ""
		}
		return nil, len(a) >= 2, fmt.Sprintf("strict-vs-relaxed rules=%d", min(len(a), 6))
	default:
		files["wrapped.yml"] = []byte(cs.Wrapped)
		f0, p1 := c19Parse(cs.Doc, false)
		fw, p2 := c19Parse(cs.Wrapped, false)
		if p1 != "" || p2 != "" {
			return &core.Violation{Sig: "parser-panic", What: "parser panicked: " + p1 + p2, Case: cs, Files: files}, false, ""
		}
		a, b := flatten(f0, cs.DLine, cs.DCol, cs.Doc), flatten(fw, 0, 0, cs.Wrapped)
		if len(a) == 0 {
			return nil, false, ""
		}
		if cs.Second != "" {
			f2, p3 := c19Parse(cs.Second, false)
			if p3 != "" {
				return &core.Violation{Sig: "parser-panic", What: "parser panicked: " + p3, Case: cs, Files: files}, false, ""
			}
			a = append(a, flatten(f2, cs.SecondLine, cs.SecondCol, cs.Second)...)
		}
		if d := diffFlat(a, b); d != "" {
			hasSeq := false
			for _, s := range cs.Shape {
				if strings.HasPrefix(s, "seq") {
					hasSeq = true
				}
			}
			where := "mapping-wrapper"
			if hasSeq {
				where = "sequence-wrapper"
			}
			return &core.Violation{Sig: "wrapper-changes-rules:" + where + ":" + strings.SplitN(d, ":", 2)[0], What: fmt.Sprintf("relaxed mode finds different rules once the list is wrapped (%v, displacement %d lines %d columns): %s", cs.Shape, cs.DLine, cs.DCol, d), Case: cs, Files: files}, true, ""
		}
		var kinds []string
		for _, s := range cs.Shape {
			kinds = append(kinds, strings.SplitN(s, "(", 2)[0])
		}
		return nil, len(cs.Shape) >= 1 && len(a) >= 2, "wrapper " + strings.Join(kinds, ">")
	}
}

func runC19(c *core.Ctx) int {
	run := core.NewRun(c)
	if c.Replay != "" {
		var cs c19Case
		if err := core.LoadCase(c.Replay, &cs); err != nil {
			fmt.Println("cannot load case:", err)
			return core.ExitInconclusive
		}
		v, _, _ := c19Check(cs)
		if v != nil {
			fmt.Println("REPLAY violated:", v.Sig, v.What)
			return 1
		}
		fmt.Println("REPLAY held")
		return 0
	}
	n := c.N(40000, 600000)
	core.Parallel(n, 16, func(i int) {
		r := c.Rand("c19", i)
		o := gen.DefaultGenOpts()
		// blank lines inside folded scalars, explicit indentation indicators and escape sequences have position
		// defects of their own (C06 known findings) that change with indentation; they are left to C06
		o.BlankInside = false
		o.IndentInd = false
		o.CRLF = false
		var cs c19Case
		if i%2 == 0 {
			d := gen.RandDoc(r, o)
			d.NoFinalNL = false
			cs = c19Case{Kind: "strict-vs-relaxed", Doc: d.Render().Text}
		} else {
			d := gen.RandDoc(r, o)
			d.NoFinalNL = false
			d.Header = nil
			if r.Intn(2) == 0 {
				d.BareRules = true
			}
			text := d.Render().Text
			levels := r.Intn(5)
			w, dl, dc, shape := c19Wrap(r, text, levels, true)
			cs = c19Case{Kind: "wrapper", Doc: text, Wrapped: w, DLine: dl, DCol: dc, Shape: shape}
			// a second rule list under a sibling key at the end of the (single-document) wrapped file
			if r.Intn(4) == 0 && !strings.Contains(strings.Join(shape, ","), "doc-after") && (levels >= 1 || !d.BareRules) {
				d2 := gen.RandDoc(r, o)
				d2.NoFinalNL, d2.Header, d2.BareRules = false, nil, true
				for gi := range d2.Groups {
					for ri := range d2.Groups[gi].Rules {
						for fi := range d2.Groups[gi].Rules[ri].Fields {
							f := &d2.Groups[gi].Rules[ri].Fields[fi]
							if (f.Key == "alert" || f.Key == "record") && f.Val != nil {
								f.Val.Lines[0] = "second_" + f.Val.Lines[0]
								f.Val.Style = gen.Double
							}
						}
					}
				}
				t2 := d2.Render().Text
				ind2 := 1 + r.Intn(3)
				wl := strings.Split(strings.TrimSuffix(w, "\n"), "\n")
				cs.SecondLine = len(wl) + 1
				cs.SecondCol = ind2
				wl = append(wl, "more_rules:")
				for _, l := range strings.Split(strings.TrimSuffix(t2, "\n"), "\n") {
					if l == "" {
						wl = append(wl, "")
					} else {
						wl = append(wl, strings.Repeat(" ", ind2)+l)
					}
				}
				cs.Wrapped = strings.Join(wl, "\n") + "\n"
				cs.Second = t2
				cs.Shape = append(cs.Shape, "second-list")
			}
		}
		v, nt, key := c19Check(cs)
		run.Eval(1)
		if v != nil {
			run.Violate(*v)
		}
		if nt && key != "" {
			run.Nontrivial(key)
		}
		if i%(n/6+1) == 0 {
			run.Sample(map[string]any{"kind": cs.Kind, "shape": cs.Shape, "doc": core.Trunc(cs.Doc, 300)})
		}
	})
	run.Assume("strict-valid = strict mode reports no file, group or rule error; wrappers use parent keys never named `groups`; documents come from the all-style generator (plain, quoted, literal, folded, flow maps, comments)")
	return run.Finish("exploration",
		"(a) strict-valid generated documents over all scalar styles parsed in strict and relaxed mode: flattened rule lists must agree on count, type, name, expression, line range and every position; (b) the same rule lists (as a groups tree or as a bare list) wrapped under 0-4 levels of parent mappings / sequence items with sibling keys before and after and extra YAML documents: relaxed(wrapped) must equal relaxed(unwrapped) displaced by the wrapper's lines and columns. Non-trivial = >=2 rules (and >=1 wrapper level); distinct by wrapper shape / rule count.",
		core.Floors{MinEvaluations: int64(n), MinNontrivial: 10})
}
