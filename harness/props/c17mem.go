package props

import (
	"context"
	"strings"
	"sync"

	"github.com/cloudflare/pint/internal/reporter"
)

// c17Comment is a comment as the store holds it.
type c17Comment struct {
	ID      int    `json:"id"`
	Path    string `json:"path"` // "" = general comment without a position
	Line    int    `json:"line"`
	Text    string `json:"text"`
	Foreign bool   `json:"foreign,omitempty"` // written by somebody else than pint's account
}

// c17Backend is a comment store pint reports to.
type c17Backend interface {
	Commenter() reporter.Commenter
	NumDests() int
	Snapshot(dest int) []c17Comment
	// Visible tells whether pint is expected to be shown this comment by List.
	Visible(cm c17Comment) bool
	Add(dest int, cm c17Comment)
	Remove(dest int, id int)
	// IsEqual / CanDelete are the real predicates of the platform (pint's code).
	IsEqual(dst any, existing reporter.ExistingComment, pending reporter.PendingComment) bool
	CanDelete(existing reporter.ExistingComment) bool
	// PlaceLine is the line at which the platform's IsEqual recognises pending; ok=false when there is none.
	PlaceLine(dst any, pending reporter.PendingComment) (int, bool)
	// Dst returns a destination value usable with IsEqual before any round ran.
	Dst(dest int) any
	Errors() []string
	Close()
}

// c17PlaceLine searches the line at which a comment created from p is recognised by isEqual.
func c17PlaceLine(isEqual func(any, reporter.ExistingComment, reporter.PendingComment) bool, dst any, p reporter.PendingComment) (int, bool) {
	path, text, line, _ := reporter.VerifPendingFields(p)
	if isEqual(dst, reporter.VerifNewExisting(nil, path, text, line), p) {
		return line, true
	}
	for l := 0; l <= c17FileLines+60; l++ {
		if isEqual(dst, reporter.VerifNewExisting(nil, path, text, l), p) {
			return l, true
		}
	}
	return line, false
}

// ---------------------------------------------------------------------------
// in-memory store

type c17MemDst struct{ Idx int }

type c17Mem struct {
	mu       sync.Mutex
	platform string
	gl       reporter.GitLabReporter
	gh       reporter.GithubReporter
	dsts     []any
	stores   [][]c17Comment
	nextID   int
	errs     []string
}

func c17NewMem(cs c17Case) *c17Mem {
	m := &c17Mem{platform: cs.Platform, nextID: 1}
	if cs.Platform == "github" {
		m.gh = reporter.VerifGithubReporter(cs.Budget)
		files := map[string]string{}
		for f, ops := range cs.Ops {
			if ops != "" {
				files[c17Files[f]] = c17Unified(f, ops)
			}
		}
		m.dsts = []any{reporter.VerifGithubDestination(files)}
		m.stores = make([][]c17Comment, 1)
	} else {
		m.gl = reporter.VerifGitLabReporter(cs.Budget)
		for i := 0; i < max(1, cs.Dests); i++ {
			m.dsts = append(m.dsts, c17MemDst{Idx: i})
		}
		m.stores = make([][]c17Comment, len(m.dsts))
	}
	return m
}

func (m *c17Mem) idx(dst any) int {
	if d, ok := dst.(c17MemDst); ok {
		return d.Idx
	}
	return 0
}

func (m *c17Mem) Commenter() reporter.Commenter { return m }
func (m *c17Mem) NumDests() int                 { return len(m.dsts) }
func (m *c17Mem) Dst(dest int) any              { return m.dsts[dest] }
func (m *c17Mem) Close()                        {}
func (m *c17Mem) Errors() []string              { return m.errs }

func (m *c17Mem) Snapshot(dest int) []c17Comment {
	m.mu.Lock()
	defer m.mu.Unlock()
	return append([]c17Comment{}, m.stores[dest]...)
}

// Visible: the GitLab reporter only lists discussions of its own account that
// have a position, the GitHub reporter lists every review comment with a path.
func (m *c17Mem) Visible(cm c17Comment) bool {
	if cm.Path == "" {
		return false
	}
	if m.platform == "gitlab" && cm.Foreign {
		return false
	}
	return true
}

func (m *c17Mem) Add(dest int, cm c17Comment) {
	m.mu.Lock()
	defer m.mu.Unlock()
	cm.ID = m.nextID
	m.nextID++
	m.stores[dest] = append(m.stores[dest], cm)
}

func (m *c17Mem) Remove(dest int, id int) {
	m.mu.Lock()
	defer m.mu.Unlock()
	for i, cm := range m.stores[dest] {
		if cm.ID == id {
			m.stores[dest] = append(append([]c17Comment{}, m.stores[dest][:i]...), m.stores[dest][i+1:]...)
			return
		}
	}
	m.errs = append(m.errs, "delete of a comment that is not in the store")
}

func (m *c17Mem) IsEqual(dst any, e reporter.ExistingComment, p reporter.PendingComment) bool {
	if m.platform == "github" {
		return m.gh.IsEqual(dst, e, p)
	}
	return m.gl.IsEqual(dst, e, p)
}

func (m *c17Mem) CanDelete(e reporter.ExistingComment) bool {
	if m.platform == "github" {
		return m.gh.CanDelete(e)
	}
	return m.gl.CanDelete(e)
}

func (m *c17Mem) CanCreate(n int) bool {
	if m.platform == "github" {
		return m.gh.CanCreate(n)
	}
	return m.gl.CanCreate(n)
}

func (m *c17Mem) PlaceLine(dst any, p reporter.PendingComment) (int, bool) {
	return c17PlaceLine(m.IsEqual, dst, p)
}

func (m *c17Mem) Describe() string { return "verif-mem-" + m.platform }

func (m *c17Mem) Destinations(context.Context) ([]any, error) { return m.dsts, nil }

func (m *c17Mem) Summary(context.Context, any, reporter.Summary, []error) error { return nil }

func (m *c17Mem) List(_ context.Context, dst any) ([]reporter.ExistingComment, error) {
	m.mu.Lock()
	defer m.mu.Unlock()
	var out []reporter.ExistingComment
	for _, cm := range m.stores[m.idx(dst)] {
		if m.Visible(cm) {
			out = append(out, reporter.VerifNewExisting(cm.ID, cm.Path, cm.Text, cm.Line))
		}
	}
	return out, nil
}

func (m *c17Mem) Create(_ context.Context, dst any, p reporter.PendingComment) error {
	path, text, _, _ := reporter.VerifPendingFields(p)
	line, ok := m.PlaceLine(dst, p)
	if !ok {
		m.mu.Lock()
		m.errs = append(m.errs, "unplaceable")
		m.mu.Unlock()
	}
	m.Add(m.idx(dst), c17Comment{Path: path, Line: line, Text: text})
	return nil
}

func (m *c17Mem) Delete(_ context.Context, dst any, e reporter.ExistingComment) error {
	meta, _, _, _ := reporter.VerifExistingFields(e)
	id, _ := meta.(int)
	m.Remove(m.idx(dst), id)
	return nil
}

// ---------------------------------------------------------------------------
// spy: records what pint asked of the Commenter, forwards everything

type c17SpyDest struct {
	dst          any
	listed       []reporter.ExistingComment
	lists        int
	createCalls  []reporter.PendingComment
	deleteCalls  []reporter.ExistingComment
	deleteDenied int // Delete called although the platform's CanDelete says no
	canCreateNo  int
	canCreateYes int
	summaries    int
}

type c17Spy struct {
	inner reporter.Commenter
	be    c17Backend
	mu    sync.Mutex
	dests []*c17SpyDest
	cur   *c17SpyDest
	errs  []string
}

func (s *c17Spy) reset() {
	s.mu.Lock()
	s.dests, s.cur = nil, nil
	s.mu.Unlock()
}

func (s *c17Spy) Describe() string { return s.inner.Describe() }

func (s *c17Spy) Destinations(ctx context.Context) ([]any, error) {
	return s.inner.Destinations(ctx)
}

func (s *c17Spy) List(ctx context.Context, dst any) ([]reporter.ExistingComment, error) {
	l, err := s.inner.List(ctx, dst)
	s.mu.Lock()
	s.cur = &c17SpyDest{dst: dst, listed: append([]reporter.ExistingComment{}, l...), lists: 1}
	s.dests = append(s.dests, s.cur)
	s.mu.Unlock()
	return l, err
}

func (s *c17Spy) Create(ctx context.Context, dst any, p reporter.PendingComment) error {
	s.mu.Lock()
	if s.cur != nil {
		s.cur.createCalls = append(s.cur.createCalls, p)
	}
	s.mu.Unlock()
	return s.inner.Create(ctx, dst, p)
}

func (s *c17Spy) Delete(ctx context.Context, dst any, e reporter.ExistingComment) error {
	s.mu.Lock()
	if s.cur != nil {
		s.cur.deleteCalls = append(s.cur.deleteCalls, e)
		if !s.be.CanDelete(e) {
			s.cur.deleteDenied++
		}
	}
	s.mu.Unlock()
	return s.inner.Delete(ctx, dst, e)
}

func (s *c17Spy) CanCreate(n int) bool {
	ok := s.inner.CanCreate(n)
	s.mu.Lock()
	if s.cur != nil {
		if ok {
			s.cur.canCreateYes++
		} else {
			s.cur.canCreateNo++
		}
	}
	s.mu.Unlock()
	return ok
}

func (s *c17Spy) CanDelete(e reporter.ExistingComment) bool { return s.inner.CanDelete(e) }

func (s *c17Spy) IsEqual(dst any, e reporter.ExistingComment, p reporter.PendingComment) bool {
	return s.inner.IsEqual(dst, e, p)
}

func (s *c17Spy) Summary(ctx context.Context, dst any, sum reporter.Summary, errs []error) error {
	s.mu.Lock()
	if s.cur != nil {
		s.cur.summaries++
	}
	for _, e := range errs {
		s.errs = append(s.errs, e.Error())
	}
	s.mu.Unlock()
	return s.inner.Summary(ctx, dst, sum, errs)
}

func c17Trim(s string) string { return strings.Trim(s, "\n") }
