package props

// C03 - `pint ci` classifies every rule at HEAD as added / modified / renamed /
// unmodified in agreement with a direct comparison of base and HEAD content.
//
// Each case is a generated history (main + pr branch, optionally main advancing
// afterwards) built with the real git. The reference classification is computed
// from the generator's own model of every file at every commit and from what git
// itself reports as renames per branch commit; it never looks at pint. The
// observation is the real `pint ci` binary run inside the scratch repository:
// Entry.State / ModifiedLines of every entry and the dispatched checks (H1 dump)
// and the stock --json report under a config with one marker check per state
// plus one block without `match` (default "changed rules only" selection).

import (
	"fmt"
	"os"
	"path/filepath"
	"regexp"
	"sort"
	"strings"
	"time"

	"github.com/cloudflare/pint/verif/core"
	"github.com/cloudflare/pint/verif/gitrepo"
)

func init() { Registry["C03"] = runC03 }

var c03States = []string{"added", "modified", "renamed", "unmodified"}

func c03Config() string {
	var b strings.Builder
	b.WriteString("ci {\n  baseBranch = \"main\"\n  maxCommits = 100\n}\n")
	for _, s := range c03States {
		fmt.Fprintf(&b, "rule {\n  match {\n    state = [\"%s\"]\n  }\n  name \"zz_%s\" {\n    severity = \"info\"\n    comment  = \"STATE=%s\"\n  }\n}\n", s, s, s)
	}
	b.WriteString("rule {\n  name \"zz_default\" {\n    severity = \"info\"\n    comment  = \"STATE=default\"\n  }\n}\n")
	return b.String()
}

type c03Status struct {
	St  byte   `json:"st"`
	Src string `json:"src"`
	Dst string `json:"dst"`
}

// c03Origin: which base file(s) a path at some commit may be compared with.
type c03Origin struct {
	cands []string // base paths; "" = no base version (file is new)
	chain []string // statuses along the way
}

func (o *c03Origin) with(st string) *c03Origin {
	n := &c03Origin{cands: append([]string(nil), o.cands...), chain: append([]string(nil), o.chain...)}
	if st != "M" || len(n.chain) == 0 || n.chain[len(n.chain)-1] != st {
		n.chain = append(n.chain, st)
	}
	return n
}

func (o *c03Origin) addCand(c string) {
	for _, x := range o.cands {
		if x == c {
			return
		}
	}
	o.cands = append(o.cands, c)
}

// c03Origins follows files through the branch using git's own per-commit
// name-status (renames as git reports them). A path that is deleted and later
// re-created on the branch is the same file. Where "the base version of the
// file" is arguable, every defensible candidate is kept:
//   - a rename onto a path that existed at the branch point (and was removed
//     from it earlier on the branch): the rename source's origin, or that path;
//   - a new file at a path that was renamed away earlier: no base version, or
//     the base version of that path;
//   - a re-created file whose deleted predecessor had arrived by rename: the
//     predecessor's origin, or no base version.
//
// A rename onto a path that was deleted earlier on the branch is additionally
// tagged ("onto-deleted-path"): it is a shape of its own in the signatures.
func c03Origins(base c03Snap, statuses [][]c03Status) map[string]*c03Origin {
	origin := map[string]*c03Origin{}
	for p := range base {
		origin[p] = &c03Origin{cands: []string{p}}
	}
	deleted := map[string]*c03Origin{}
	for _, sts := range statuses {
		next := map[string]*c03Origin{}
		for p, o := range origin {
			next[p] = o
		}
		for _, st := range sts {
			switch st.St {
			case 'M', 'T':
				if o, ok := origin[st.Dst]; ok {
					next[st.Dst] = o.with("M")
				}
			case 'D':
				if o, ok := origin[st.Src]; ok {
					deleted[st.Src] = o.with("D")
				}
				delete(next, st.Src)
			case 'R':
				delete(next, st.Src)
			}
		}
		for _, st := range sts {
			switch st.St {
			case 'R':
				o, ok := origin[st.Src]
				if !ok {
					o = &c03Origin{cands: []string{""}}
				}
				o = o.with("R")
				if _, ok := deleted[st.Dst]; ok {
					o.chain = append(o.chain, "onto-deleted-path")
				}
				if _, ok := base[st.Dst]; ok {
					o.addCand(st.Dst)
					o.chain = append(o.chain, "onto-base-path")
				}
				next[st.Dst] = o
				delete(deleted, st.Dst)
			case 'A', 'C':
				if o, ok := deleted[st.Dst]; ok {
					o = o.with("A")
					if !(len(o.cands) == 1 && o.cands[0] == st.Dst) {
						o.addCand("")
					}
					next[st.Dst] = o
					delete(deleted, st.Dst)
				} else if _, ok := base[st.Dst]; ok {
					next[st.Dst] = &c03Origin{cands: []string{"", st.Dst}, chain: []string{"A", "at-base-path"}}
				} else {
					next[st.Dst] = &c03Origin{cands: []string{""}, chain: []string{"A"}}
				}
			}
		}
		origin = next
	}
	return origin
}

func c03SortedKVs(kvs []c03KV) string {
	var out []string
	for _, kv := range kvs {
		out = append(out, kv.K+"="+kv.V)
	}
	sort.Strings(out)
	return strings.Join(out, "\x01")
}

// c03FileDisabled: effective set of checks switched off by file-level comments.
func c03FileDisabled(f *c03File) string {
	set := map[string]bool{}
	for _, c := range f.FilePint {
		fs := strings.Fields(c.Val)
		set[fs[len(fs)-1]] = true
	}
	var out []string
	for k := range set {
		out = append(out, k)
	}
	sort.Strings(out)
	return strings.Join(out, ",")
}

// c03Key: the rule content the statement compares.
func c03Key(r c03Rule, f *c03File) string {
	var pc []string
	for _, c := range r.Pint {
		pc = append(pc, c.Kind+" "+c.Val)
	}
	sort.Strings(pc)
	return strings.Join([]string{r.Kind, r.Name, r.Expr, r.For, r.KFF, c03SortedKVs(r.Labels), c03SortedKVs(r.Annotations), strings.Join(pc, "\x01"), c03FileDisabled(f)}, "\x00")
}

// c03FileCommentsDiff: how the file-level control comments of two versions relate.
func c03FileCommentsDiff(a, b *c03File) string {
	var x, y []string
	for _, c := range a.FilePint {
		x = append(x, c.text())
	}
	for _, c := range b.FilePint {
		y = append(y, c.text())
	}
	if strings.Join(x, "\n") == strings.Join(y, "\n") {
		return "same"
	}
	sort.Strings(x)
	sort.Strings(y)
	if strings.Join(x, "\n") == strings.Join(y, "\n") {
		return "reordered"
	}
	return "reworded-same-effect"
}

// c03RuleDiff names the content fields in which two rules of the same kind and name differ.
func c03RuleDiff(a c03Rule, af *c03File, b c03Rule, bf *c03File) string {
	var d []string
	if a.Expr != b.Expr {
		d = append(d, "expr")
	}
	if a.For != b.For {
		d = append(d, "for")
	}
	if a.KFF != b.KFF {
		d = append(d, "keep_firing_for")
	}
	if c03SortedKVs(a.Labels) != c03SortedKVs(b.Labels) {
		d = append(d, "labels")
	}
	if c03SortedKVs(a.Annotations) != c03SortedKVs(b.Annotations) {
		d = append(d, "annotations")
	}
	vals := func(r c03Rule) (v, kv string) {
		var vs, kvs []string
		for _, c := range r.Pint {
			vs = append(vs, c.Val)
			kvs = append(kvs, c.Kind+" "+c.Val)
		}
		sort.Strings(vs)
		sort.Strings(kvs)
		return strings.Join(vs, "\x01"), strings.Join(kvs, "\x01")
	}
	av, akv := vals(a)
	bv, bkv := vals(b)
	switch {
	case av != bv:
		d = append(d, "control-comments")
	case akv != bkv:
		d = append(d, "control-comment-kind-only")
	}
	if c03FileDisabled(af) != c03FileDisabled(bf) {
		d = append(d, "file-disabled-checks")
	}
	return strings.Join(d, "+")
}

type c03Want struct {
	Path   string   `json:"path"`
	Ord    int      `json:"ord"`
	Kind   string   `json:"kind"`
	Name   string   `json:"name"`
	Accept []string `json:"accept"`
	Why    string   `json:"why"`
	Chain  string   `json:"chain"`
	Detail string   `json:"detail"`
	// identical copies (set when the rule's content occurs more than once in the HEAD file or
	// in the base version of the file): the group the rule belongs to and how many copies of
	// that content the base version and the HEAD version hold
	DupGroup  string `json:"dup_group,omitempty"`
	DupBase   int    `json:"dup_base,omitempty"`
	DupHead   int    `json:"dup_head,omitempty"`
	DupSame   bool   `json:"dup_same_path,omitempty"`
	DupCounts bool   `json:"dup_counts,omitempty"` // the group is judged by counting (one base version, known history)
	DupSkip   string `json:"dup_skip,omitempty"`   // why it is not
}

func c03AddSet(set map[string]bool, xs ...string) {
	for _, x := range xs {
		set[x] = true
	}
}

// c03Reference classifies every rule of the HEAD snapshot.
func c03Reference(base, head c03Snap, origins map[string]*c03Origin) []c03Want {
	var out []c03Want
	for _, p := range head.paths() {
		f := head[p]
		rules := f.allRules()
		o := origins[p]
		if o == nil {
			// git reported nothing for this path: it must be the untouched base file
			o = &c03Origin{cands: []string{p}, chain: []string{"untouched"}}
		}
		headKeys := map[string]int{}
		headNames := map[string]int{}
		for _, r := range rules {
			headKeys[c03Key(r, f)]++
			headNames[r.Kind+"\x00"+r.Name]++
		}
		for i, r := range rules {
			accept := map[string]bool{}
			var whys, details []string
			dupHead, dupBase, dupSame := 0, 0, false
			key := c03Key(r, f)
			nk := r.Kind + "\x00" + r.Name
			for _, cand := range o.cands {
				if cand == "" {
					c03AddSet(accept, "added")
					whys = append(whys, "no-base-file")
					continue
				}
				b, ok := base[cand]
				if !ok {
					c03AddSet(accept, "added")
					whys = append(whys, "no-base-file")
					continue
				}
				bKeys := map[string]int{}
				bNames := map[string]int{}
				for _, br := range b.allRules() {
					bKeys[c03Key(br, b)]++
					bNames[br.Kind+"\x00"+br.Name]++
				}
				same := cand == p
				switch {
				case headKeys[key] > 1 || bKeys[key] > 1:
					// identical copies: pairing is one to one, see c03DupAccept
					w, d := c03DupAccept(accept, headKeys[key], bKeys[key], same, o)
					whys = append(whys, w)
					if d != "" {
						details = append(details, d)
					}
					dupHead, dupBase, dupSame = headKeys[key], bKeys[key], same
				case bKeys[key] == 1:
					details = append(details, "file-comments-"+c03FileCommentsDiff(b, f))
					if same {
						c03AddSet(accept, "unmodified")
					} else {
						c03AddSet(accept, "renamed")
					}
					if headNames[nk] > 1 || bNames[nk] > 1 {
						whys = append(whys, "identical+duplicate-name")
					} else {
						whys = append(whys, "identical")
					}
				case headNames[nk] > 1 || bNames[nk] > 1:
					c03AddSet(accept, "added", "modified")
					if !same {
						c03AddSet(accept, "renamed")
					}
					whys = append(whys, "duplicate-name")
				case bNames[nk] == 1:
					for _, br := range b.allRules() {
						if br.Kind == r.Kind && br.Name == r.Name {
							details = append(details, "diff="+c03RuleDiff(br, b, r, f))
						}
					}
					c03AddSet(accept, "modified")
					if !same {
						c03AddSet(accept, "renamed")
					}
					whys = append(whys, "same-name")
				default:
					c03AddSet(accept, "added")
					whys = append(whys, "no-match")
				}
			}
			var acc []string
			for _, s := range c03States {
				if accept[s] {
					acc = append(acc, s)
				}
			}
			chain := strings.Join(o.chain, ">")
			if chain == "" {
				chain = "untouched"
			}
			w := c03Want{Path: p, Ord: i, Kind: r.Kind, Name: r.Name, Accept: acc, Why: strings.Join(uniq(whys), "|"), Chain: chain, Detail: strings.Join(uniq(details), "|")}
			if dupHead > 0 {
				w.DupGroup = fmt.Sprintf("%s#%x", p, c03Hash(key))
				w.DupHead, w.DupBase, w.DupSame = dupHead, dupBase, dupSame
				w.DupSkip = c03DupSkip(o)
				w.DupCounts = w.DupSkip == ""
			}
			out = append(out, w)
		}
	}
	return out
}

type c03Obs struct {
	proc     core.ProcResult
	dump     *core.Dump
	reports  []core.JSONReport
	jsonOK   bool
	cmdLine  string
	dumpText []byte
	jsonText []byte
}

func c03RunPint(c *core.Ctx, repo *gitrepo.Repo, outDir, tag string) c03Obs {
	cfg := filepath.Join(outDir, "pint.hcl")
	_ = os.WriteFile(cfg, []byte(c03Config()), 0o644)
	j := filepath.Join(outDir, "report-"+tag+".json")
	d := filepath.Join(outDir, "dump-"+tag+".jsonl")
	_ = os.Remove(j)
	_ = os.Remove(d)
	args := []string{"-c", cfg, "-l", "error", "--no-color", "--offline", "ci", "--json", j}
	env := append(repo.Env(), "PINT_VERIF_DUMP="+d)
	o := c03Obs{cmdLine: "pint " + strings.Join(args, " ")}
	o.proc = core.RunProc(c.Pint, args, core.ProcOpts{Dir: repo.Dir, Env: env, Timeout: 60 * time.Second})
	o.dump, _ = core.ReadDump(d)
	o.dumpText, _ = os.ReadFile(d)
	if b, err := os.ReadFile(j); err == nil {
		o.jsonText = b
		if reps, err := core.ReadJSONReports(j); err == nil {
			o.reports = reps
			o.jsonOK = true
		}
	}
	return o
}

func c03ParseStatus(out string) []c03Status {
	var sts []c03Status
	for _, line := range strings.Split(out, "\n") {
		parts := strings.Split(line, "\t")
		if len(parts) < 2 || parts[0] == "" {
			continue
		}
		sts = append(sts, c03Status{St: parts[0][0], Src: parts[1], Dst: parts[len(parts)-1]})
	}
	return sts
}

type c03Problem struct {
	sig  string
	what string
}

type c03Outcome struct {
	problems  []c03Problem
	inconc    string
	wants     []c03Want
	statuses  [][]c03Status
	got       map[string]string // path#ord -> pint state (first run)
	files     map[string][]byte
	pintRuns  int
	freshLine int
	markers   int
	intended  int // renames the generator intended
	dup       c03DupStats
}

var c03HexRe = regexp.MustCompile(`[0-9a-f]{7,40}`)

func c03MapState(s string) string {
	switch s {
	case "noop":
		return "unmodified"
	case "moved":
		return "renamed"
	}
	return s
}

func c03TypeOf(kind string) string {
	if kind == "record" {
		return "recording"
	}
	return "alerting"
}

func c03KVsOf(d []core.DKV) string {
	var kvs []c03KV
	for _, kv := range d {
		kvs = append(kvs, c03KV{kv.Key.Value, kv.Value.Value})
	}
	return c03SortedKVs(kvs)
}

// c03Judge compares one pint run with the reference.
func c03Judge(obs c03Obs, head, base c03Snap, wants []c03Want, phase string, out *c03Outcome) (problems []c03Problem) {
	add := func(sig, what string) {
		problems = append(problems, c03Problem{sig, phase + ": " + what})
	}
	if obs.proc.TimedOut {
		out.inconc = "pint ci timed out"
		return nil
	}
	if obs.proc.Crash != "" {
		add("ci-crash:"+obs.proc.CrashSig, "pint ci crashed: "+obs.proc.Crash+" in "+obs.proc.CrashSig)
		return problems
	}
	if obs.dump == nil || len(obs.dump.Entries) == 0 || !obs.jsonOK {
		msg := fmt.Sprintf("exit %d without a report", obs.proc.Exit)
		for _, l := range strings.Split(obs.proc.Stderr, "\n") {
			if strings.Contains(l, "level=ERROR") || strings.Contains(l, "level=FATAL") {
				msg = l
			}
		}
		cls := msg
		if i := strings.Index(cls, "err="); i >= 0 {
			cls = cls[i+4:]
		}
		cls = c03HexRe.ReplaceAllString(cls, "<sha>")
		cls = regexp.MustCompile(`rules/[A-Za-z0-9_/.]+`).ReplaceAllString(cls, "<path>")
		cls = strings.Join(strings.Fields(strings.NewReplacer("\"", "", "\\n", " ").Replace(cls)), "_")
		add("ci-error:"+core.Trunc(cls, 80), fmt.Sprintf("pint ci produced no classification for a valid history (exit %d): %s", obs.proc.Exit, core.Trunc(msg, 300)))
		return problems
	}
	// base lines (for the fresh-line monitor)
	baseLines := map[string]bool{}
	for _, f := range base {
		for _, l := range strings.Split(f.Render(), "\n") {
			baseLines[l] = true
		}
	}
	byPath := map[string][]core.DEntry{}
	for _, e := range obs.dump.Entries {
		if e.PathError != "" {
			out.inconc = "generated file does not parse: " + e.Path + ": " + e.PathError
			return nil
		}
		if e.Rule.Err != "" {
			out.inconc = "generated rule does not parse: " + e.Path + ": " + e.Rule.Err
			return nil
		}
		if e.State == "removed" {
			continue
		}
		byPath[e.Path] = append(byPath[e.Path], e)
	}
	for p := range byPath {
		es := byPath[p]
		sort.SliceStable(es, func(i, j int) bool { return es[i].Rule.First < es[j].Rule.First })
		byPath[p] = es
		if _, ok := head[p]; !ok {
			var sts []string
			for _, e := range es {
				sts = append(sts, e.State)
			}
			add("extra-entry:path-not-at-head:states="+strings.Join(uniq(sts), "+"),
				fmt.Sprintf("pint lists %d live rule entries (states %v) for %s which does not exist at HEAD", len(es), sts, p))
		}
	}
	// marker reports and dispatches per (path, rule first line)
	type rk struct {
		path  string
		first int
	}
	markers := map[rk]map[string]bool{}
	for _, r := range obs.reports {
		if r.Reporter != "rule/name" || !strings.HasPrefix(r.Details, "Rule comment: STATE=") || len(r.Lines) == 0 {
			continue
		}
		m := strings.TrimPrefix(r.Details, "Rule comment: STATE=")
		placed := false
		for _, e := range byPath[r.Path] {
			if r.Lines[0] >= e.Rule.First && r.Lines[0] <= e.Rule.Last {
				k := rk{r.Path, e.Rule.First}
				if markers[k] == nil {
					markers[k] = map[string]bool{}
				}
				markers[k][m] = true
				placed = true
				out.markers++
				break
			}
		}
		if !placed {
			add("marker-outside-any-rule:"+m, fmt.Sprintf("marker report %s at %s:%v does not fall inside any live entry", m, r.Path, r.Lines))
		}
	}
	syntax := map[rk]bool{}
	for _, d := range obs.dump.Dispatch {
		if d.Check == "promql/syntax" {
			syntax[rk{d.Path, d.First}] = true
		}
	}
	wantsByPath := map[string][]c03Want{}
	for _, w := range wants {
		wantsByPath[w.Path] = append(wantsByPath[w.Path], w)
	}
	for _, p := range head.paths() {
		f := head[p]
		rules := f.allRules()
		es := byPath[p]
		ws := wantsByPath[p]
		if len(es) != len(rules) {
			kind := "missing-entry"
			if len(es) > len(rules) {
				kind = "extra-entry:path-at-head"
			}
			chain := ""
			if len(ws) > 0 {
				chain = ws[0].Chain
			}
			add(kind+":history="+c03ChainClass(chain), fmt.Sprintf("%s has %d rules at HEAD but pint lists %d live entries for it", p, len(rules), len(es)))
			continue
		}
		text := strings.Split(f.Render(), "\n")
		states := make([]string, len(rules))
		for i := range rules {
			states[i] = c03MapState(es[i].State)
		}
		for _, dp := range c03JudgeCopies(ws, states, phase == "branch", &out.dup) {
			add(dp.sig, p+": "+dp.what)
		}
		for i, r := range rules {
			e := es[i]
			w := ws[i]
			// self-check of the generator: what pint parsed must be what the model says
			if e.Rule.Name != r.Name || e.Rule.Type != c03TypeOf(r.Kind) || e.Rule.Expr == nil || e.Rule.Expr.Value != r.Expr ||
				c03KVsOf(e.Rule.Labels) != c03SortedKVs(r.Labels) || c03KVsOf(e.Rule.Annotations) != c03SortedKVs(r.Annotations) ||
				len(e.Rule.Comments) != len(r.Pint) ||
				(r.For == "") != (e.Rule.For == nil) || (e.Rule.For != nil && e.Rule.For.Value != r.For) ||
				(r.KFF == "") != (e.Rule.KeepFiringFor == nil) || (e.Rule.KeepFiringFor != nil && e.Rule.KeepFiringFor.Value != r.KFF) {
				out.inconc = fmt.Sprintf("generator self-check failed: %s rule #%d model %s %q vs parsed %s %q (comments %d vs %d)", p, i, r.Kind, r.Name, e.Rule.Type, e.Rule.Name, len(r.Pint), len(e.Rule.Comments))
				return nil
			}
			got := c03MapState(e.State)
			if phase == "branch" {
				out.got[fmt.Sprintf("%s#%d", p, i)] = got
			}
			ok := false
			for _, a := range w.Accept {
				if a == got {
					ok = true
				}
			}
			if !ok {
				hist := c03ChainClass(w.Chain)
				if strings.Contains(w.Why, "duplicate-name") {
					hist = "any" // the shape is in the file content, not in the file's history
				}
				switch {
				case w.Detail == "file-comments-reordered" || w.Detail == "diff=control-comment-kind-only":
					hist = "any:" + w.Detail // the shape is in the comments, whatever happened to the file
				case w.Detail != "" && hist != "any" && hist != "renamed-onto-path-deleted-earlier-on-branch":
					hist += ":" + w.Detail
				}
				add(fmt.Sprintf("state:want=%s:got=%s:why=%s:history=%s", strings.Join(w.Accept, "|"), got, w.Why, hist),
					fmt.Sprintf("%s rule #%d %s %q: reference says %s (%s; file history %s), pint says %s", p, i, r.Kind, r.Name, strings.Join(w.Accept, " or "), w.Why, w.Chain, got))
				continue
			}
			k := rk{p, e.Rule.First}
			var ms []string
			hasDefault := false
			for m := range markers[k] {
				if m == "default" {
					hasDefault = true
				} else {
					ms = append(ms, m)
				}
			}
			sort.Strings(ms)
			if len(ms) != 1 || ms[0] != got {
				add(fmt.Sprintf("marker:state=%s:markers=%s", got, strings.Join(ms, "+")),
					fmt.Sprintf("%s rule %q has Entry.State %s but the state-matched marker checks that reported on it are %v", p, r.Name, got, ms))
			}
			changed := got != "unmodified"
			if hasDefault != changed {
				add(fmt.Sprintf("default-selection:state=%s:default-marker=%v", got, hasDefault),
					fmt.Sprintf("%s rule %q is %s but the check configured without `match` (changed rules only by default) ran=%v", p, r.Name, got, hasDefault))
			}
			if syntax[k] != changed {
				add(fmt.Sprintf("builtin-selection:state=%s:promql/syntax-dispatched=%v", got, syntax[k]),
					fmt.Sprintf("%s rule %q is %s but the built-in promql/syntax check dispatched=%v", p, r.Name, got, syntax[k]))
			}
			// fresh-line monitor: a line whose text exists in no file at the branch point was
			// written by a branch commit, so it has to be among the rule's modified lines
			if changed {
				ml := map[int]bool{}
				for _, l := range e.ModifiedLines {
					ml[l] = true
				}
				for ln := e.Rule.First; ln <= e.Rule.Last && ln-1 < len(text); ln++ {
					t := text[ln-1]
					if strings.TrimSpace(t) == "" || baseLines[t] {
						continue
					}
					out.freshLine++
					if !ml[ln] {
						add(fmt.Sprintf("modified-lines:fresh-line-missing:state=%s:history=%s", got, c03ChainClass(w.Chain)),
							fmt.Sprintf("%s rule %q (%s): line %d %q exists in no file at the branch point, yet it is not in Entry.ModifiedLines %v", p, r.Name, got, ln, t, e.ModifiedLines))
						break
					}
				}
			}
		}
	}
	return problems
}

// c03Check builds the history with the real git, runs pint ci (before and after
// main advances) and judges both runs against the reference.
func c03Check(c *core.Ctx, cs c03Case) c03Outcome {
	out := c03Outcome{got: map[string]string{}, files: map[string][]byte{}}
	root := filepath.Join(c.Scratch, fmt.Sprintf("c03-%d", caseSeq.Add(1)))
	defer os.RemoveAll(root)
	outDir := filepath.Join(root, "out")
	_ = os.MkdirAll(outDir, 0o755)
	dir := filepath.Join(root, "repo")
	_ = os.MkdirAll(dir, 0o755)
	repo := &gitrepo.Repo{Dir: dir}
	git := func(stdin string, args ...string) (string, error) {
		r := core.RunProc("git", args, core.ProcOpts{Dir: dir, Env: repo.Env(), Timeout: 60 * time.Second, Stdin: stdin})
		if r.Exit != 0 || r.TimedOut {
			return r.Stdout, fmt.Errorf("git %s: exit %d: %s", strings.Join(args, " "), r.Exit, core.Trunc(r.Stderr, 300))
		}
		return r.Stdout, nil
	}
	fail := func(err error) c03Outcome {
		out.inconc = "git: " + err.Error()
		return out
	}
	if _, err := git("", "init", "-q", "-b", "main", "."); err != nil {
		return fail(err)
	}
	if f, err := os.OpenFile(filepath.Join(dir, ".git", "config"), os.O_APPEND|os.O_WRONLY, 0o644); err == nil {
		_, _ = f.WriteString("[core]\n\tautocrlf = false\n[diff]\n\trenames = true\n")
		_ = f.Close()
	}
	// the whole history goes in through one `git fast-import`: main (base), pr (branch) and
	// main-next (what main becomes once it advances)
	var fi strings.Builder
	mark := 0
	stamp := int64(1577836800)
	commit := func(ref, msg string, from int, files c03Snap) int {
		mark++
		stamp += 60
		fmt.Fprintf(&fi, "commit %s\nmark :%d\ncommitter verif <verif@example.invalid> %d +0000\ndata %d\n%s\n", ref, mark, stamp, len(msg), msg)
		if from > 0 {
			fmt.Fprintf(&fi, "from :%d\n", from)
		}
		fi.WriteString("deleteall\n")
		for _, p := range files.paths() {
			data := files[p].Render()
			fmt.Fprintf(&fi, "M 100644 inline %s\ndata %d\n%s\n", p, len(data), data)
		}
		fi.WriteString("\n")
		return mark
	}
	last := 0
	var base, head c03Snap
	for _, cm := range cs.Base {
		last = commit("refs/heads/main", "main: "+strings.Join(cm.Ops, ", "), last, cm.Files)
		base = cm.Files
	}
	baseMark := last
	head = base
	for i, cm := range cs.Branch {
		last = commit("refs/heads/pr", fmt.Sprintf("pr %d: %s", i, strings.Join(cm.Ops, ", ")), last, cm.Files)
		head = cm.Files
		for _, op := range cm.Ops {
			if strings.HasPrefix(op, "rename-") || strings.HasPrefix(op, "swap-step") {
				out.intended++
			}
		}
	}
	last = baseMark
	for _, cm := range cs.Advance {
		last = commit("refs/heads/main-next", "main advances: "+strings.Join(cm.Ops, ", "), last, cm.Files)
	}
	if _, err := git(fi.String(), "fast-import", "--quiet"); err != nil {
		return fail(err)
	}
	if _, err := git("", "checkout", "-q", "-f", "pr"); err != nil {
		return fail(err)
	}
	// what git reports per branch commit (renames at git's default similarity)
	shas, err := git("", "rev-list", "--reverse", "main..pr")
	if err != nil {
		return fail(err)
	}
	shaList := strings.Fields(shas)
	if len(shaList) != len(cs.Branch) {
		return fail(fmt.Errorf("expected %d branch commits, git lists %d", len(cs.Branch), len(shaList)))
	}
	st, err := git(shas, "diff-tree", "--stdin", "--name-status", "-r", "-M")
	if err != nil {
		return fail(err)
	}
	perCommit := map[string][]string{}
	cur := ""
	for _, line := range strings.Split(st, "\n") {
		if len(line) == 40 && !strings.Contains(line, "\t") {
			cur = line
			continue
		}
		if line != "" {
			perCommit[cur] = append(perCommit[cur], line)
		}
	}
	var log strings.Builder
	for i, sha := range shaList {
		txt := strings.Join(perCommit[sha], "\n")
		out.statuses = append(out.statuses, c03ParseStatus(txt))
		fmt.Fprintf(&log, "commit %d %s ops=%v\n%s\n", i, sha[:8], cs.Branch[i].Ops, txt)
	}
	for p, f := range base {
		out.files["base/"+p] = []byte(f.Render())
	}
	for p, f := range head {
		out.files["head/"+p] = []byte(f.Render())
	}
	out.files["git-name-status.txt"] = []byte(log.String())
	out.files["pint.hcl"] = []byte(c03Config())
	out.files["history.fast-import"] = []byte(fi.String())
	origins := c03Origins(base, out.statuses)
	out.wants = c03Reference(base, head, origins)

	obs := c03RunPint(c, repo, outDir, "branch")
	out.pintRuns++
	out.files["stderr-branch.txt"] = []byte(obs.proc.Stderr)
	out.files["dump-branch.jsonl"] = obs.dumpText
	out.files["report-branch.json"] = obs.jsonText
	out.problems = c03Judge(obs, head, base, out.wants, "branch", &out)
	if out.inconc != "" || len(cs.Advance) == 0 {
		return out
	}
	// main advances; nothing about the branch changes
	if _, err := git("", "branch", "-f", "main", "main-next"); err != nil {
		return fail(err)
	}
	obs2 := c03RunPint(c, repo, outDir, "advanced")
	out.pintRuns++
	out.files["stderr-advanced.txt"] = []byte(obs2.proc.Stderr)
	out.files["dump-advanced.jsonl"] = obs2.dumpText
	first := map[string]bool{}
	for _, p := range out.problems {
		first[p.sig] = true
	}
	for _, p := range c03Judge(obs2, head, base, out.wants, "after main advanced", &out) {
		if first[p.sig] {
			continue // same failure as before the advance
		}
		p.sig = "main-advance:" + p.sig
		out.problems = append(out.problems, p)
	}
	return out
}

// c03ListedSigs: signatures of C03 listed as known findings (they are not minimised again).
func c03ListedSigs(c *core.Ctx) map[string]bool {
	out := map[string]bool{}
	b, err := os.ReadFile(filepath.Join(c.VerifDir, "KNOWN_FINDINGS.txt"))
	if err != nil {
		return out
	}
	for _, line := range strings.Split(string(b), "\n") {
		if !strings.HasPrefix(strings.TrimSpace(line), "finding:") || !strings.Contains(line, "property=C03") {
			continue
		}
		for _, tok := range strings.Fields(line) {
			if strings.HasPrefix(tok, "sig=") {
				out[strings.TrimPrefix(tok, "sig=")] = true
			}
		}
	}
	return out
}

func c03HasSig(o c03Outcome, sig string) bool {
	for _, p := range o.problems {
		if p.sig == sig {
			return true
		}
	}
	return false
}

// c03Minimise drops parts of the history while the same signature is still observed.
func c03Minimise(c *core.Ctx, cs c03Case, sig string) c03Case {
	budget := 30
	try := func(cand c03Case) bool {
		if budget <= 0 || len(cand.Branch) == 0 {
			return false
		}
		for _, cm := range cand.Branch {
			if len(cm.Files) == 0 {
				return false
			}
		}
		budget--
		return c03HasSig(c03Check(c, cand), sig)
	}
	if len(cs.Advance) > 0 && !strings.HasPrefix(sig, "main-advance:") {
		cand := cs
		cand.Advance = nil
		if try(cand) {
			cs = cand
		}
	}
	if len(cs.Base) > 1 {
		cand := cs
		cand.Base = cs.Base[len(cs.Base)-1:]
		if try(cand) {
			cs = cand
		}
	}
	// drop branch commits (snapshots are complete, so the neighbours absorb the change)
	for i := len(cs.Branch) - 2; i >= 0; i-- {
		cand := cs
		cand.Branch = append(append([]c03Commit(nil), cs.Branch[:i]...), cs.Branch[i+1:]...)
		if try(cand) {
			cs = cand
		}
	}
	// drop whole files (by generator identity) from every snapshot
	ids := map[int]bool{}
	for _, cm := range append(append([]c03Commit(nil), cs.Base...), cs.Branch...) {
		for _, f := range cm.Files {
			ids[f.ID] = true
		}
	}
	var idList []int
	for id := range ids {
		idList = append(idList, id)
	}
	sort.Ints(idList)
	strip := func(cms []c03Commit, id int) []c03Commit {
		var o []c03Commit
		for _, cm := range cms {
			n := c03Commit{Ops: cm.Ops, Files: c03Snap{}}
			for p, f := range cm.Files {
				if f.ID != id {
					n.Files[p] = f
				}
			}
			o = append(o, n)
		}
		return o
	}
	for _, id := range idList {
		cand := cs
		cand.Base = strip(cs.Base, id)
		cand.Branch = strip(cs.Branch, id)
		cand.Advance = strip(cs.Advance, id)
		okc := len(cand.Base[len(cand.Base)-1].Files) > 0
		for _, cm := range cand.Advance {
			if len(cm.Files) == 0 {
				okc = false
			}
		}
		if okc && try(cand) {
			cs = cand
		}
	}
	return cs
}

// c03ChainClass folds a file history (sequence of git statuses) into a coarse class, so that
// one defect does not produce one signature per history.
func c03ChainClass(chain string) string {
	var cls []string
	if strings.Contains(chain, "onto-deleted-path") {
		return "renamed-onto-path-deleted-earlier-on-branch"
	}
	if strings.Contains(chain, "onto-base-path") {
		cls = append(cls, "renamed-onto-path-of-base-file")
	}
	if strings.Contains(chain, "at-base-path") {
		cls = append(cls, "new-file-at-path-of-base-file")
	}
	if strings.Contains(chain, "D>A") {
		cls = append(cls, "deleted-and-recreated")
	}
	if len(cls) > 0 {
		return strings.Join(cls, "+")
	}
	steps := strings.Split(chain, ">")
	has := func(x string) bool {
		for _, s := range steps {
			if s == x {
				return true
			}
		}
		return false
	}
	switch {
	case chain == "untouched" || chain == "":
		return "untouched"
	case has("R") && (has("M") || strings.Count(chain, "R") > 1):
		return "renamed-and-edited-or-chain"
	case has("R"):
		return "renamed"
	case has("A"):
		return "new-file"
	}
	return "edited"
}

func c03OpKind(op string) string {
	if i := strings.IndexByte(op, '+'); i >= 0 {
		return op[:i] + "+edit"
	}
	return op
}

func runC03(c *core.Ctx) int {
	run := core.NewRun(c)
	if c.Replay != "" {
		var cs c03Case
		if err := core.LoadCase(c.Replay, &cs); err != nil {
			fmt.Println("cannot load case:", err)
			return core.ExitInconclusive
		}
		o := c03Check(c, cs)
		fmt.Printf("REPLAY branch_commits=%d rules_at_head=%d pint_runs=%d problems=%d inconclusive=%q\n", len(cs.Branch), len(o.wants), o.pintRuns, len(o.problems), o.inconc)
		for _, w := range o.wants {
			fmt.Printf("REPLAY rule %s#%d %s %q reference=%s (%s, %s) pint=%s\n", w.Path, w.Ord, w.Kind, w.Name, strings.Join(w.Accept, "|"), w.Why, w.Chain, o.got[fmt.Sprintf("%s#%d", w.Path, w.Ord)])
		}
		for _, p := range o.problems {
			fmt.Println("REPLAY violated:", p.sig, "-", p.what)
		}
		if len(o.problems) > 0 {
			return 1
		}
		return 0
	}
	n := c.N(300, 4500)
	cases := c03Directed()
	nDirected := len(cases)
	for i := 0; len(cases) < n; i++ {
		cases = append(cases, c03GenCase(c.Rand("c03", i), i))
	}
	run.Extra("directed_histories", nDirected)
	// second stratum: files that hold identical copies of a rule at the branch point (c03copies.go).
	// It is appended, so the histories above are the same as they were without it.
	copiesFrom := len(cases)
	cases = append(cases, c03DirectedCopies()...)
	nCopiesDirected := len(cases) - copiesFrom
	for i := 0; len(cases)-copiesFrom < c.N(60, 700); i++ {
		cases = append(cases, c03GenCopiesCase(c.Rand("c03copies", i), i))
	}
	run.Extra("copies_directed_histories", nCopiesDirected)
	n = len(cases)
	outs := make([]c03Outcome, n)
	core.Parallel(n, 16, func(i int) {
		outs[i] = c03Check(c, cases[i])
	})
	// minimise the first history of every new signature (in parallel, bounded)
	listed := c03ListedSigs(c)
	type minJob struct {
		i   int
		sig string
	}
	var minJobs []minJob
	minSeen := map[string]bool{}
	for i, o := range outs {
		for _, p := range o.problems {
			if !minSeen[p.sig] && !listed[p.sig] && len(minJobs) < 12 {
				minSeen[p.sig] = true
				minJobs = append(minJobs, minJob{i, p.sig})
			}
		}
	}
	type minRes struct {
		cs  c03Case
		out c03Outcome
	}
	minimised := map[string]*minRes{}
	minResults := make([]*minRes, len(minJobs))
	core.Parallel(len(minJobs), 12, func(k int) {
		j := minJobs[k]
		m := c03Minimise(c, cases[j.i], j.sig)
		mo := c03Check(c, m)
		if c03HasSig(mo, j.sig) {
			minResults[k] = &minRes{m, mo}
		}
	})
	for k, j := range minJobs {
		if minResults[k] != nil {
			minimised[fmt.Sprintf("%d|%s", j.i, j.sig)] = minResults[k]
		}
	}
	var directed []string
	for i, o := range outs {
		cs := cases[i]
		run.Eval(1)
		if o.inconc != "" {
			run.Inconclusive(fmt.Sprintf("case %d: %s", i, o.inconc))
			continue
		}
		run.Count("pint_ci_runs", int64(o.pintRuns))
		if len(cs.Advance) > 0 {
			run.Count("histories_with_main_advancing", 1)
		}
		run.Count("branch_commits", int64(len(cs.Branch)))
		run.Count("rules_at_head_judged", int64(len(o.wants)))
		run.Count("marker_reports_matched", int64(o.markers))
		run.Count("fresh_lines_checked", int64(o.freshLine))
		c03DupEvidence(run, cs, o)
		var ops, states []string
		for _, cm := range cs.Branch {
			for _, op := range cm.Ops {
				k := c03OpKind(op)
				ops = append(ops, k)
				run.Distinct("operation_kinds", k)
			}
		}
		gitRen := 0
		for _, sts := range o.statuses {
			for _, st := range sts {
				run.Count("git_status_"+string(st.St), 1)
				if st.St == 'R' {
					gitRen++
				}
			}
		}
		if gitRen != o.intended {
			run.Count("histories_where_git_renames_differ_from_intended", 1)
		}
		distinctStates := map[string]bool{}
		for _, w := range o.wants {
			got := o.got[fmt.Sprintf("%s#%d", w.Path, w.Ord)]
			if got != "" {
				run.Count("pint_state_"+got, 1)
				distinctStates[got] = true
				states = append(states, got)
			}
			run.Count("reference_"+strings.Join(w.Accept, "_or_"), 1)
			run.Distinct("reference_reason_x_file_history", w.Why+" / "+w.Chain)
			if strings.Contains(w.Chain, ">") {
				run.Count("rules_in_files_with_multi_step_history", 1)
			}
		}
		if len(distinctStates) >= 2 {
			sort.Strings(ops)
			sort.Strings(states)
			run.Nontrivial(strings.Join(ops, ",") + " => " + strings.Join(states, ","))
		}
		if i < nDirected || (i >= copiesFrom && i < copiesFrom+nCopiesDirected) {
			var ops []string
			for _, cm := range cs.Branch {
				ops = append(ops, cm.Ops...)
			}
			var cls []string
			for _, w := range o.wants {
				cls = append(cls, fmt.Sprintf("%s=%s/%s", w.Name, strings.Join(w.Accept, "|"), o.got[fmt.Sprintf("%s#%d", w.Path, w.Ord)]))
			}
			directed = append(directed, fmt.Sprintf("%v: %s", ops, strings.Join(cls, " ")))
		}
		if i%(n/6+1) == 0 || i == copiesFrom+nCopiesDirected || i == n-1 {
			var hist []string
			for k, cm := range cs.Branch {
				var st []string
				for _, s := range o.statuses[k] {
					if s.St == 'R' {
						st = append(st, fmt.Sprintf("R %s->%s", s.Src, s.Dst))
					} else {
						st = append(st, fmt.Sprintf("%c %s", s.St, s.Dst))
					}
				}
				hist = append(hist, fmt.Sprintf("ops=%v git=%v", cm.Ops, st))
			}
			var cls []string
			for _, w := range o.wants {
				cls = append(cls, fmt.Sprintf("%s#%d %s: reference=%s pint=%s", w.Path, w.Ord, w.Name, strings.Join(w.Accept, "|"), o.got[fmt.Sprintf("%s#%d", w.Path, w.Ord)]))
			}
			run.Sample(map[string]any{"case": i, "base_files": len(cs.Base[len(cs.Base)-1].Files), "branch": hist, "main_advance_commits": len(cs.Advance), "classification": cls})
		}
		seen := map[string]bool{}
		for _, p := range o.problems {
			if seen[p.sig] {
				continue
			}
			seen[p.sig] = true
			var vcase any = cs
			files := o.files
			if m := minimised[fmt.Sprintf("%d|%s", i, p.sig)]; m != nil {
				vcase = m.cs
				files = m.out.files
				for _, mp := range m.out.problems {
					if mp.sig == p.sig {
						p.what = mp.what + " [history minimised]"
					}
				}
			}
			run.Violate(core.Violation{Sig: p.sig, What: p.what, Case: vcase, Files: files})
		}
	}
	run.Extra("directed_histories_reference_vs_pint", directed)
	run.Assume("a file rename is what git reports (git diff-tree -M per branch commit, default 50% similarity); the reference composes these per-commit reports itself")
	run.Assume("where the base version of a file is arguable (rename onto a path that existed at the branch point, new file at a path renamed away earlier, re-created file whose predecessor arrived by rename) every defensible base version is accepted")
	run.Assume("file-level control comments count through the set of checks they switch off (file/disable and an active file/snooze of the same check are equivalent)")
	run.Assume("rules sharing kind+name inside one file are only judged when their content is found unchanged at the base; otherwise added or modified are both accepted")
	run.Assume("identical copies of a rule inside one file are paired one to one with the identical copies in the base version of the file: with b copies at the base and h at HEAD, min(b,h) HEAD copies are untouched (unmodified, or renamed with the file) and h-min(b,h) are new; which of the copies are the new ones is not judged, only how many")
	return run.Finish("exploration",
		"histories (first stratum): base of 1-4 files x 1-6 rules (1-2 commits on main), pr branch of 1-8 commits x 1-3 operations (add/delete/rename/copy file, rename+edit, swaps through a temporary name and inside one commit, delete-then-recreate, add/delete/modify rule per field incl. control comments, move rule inside/between files, comment-only and whitespace-only edits, re-indent, key/label reorder, edit-then-revert), main advancing 0-3 commits afterwards; built with real git. Reference = generator's model of base and HEAD content + git's per-commit rename reports. Observed: Entry.State/ModifiedLines and dispatched checks of the real `pint ci` (H1 dump) and its --json under one marker check per state + one block without match; run before and after main advances. Second stratum (copies_*): base files holding 2-4 identical copies of a rule (same or different groups, same or different layout), branch of 1-4 commits that first touches such a file (edit another rule, delete/add/edit/move a copy, rename the file, layout, file-level comments) mixed with the operations above; copies are judged as a one-to-one pairing (per copy when the base holds at least as many, by count otherwise). Non-trivial = history with >= 2 distinct states at HEAD; distinct by multiset of (operation kinds, states).",
		core.Floors{MinEvaluations: int64(n), MinNontrivial: n / 5, MaxInconclusiveFrac: 0.02})
}
