package props

import (
	"fmt"
	"strings"
	"time"

	"github.com/cloudflare/pint/verif/promfake"
)

// A shared "everything fires" scenario: rule files and a configuration that
// together make as many different checks report as possible, against an
// engine-backed fake Prometheus. Used by C08 (switching), C07 (comments), C11.

var allCheckNames = []string{"alerts/absent", "alerts/annotation", "alerts/count", "alerts/external_labels", "alerts/for", "alerts/template", "labels/conflict", "promql/aggregate", "alerts/comparison", "promql/impossible", "promql/fragile", "promql/range_query", "promql/rate", "promql/regexp", "promql/syntax", "promql/vector_matching", "query/cost", "promql/counter", "promql/series", "rule/dependency", "rule/duplicate", "rule/for", "rule/name", "rule/label", "rule/link", "rule/reject", "rule/report"}

var onlineCheckNames = []string{"alerts/absent", "alerts/count", "alerts/external_labels", "labels/conflict", "promql/range_query", "promql/rate", "promql/vector_matching", "query/cost", "promql/counter", "promql/series", "rule/link"}

func isCheckName(s string) bool {
	for _, n := range allCheckNames {
		if n == s {
			return true
		}
	}
	return false
}

func scenarioDB(now time.Time) *promfake.DB {
	from := now.Add(-30 * time.Hour).Truncate(5 * time.Minute)
	to := now.Add(2 * time.Hour)
	mk := func(kv ...string) promfake.Series {
		l := map[string]string{}
		for i := 0; i+1 < len(kv); i += 2 {
			l[kv[i]] = kv[i+1]
		}
		return promfake.SeriesAt(l, from, to, 5*time.Minute, 1)
	}
	return &promfake.DB{Series: []promfake.Series{
		mk("__name__", "up", "job", "a", "instance", "i1"),
		mk("__name__", "up", "job", "b", "instance", "i2"),
		mk("__name__", "foo", "job", "a", "instance", "i1"),
		mk("__name__", "foo", "job", "b", "instance", "i2"),
		mk("__name__", "bar", "job", "a"),
		mk("__name__", "errors_total", "job", "a", "instance", "i1"),
		mk("__name__", "requests_total", "job", "a", "instance", "i1"),
		mk("__name__", "prometheus_build_info", "job", "prom"),
	}}
}

func scenarioServer() *promfake.Server {
	srv := promfake.NewServer(scenarioDB(time.Now()), time.Now)
	srv.Metadata = map[string][]map[string]string{
		"errors_total":   {{"type": "counter", "help": "errors", "unit": ""}},
		"requests_total": {{"type": "counter", "help": "requests", "unit": ""}},
		"foo":            {{"type": "gauge", "help": "foo", "unit": ""}},
	}
	return srv
}

// scenarioRules: rule files built to trigger many checks at once.
func scenarioRules(linkBase string) map[string]string {
	a := `groups:
- name: alerts
  rules:
  - alert: AlwaysFiring
    expr: up
    labels:
      severity: page
    annotations:
      summary: always on
  - alert: ZeroFor
    expr: up == 0
    for: 0s
    labels:
      severity: bad value
  - alert: TemplateLabel
    expr: sum(up) by (job) == 0
    for: 5m
    annotations:
      summary: "{{ $labels.instance }} is down"
      link: "LINKBASE/missing"
  - alert: Fragile
    expr: errors_total / sum(requests_total) > 0.1
    for: 10m
    keep_firing_for: 1m
    annotations:
      summary: fragile
  - alert: SmellyRegexp
    expr: foo{job=~"a"} > 0
    annotations:
      summary: "{{ $externalLabels.nosuch }}"
  - alert: DeadCode
    expr: foo{job="a"} unless on(job) sum(bar{job="b"}) by (job) > 0
  - alert: MissingSeries
    expr: nosuchmetric > 0
    for: 5m
  - alert: ShortRate
    expr: rate(requests_total[1m]) > 0
  - alert: LongRange
    expr: avg_over_time(foo[40d]) > 0
  - alert: VectorMismatch
    expr: foo / bar > 0
  - alert: CounterNoRate
    expr: errors_total > 10
  - alert: AbsentNoFor
    expr: absent(foo{job="zzz"})
  - alert: TopK
    expr: topk(10, foo) > 0
    annotations:
      summary: topk
  - alert: DeadUnless
    expr: foo{job="a"} unless sum(foo)
    annotations:
      summary: dead code
  - alert: lowercase_name
    expr: up == 0
    for: 1s
`
	b := `groups:
- name: recording
  rules:
  - record: job:up:sum
    expr: sum(up) by (job)
  - record: job:up:sum
    expr: sum(up) by (job)
  - record: BadRecordName
    expr: sum(foo) without(job)
    labels:
      cluster: dev
  - record: job:foo:sum
    expr: sum(foo) by (instance)
    labels:
      team: a b
  - record: broken:syntax
    expr: sum(foo) by(
`
	a = strings.ReplaceAll(a, "LINKBASE", linkBase)
	return map[string]string{"rules/a.yml": a, "rules/b.yml": b}
}

// scenarioEnableList: names put into a rule{enable=[...]} block by this variant. The documentation says such a
// block overrides checks{disabled} (and so --disabled / --offline) while rule{disable} takes precedence over it.
func scenarioEnableList(variant int) []string {
	if variant >= 16 {
		variant -= 16
	}
	if variant >= 8 {
		variant -= 8
	}
	if variant%4 >= 2 {
		return []string{"rule/report", "rule/name", "promql/series", "alerts/for", "rule/link"}
	}
	return nil
}

// scenarioConfig instantiates every configurable check kind. variant changes incidental
// structure (locked blocks, enable lists, tags) without changing which checks exist.
func scenarioConfig(promURI string, variant int) string {
	// variants 16..: two Prometheus servers (prom tagged prod, promb tagged dev) serving the same data
	twoServers := variant >= 16
	if twoServers {
		variant -= 16
	}
	// variants 8..: only the FIRST rule block is locked, the blocks after it are not
	mixed := variant >= 8
	if mixed {
		variant -= 8
	}
	locked := ""
	if variant%2 == 1 {
		locked = "  locked = true\n"
	}
	locked1 := locked
	if mixed {
		locked, locked1 = "", "  locked = true\n"
	}
	tags := ""
	if variant%3 == 2 {
		tags = "  tags = [\"prod\"]\n"
	}
	var b strings.Builder
	if promURI != "" {
		b.WriteString("check \"promql/series\" {\n  lookbackRange = \"6h\"\n  lookbackStep = \"5m\"\n}\n")
		if twoServers {
			tags = "  tags = [\"prod\"]\n"
		}
		fmt.Fprintf(&b, "prometheus \"prom\" {\n  uri = %q\n  timeout = \"30s\"\n%s}\n", promURI, tags)
		if twoServers {
			fmt.Fprintf(&b, "prometheus \"promb\" {\n  uri = %q\n  timeout = \"30s\"\n  tags = [\"dev\"]\n}\n", strings.Replace(promURI, "127.0.0.1", "localhost", 1))
		}
	}
	if len(scenarioEnableList(variant)) > 0 {
		q := make([]string, 0, 5)
		for _, n := range scenarioEnableList(variant) {
			q = append(q, fmt.Sprintf("%q", n))
		}
		b.WriteString("rule {\n  enable = [" + strings.Join(q, ", ") + "]\n}\n")
	}
	fmt.Fprintf(&b, `rule {
%s  aggregate ".+" {
    keep = ["job"]
  }
  label "severity" {
    value = "(page|ticket)"
    required = true
  }
  name "[a-z]+:.+" {
    severity = "warning"
  }
  reject ".* .*" {
    label_values = true
  }
  report {
    comment = "reported by config"
    severity = "info"
  }
}
rule {
%s  match {
    kind = "alerting"
  }
  annotation "summary" {
    required = true
    severity = "bug"
  }
  annotation "runbook" {
    required = true
    severity = "warning"
  }
  for {
    min = "2m"
    severity = "warning"
  }
  keep_firing_for {
    min = "5m"
    severity = "warning"
  }
  range_query {
    max = "1d"
    severity = "warning"
  }
}
`, locked1, locked)
	if promURI != "" {
		fmt.Fprintf(&b, `rule {
%s  cost {
    maxSeries = 1
    severity = "info"
  }
  alerts {
    range = "1h"
    step = "5m"
    resolve = "5m"
  }
  link "https?://.+" {
    severity = "warning"
  }
}
`, locked)
	}
	return b.String()
}
