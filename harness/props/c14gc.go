package props

// C14, "cleanup between asks" scenario.
//
// Everywhere else in this monitor a group lives for a few milliseconds and its
// cache is never cleaned, so "a successful answer is reused for its cache
// lifetime" is only exercised as "not re-requested while nothing touches the
// cache". In a real run the cache IS touched: FailoverGroup.StartWorkers starts a
// cleaner that runs queryCache.gc every two minutes (FailoverGroup.CleanCache
// runs the same pass on demand), and a long `pint watch` or a slow `pint ci`
// asks the same questions before and after such passes. This scenario adds that
// dimension: the callers of a trial arrive in 2-4 waves, and between two waves
// (and in a quarter of the trials also continuously while callers are out) the
// harness runs 0-3 cleanup passes through the exported CleanCache. What varies:
// how many callers asked a question before the first pass (one caller = the
// answer was stored and never read back from the cache; two = one hit; more),
// how many passes lie between two asks, how many rounds of ask/cleanup follow
// each other, the endpoint kind (instant, single- and multi-slice range, config,
// flags, metadata), scripted leading failures (a failed answer is not stored, so
// the question legitimately goes out again after the pass), pool size, server
// delays.
//
// Oracle. Nothing new is demanded: a cleanup pass must not change what the
// callers and the server observe as long as no answer has reached the end of its
// lifetime, so every per-question monitor of the mixed scenario applies
// unchanged (request count per key = 1 + scripted failures, equal results,
// value identity, porcupine history). On top, a request for a key that was
// already answered successfully, with a cleanup pass in between, is reported
// under its own signature (rerequest-after-cleanup:<kind>).
//
// Wall clock. pint's lifetimes are 5 minutes (instant), 10 minutes (flags,
// metadata), at least 10 minutes (range slices), the value passed by the caller
// (config: one hour here) and one hour without a read. The entry's expiry is
// computed after the server stamped Leave on the answer, and a pass that could
// evict it legitimately would have to run at least that lifetime later. The
// verdict therefore uses only the recorded stamps: a second request is judged
// when it entered the server less than c14GCMinLifetime (60 s, below every
// lifetime above) after the first answer left it; otherwise the trial is set
// aside as inconclusive - never a violation. (A trial is abandoned by its 20 s
// watchdog long before that.)

import (
	"fmt"
	"math/rand"
	"sort"
	"strconv"
	"strings"
	"time"
)

const c14GCMinLifetime = int64(60 * time.Second)

// c14GCPass is one cleanup pass as the harness ran it: stamps from the trial's clock around FailoverGroup.CleanCache.
type c14GCPass struct {
	AfterWave int   `json:"after_wave"` // -1: concurrent pass
	During    bool  `json:"during,omitempty"`
	Start     int64 `json:"start"`
	End       int64 `json:"end"`
}

type c14GCStats struct {
	Passes          int      `json:"passes"`            // cleanup passes between waves
	PassesDuring    int      `json:"passes_during"`     // cleanup passes run while callers were out
	QuestionsReask  int      `json:"questions_reasked"` // questions answered successfully, then >= 1 complete pass, then asked again
	Reasks          int      `json:"reasks"`            // calls of such questions that began after the pass
	ReasksNoHit     int      `json:"reasks_no_hit"`     // ... where nobody had been served from the cache before the pass (stored, never read back)
	ReasksOneHit    int      `json:"reasks_one_hit"`    // ... exactly one caller had
	ReasksManyHits  int      `json:"reasks_many_hits"`  // ... two or more had
	KindsNoHit      []string `json:"kinds_no_hit,omitempty"`
	PassesBetween   []string `json:"passes_between,omitempty"`      // distinct numbers of complete passes between the answer and a later ask
	RoundsPerQ      []string `json:"rounds_per_question,omitempty"` // distinct numbers of waves in which one question was asked
	FailedThenAsked int      `json:"failed_then_asked"`             // questions whose only answers before a pass were failures and that were asked again afterwards (must go out again)
	RequestsAfter   int      `json:"requests_after_pass"`           // requests that entered a server after the first complete pass (legitimate ones: new questions, retries after failures)
}

// ---- generator ----

func c14GenGC(r *rand.Rand, id int) c14Trial {
	t := c14GenCommon(r, id, "gc")
	t.MaxDelayUs = []int{0, 300, 1000, 2000}[r.Intn(4)]
	nq := 2 + r.Intn(6)
	kinds := []string{"query", "range", "config", "flags", "metadata"}
	type tp struct{ end, look, step int64 }
	pool := make([]tp, 2)
	for i := range pool {
		look := c14MultiLookback[r.Intn(len(c14MultiLookback))]
		if r.Intn(2) == 0 {
			look = c14SingleLook[r.Intn(len(c14SingleLook))]
		}
		pool[i] = tp{end: int64(r.Intn(86400)), look: look, step: c14Steps[r.Intn(len(c14Steps))]}
		if pool[i].step >= look {
			pool[i].step = 60
		}
	}
	withFail := r.Intn(4) == 0
	seen := map[string]bool{}
	for tries := 0; len(t.Questions) < nq && tries < 40; tries++ {
		q := c14Question{Kind: kinds[r.Intn(len(kinds))]}
		switch q.Kind {
		case "query":
			q.Expr = c14Expr(r.Intn(6))
		case "metadata":
			q.Expr = c14Metric(r.Intn(6))
		case "range":
			q.Expr = c14Expr(r.Intn(6))
			p := pool[r.Intn(len(pool))]
			q.EndOff, q.LookbackS, q.StepS = p.end, p.look, p.step
		}
		if seen[q.class()] {
			continue
		}
		seen[q.class()] = true
		single := q.Kind != "range" || q.LookbackS <= 3600
		if withFail && single && r.Intn(2) == 0 {
			q.FailA = 1 + r.Intn(2)
			q.KindA = []string{"500", "bad_data"}[r.Intn(2)]
		}
		t.Questions = append(t.Questions, q)
	}
	nWaves := 2 + r.Intn(3)
	t.GCAfterWave = make([]int, nWaves-1)
	some := false
	for w := range t.GCAfterWave {
		t.GCAfterWave[w] = []int{1, 1, 1, 2, 3, 0}[r.Intn(6)]
		if t.GCAfterWave[w] > 0 {
			some = true
		}
	}
	if !some {
		t.GCAfterWave[r.Intn(len(t.GCAfterWave))] = 1
	}
	t.GCDuring = r.Intn(4) == 0
	jitter := r.Intn(3) == 0
	add := func(q, wave, n int) {
		for i := 0; i < n; i++ {
			c := c14Caller{Q: q, Wave: wave}
			if jitter && r.Intn(2) == 0 {
				c.DelayUs = r.Intn(1500)
			}
			t.Callers = append(t.Callers, c)
		}
	}
	for qi := range t.Questions {
		first := r.Intn(nWaves - 1) // a later wave exists
		// one caller: the answer is stored and not read back before the pass; two: one hit; more: many
		add(qi, first, []int{1, 1, 1, 1, 2, 3, 6}[r.Intn(7)])
		later := 0
		for w := first + 1; w < nWaves; w++ {
			n := []int{0, 1, 1, 2, 4}[r.Intn(5)]
			if w == nWaves-1 && later == 0 && n == 0 {
				n = 1
			}
			later += n
			add(qi, w, n)
		}
	}
	// no empty waves (a wave without callers would only merge two groups of passes)
	used := map[int]bool{}
	for _, c := range t.Callers {
		used[c.Wave] = true
	}
	if len(used) < nWaves {
		var ws []int
		for w := range used {
			ws = append(ws, w)
		}
		sort.Ints(ws)
		idx := map[int]int{}
		gcs := make([]int, 0, len(ws))
		for i, w := range ws {
			idx[w] = i
			if i > 0 {
				// passes after every dropped wave between the previous kept one and this one are kept
				n := 0
				for x := ws[i-1]; x < w; x++ {
					n += t.GCAfterWave[x]
				}
				gcs = append(gcs, n)
			}
		}
		for i := range t.Callers {
			t.Callers[i].Wave = idx[t.Callers[i].Wave]
		}
		t.GCAfterWave = gcs
	}
	return t
}

// ---- oracle ----

// c14CheckGC reports re-requests of answered keys across a cleanup pass and collects what the scenario reached.
// It returns false when the trial has to be set aside (out.Inconc is set) and no further monitor should run, and the
// question classes it has reported (their other monitors would only repeat the same event under other names).
func c14CheckGC(t c14Trial, obs c14Observed, out *c14Outcome, viol func(sig, what string)) (bool, map[string]bool) {
	flagged := map[string]bool{}
	st := &out.Stats
	gs := &c14GCStats{}
	st.GC = gs
	var between []c14GCPass
	for _, p := range obs.GC {
		if p.During {
			gs.PassesDuring++
		} else {
			gs.Passes++
			between = append(between, p)
		}
	}
	all := append([]c14GCPass(nil), obs.GC...)
	sort.Slice(all, func(i, j int) bool { return all[i].Start < all[j].Start })

	// ---- server side: a key that was answered successfully and requested again ----
	names := []string{"A", "B"}[:t.Servers]
	for _, nm := range names {
		byKey := map[string][]c14Req{}
		var keys []string
		for _, r := range obs.Logs[nm] {
			if _, has := byKey[r.Key]; !has {
				keys = append(keys, r.Key)
			}
			byKey[r.Key] = append(byKey[r.Key], r)
		}
		sort.Strings(keys)
		firstPassEnd := int64(-1)
		if len(all) > 0 {
			firstPassEnd = all[0].End
		}
		for _, r := range obs.Logs[nm] {
			if firstPassEnd >= 0 && r.Enter > firstPassEnd {
				gs.RequestsAfter++
			}
		}
		for _, k := range keys {
			rs := byKey[k]
			sort.SliceStable(rs, func(i, j int) bool { return rs[i].Enter < rs[j].Enter })
			var ok1 *c14Req
			for i := range rs {
				r := &rs[i]
				if ok1 == nil {
					if r.Status == "ok" {
						ok1 = r
					}
					continue
				}
				if r.Enter <= ok1.Leave {
					continue // in flight together with the answered one: the overlap monitor's business
				}
				if r.Enter-ok1.Leave >= c14GCMinLifetime {
					out.Inconc = fmt.Sprintf("trial %d (gc): %s was requested again %.1fs after its first answer; that is not safely inside every cache lifetime, the trial is set aside", t.ID, k, float64(r.Enter-ok1.Leave)/1e9)
					return false, flagged
				}
				np, ncomplete := 0, 0
				for _, p := range all {
					if p.End > ok1.Leave && p.Start < r.Enter {
						np++
						if p.Start > ok1.Leave && p.End < r.Enter {
							ncomplete++
						}
					}
				}
				if np == 0 {
					continue // no pass in between: reported by the request-count monitor as rerequest-after-success
				}
				kind := strings.SplitN(r.Class, "|", 2)[0]
				flagged[r.Class] = true
				viol("rerequest-after-cleanup:"+kind,
					fmt.Sprintf("%s reached upstream %s again although it had been answered successfully %.3fms earlier (request #%d left at %dns with status ok, request #%d entered at %dns); %d cache cleanup passes (FailoverGroup.CleanCache, the pass the 2-minute cleaner runs) touched the time in between, %d of them completely inside it: the stored answer was dropped long before its cache lifetime (>= 5m) ended",
						k, nm, float64(r.Enter-ok1.Leave)/1e6, ok1.N, ok1.Leave, r.N, r.Enter, np, ncomplete))
				break
			}
		}
	}

	// ---- what the scenario reached (information for the evidence file; upstream A) ----
	kindsNoHit := map[string]bool{}
	passesBetween := map[string]bool{}
	rounds := map[string]bool{}
	for qi, q := range t.Questions {
		class := q.class()
		var callers []c14Call
		waves := map[int]bool{}
		for _, c := range obs.Calls {
			if c.Q == qi {
				callers = append(callers, c)
				waves[t.Callers[c.Caller].Wave] = true
			}
		}
		rounds[strconv.Itoa(len(waves))] = true
		// answered at: when the first successful answer of every slice had left the server
		firstOK := map[string]int64{}
		failedOnly := true
		var firstFailLeave int64 = -1
		for _, r := range obs.Logs["A"] {
			if r.Class != class {
				continue
			}
			switch r.Status {
			case "ok":
				failedOnly = false
				if old, has := firstOK[r.Slice]; !has || r.Leave < old {
					firstOK[r.Slice] = r.Leave
				}
			case "fail":
				if firstFailLeave < 0 || r.Leave < firstFailLeave {
					firstFailLeave = r.Leave
				}
			}
		}
		if len(firstOK) == 0 {
			if failedOnly && firstFailLeave >= 0 {
				for _, p := range between {
					if p.Start > firstFailLeave {
						for _, c := range callers {
							if c.Call > p.End {
								gs.FailedThenAsked++
								break
							}
						}
						break
					}
				}
			}
			continue
		}
		answered := int64(0)
		for _, l := range firstOK {
			if l > answered {
				answered = l
			}
		}
		var p1 *c14GCPass
		for i := range all {
			if all[i].Start > answered {
				p1 = &all[i]
				break
			}
		}
		if p1 == nil {
			continue
		}
		served := 0
		for _, c := range callers {
			if c.Err == "" && c.Return < p1.Start {
				served++
			}
		}
		hits := served - 1 // one of them caused the request, the others were served from the cache
		n := 0
		for _, c := range callers {
			if c.Call <= p1.End {
				continue
			}
			n++
			cnt := 0
			for _, p := range all {
				if p.Start > answered && p.End < c.Call {
					cnt++
				}
			}
			switch {
			case cnt >= 8:
				passesBetween["8+"] = true
			default:
				passesBetween[strconv.Itoa(cnt)] = true
			}
		}
		if n == 0 {
			continue
		}
		gs.QuestionsReask++
		gs.Reasks += n
		switch {
		case hits <= 0:
			gs.ReasksNoHit += n
			kindsNoHit[c14GCKind(q)] = true
		case hits == 1:
			gs.ReasksOneHit += n
		default:
			gs.ReasksManyHits += n
		}
	}
	for k := range kindsNoHit {
		gs.KindsNoHit = append(gs.KindsNoHit, k)
	}
	for k := range passesBetween {
		gs.PassesBetween = append(gs.PassesBetween, k)
	}
	for k := range rounds {
		gs.RoundsPerQ = append(gs.RoundsPerQ, k)
	}
	sort.Strings(gs.KindsNoHit)
	sort.Strings(gs.PassesBetween)
	sort.Strings(gs.RoundsPerQ)
	return true, flagged
}

func c14GCKind(q c14Question) string {
	if q.Kind == "range" {
		if q.LookbackS <= 3600 {
			return "range-single-slice"
		}
		return "range-multi-slice"
	}
	return q.Kind
}
