package props

import (
	"fmt"
	"os"
	"path/filepath"
	"regexp"
	"strings"
	"time"

	"github.com/prometheus/common/model"
	"github.com/prometheus/prometheus/model/rulefmt"

	"github.com/cloudflare/pint/verif/core"
	"github.com/cloudflare/pint/verif/gen"
)

func init() { Registry["C01"] = runC01 }

type c01Case struct {
	Origin string `json:"origin"`
	Input  string `json:"input"`
}

var (
	posPrefixRe = regexp.MustCompile(`^(\d+:\d+: )+`)
	groupRuleRe = regexp.MustCompile(`group "[^"]*", rule \d+, "[^"]*": `)
	lineNoRe    = regexp.MustCompile(`line \d+`)
)

func promErrClass(err error) string {
	s := err.Error()
	s = posPrefixRe.ReplaceAllString(s, "")
	s = groupRuleRe.ReplaceAllString(s, "")
	s = lineNoRe.ReplaceAllString(s, "line N")
	if i := strings.Index(s, "could not parse expression"); i >= 0 {
		s = "could not parse expression"
	}
	if strings.HasPrefix(s, "label ") || strings.HasPrefix(s, "annotation ") {
		if i := strings.Index(s, ": "); i >= 0 {
			s = strings.Fields(s)[0] + " template: " + errClass(s[i+2:])
		}
	}
	return errClass(s)
}

// promVerdict runs Prometheus's own rule-file loader on the bytes.
func promVerdict(data string) (ok bool, classes []string, first string) {
	model.NameValidationScheme = model.UTF8Validation
	_, errs := rulefmt.Parse([]byte(data), false)
	if len(errs) == 0 {
		return true, nil, ""
	}
	seen := map[string]bool{}
	for _, e := range errs {
		c := promErrClass(e)
		if !seen[c] {
			seen[c] = true
			classes = append(classes, c)
		}
	}
	return false, sortedStrings(classes), errs[0].Error()
}

type c01Outcome struct {
	viol     []core.Violation
	promOK   bool
	pintOK   bool
	verdict  bool // false: pint gave no verdict (crash / did not run)
	classes  []string
	reporter []string
}

func c01Check(c *core.Ctx, cs c01Case) c01Outcome {
	out := c01Outcome{}
	promOK, classes, first := promVerdict(cs.Input)
	out.promOK, out.classes = promOK, classes
	res := RunLint(c, map[string]string{"rules.yml": cs.Input}, LintOpts{
		Global: []string{"--offline"}, WantJSON: true, Timeout: 30 * time.Second,
	})
	if res.Proc.TimedOut || res.Proc.Crash != "" || !res.JSONPresent || res.JSONErr != nil || (res.Proc.Exit != 0 && res.Proc.Exit != 1) {
		return out // no verdict: C02's business
	}
	out.verdict = true
	out.pintOK = true
	reps := map[string]bool{}
	for _, r := range res.JSON {
		if core.SeverityRank(r.Severity) >= 2 {
			out.pintOK = false
		}
		reps[r.Reporter] = true
	}
	for k := range reps {
		out.reporter = append(out.reporter, k)
	}
	out.reporter = sortedStrings(out.reporter)
	if out.pintOK && !promOK {
		sig := "prom-rejects:" + classes[0]
		out.viol = append(out.viol, core.Violation{
			Sig:   sig,
			What:  fmt.Sprintf("pint reports no Bug/Fatal problem (exit %d, %d reports) but Prometheus refuses the file: %s", res.Proc.Exit, len(res.JSON), first),
			Case:  cs,
			Files: map[string][]byte{"rules.yml": []byte(cs.Input), "pint-report.json": res.JSONRaw},
		})
	}
	return out
}

func runC01(c *core.Ctx) int {
	run := core.NewRun(c)
	if c.Replay != "" {
		var cs c01Case
		if err := core.LoadCase(c.Replay, &cs); err != nil {
			fmt.Println("cannot load case:", err)
			return core.ExitInconclusive
		}
		if b, err := os.ReadFile(filepath.Join(c.Replay, "rules.yml")); err == nil {
			cs.Input = string(b)
		}
		o := c01Check(c, cs)
		fmt.Printf("REPLAY pint_ok=%v prom_ok=%v prom_classes=%v\n", o.pintOK, o.promOK, o.classes)
		if len(o.viol) > 0 {
			fmt.Println("REPLAY violated:", o.viol[0].What)
			return 1
		}
		return 0
	}
	n := c.N(4000, 60000)
	var cases []c01Case
	corpus := gen.ReadCorpus(c.Repo, gen.IsYAMLName)
	for _, cf := range corpus {
		cases = append(cases, c01Case{Origin: "corpus:" + cf.Test + ":" + cf.Name, Input: cf.Data})
	}
	for _, s := range gen.StressDocs() {
		cases = append(cases, c01Case{Origin: "stress", Input: s})
	}
	for i := 0; len(cases) < n; i++ {
		r := c.Rand("c01", i)
		switch k := r.Intn(20); {
		case k < 12:
			sd := gen.RandSchemaDoc(r.Int63(), 3)
			cases = append(cases, c01Case{Origin: "schema:" + strings.Join(sd.Faults, "+"), Input: sd.Text})
		case k < 14:
			sd := gen.RandSchemaDoc(r.Int63(), 0)
			cases = append(cases, c01Case{Origin: "schema-valid-mut", Input: gen.Mutate(r, sd.Text, 1+r.Intn(3))})
		case k < 16:
			sd := gen.RandSchemaDoc(r.Int63(), 2)
			cases = append(cases, c01Case{Origin: "schema-mut", Input: gen.Mutate(r, sd.Text, 1+r.Intn(2))})
		case k < 18:
			o := gen.DefaultGenOpts()
			o.Escapes, o.BlankInside, o.IndentInd, o.CRLF = true, true, true, true
			d := gen.RandDoc(r, o)
			cases = append(cases, c01Case{Origin: "randdoc-mut", Input: gen.Mutate(r, d.Render().Text, 1+r.Intn(3))})
		default:
			src := corpus[r.Intn(len(corpus))]
			cases = append(cases, c01Case{Origin: "corpus-mut", Input: gen.Mutate(r, src.Data, 1+r.Intn(3))})
		}
	}
	core.Parallel(len(cases), 16, func(i int) {
		cs := cases[i]
		if hasPintComment(cs.Input) {
			run.Count("skipped_control_comments", 1)
			return
		}
		o := c01Check(c, cs)
		run.Eval(1)
		if !o.verdict {
			run.Count("no_pint_verdict", 1)
			return
		}
		key := fmt.Sprintf("pint_ok=%v/prom_ok=%v", o.pintOK, o.promOK)
		run.Count("matrix "+key, 1)
		if !o.promOK {
			run.Nontrivial(strings.Join(o.classes, "|") + " => " + strings.Join(o.reporter, ","))
			for _, cl := range o.classes {
				run.Distinct("prometheus_error_classes", cl)
			}
		}
		for _, f := range strings.Split(strings.TrimPrefix(cs.Origin, "schema:"), "+") {
			if strings.HasPrefix(cs.Origin, "schema:") && f != "" {
				run.Distinct("schema_faults_exercised", f)
			}
		}
		for _, v := range o.viol {
			run.Violate(v)
		}
		if i%(len(cases)/6+1) == 0 {
			run.Sample(map[string]any{"origin": cs.Origin, "input": core.Trunc(cs.Input, 500), "pint_ok": o.pintOK, "prom_ok": o.promOK, "prom_error_classes": o.classes, "pint_reporters": o.reporter})
		}
	})
	run.Assume("Prometheus's loader = vendored github.com/prometheus/prometheus/model/rulefmt.Parse(content, false) with UTF-8 name validation (what pint's parser selects and Prometheus 3 defaults to), not a running server")
	run.Assume("only the direction 'pint passes => Prometheus loads' is checked; inputs containing '# pint' control comments are skipped as the statement excludes them")
	return run.Finish("exploration",
		"inputs: structure-aware generated rule documents with 0-3 faulty schema slots (every slot of top level / group / rule / string-map independently valid, invalid, mistyped, null, duplicated, missing, unknown sibling), byte/line/token mutations of those, of all-style generated documents and of the repository's YAML fixtures. Each input: `pint --offline lint --json` (strict, default checks) vs rulefmt.Parse on the same bytes. Non-trivial = input that Prometheus rejects; distinct by (set of Prometheus error classes, set of pint reporters).",
		core.Floors{MinEvaluations: int64(n / 2), MinNontrivial: 30})
}
