package props

// C20 workload: rule sets with cross references (model + renderer + history generator).
// The generator keeps the reference graph: every expression is composed from
// structured references (c20Ref), so which rule selects which metric / which
// ALERTS{alertname=...} series is known by construction and never obtained by
// parsing.

import (
	"fmt"
	"math/rand"
	"regexp"
	"sort"
	"strings"
)

// c20Ref is one vector selector (possibly wrapped in a range function / subquery).
type c20Ref struct {
	Metric   string `json:"metric,omitempty"`    // metric selected through the name syntax ("" when only matchers are used)
	NameOp   string `json:"name_op,omitempty"`   // explicit __name__ matcher ("=" or "=~")
	NameVal  string `json:"name_val,omitempty"`  //
	AlertOp  string `json:"alert_op,omitempty"`  // alertname matcher: = != =~ !~ ("" = none)
	AlertVal string `json:"alert_val,omitempty"` //
	Shape    string `json:"shape"`
	Text     string `json:"text"`
}

const (
	c20Not  = 0 // certainly does not select it
	c20May  = 1 // don't care (regexp / negative matchers, bare ALERTS)
	c20Must = 2 // selects it
)

func c20FullMatch(re, s string) bool {
	rx, err := regexp.Compile("^(?:" + re + ")$")
	if err != nil {
		return false
	}
	return rx.MatchString(s)
}

// class tells whether this selector selects what a removed rule (kind, name) produced.
func (f c20Ref) class(kind, name string) int {
	if kind == "recording" {
		switch {
		case f.Metric != "":
			if f.Metric == name {
				return c20Must
			}
			return c20Not
		case f.NameOp == "=":
			if f.NameVal == name {
				return c20Must
			}
			return c20Not
		case f.NameOp == "=~":
			if c20FullMatch(f.NameVal, name) {
				return c20May
			}
			return c20Not
		}
		return c20Not
	}
	if f.Metric != "ALERTS" && f.Metric != "ALERTS_FOR_STATE" {
		return c20Not
	}
	switch f.AlertOp {
	case "":
		return c20May
	case "=":
		if f.AlertVal == name {
			return c20Must
		}
		return c20Not
	case "=~":
		if c20FullMatch(f.AlertVal, name) {
			return c20May
		}
		return c20Not
	case "!=":
		if f.AlertVal == name {
			return c20Not
		}
		return c20May
	case "!~":
		if c20FullMatch(f.AlertVal, name) {
			return c20Not
		}
		return c20May
	}
	return c20May
}

type c20Rule struct {
	ID    int      `json:"id"` // identity of the rule across base and branch snapshots
	Kind  string   `json:"kind"`
	Name  string   `json:"name"`
	Refs  []c20Ref `json:"refs"`
	Expr  string   `json:"expr"`
	Style string   `json:"style"` // plain | single | double | literal | folded
	Extra int      `json:"extra"` // bit 0: labels, 1: annotations/for (alerts), 2: comment line before, 3: expr key first, 4: blank line before
}

type c20Group struct {
	Name  string    `json:"name"`
	Rules []c20Rule `json:"rules"`
}

type c20File struct {
	Path   string     `json:"path"`
	Indent int        `json:"indent"`           // 0: "- name" at column 0, 2: indented sequences
	Header bool       `json:"header"`           // comment line at the top
	Broken bool       `json:"broken,omitempty"` // HEAD only: the last group also holds a bystander rule with a rule-level error
	Groups []c20Group `json:"groups"`
}

type c20Snapshot []c20File

type c20Case struct {
	Base    c20Snapshot   `json:"base"`
	Commits []c20Snapshot `json:"commits"` // whole tree after each branch commit, last one is HEAD
	Ops     []string      `json:"ops"`
}

// class of a rule w.r.t. a removed provider: the strongest of its selectors.
func (r c20Rule) class(kind, name string) (cls int, shapes []string) {
	for _, f := range r.Refs {
		c := f.class(kind, name)
		if c > cls {
			cls = c
			shapes = nil
		}
		if c == cls && c > c20Not {
			shapes = append(shapes, f.Shape)
		}
	}
	sort.Strings(shapes)
	return cls, c20Uniq(shapes)
}

func c20Uniq(s []string) []string {
	var out []string
	for i, x := range s {
		if i == 0 || x != s[i-1] {
			out = append(out, x)
		}
	}
	return out
}

// ---------------------------------------------------------------- rendering

type c20Place struct {
	Path      string
	Rule      c20Rule
	FieldFrst int // first line occupied by one of the rule's fields
	FieldLast int // last line occupied by one of the rule's fields
	ExtFirst  int // tolerant extent: first line after the previous rule's fields
	ExtLast   int // tolerant extent: last line before the next rule's fields
	NameLine  int
	ExprLine  int // line of the expr key
}

func c20PlainSafe(s string) bool {
	if s == "" || strings.TrimSpace(s) != s {
		return false
	}
	if strings.ContainsAny(s[:1], "{}[]\"'!&*|>%@`#,?:-~=<") {
		return false
	}
	if strings.Contains(s, ": ") || strings.Contains(s, " #") || strings.HasSuffix(s, ":") || strings.Contains(s, "\n") {
		return false
	}
	switch strings.ToLower(s) {
	case "true", "false", "null", "yes", "no", "on", "off", "y", "n":
		return false
	}
	return true
}

func c20NameScalar(s string) string {
	for _, ch := range s {
		if !(ch == '_' || ch == ':' || (ch >= 'a' && ch <= 'z') || (ch >= 'A' && ch <= 'Z') || (ch >= '0' && ch <= '9')) {
			return "'" + strings.ReplaceAll(s, "'", "''") + "'"
		}
	}
	if !c20PlainSafe(s) {
		return "'" + s + "'"
	}
	return s
}

// c20ExprLines renders `expr: ...` at the given indentation; returns the lines.
func c20ExprLines(ind string, expr, style string) []string {
	multi := strings.Split(expr, "\n")
	switch style {
	case "literal", "folded":
		ch := "|"
		if style == "folded" {
			ch = ">"
			if len(multi) > 1 {
				ch = "|" // folding would join the lines with spaces: same query, but keep it simple
			}
		}
		out := []string{ind + "expr: " + ch}
		for _, l := range multi {
			out = append(out, ind+"  "+l)
		}
		return out
	}
	flat := strings.Join(multi, " ")
	switch style {
	case "plain":
		if c20PlainSafe(flat) {
			return []string{ind + "expr: " + flat}
		}
		fallthrough
	case "single":
		return []string{ind + "expr: '" + strings.ReplaceAll(flat, "'", "''") + "'"}
	case "double":
		if !strings.ContainsAny(flat, "\"\\") {
			return []string{ind + "expr: \"" + flat + "\""}
		}
		return []string{ind + "expr: '" + strings.ReplaceAll(flat, "'", "''") + "'"}
	}
	return []string{ind + "expr: '" + strings.ReplaceAll(flat, "'", "''") + "'"}
}

func (f c20File) render() (string, []c20Place) {
	var lines []string
	var places []c20Place
	add := func(s string) int { lines = append(lines, s); return len(lines) }
	if f.Header {
		add("# rules managed by the platform team")
	}
	if len(f.Groups) == 0 {
		add("groups: []")
		return strings.Join(lines, "\n") + "\n", nil
	}
	add("groups:")
	gi := strings.Repeat(" ", f.Indent)      // indentation of "- name"
	gk := gi + "  "                          // keys of the group
	ri := gk + strings.Repeat(" ", f.Indent) // indentation of "- record"
	rk := ri + "  "
	// the bystander: parses as YAML, is no rule pint can use (unknown key), is named like nothing else and uses nothing
	broken := func() {
		add(ri + "- record: zz:bystander")
		add(rk + "expr: vector(1)")
		add(rk + "bogus_key: 1")
	}
	for gn, g := range f.Groups {
		add(gi + "- name: " + g.Name)
		if len(g.Rules) == 0 {
			if f.Broken && gn == len(f.Groups)-1 {
				add(gk + "rules:")
				broken()
				continue
			}
			add(gk + "rules: []")
			continue
		}
		prevLast := add(gk + "rules:")
		first := len(places)
		for _, r := range g.Rules {
			if r.Extra&16 != 0 {
				add("")
			}
			if r.Extra&4 != 0 {
				add(ri + "# " + strings.ToLower(r.Kind) + " rule")
			}
			key := "record"
			if r.Kind == "alerting" {
				key = "alert"
			}
			nameLine := ri + "- " + key + ": " + c20NameScalar(r.Name)
			exprLines := c20ExprLines(rk, r.Expr, r.Style)
			p := c20Place{Path: f.Path, Rule: r, ExtFirst: prevLast + 1}
			if r.Extra&8 != 0 {
				// expr key first
				exprLines[0] = ri + "- " + strings.TrimPrefix(exprLines[0], rk)
				p.ExprLine = add(exprLines[0])
				p.FieldFrst = p.ExprLine
				for _, l := range exprLines[1:] {
					add(l)
				}
				p.NameLine = add(rk + key + ": " + c20NameScalar(r.Name))
			} else {
				p.NameLine = add(nameLine)
				p.FieldFrst = p.NameLine
				p.ExprLine = add(exprLines[0])
				for _, l := range exprLines[1:] {
					add(l)
				}
			}
			if r.Kind == "alerting" && r.Extra&2 != 0 {
				add(rk + "for: 5m")
			}
			if r.Extra&1 != 0 {
				add(rk + "labels:")
				add(rk + "  team: t" + fmt.Sprint(r.ID%3))
			}
			if r.Kind == "alerting" && r.Extra&2 != 0 {
				add(rk + "annotations:")
				add(rk + "  summary: 'something about {{ $labels.job }}'")
			}
			p.FieldLast = len(lines)
			prevLast = p.FieldLast
			places = append(places, p)
		}
		for i := first; i < len(places); i++ {
			if i+1 < len(places) {
				places[i].ExtLast = places[i+1].FieldFrst - 1
			} else {
				places[i].ExtLast = len(lines)
			}
		}
		if f.Broken && gn == len(f.Groups)-1 {
			broken()
		}
	}
	return strings.Join(lines, "\n") + "\n", places
}

func (s c20Snapshot) render() (files map[string]string, places []c20Place) {
	files = map[string]string{}
	for _, f := range s {
		t, p := f.render()
		files[f.Path] = t
		places = append(places, p...)
	}
	return files, places
}

func (s c20Snapshot) clone() c20Snapshot {
	out := make(c20Snapshot, len(s))
	for i, f := range s {
		nf := f
		nf.Groups = make([]c20Group, len(f.Groups))
		for j, g := range f.Groups {
			ng := g
			ng.Rules = append([]c20Rule(nil), g.Rules...)
			nf.Groups[j] = ng
		}
		out[i] = nf
	}
	return out
}

func (s c20Snapshot) rules() (out []c20Rule) {
	for _, f := range s {
		for _, g := range f.Groups {
			out = append(out, g.Rules...)
		}
	}
	return out
}

func (s c20Snapshot) fileIndex(path string) int {
	for i, f := range s {
		if f.Path == path {
			return i
		}
	}
	return -1
}

// removeIDs deletes every rule whose id is in the set.
func (s c20Snapshot) removeIDs(ids map[int]bool) {
	for fi := range s {
		for gi := range s[fi].Groups {
			var keep []c20Rule
			for _, r := range s[fi].Groups[gi].Rules {
				if !ids[r.ID] {
					keep = append(keep, r)
				}
			}
			s[fi].Groups[gi].Rules = keep
		}
	}
}

func (s c20Snapshot) mutate(id int, f func(r *c20Rule)) {
	for fi := range s {
		for gi := range s[fi].Groups {
			for ri := range s[fi].Groups[gi].Rules {
				if s[fi].Groups[gi].Rules[ri].ID == id {
					f(&s[fi].Groups[gi].Rules[ri])
				}
			}
		}
	}
}

// ---------------------------------------------------------------- generator

type c20Gen struct {
	r      *rand.Rand
	rec    []string // recording rule names in play
	alerts []string // alert names in play
	nextID int
}

var (
	c20RecPool   = []string{"r1", "r2", "r10", "job:up:sum", "job:up:sum5m", "errors:rate5m", "r1:sum", "Shared1", "Shared2"}
	c20AlertPool = []string{"Al1", "Al2", "Al10", "TargetDown", "Disk(Full)", "Cpu+", "Shared1", "Shared2"}
	c20BaseMetr  = []string{"up", "foo", "http_requests_total"}
	c20Paths     = []string{"rules/a.yml", "rules/b.yml", "rules/sub/c.yml", "alerts/d.yaml", "e.yml"}
)

func c20ValidMetric(s string) bool {
	return regexp.MustCompile(`^[a-zA-Z_:][a-zA-Z0-9_:]*$`).MatchString(s)
}

func c20ValidLabel(s string) bool {
	return regexp.MustCompile(`^[a-zA-Z_][a-zA-Z0-9_]*$`).MatchString(s)
}

func (g *c20Gen) pick(xs []string) string { return xs[g.r.Intn(len(xs))] }

func c20Weighted(r *rand.Rand, items []string, weights []int) string {
	tot := 0
	for _, w := range weights {
		tot += w
	}
	n := r.Intn(tot)
	for i, w := range weights {
		if n < w {
			return items[i]
		}
		n -= w
	}
	return items[len(items)-1]
}

func (g *c20Gen) metricRef(name string) c20Ref {
	shape := c20Weighted(g.r,
		[]string{"plain", "matchers", "range", "subquery", "nested-subquery", "offset", "name-matcher", "name-regex", "decoy-label-value", "decoy-string-arg", "decoy-suffix-name", "decoy-by-label", "decoy-foreign-alertname"},
		[]int{30, 12, 12, 6, 3, 6, 4, 2, 4, 3, 5, 3, 3})
	f := c20Ref{Shape: shape, Metric: name}
	switch shape {
	case "plain":
		f.Text = name
	case "matchers":
		f.Text = name + g.pick([]string{`{job="api"}`, `{job=~"a.*",instance!=""}`, `{instance="localhost:9090"}`})
	case "range":
		f.Text = g.pick([]string{"rate", "increase", "avg_over_time", "max_over_time"}) + "(" + name + g.pick([]string{"", `{job="api"}`}) + "[5m])"
	case "subquery":
		f.Text = "max_over_time(" + name + "[1h:5m])"
	case "nested-subquery":
		f.Text = "max_over_time(rate(" + name + "[5m])[1h:])"
	case "offset":
		f.Text = name + " offset " + g.pick([]string{"5m", "1h"})
	case "name-matcher":
		f.Metric, f.NameOp, f.NameVal = "", "=", name
		f.Text = g.pick([]string{`{__name__="` + name + `"}`, `{__name__="` + name + `",job="api"}`, `rate({__name__="` + name + `"}[5m])`})
	case "name-regex":
		re := g.pick([]string{name, name + ".*", name + "|nosuch"})
		f.Metric, f.NameOp, f.NameVal = "", "=~", re
		f.Text = `{__name__=~"` + re + `"}`
	case "decoy-label-value":
		f.Metric = "foo"
		f.Text = `foo{job="` + name + `"}`
	case "decoy-string-arg":
		f.Metric = "up"
		f.Text = `label_replace(up, "dst", "` + name + `", "job", "(.*)")`
	case "decoy-suffix-name":
		f.Metric = name + g.pick([]string{"_total", ":rate5m", "0", "_"})
		f.Text = f.Metric
	case "decoy-by-label":
		f.Metric = "foo"
		if c20ValidLabel(name) {
			f.Text = "sum by (" + name + ") (foo)"
		} else {
			f.Text = `foo{job="` + name + `"}`
			f.Shape = "decoy-label-value"
		}
	case "decoy-foreign-alertname":
		f.Metric = "foo"
		f.AlertOp, f.AlertVal = "=", name
		f.Text = `foo{alertname="` + name + `"}`
	}
	return f
}

func (g *c20Gen) alertRef(name string) c20Ref {
	shape := c20Weighted(g.r,
		[]string{"alerts-eq", "alerts-eq-extra", "alerts-eq-range", "alerts-re", "alerts-re-alt", "alerts-re-prefix", "alerts-neq", "alerts-nre", "alerts-bare", "alerts-other-label", "decoy-foreign-alertname"},
		[]int{30, 10, 6, 6, 3, 2, 5, 3, 3, 2, 5})
	m := "ALERTS"
	if g.r.Intn(10) < 3 {
		m = "ALERTS_FOR_STATE"
	}
	if !c20FullMatch(name, name) && g.r.Intn(4) == 0 {
		shape = "alerts-re" // the text equals the alert name but, as a regexp, does not match it
	}
	f := c20Ref{Shape: shape, Metric: m}
	tag := func() {
		if m == "ALERTS_FOR_STATE" {
			f.Shape = strings.Replace(f.Shape, "alerts-", "afs-", 1)
		}
	}
	switch shape {
	case "alerts-eq":
		f.AlertOp, f.AlertVal = "=", name
		f.Text = m + `{alertname="` + name + `"}`
	case "alerts-eq-extra":
		f.AlertOp, f.AlertVal = "=", name
		f.Text = g.pick([]string{m + `{alertstate="firing",alertname="` + name + `"}`, m + `{alertname="` + name + `",severity=~"page|ticket"}`})
	case "alerts-eq-range":
		f.AlertOp, f.AlertVal = "=", name
		f.Text = g.pick([]string{`count_over_time(` + m + `{alertname="` + name + `"}[1h])`, `max_over_time(` + m + `{alertname="` + name + `"}[30m:1m])`})
	case "alerts-re":
		f.AlertOp, f.AlertVal = "=~", name
		f.Text = m + `{alertname=~"` + name + `"}`
	case "alerts-re-alt":
		f.AlertOp, f.AlertVal = "=~", name+"|Other"
		f.Text = m + `{alertname=~"` + name + `|Other"}`
	case "alerts-re-prefix":
		f.AlertOp, f.AlertVal = "=~", name+".*"
		f.Text = m + `{alertname=~"` + name + `.*"}`
	case "alerts-neq":
		f.AlertOp, f.AlertVal = "!=", name
		f.Text = m + `{alertname!="` + name + `"}`
	case "alerts-nre":
		f.AlertOp, f.AlertVal = "!~", name
		f.Text = m + `{alertname!~"` + name + `"}`
	case "alerts-bare":
		f.Text = g.pick([]string{m, m + `{alertstate="firing"}`})
	case "alerts-other-label":
		f.Text = m + `{job="` + name + `"}`
	case "decoy-foreign-alertname":
		f.Metric = "foo"
		f.AlertOp, f.AlertVal = "=", name
		f.Text = `foo{alertname="` + name + `"}`
		return f
	}
	tag()
	return f
}

func (g *c20Gen) ref() c20Ref {
	n := g.r.Intn(100)
	switch {
	case n < 12:
		name := g.pick(c20BaseMetr)
		return c20Ref{Shape: "plain-base", Metric: name, Text: name}
	case n < 62 && len(g.rec) > 0:
		name := g.pick(g.rec)
		if g.r.Intn(10) == 0 { // cross kind: a metric named like an alert
			var ok []string
			for _, a := range g.alerts {
				if c20ValidMetric(a) {
					ok = append(ok, a)
				}
			}
			if len(ok) > 0 {
				name = g.pick(ok)
			}
		}
		return g.metricRef(name)
	default:
		name := g.pick(g.alerts)
		if g.r.Intn(10) == 0 && len(g.rec) > 0 { // cross kind: alertname of a recording rule
			name = g.pick(g.rec)
		}
		return g.alertRef(name)
	}
}

func (g *c20Gen) compose(refs []c20Ref, multiline bool) string {
	t := make([]string, len(refs))
	for i, f := range refs {
		t[i] = f.Text
	}
	nl := " "
	if multiline {
		nl = "\n"
	}
	switch len(t) {
	case 1:
		switch g.r.Intn(10) {
		case 0:
			return "sum(" + t[0] + ") by (job)"
		case 1:
			return t[0] + " > 0"
		case 2:
			return "absent(" + t[0] + ")"
		case 3:
			return t[0] + " * 2"
		case 4:
			return "-" + t[0]
		case 5:
			return "(" + t[0] + ")"
		case 6:
			return "topk(3, " + t[0] + ")"
		case 7:
			return "quantile(0.9, " + t[0] + ")"
		case 8:
			return "clamp_min(" + t[0] + ", 0) == 0"
		}
		return t[0]
	case 2:
		switch g.r.Intn(7) {
		case 0:
			return t[0] + nl + "+ " + t[1]
		case 1:
			return t[0] + nl + "/ on(job) " + t[1]
		case 2:
			return t[0] + nl + "and " + t[1]
		case 3:
			return t[0] + nl + "unless " + t[1]
		case 4:
			return "sum(" + t[0] + ") by (job)" + nl + "> scalar(" + t[1] + ")"
		case 5:
			return t[0] + nl + "or " + t[1]
		}
		return t[0] + nl + "* on(job) group_left() " + t[1]
	default:
		if g.r.Intn(2) == 0 {
			return "(" + t[0] + " + " + t[1] + ")" + nl + "/ " + t[2]
		}
		return t[0] + nl + "and " + t[1] + nl + "unless " + t[2]
	}
}

func (g *c20Gen) rule() c20Rule {
	g.nextID++
	r := c20Rule{ID: g.nextID}
	if g.r.Intn(100) < 60 && len(g.rec) > 0 {
		r.Kind = "recording"
		r.Name = g.pick(g.rec)
	} else {
		r.Kind = "alerting"
		r.Name = g.pick(g.alerts)
	}
	g.fillExpr(&r)
	r.Extra = g.r.Intn(32)
	return r
}

func (g *c20Gen) fillExpr(r *c20Rule) {
	n := 1 + []int{0, 0, 0, 0, 1, 1, 1, 2}[g.r.Intn(8)]
	r.Refs = nil
	for i := 0; i < n; i++ {
		r.Refs = append(r.Refs, g.ref())
	}
	r.Style = c20Weighted(g.r, []string{"plain", "single", "double", "literal", "folded"}, []int{45, 15, 10, 20, 10})
	multiline := r.Style == "literal" && g.r.Intn(2) == 0
	r.Expr = g.compose(r.Refs, multiline)
}

func c20Sample(r *rand.Rand, pool []string, n int) []string {
	p := r.Perm(len(pool))
	var out []string
	for i := 0; i < n && i < len(p); i++ {
		out = append(out, pool[p[i]])
	}
	return out
}

// c20DependantCount: how many other base rules certainly select what rule x produces.
func c20DependantCount(s c20Snapshot, x c20Rule) int {
	n := 0
	for _, r := range s.rules() {
		if r.ID == x.ID {
			continue
		}
		if c, _ := r.class(x.Kind, x.Name); c == c20Must {
			n++
		}
	}
	return n
}

// c20GenCase builds one history. mode: 0 = random subset of rules/files removed,
// 1,2 = 1-4 edit operations aimed at providers with dependants, 3 = the same over two commits.
func c20GenCase(rnd *rand.Rand, mode int) c20Case {
	g := &c20Gen{r: rnd}
	g.rec = c20Sample(rnd, c20RecPool, 2+rnd.Intn(3))
	g.alerts = c20Sample(rnd, c20AlertPool, 2+rnd.Intn(2))
	if rnd.Intn(2) == 0 { // a name shared by a recording rule and an alert
		sh := []string{"Shared1", "Shared2"}[rnd.Intn(2)]
		if !c20Contains(g.rec, sh) {
			g.rec = append(g.rec, sh)
		}
		if !c20Contains(g.alerts, sh) {
			g.alerts = append(g.alerts, sh)
		}
	}
	nFiles := 2 + rnd.Intn(4)
	nRules := 4 + rnd.Intn(9)
	paths := c20Sample(rnd, c20Paths, nFiles)
	var base c20Snapshot
	for _, p := range paths {
		f := c20File{Path: p, Indent: []int{0, 2}[rnd.Intn(2)], Header: rnd.Intn(4) == 0}
		ng := 1 + rnd.Intn(2)
		for i := 0; i < ng; i++ {
			f.Groups = append(f.Groups, c20Group{Name: fmt.Sprintf("g%d", i+1)})
		}
		base = append(base, f)
	}
	for i := 0; i < nRules; i++ {
		fi := rnd.Intn(len(base))
		gi := rnd.Intn(len(base[fi].Groups))
		base[fi].Groups[gi].Rules = append(base[fi].Groups[gi].Rules, g.rule())
	}
	cs := c20Case{Base: base}
	head := base.clone()

	pickProvider := func(s c20Snapshot) (c20Rule, bool) {
		rs := s.rules()
		if len(rs) == 0 {
			return c20Rule{}, false
		}
		if rnd.Intn(10) < 7 {
			var with []c20Rule
			for _, r := range rs {
				if c20DependantCount(s, r) > 0 {
					with = append(with, r)
				}
			}
			if len(with) > 0 {
				return with[rnd.Intn(len(with))], true
			}
		}
		return rs[rnd.Intn(len(rs))], true
	}
	delFile := func(s c20Snapshot, i int) c20Snapshot {
		if len(s) <= 1 {
			return s
		}
		return append(s[:i:i], s[i+1:]...)
	}
	applyOp := func(s c20Snapshot) c20Snapshot {
		op := c20Weighted(rnd,
			[]string{"del-rule", "del-all-named", "del-file", "rename-rule", "move-rule", "del-with-dependants", "del-and-replace", "git-rename-file", "kind-swap", "drop-dependency", "add-dependant", "touch", "empty-file", "reorder", "del-rule-next-to-broken-rule"},
			[]int{35, 8, 10, 10, 8, 6, 6, 6, 5, 5, 4, 4, 3, 3, 8})
		x, ok := pickProvider(s)
		if !ok {
			return s
		}
		note := op
		switch op {
		case "del-rule":
			s.removeIDs(map[int]bool{x.ID: true})
			note += fmt.Sprintf(" %s %q", x.Kind, x.Name)
		case "del-rule-next-to-broken-rule":
			// the file the rule is removed from also gains a rule pint cannot parse (the file itself stays readable)
			for fi := range s {
				for _, gr := range s[fi].Groups {
					for _, r := range gr.Rules {
						if r.ID == x.ID {
							s[fi].Broken = true
							note += " in " + s[fi].Path
						}
					}
				}
			}
			s.removeIDs(map[int]bool{x.ID: true})
			note += fmt.Sprintf(" %s %q", x.Kind, x.Name)
		case "del-all-named":
			ids := map[int]bool{}
			for _, r := range s.rules() {
				if r.Kind == x.Kind && r.Name == x.Name {
					ids[r.ID] = true
				}
			}
			s.removeIDs(ids)
			note += fmt.Sprintf(" %s %q (%d rules)", x.Kind, x.Name, len(ids))
		case "del-file":
			fi := rnd.Intn(len(s))
			if rnd.Intn(2) == 0 {
				for i, f := range s {
					for _, gr := range f.Groups {
						for _, r := range gr.Rules {
							if r.ID == x.ID {
								fi = i
							}
						}
					}
				}
			}
			note += " " + s[fi].Path
			s = delFile(s, fi)
		case "rename-rule":
			s.mutate(x.ID, func(r *c20Rule) { r.Name = r.Name + "_v2" })
			if x.Kind == "alerting" && !c20ValidMetric(x.Name) {
				s.mutate(x.ID, func(r *c20Rule) { r.Name = x.Name + " v2" })
			}
			note += fmt.Sprintf(" %s %q", x.Kind, x.Name)
		case "move-rule":
			s.removeIDs(map[int]bool{x.ID: true})
			fi := rnd.Intn(len(s))
			if len(s[fi].Groups) == 0 {
				s[fi].Groups = append(s[fi].Groups, c20Group{Name: "moved"})
			}
			gi := rnd.Intn(len(s[fi].Groups))
			s[fi].Groups[gi].Rules = append(s[fi].Groups[gi].Rules, x)
			note += fmt.Sprintf(" %s %q -> %s", x.Kind, x.Name, s[fi].Path)
		case "del-with-dependants":
			ids := map[int]bool{x.ID: true}
			all := rnd.Intn(2) == 0
			for _, r := range s.rules() {
				if c, _ := r.class(x.Kind, x.Name); c == c20Must && (all || rnd.Intn(2) == 0) {
					ids[r.ID] = true
				}
			}
			s.removeIDs(ids)
			note += fmt.Sprintf(" %s %q (+%d dependants)", x.Kind, x.Name, len(ids)-1)
		case "del-and-replace":
			s.removeIDs(map[int]bool{x.ID: true})
			g.nextID++
			nr := c20Rule{ID: g.nextID, Kind: x.Kind, Name: x.Name, Extra: rnd.Intn(32)}
			g.fillExpr(&nr)
			fi := rnd.Intn(len(s))
			if len(s[fi].Groups) == 0 {
				s[fi].Groups = append(s[fi].Groups, c20Group{Name: "repl"})
			}
			gi := rnd.Intn(len(s[fi].Groups))
			s[fi].Groups[gi].Rules = append(s[fi].Groups[gi].Rules, nr)
			note += fmt.Sprintf(" %s %q -> new rule in %s", x.Kind, x.Name, s[fi].Path)
		case "git-rename-file":
			fi := rnd.Intn(len(s))
			np := g.pick([]string{"moved/", "rules/renamed_", "rules/old/"}) + strings.ReplaceAll(s[fi].Path, "/", "_")
			if s.fileIndex(np) < 0 {
				note += " " + s[fi].Path + " -> " + np
				s[fi].Path = np
			}
		case "kind-swap":
			s.mutate(x.ID, func(r *c20Rule) {
				if r.Kind == "recording" {
					r.Kind = "alerting"
				} else if c20ValidMetric(r.Name) {
					r.Kind = "recording"
				}
			})
			note += fmt.Sprintf(" %s %q", x.Kind, x.Name)
		case "drop-dependency":
			for _, r := range s.rules() {
				if c, _ := r.class(x.Kind, x.Name); c == c20Must && r.ID != x.ID {
					s.mutate(r.ID, func(rr *c20Rule) {
						rr.Refs = []c20Ref{{Shape: "plain-base", Metric: "up", Text: "up"}}
						rr.Expr = "up == 0"
						rr.Style = "plain"
					})
					note += fmt.Sprintf(" rule %q no longer uses %q", r.Name, x.Name)
					break
				}
			}
		case "add-dependant":
			g.nextID++
			nr := c20Rule{ID: g.nextID, Kind: "recording", Name: "new:dependant", Extra: rnd.Intn(32), Style: "plain"}
			if x.Kind == "recording" {
				nr.Refs = []c20Ref{{Shape: "plain", Metric: x.Name, Text: x.Name}}
			} else {
				nr.Refs = []c20Ref{{Shape: "alerts-eq", Metric: "ALERTS", AlertOp: "=", AlertVal: x.Name, Text: `ALERTS{alertname="` + x.Name + `"}`}}
			}
			nr.Expr = "sum(" + nr.Refs[0].Text + ")"
			fi := rnd.Intn(len(s))
			if len(s[fi].Groups) == 0 {
				s[fi].Groups = append(s[fi].Groups, c20Group{Name: "added"})
			}
			s[fi].Groups[0].Rules = append(s[fi].Groups[0].Rules, nr)
			note += fmt.Sprintf(" on %s %q in %s", x.Kind, x.Name, s[fi].Path)
		case "touch":
			s.mutate(x.ID, func(r *c20Rule) { r.Extra ^= 1 })
			note += fmt.Sprintf(" %s %q", x.Kind, x.Name)
		case "empty-file":
			fi := rnd.Intn(len(s))
			if rnd.Intn(2) == 0 {
				s[fi].Groups = nil
			} else {
				for gi := range s[fi].Groups {
					s[fi].Groups[gi].Rules = nil
				}
			}
			note += " " + s[fi].Path
		case "reorder":
			fi := rnd.Intn(len(s))
			for gi := range s[fi].Groups {
				rs := s[fi].Groups[gi].Rules
				rnd.Shuffle(len(rs), func(a, b int) { rs[a], rs[b] = rs[b], rs[a] })
			}
			note += " " + s[fi].Path
		}
		cs.Ops = append(cs.Ops, note)
		return s
	}

	switch mode {
	case 0:
		p := []float64{0.2, 0.5, 0.8}[rnd.Intn(3)]
		ids := map[int]bool{}
		for _, r := range head.rules() {
			if rnd.Float64() < p {
				ids[r.ID] = true
			}
		}
		head.removeIDs(ids)
		for i := len(head) - 1; i >= 0; i-- {
			if rnd.Intn(100) < 15 {
				cs.Ops = append(cs.Ops, "del-file "+head[i].Path)
				head = delFile(head, i)
			}
		}
		cs.Ops = append(cs.Ops, fmt.Sprintf("subset: %d rules removed with p=%.1f", len(ids), p))
		cs.Commits = []c20Snapshot{head}
	case 1, 2:
		n := 1 + rnd.Intn(4)
		for i := 0; i < n; i++ {
			head = applyOp(head)
		}
		cs.Commits = []c20Snapshot{head}
	default:
		n1 := 1 + rnd.Intn(3)
		for i := 0; i < n1; i++ {
			head = applyOp(head)
		}
		first := head.clone()
		cs.Ops = append(cs.Ops, "-- commit --")
		if rnd.Intn(3) == 0 {
			// second commit restores one base file
			bf := base[rnd.Intn(len(base))]
			second := first.clone()
			if i := second.fileIndex(bf.Path); i >= 0 {
				second[i] = base.clone()[base.fileIndex(bf.Path)]
			} else {
				second = append(second, base.clone()[base.fileIndex(bf.Path)])
			}
			cs.Ops = append(cs.Ops, "restore "+bf.Path+" from base")
			cs.Commits = []c20Snapshot{first, second}
		} else {
			n2 := 1 + rnd.Intn(2)
			for i := 0; i < n2; i++ {
				head = applyOp(head)
			}
			cs.Commits = []c20Snapshot{first, head}
		}
	}
	return cs
}

func c20Contains(xs []string, s string) bool {
	for _, x := range xs {
		if x == s {
			return true
		}
	}
	return false
}
