package props

import (
	"bytes"
	"context"
	"crypto/sha256"
	"fmt"
	"io"
	"log/slog"
	"math/rand"
	"os"
	"path/filepath"
	"regexp"
	"sort"
	"strings"
	"time"

	"github.com/prometheus/client_golang/prometheus"
	"github.com/prometheus/common/model"

	"github.com/cloudflare/pint/internal/checks"
	"github.com/cloudflare/pint/internal/config"
	"github.com/cloudflare/pint/internal/diags"
	"github.com/cloudflare/pint/internal/discovery"
	"github.com/cloudflare/pint/internal/git"
	"github.com/cloudflare/pint/internal/parser"
	"github.com/cloudflare/pint/internal/promapi"
	"github.com/cloudflare/pint/internal/reporter"

	"github.com/cloudflare/pint/verif/core"
	"github.com/cloudflare/pint/verif/gen"
)

func init() { Registry["C11"] = runC11 }

type c11Workload struct {
	Name   string            `json:"name"`
	Files  map[string]string `json:"files"`
	Config string            `json:"config"`
	Online bool              `json:"online"`
	Paths  []string          `json:"paths,omitempty"` // arguments of `pint lint` (default: rules)
	// BinaryOnly: not replayed in process (oracle B feeds Summary.Report itself and so bypasses the line-range repair
	// that the scan workers of the binary apply)
	BinaryOnly bool `json:"binary_only,omitempty"`
}

type c11Case struct {
	Workload   string `json:"workload"`
	Workers    int    `json:"workers"`
	GoMaxProcs int    `json:"gomaxprocs"`
	Jitter     int    `json:"jitter"`
}

// collisionRules: many rules with identical problems, several problems on the same lines from different check
// instances, problems without diagnostics (parse errors), group labels overridden by rules.
func c11CollisionFiles(r *rand.Rand) map[string]string {
	files := map[string]string{}
	for f := 0; f < 3; f++ {
		var b strings.Builder
		b.WriteString("groups:\n")
		for g := 0; g < 2; g++ {
			if g == 0 {
				fmt.Fprintf(&b, "- name: g%d_%d\n  labels:\n    team: infra\n    severity: page\n  rules:\n", f, g)
			} else {
				// no group labels: the two `label "team"` blocks report the same text at two severities
				fmt.Fprintf(&b, "- name: g%d_%d\n  rules:\n", f, g)
			}
			for i := 0; i < 6+r.Intn(6); i++ {
				switch r.Intn(6) {
				case 0:
					fmt.Fprintf(&b, "  - alert: Same\n    expr: up\n    labels:\n      team: \"a b\"\n")
				case 1:
					fmt.Fprintf(&b, "  - alert: Same\n    expr: up\n")
				case 2:
					fmt.Fprintf(&b, "  - record: same:rule\n    expr: sum(foo) without(job)\n    labels:\n      team: \"x y\"\n      severity: \"x y\"\n")
				case 3:
					fmt.Fprintf(&b, "  - alert: Tmpl%d\n    expr: sum(up) by (job) == 0\n    annotations:\n      a: \"{{ $labels.instance }}\"\n      b: \"{{ $labels.instance }}\"\n      c: \"{{ $labels.pod }} {{ $labels.instance }}\"\n", i)
				case 4:
					fmt.Fprintf(&b, "  - alert: Broken%d\n    expr: up ==\n", i)
				case 5:
					fmt.Fprintf(&b, "  - alert: Invalid%d\n    bogus: 1\n    expr: up\n", i)
				}
			}
		}
		files[fmt.Sprintf("rules/f%d.yml", f)] = b.String()
	}
	return files
}

const c11CollisionConfig = `rule {
  label "team" {
    value = "(infra)"
    required = true
  }
  label "team" {
    value = "[a-z]+"
    required = true
    severity = "bug"
  }
  label "severity" {
    value = "(page)"
  }
  reject ".* .*" {
    label_values = true
    annotation_values = true
  }
  reject ".* .*" {
    label_values = true
    severity = "warning"
  }
  annotation "summary" {
    required = true
  }
  aggregate ".+" {
    keep = ["job"]
  }
  name "[a-z:]+" {
  }
  report {
    comment = "same"
    severity = "info"
  }
}
`

func c11Workloads(c *core.Ctx, srvURL string) []c11Workload {
	var ws []c11Workload
	// 1: the repository's YAML fixtures as one directory
	corpus := map[string]string{}
	for i, cf := range gen.ReadCorpus(c.Repo, gen.IsYAMLName) {
		corpus[fmt.Sprintf("rules/%03d_%s", i, strings.ReplaceAll(cf.Name, "/", "_"))] = cf.Data
	}
	ws = append(ws, c11Workload{Name: "corpus", Files: corpus, Config: "parser {\n  relaxed = [\".*\"]\n}\n"})
	// 2..: collision workloads
	nColl := c.N(2, 12)
	for i := 0; i < nColl; i++ {
		ws = append(ws, c11Workload{Name: fmt.Sprintf("collisions%d", i), Files: c11CollisionFiles(c.Rand("c11coll", i)), Config: c11CollisionConfig})
	}
	// the same files reached under several spellings of their path (every spelling is discovered on its own, the
	// reports of the copies tie on everything but the spelling)
	ws = append(ws, c11Workload{Name: "collisions-same-file-twice", Files: c11CollisionFiles(c.Rand("c11coll", 100)), Config: c11CollisionConfig,
		Paths: []string{"rules", "./rules/f0.yml", "rules/../rules/f1.yml", "rules/./f2.yml", "rules/f0.yml"}})
	// files with lone CR line breaks (a line break for YAML, not for pint: key and value positions drift apart, which
	// is where line ranges get repaired on the way from the workers to the summary) and templates in labels
	crFiles := map[string]string{}
	{
		r := c.Rand("c11cr", 0)
		for n, d := range c11CollisionFiles(c.Rand("c11coll", 101)) {
			d = strings.ReplaceAll(d, "    labels:\n      team: \"a b\"\n", "    labels:\n      team: \"a b\"\n      val: '{{ .Value|humanizeDuration }}'\n      v2: 'Some {{$value}} value'\n")
			b := []byte(d)
			// turn the line break after the first line of some rules into a lone CR
			var ends []int
			lineStart := 0
			for i := range b {
				if b[i] == '\n' {
					if strings.HasPrefix(strings.TrimSpace(string(b[lineStart:i])), "- alert:") {
						ends = append(ends, i)
					}
					lineStart = i + 1
				}
			}
			for k := 0; k < 6 && len(ends) > 0; k++ {
				b[ends[r.Intn(len(ends))]] = '\r'
			}
			crFiles[n] = string(b)
		}
	}
	ws = append(ws, c11Workload{Name: "collisions-lone-cr", Files: crFiles, Config: c11CollisionConfig, BinaryOnly: true})
	// online: rules that differ only in `offset`, recorded under one name, with many other readers of the same
	// expressions (a check that changed the shared query tree of a rule would be seen by whichever job runs after it)
	{
		var b strings.Builder
		b.WriteString("groups:\n- name: offsets\n  rules:\n")
		for i := 0; i < 6; i++ {
			m := []string{"errors_total", "requests_total", "foo"}[i%3]
			fmt.Fprintf(&b, "  - record: same:rule%d\n    expr: sum(%s offset %dm)\n", i%3, m, 5+i)
			fmt.Fprintf(&b, "  - record: same:rule%d\n    expr: sum(%s)\n", i%3, m)
			fmt.Fprintf(&b, "  - alert: Off%d\n    expr: %s offset 1h == 0 or rate(%s[5m] offset 10m) > 1\n    for: 5m\n", i, m, m)
		}
		ws = append(ws, c11Workload{Name: "online-offsets", Files: map[string]string{"rules/offsets.yml": b.String()},
			Config: fmt.Sprintf("prometheus \"prom\" {\n  uri = %q\n  timeout = \"30s\"\n}\n", srvURL), Online: true, BinaryOnly: true})
	}
	// online scenario: promapi's cache, key locks and worker pool under contention
	ws = append(ws, c11Workload{Name: "scenario-online", Files: scenarioRules(srvURL), Config: scenarioConfig(srvURL, 0), Online: true})
	ws = append(ws, c11Workload{Name: "scenario-offline", Files: scenarioRules(srvURL), Config: scenarioConfig("", 3)})
	return ws
}

var raceBlockRe = regexp.MustCompile(`(?s)WARNING: DATA RACE.*?==================`)

func raceSignatures(stderr string) []string {
	var out []string
	for _, blk := range raceBlockRe.FindAllString(stderr, -1) {
		var frames []string
		for _, m := range pintFrameLineRe.FindAllStringSubmatch(blk, -1) {
			frames = append(frames, strings.TrimPrefix(m[1], "github.com/cloudflare/pint/"))
			if len(frames) == 2 {
				break
			}
		}
		out = append(out, strings.Join(frames, "|"))
	}
	return out
}

var pintFrameLineRe = regexp.MustCompile(`(?m)^\s+(github\.com/cloudflare/pint/[^\s(]+)\(`)

type c11RunOut struct {
	console string
	json    string
	exit    int
	arrival string
	races   []string
	fail    string
	ties    int
	reports int
}

func stripRace(stderr string) string {
	return raceBlockRe.ReplaceAllString(stderr, "")
}

func c11Run(c *core.Ctx, w c11Workload, cs c11Case, dir string) c11RunOut {
	var global []string
	if !w.Online {
		global = append(global, "--offline")
	}
	global = append(global, "--workers", fmt.Sprint(cs.Workers))
	out := c11RunOut{}
	paths := w.Paths
	if len(paths) == 0 {
		paths = []string{"rules"}
	}
	res := RunLintIn(c, dir, nil, LintOpts{
		Config: w.Config, Global: global, WantJSON: true, WantDump: true, Paths: paths, Race: true,
		Env:     []string{fmt.Sprintf("GOMAXPROCS=%d", cs.GoMaxProcs), fmt.Sprintf("PINT_VERIF_JITTER=%d", cs.Jitter), "GORACE=halt_on_error=0"},
		Timeout: 180 * time.Second, Args: []string{"--fail-on", "bug"},
	})
	if res.Proc.TimedOut {
		out.fail = "timeout"
		return out
	}
	out.races = raceSignatures(res.Proc.Stderr)
	if res.Proc.Crash != "" && res.Proc.Crash != "race" {
		out.fail = "crash:" + res.Proc.Crash + ":" + res.Proc.CrashSig
		return out
	}
	out.console = stripRace(res.Proc.Stderr)
	out.json = string(res.JSONRaw)
	out.exit = res.Proc.Exit
	if res.Dump != nil {
		var arr []string
		for _, a := range res.Dump.Arrivals {
			arr = append(arr, fmt.Sprintf("%s:%d:%s", a.Path, a.RuleFirst, a.Reporter))
		}
		h := sha256.Sum256([]byte(strings.Join(arr, "\n")))
		out.arrival = fmt.Sprintf("%x", h[:8])
		out.reports = len(res.Dump.Reports)
		seen := map[string]int{}
		for _, r := range res.Dump.Reports {
			seen[fmt.Sprintf("%s|%d-%d|%s|%s|%s", r.Path, r.First, r.Last, r.Severity, r.Reporter, r.Summary)]++
		}
		for _, n := range seen {
			if n > 1 {
				out.ties += n
			}
		}
	}
	return out
}

func firstDiff(a, b string) string {
	al, bl := strings.Split(a, "\n"), strings.Split(b, "\n")
	for i := 0; i < len(al) && i < len(bl); i++ {
		if al[i] != bl[i] {
			return fmt.Sprintf("line %d: %q vs %q", i+1, core.Trunc(al[i], 160), core.Trunc(bl[i], 160))
		}
	}
	return fmt.Sprintf("length %d vs %d lines", len(al), len(bl))
}

func runC11(c *core.Ctx) int {
	run := core.NewRun(c)
	srv := scenarioServer()
	defer srv.Close()
	ws := c11Workloads(c, srv.URL)
	if c.PintRace == "" {
		fmt.Println("INCONCLUSIVE property=C11: no race-instrumented pint binary")
		return core.ExitInconclusive
	}
	workersSet := []int{1, 2, 3, 4, 8, 16, 32, 64}
	procsSet := []int{1, 2, 4, 16}
	nRuns := c.N(20, 120)

	// ---------- Oracle A: the race-instrumented binary under different worker counts, GOMAXPROCS and jitter ----------
	for wi, w := range ws {
		dir := filepath.Join(c.Scratch, "c11-"+w.Name)
		_ = os.MkdirAll(dir, 0o755)
		for n, d := range w.Files {
			p := filepath.Join(dir, n)
			_ = os.MkdirAll(filepath.Dir(p), 0o755)
			_ = os.WriteFile(p, []byte(d), 0o644)
		}
		var cases []c11Case
		cases = append(cases, c11Case{Workload: w.Name, Workers: 1, GoMaxProcs: 1, Jitter: 0})
		r := c.Rand("c11runs", wi)
		for i := 1; i < nRuns; i++ {
			cases = append(cases, c11Case{Workload: w.Name, Workers: workersSet[(i+wi)%len(workersSet)], GoMaxProcs: procsSet[r.Intn(len(procsSet))], Jitter: 1 + r.Intn(1000)})
		}
		outs := make([]c11RunOut, len(cases))
		core.Parallel(len(cases), 4, func(i int) {
			// every run gets its own copy of the directory entry for outputs (.out) but shares the rule files
			sub := filepath.Join(dir, fmt.Sprintf(".run%d", i))
			_ = os.MkdirAll(sub, 0o755)
			_ = os.Symlink(filepath.Join(dir, "rules"), filepath.Join(sub, "rules"))
			outs[i] = c11Run(c, w, cases[i], sub)
		})
		ref := outs[0]
		arrivals := map[string]bool{}
		for i, o := range outs {
			run.Eval(1)
			if o.fail != "" {
				if strings.HasPrefix(o.fail, "crash") {
					run.Violate(core.Violation{Sig: "concurrent-run-" + o.fail, What: fmt.Sprintf("workload %s with %+v: %s", w.Name, cases[i], o.fail), Case: cases[i]})
				} else {
					run.Inconclusive(o.fail)
				}
				continue
			}
			for _, rs := range o.races {
				run.Count("race_reports", 1)
				run.Violate(core.Violation{Sig: "data-race:" + rs, What: fmt.Sprintf("race detector report in workload %s with %+v: %s", w.Name, cases[i], rs), Case: cases[i]})
			}
			arrivals[o.arrival] = true
			if ref.fail != "" {
				continue
			}
			what := ""
			switch {
			case o.exit != ref.exit:
				what = fmt.Sprintf("exit:%d vs %d", ref.exit, o.exit)
			case o.json != ref.json:
				what = "json:" + firstDiff(ref.json, o.json)
			case o.console != ref.console:
				what = "console:" + firstDiff(ref.console, o.console)
			}
			if what != "" {
				kind := strings.SplitN(what, ":", 2)[0]
				wl := w.Name
				if strings.HasPrefix(wl, "collisions") {
					wl = "collisions"
				}
				run.Violate(core.Violation{
					Sig:  fmt.Sprintf("output-depends-on-schedule:%s:%s", kind, wl),
					What: fmt.Sprintf("workload %s: run %+v differs from the reference run (workers=1 GOMAXPROCS=1): %s", w.Name, cases[i], what),
					Case: cases[i], Files: map[string][]byte{"reference.console.txt": []byte(ref.console), "this.console.txt": []byte(o.console), "reference.json": []byte(ref.json), "this.json": []byte(o.json), "pint.hcl": []byte(w.Config)},
				})
			}
		}
		run.Count("distinct_arrival_orders", int64(len(arrivals)))
		run.Count("reports_in_reference_runs", int64(ref.reports))
		run.Count("tied_reports_in_reference_runs", int64(ref.ties))
		if ref.ties >= 2 && len(arrivals) >= 2 {
			run.Nontrivial(fmt.Sprintf("binary:%s:ties=%d", w.Name, min(ref.ties, 50)))
		}
		run.Sample(map[string]any{"workload": w.Name, "files": len(w.Files), "runs": len(cases), "distinct_arrival_orders": len(arrivals), "reports": ref.reports, "tied_reports": ref.ties})
		_ = os.RemoveAll(dir)
	}

	// ---------- Oracle B: all job-order-preserving interleavings of the report stream, in process ----------
	nPerm := c.N(300, 6000)
	for wi, w := range ws {
		if w.BinaryOnly {
			continue
		}
		if w.Online {
			continue
		}
		v, n, ties := c11Permutations(c, w, nPerm, c.Rand("c11perm", wi))
		run.Eval(n)
		run.Count("report_stream_permutations", int64(n))
		for _, x := range v {
			run.Violate(x)
		}
		if ties >= 2 && n > 1 {
			run.Nontrivial(fmt.Sprintf("permutations:%s:ties=%d", w.Name, min(ties, 50)))
		}
	}
	run.Extra("server_requests_seen", srv.Requests.Load())
	run.Assume("stderr at log level error without colours holds only the report text and the final error line; runs are compared byte for byte with the workers=1 GOMAXPROCS=1 run")
	run.Assume("in-process permutations keep the order of problems inside one (entry, check) job: one goroutine produces them into a FIFO channel")
	return run.Finish("exploration",
		"workloads: all YAML fixtures of the repository as one directory, generated files built to collide on sort keys (identical problems on many rules, several check instances reporting on the same lines, parse errors without diagnostics, group labels overridden by rules) and the 'everything fires' scenario offline and online against the engine-backed fake Prometheus. (A) the race-instrumented pint binary is run with --workers 1..64 x GOMAXPROCS 1..16 x jitter seeds (H1 hook delays every job by a seed-determined 0-2 ms and logs report arrival order): console text, JSON and exit status must be byte-identical to the workers=1 run and the race detector must stay silent. (B) in process every (entry, check) job runs once and the report stream is fed to Summary.Report in random job-order-preserving interleavings; console and JSON output after SortReports/Dedup must equal the canonical order. Non-trivial = workload with >=2 reports tying on (path, lines, severity, reporter, summary) and >=2 distinct arrival orders observed.",
		core.Floors{MinEvaluations: 50, MinNontrivial: 2, MaxInconclusiveFrac: 0.05})
}

type c11Job struct {
	reports []reporter.Report
}

func cloneReport(r reporter.Report) reporter.Report {
	r.Problem.Diagnostics = append([]diags.Diagnostic(nil), r.Problem.Diagnostics...)
	r.Duplicates = nil
	r.IsDuplicate = false
	return r
}

func c11Render(jobsOrder [][]reporter.Report) (string, error) {
	var all []reporter.Report
	for _, j := range jobsOrder {
		for _, r := range j {
			all = append(all, cloneReport(r))
		}
	}
	s := reporter.NewSummary(nil)
	s.Report(all...)
	s.SortReports()
	s.Dedup()
	var con, js bytes.Buffer
	if err := reporter.NewConsoleReporter(&con, checks.Information, true, false).Submit(s); err != nil {
		return "", err
	}
	if err := reporter.NewJSONReporter(&js).Submit(s); err != nil {
		return "", err
	}
	return con.String() + "\n=====JSON=====\n" + js.String(), nil
}

func c11Permutations(c *core.Ctx, w c11Workload, nPerm int, r *rand.Rand) (viol []core.Violation, evaluated int, ties int) {
	defer func() {
		if rec := recover(); rec != nil {
			viol = append(viol, core.Violation{Sig: "in-process-panic", What: fmt.Sprintf("panic while running checks in process for workload %s: %v", w.Name, rec)})
		}
	}()
	slog.SetDefault(slog.New(slog.NewTextHandler(io.Discard, nil)))
	dir := filepath.Join(c.Scratch, "c11p-"+w.Name)
	_ = os.MkdirAll(dir, 0o755)
	defer os.RemoveAll(dir)
	for n, d := range w.Files {
		p := filepath.Join(dir, n)
		_ = os.MkdirAll(filepath.Dir(p), 0o755)
		_ = os.WriteFile(p, []byte(d), 0o644)
	}
	cfgPath := filepath.Join(dir, "pint.hcl")
	_ = os.WriteFile(cfgPath, []byte(w.Config), 0o644)
	old, _ := os.Getwd()
	_ = os.Chdir(dir)
	defer os.Chdir(old)
	cfg, _, err := config.Load(cfgPath, true)
	if err != nil {
		return nil, 0, 0
	}
	cfg.DisableOnlineChecks()
	schema := parser.PrometheusSchema
	globPaths := w.Paths
	if len(globPaths) == 0 {
		globPaths = []string{"rules"}
	}
	finder := discovery.NewGlobFinder(globPaths, git.NewPathFilter(config.MustCompileRegexes(cfg.Parser.Include...), config.MustCompileRegexes(cfg.Parser.Exclude...), config.MustCompileRegexes(cfg.Parser.Relaxed...)), schema, model.UTF8Validation, cfg.Owners.CompileAllowed())
	entries, err := finder.Find()
	if err != nil {
		return nil, 0, 0
	}
	gen := config.NewPrometheusGenerator(cfg, prometheus.NewRegistry())
	defer gen.Stop()
	ctx := context.WithValue(context.Background(), config.CommandKey, config.LintCommand)
	ctx = context.WithValue(ctx, promapi.AllPrometheusServers, gen.Servers())
	for _, s := range cfg.Check {
		settings, _ := s.Decode()
		ctx = context.WithValue(ctx, checks.SettingsKey(s.Name), settings)
	}
	var jobs [][]reporter.Report
	for _, entry := range entries {
		for _, check := range cfg.GetChecksForEntry(ctx, gen, entry) {
			var reps []reporter.Report
			for _, p := range check.Check(ctx, entry, entries) {
				reps = append(reps, reporter.Report{Path: entry.Path, ModifiedLines: entry.ModifiedLines, Rule: entry.Rule, Problem: p, Owner: entry.Owner})
			}
			if len(reps) > 0 {
				jobs = append(jobs, reps)
			}
		}
	}
	canon, err := c11Render(jobs)
	if err != nil {
		return nil, 0, 0
	}
	seen := map[string]int{}
	for _, j := range jobs {
		for _, rp := range j {
			seen[fmt.Sprintf("%s|%d-%d|%d|%s|%s", rp.Path.Name, rp.Problem.Lines.First, rp.Problem.Lines.Last, rp.Problem.Severity, rp.Problem.Reporter, rp.Problem.Summary)]++
		}
	}
	for _, n := range seen {
		if n > 1 {
			ties += n
		}
	}
	evaluated = 1
	for k := 0; k < nPerm; k++ {
		// a random interleaving that keeps each job's internal order: shuffle the jobs, then randomly split and merge
		perm := r.Perm(len(jobs))
		order := make([][]reporter.Report, 0, len(jobs)*2)
		// interleave: repeatedly take the next report of a random unfinished job
		idx := make([]int, len(jobs))
		remaining := 0
		for _, j := range jobs {
			remaining += len(j)
		}
		for remaining > 0 {
			j := perm[r.Intn(len(perm))]
			if idx[j] >= len(jobs[j]) {
				continue
			}
			order = append(order, []reporter.Report{jobs[j][idx[j]]})
			idx[j]++
			remaining--
		}
		got, err := c11Render(order)
		evaluated++
		if err != nil {
			continue
		}
		if got != canon {
			wl := w.Name
			if strings.HasPrefix(wl, "collisions") {
				wl = "collisions"
			}
			viol = append(viol, core.Violation{
				Sig:   "output-depends-on-arrival-order:" + wl,
				What:  fmt.Sprintf("workload %s: feeding the same per-job report lists to Summary.Report in another interleaving changes the rendered output: %s", w.Name, firstDiff(canon, got)),
				Case:  map[string]any{"workload": w.Name, "permutation": k},
				Files: map[string][]byte{"canonical.txt": []byte(canon), "permuted.txt": []byte(got), "pint.hcl": []byte(w.Config)},
			})
			if len(viol) >= 3 {
				break
			}
		}
	}
	sort.Slice(viol, func(i, j int) bool { return viol[i].Sig < viol[j].Sig })
	return viol, evaluated, ties
}
