package props

import (
	"encoding/json"
	"fmt"
	"math/rand"
	"os"
	"path/filepath"
	"strings"
	"time"

	"github.com/prometheus/common/model"

	"github.com/cloudflare/pint/internal/parser"

	"github.com/cloudflare/pint/verif/core"
)

func init() { Registry["C10"] = runC10 }

type c10Case struct {
	Base    int      `json:"base"`  // index of the base file
	Gap     int      `json:"gap"`   // lines are inserted before this 0-based line index
	Seq     []string `json:"seq"`   // inserted lines, variant A
	SeqB    []string `json:"seq_b"` // inserted lines, variant B (excluded text replaced)
	Mask    []string `json:"mask"`  // per inserted line: visible | excluded | prefix-excluded
	Strict  bool     `json:"strict"`
	SameLen bool     `json:"same_length"` // replacements keep the byte length of the excluded text
	Binary  bool     `json:"binary"`      // also compare the problems reported by the pint binary
}

var c10Bases = []string{
	`groups:
- name: g
  rules:
  - alert: A
    expr: up == 0
    labels:
      severity: page
  - record: r
    expr: |
      sum(up)
      by (job)
  - alert: B
    expr: foo > 1
    annotations:
      summary: "{{ $labels.job }}"
`,
	`- record: one
  expr: sum(foo) without(instance)
- alert: two
  expr: >-
    bar
    > 0
  for: 5m
`,
}

// gaps (0-based index of the line the insertion goes in front of) that lie inside a multi-line scalar of the base
var c10InsideScalar = []map[int]bool{
	// (the gap right after the last content line counts too: a masked line indented by spaces continues the scalar)
	{9: true, 10: true, 11: true},
	{4: true, 5: true, 6: true},
}

// tokens of the line alphabet
var c10Alphabet = []string{
	"# pint ignore/begin",
	"# pint ignore/end",
	"# pint ignore/next-line",
	"{% jinja %} # pint ignore/line",
	"# pint ignore/file",
	"# pint file/disable promql/series",
	"# pint file/owner bob",
	"# pint disable promql/rate",
	"# pint disable",
	"{% set x = \"y\" %}",
	"  - alert: Fake",
	"# plain comment",
	"key: \"unterminated # pint ignore/line",
	"",
	"{% jinja «ü» – żółć %} # pint ignore/line",
}

var c10Payloads = []string{
	"{{ if .Values.x }}",
	"{%- for a in b %}",
	"- alert: Injected\n",
	"    expr: up",
	"\t\ttabs: [unbalanced",
	"# pint file/disable alerts/template",
	"# pint file/owner mallory",
	"# pint file/snooze 2099-01-01 promql/series",
	"# pint snooze 2099-01-01 promql/series",
	"# pint rule/owner eve",
	"# pint rule/set promql/series ignore/label-value foo",
	"# pint ignore/next-line",
	"# pint ignore/begin",
	"# pint ignore/line",
	"x: 'it''s # not a comment' # pint disable promql/series",
	"a very long line " + strings.Repeat("z", 200),
	"x",
	"",
	"groups: [",
	"&anchor *alias <<: !!binary",
	"{{ żółć }} «x» – 日本語",
	"# komentarz – ąę # pint ignore/line",
	// longer than any read buffer (the reader must mask a line as a whole, however long it is)
	"{% set hosts = [" + strings.Repeat("'host-0123456789.example.com', ", 160) + "] %}",
	"- alert: " + strings.Repeat("VeryLongInjectedName", 700),
	// line breaks YAML knows and the line reader does not
	"{% if x %}\r- alert: Fake\r  expr: up\r{% endif %}",
	"key: [unclosed\rother: 'quote",
	"a\u2028b: [\u0085c",
}

func lineHas(line, what string) bool {
	i := strings.Index(line, "#")
	if i < 0 {
		return false
	}
	rest := strings.TrimSpace(line[i+1:])
	return strings.HasPrefix(rest, "pint "+what) && (len(rest) == len("pint "+what) || rest[len("pint "+what)] == ' ')
}

// c10Reference computes, for a whole file, which lines are excluded (opaque to their content).
// mask: 0 visible, 1 whole line excluded, 2 text before the ignore/line comment excluded.
func c10Reference(lines []string) []int {
	mask := make([]int, len(lines))
	inBlock, skipNext, fileIgnored := false, false, false
	for i, l := range lines {
		switch {
		case fileIgnored:
			mask[i] = 1
		case inBlock:
			if lineHas(l, "ignore/end") {
				inBlock = false
			} else {
				mask[i] = 1
			}
		case skipNext:
			mask[i] = 1
			skipNext = false
		default:
			switch {
			case lineHas(l, "ignore/file"):
				fileIgnored = true
			case lineHas(l, "ignore/line"):
				mask[i] = 2
			case lineHas(l, "ignore/begin"):
				inBlock = true
			case lineHas(l, "ignore/next-line"):
				skipNext = true
			}
		}
	}
	return mask
}

// c10Summary is everything the property says must not depend on excluded text.
type c10Summary struct {
	Error       string   `json:"error"`
	ErrorLine   int      `json:"error_line"`
	Comments    []string `json:"comments"`
	Diagnostics []string `json:"diagnostics"`
	Rules       []string `json:"rules"`
	TotalLines  int      `json:"total_lines"`
}

func c10Parse(content string, strict bool) (s c10Summary, panicked string) {
	defer func() {
		if r := recover(); r != nil {
			panicked = fmt.Sprint(r)
		}
	}()
	p := parser.NewParser(strict, parser.PrometheusSchema, model.UTF8Validation)
	f := p.Parse(strings.NewReader(content))
	if f.Error.Err != nil {
		s.Error = f.Error.Err.Error()
		s.ErrorLine = f.Error.Line
	}
	s.TotalLines = f.TotalLines
	for _, c := range f.Comments {
		v := ""
		if c.Value != nil {
			v = c.Value.String()
		}
		s.Comments = append(s.Comments, fmt.Sprintf("%d:%s@%d", c.Type, v, c.Offset))
	}
	for _, d := range f.Diagnostics {
		s.Diagnostics = append(s.Diagnostics, fmt.Sprintf("%s %v %d-%d", d.Message, d.Pos, d.FirstColumn, d.LastColumn))
	}
	for _, g := range f.Groups {
		ge := ""
		if g.Error.Err != nil {
			ge = fmt.Sprintf("%d:%s", g.Error.Line, g.Error.Err)
		}
		s.Rules = append(s.Rules, "group "+g.Name+" err="+ge)
		for _, r := range g.Rules {
			b, _ := json.Marshal(ruleSummary(r))
			s.Rules = append(s.Rules, string(b))
		}
	}
	return s, ""
}

func ruleSummary(r parser.Rule) map[string]any {
	node := func(n *parser.YamlNode) any {
		if n == nil {
			return nil
		}
		return map[string]any{"v": n.Value, "p": fmt.Sprint(n.Pos)}
	}
	ym := func(m *parser.YamlMap) any {
		if m == nil {
			return nil
		}
		var items []any
		for _, it := range m.Items {
			items = append(items, []any{node(it.Key), node(it.Value)})
		}
		return map[string]any{"key": node(m.Key), "items": items}
	}
	out := map[string]any{"type": string(r.Type()), "first": r.Lines.First, "last": r.Lines.Last}
	if r.Error.Err != nil {
		out["err"] = fmt.Sprintf("%d:%s", r.Error.Line, r.Error.Err)
	}
	var cs []string
	for _, c := range r.Comments {
		v := ""
		if c.Value != nil {
			v = c.Value.String()
		}
		cs = append(cs, fmt.Sprintf("%d:%s", c.Type, v))
	}
	out["comments"] = cs
	if rr := r.RecordingRule; rr != nil {
		out["record"] = node(&rr.Record)
		out["expr"] = node(rr.Expr.Value)
		out["labels"] = ym(rr.Labels)
	}
	if ar := r.AlertingRule; ar != nil {
		out["alert"] = node(&ar.Alert)
		out["expr"] = node(ar.Expr.Value)
		out["for"] = node(ar.For)
		out["kff"] = node(ar.KeepFiringFor)
		out["labels"] = ym(ar.Labels)
		out["annotations"] = ym(ar.Annotations)
	}
	return out
}

func c10Build(base string, gap int, seq []string) (string, []string) {
	lines := strings.Split(strings.TrimSuffix(base, "\n"), "\n")
	var out []string
	out = append(out, lines[:gap]...)
	out = append(out, seq...)
	out = append(out, lines[gap:]...)
	return strings.Join(out, "\n") + "\n", out
}

// c10MakeB replaces the excluded text of the inserted lines (positions gap..gap+len(seq)) by other text.
func fitLen(s string, n int) string {
	if len(s) >= n {
		return s[:n]
	}
	return s + strings.Repeat(" ", n-len(s))
}

func c10MakeB(r *rand.Rand, all []string, mask []int, gap, n int, sameLen bool) (seqB []string, maskNames []string, differs bool) {
	for i := gap; i < gap+n; i++ {
		l := all[i]
		switch mask[i] {
		case 1:
			// any other single line that does not terminate a block
			for {
				var cand string
				if r.Intn(2) == 0 {
					cand = c10Alphabet[r.Intn(len(c10Alphabet))]
				} else {
					cand = c10Payloads[r.Intn(len(c10Payloads))]
				}
				cand = strings.TrimSuffix(cand, "\n")
				if sameLen {
					cand = fitLen(cand, len(l))
				}
				if lineHas(cand, "ignore/end") {
					continue
				}
				if cand != l {
					differs = true
				}
				l = cand
				break
			}
			maskNames = append(maskNames, "excluded")
		case 2:
			idx := strings.Index(l, "#")
			prefix := []string{"{{ other }} ", "key: [broken ", "", "- alert: Zed ", "'unterminated "}[r.Intn(5)]
			if sameLen {
				prefix = fitLen(prefix, idx)
			}
			if prefix != l[:idx] {
				differs = true
			}
			l = prefix + l[idx:]
			maskNames = append(maskNames, "prefix-excluded")
		default:
			maskNames = append(maskNames, "visible")
		}
		seqB = append(seqB, l)
	}
	return seqB, maskNames, differs
}

// ---- second relation of the statement: inserting an excluded block between rules only shifts what follows ----

// gaps of each base that lie between rules (0-based index of the line the block goes in front of; len = at the end)
var c10RuleGaps = [][]int{{3, 7, 15}, {0, 2, 7}}

type c10InsCase struct {
	Base   int      `json:"base"`
	Gap    int      `json:"gap"`
	Seq    []string `json:"inserted"`
	Units  string   `json:"units"`
	Strict bool     `json:"strict"`
}

// c10ShiftedRules: the rules of a parsed file as comparable strings (values, positions, line ranges, errors), with
// every line number above `after` moved by `by`. Control comments are not compared: a kept `# pint ignore/line`
// is a comment of its own.
func c10ShiftedRules(content string, strict bool, after, by int) (out []string, fileErr string, panicked string) {
	defer func() {
		if r := recover(); r != nil {
			panicked = fmt.Sprint(r)
		}
	}()
	sh := func(l int) int {
		if l > after {
			return l + by
		}
		return l
	}
	p := parser.NewParser(strict, parser.PrometheusSchema, model.UTF8Validation)
	f := p.Parse(strings.NewReader(content))
	if f.Error.Err != nil {
		fileErr = fmt.Sprintf("%d:%s", sh(f.Error.Line), f.Error.Err)
	}
	node := func(name string, n *parser.YamlNode) string {
		if n == nil {
			return name + "=nil"
		}
		var ps []string
		for _, r := range n.Pos {
			ps = append(ps, fmt.Sprintf("%d:%d-%d", sh(r.Line), r.FirstColumn, r.LastColumn))
		}
		return fmt.Sprintf("%s=%q@%s", name, n.Value, strings.Join(ps, ","))
	}
	ym := func(name string, m *parser.YamlMap) string {
		if m == nil {
			return name + "=nil"
		}
		var items []string
		for _, it := range m.Items {
			items = append(items, node("k", it.Key)+" "+node("v", it.Value))
		}
		return name + "{" + strings.Join(items, "; ") + "}"
	}
	for _, g := range f.Groups {
		ge := ""
		if g.Error.Err != nil {
			ge = fmt.Sprintf("%d:%s", sh(g.Error.Line), g.Error.Err)
		}
		out = append(out, "group "+g.Name+" err="+ge)
		for _, r := range g.Rules {
			parts := []string{string(r.Type()), fmt.Sprintf("lines=%d-%d", sh(r.Lines.First), sh(r.Lines.Last))}
			if r.Error.Err != nil {
				parts = append(parts, fmt.Sprintf("err=%d:%s", sh(r.Error.Line), r.Error.Err))
			}
			if rr := r.RecordingRule; rr != nil {
				parts = append(parts, node("record", &rr.Record), node("expr", rr.Expr.Value), ym("labels", rr.Labels))
			}
			if ar := r.AlertingRule; ar != nil {
				parts = append(parts, node("alert", &ar.Alert), node("expr", ar.Expr.Value), node("for", ar.For), node("kff", ar.KeepFiringFor), ym("labels", ar.Labels), ym("annotations", ar.Annotations))
			}
			out = append(out, strings.Join(parts, " | "))
		}
	}
	return out, fileErr, ""
}

func c10InsCheck(cs c10InsCase) (viol []core.Violation) {
	base := c10Bases[cs.Base]
	ins, _ := c10Build(base, cs.Gap, cs.Seq)
	files := map[string][]byte{"base.yml": []byte(base), "inserted.yml": []byte(ins)}
	want, we, p1 := c10ShiftedRules(base, cs.Strict, cs.Gap, len(cs.Seq))
	got, ge, p2 := c10ShiftedRules(ins, cs.Strict, 0, 0)
	if p1 != "" || p2 != "" {
		return []core.Violation{{Sig: "parser-panic", What: "parser panicked: " + p1 + p2, Case: cs, Files: files}}
	}
	if we != ge || strings.Join(want, "\n") != strings.Join(got, "\n") {
		what := "rules-differ"
		switch {
		case we != ge:
			what = "file-error"
		case len(got) < len(want):
			what = "rules-vanish"
		case len(got) > len(want):
			what = "rules-appear"
		}
		first := ""
		for i := 0; i < len(want) || i < len(got); i++ {
			w, g := "<none>", "<none>"
			if i < len(want) {
				w = want[i]
			}
			if i < len(got) {
				g = got[i]
			}
			if w != g {
				first = fmt.Sprintf("first difference at #%d: without the block (shifted) %s ;; with it %s", i, core.Trunc(w, 300), core.Trunc(g, 300))
				break
			}
		}
		viol = append(viol, core.Violation{
			Sig:   "inserted-excluded-block-changes-what-follows:" + what + ":" + cs.Units,
			What:  fmt.Sprintf("inserting the excluded block %q in front of line %d changes more than line numbers (file error %q vs %q, %d vs %d rules); %s", cs.Seq, cs.Gap+1, we, ge, len(want), len(got), first),
			Case:  cs,
			Files: files,
		})
	}
	return viol
}

// c10InsCases: sequences of one to three exclusion units (begin..end with 0-2 payload lines, payload + ignore/line,
// ignore/next-line + payload) at every between-rules gap of every base.
func c10InsCases(c *core.Ctx) (cases []c10InsCase) {
	kinds := []string{"block", "line", "next"}
	var rec func(cur []string)
	var seqs [][]string
	rec = func(cur []string) {
		if len(cur) > 0 {
			seqs = append(seqs, append([]string{}, cur...))
		}
		if len(cur) == 3 {
			return
		}
		for _, k := range kinds {
			rec(append(cur, k))
		}
	}
	rec(nil)
	per := c.N(4, 40)
	n := 0
	for _, kindSeq := range seqs {
		for bi := range c10Bases {
			for _, gap := range c10RuleGaps[bi] {
				for v := 0; v < per; v++ {
					r := c.Rand("c10ins", n)
					n++
					pay := func() string {
						for {
							p := strings.TrimSuffix(c10Payloads[r.Intn(len(c10Payloads))], "\n")
							if !lineHas(p, "ignore/end") && !lineHas(p, "ignore/file") && !strings.Contains(p, "ignore/line") {
								return p
							}
						}
					}
					var seq []string
					for _, k := range kindSeq {
						switch k {
						case "block":
							seq = append(seq, "# pint ignore/begin")
							for i := r.Intn(3); i > 0; i-- {
								seq = append(seq, pay())
							}
							seq = append(seq, "# pint ignore/end")
						case "line":
							// (a payload with a `#` of its own would make the ignore/line part of that comment)
							pl := pay()
							for strings.Contains(pl, "#") {
								pl = pay()
							}
							seq = append(seq, pl+" # pint ignore/line")
						case "next":
							seq = append(seq, "# pint ignore/next-line", pay())
						}
					}
					cases = append(cases, c10InsCase{Base: bi, Gap: gap, Seq: seq, Units: strings.Join(kindSeq, "+"), Strict: r.Intn(2) == 0})
				}
			}
		}
	}
	return cases
}

type c10Outcome struct {
	viol       []core.Violation
	nontrivial string
}

func c10Check(c *core.Ctx, cs c10Case) c10Outcome {
	out := c10Outcome{}
	base := c10Bases[cs.Base]
	a, _ := c10Build(base, cs.Gap, cs.Seq)
	b, _ := c10Build(base, cs.Gap, cs.SeqB)
	sa, pa := c10Parse(a, cs.Strict)
	sb, pb := c10Parse(b, cs.Strict)
	files := map[string][]byte{"a.yml": []byte(a), "b.yml": []byte(b)}
	if pa != "" || pb != "" {
		out.viol = append(out.viol, core.Violation{Sig: "parser-panic", What: "parser panicked: " + pa + pb, Case: cs, Files: files})
		return out
	}
	ja, _ := json.Marshal(sa)
	jb, _ := json.Marshal(sb)
	if string(ja) != string(jb) {
		what := "rules"
		switch {
		case sa.Error != sb.Error || sa.ErrorLine != sb.ErrorLine:
			what = "file-error"
		case fmt.Sprint(sa.Comments) != fmt.Sprint(sb.Comments):
			what = "file-comments"
		case fmt.Sprint(sa.Diagnostics) != fmt.Sprint(sb.Diagnostics):
			what = "diagnostics"
		}
		out.viol = append(out.viol, core.Violation{
			Sig:   fmt.Sprintf("excluded-text-influences:%s:%s", what, c10Where(cs)),
			What:  fmt.Sprintf("two files differing only in excluded text parse differently (%s): A=%s B=%s", what, core.Trunc(string(ja), 700), core.Trunc(string(jb), 700)),
			Case:  cs,
			Files: files,
		})
	}
	if cs.Binary {
		opts := LintOpts{Global: []string{"--offline"}, WantDump: true, Timeout: 30 * time.Second}
		if !cs.Strict {
			opts.Config = "parser {\n  relaxed = [\".*\"]\n}\n"
		}
		ra := RunLint(c, map[string]string{"rules.yml": a}, opts)
		rb := RunLint(c, map[string]string{"rules.yml": b}, opts)
		if ra.Dump != nil && rb.Dump != nil && ra.Proc.Crash == "" && rb.Proc.Crash == "" {
			missing, extra := diffMultiset(multiset(ra.Dump.Reports, nil), multiset(rb.Dump.Reports, nil))
			if len(missing)+len(extra) > 0 {
				out.viol = append(out.viol, core.Violation{
					Sig:   "excluded-text-influences:problems:" + c10Where(cs),
					What:  fmt.Sprintf("pint reports different problems for two files differing only in excluded text. only A: %s | only B: %s", core.Trunc(strings.Join(missing, " ;; "), 500), core.Trunc(strings.Join(extra, " ;; "), 500)),
					Case:  cs,
					Files: files,
				})
			}
		}
	}
	out.nontrivial = c10Shape(cs)
	return out
}

// c10Where: inside a multi-line scalar the masked bytes are part of a value (YAML has no comments there), which is a
// different mechanism from exclusion between YAML lines.
func c10Where(cs c10Case) string {
	if !cs.SameLen {
		// excluded bytes are replaced by spaces, so the LENGTH of excluded text stays observable (columns of the
		// comments that follow it, width of a masked line inside a block scalar): one mechanism, one signature
		if c10InsideScalar[cs.Base][cs.Gap] {
			return "length-differs:inside-multiline-scalar"
		}
		return "length-differs:between-lines"
	}
	// a `# pint ignore/begin` on a line strictly inside an ignore/begin block is an excluded line, but the reader
	// keeps that comment visible to the YAML decoder (pinned by TestReadContent/21 and /23): one mechanism
	for _, seq := range [][]string{cs.Seq, cs.SeqB} {
		for i, l := range seq {
			if i < len(cs.Mask) && cs.Mask[i] == "excluded" && lineHas(l, "ignore/begin") {
				return "same-length:nested-ignore/begin-kept-visible"
			}
		}
	}
	if c10InsideScalar[cs.Base][cs.Gap] {
		return "same-length:inside-multiline-scalar:" + c10Shape(cs)
	}
	return "same-length:between-lines:" + c10Shape(cs)
}

// c10Shape abstracts a case to its sequence of line kinds and masks.
func c10Shape(cs c10Case) string {
	var parts []string
	for i, l := range cs.Seq {
		k := "text"
		for _, w := range []string{"ignore/begin", "ignore/end", "ignore/next-line", "ignore/line", "ignore/file", "file/disable", "file/owner", "disable"} {
			if lineHas(l, w) {
				k = w
				break
			}
		}
		m := "?"
		if i < len(cs.Mask) {
			m = cs.Mask[i][:1]
		}
		parts = append(parts, k+"/"+m)
	}
	return strings.Join(parts, ",")
}

func runC10(c *core.Ctx) int {
	run := core.NewRun(c)
	if c.Replay != "" {
		var cs c10Case
		if err := core.LoadCase(c.Replay, &cs); err != nil {
			fmt.Println("cannot load case:", err)
			return core.ExitInconclusive
		}
		o := c10Check(c, cs)
		for _, v := range o.viol {
			fmt.Println("REPLAY violated:", v.Sig, v.What)
		}
		if len(o.viol) > 0 {
			return 1
		}
		fmt.Println("REPLAY held")
		return 0
	}
	maxLen := c.N(3, 4)
	var cases []c10Case
	// bounded-exhaustive: every sequence of up to maxLen alphabet lines (thinned by a seed-determined stride in the
	// quick tier) at a seed-chosen gap of each base, each with replacement variants
	type seqT []int
	var seqs []seqT
	var rec func(cur seqT)
	rec = func(cur seqT) {
		if len(cur) > 0 {
			seqs = append(seqs, append(seqT{}, cur...))
		}
		if len(cur) == maxLen {
			return
		}
		for t := range c10Alphabet {
			rec(append(cur, t))
		}
	}
	rec(nil)
	variants := c.N(2, 4)
	for si, sq := range seqs {
		r := c.Rand("c10", si)
		for bi, base := range c10Bases {
			nLines := len(strings.Split(strings.TrimSuffix(base, "\n"), "\n"))
			// short sequences: every gap; longer ones: a few seed-chosen gaps
			var gaps []int
			if len(sq) <= 2 {
				for g := 0; g <= nLines; g++ {
					gaps = append(gaps, g)
				}
			} else {
				for k := 0; k < c.N(2, 6); k++ {
					gaps = append(gaps, r.Intn(nLines+1))
				}
			}
			for _, gap := range gaps {
				seq := make([]string, len(sq))
				for i, t := range sq {
					seq[i] = c10Alphabet[t]
				}
				_, all := c10Build(base, gap, seq)
				mask := c10Reference(all)
				excl := 0
				for i := gap; i < gap+len(seq); i++ {
					if mask[i] != 0 {
						excl++
					}
				}
				if excl == 0 {
					continue
				}
				for v := 0; v < variants; v++ {
					sameLen := v%2 == 0
					seqB, names, differs := c10MakeB(r, all, mask, gap, len(seq), sameLen)
					if !differs {
						continue
					}
					// the replacement must not change the exclusion structure itself (opaque model): recompute
					_, allB := c10Build(base, gap, seqB)
					maskB := c10Reference(allB)
					same := true
					for i := range mask {
						if mask[i] != maskB[i] {
							same = false
						}
					}
					if !same {
						continue
					}
					cases = append(cases, c10Case{Base: bi, Gap: gap, Seq: seq, SeqB: seqB, Mask: names, Strict: r.Intn(2) == 0, SameLen: sameLen})
				}
			}
		}
	}
	// thin the quick tier deterministically
	if c.Quick() && len(cases) > 60000 {
		stride := len(cases)/60000 + 1
		var thin []c10Case
		for i := int(c.Seed) % stride; i < len(cases); i += stride {
			thin = append(thin, cases[i])
		}
		cases = thin
	}
	nBinary := c.N(150, 3000)
	step := len(cases)/nBinary + 1
	for i := range cases {
		if i%step == 0 {
			cases[i].Binary = true
		}
	}
	core.Parallel(len(cases), 16, func(i int) {
		o := c10Check(c, cases[i])
		run.Eval(1)
		for _, v := range o.viol {
			run.Violate(v)
		}
		if o.nontrivial != "" {
			run.Nontrivial(o.nontrivial)
		}
		if cases[i].Binary {
			run.Count("binary_pairs", 1)
		}
		if i%(len(cases)/6+1) == 0 {
			run.Sample(cases[i])
		}
	})
	insCases := c10InsCases(c)
	core.Parallel(len(insCases), 16, func(i int) {
		vs := c10InsCheck(insCases[i])
		run.Eval(1)
		run.Count("insertion_cases", 1)
		run.Nontrivial("insert:" + insCases[i].Units + fmt.Sprintf(":base%d:gap%d", insCases[i].Base, insCases[i].Gap))
		for _, v := range vs {
			run.Violate(v)
		}
		if i%(len(insCases)/3+1) == 0 {
			run.Sample(insCases[i])
		}
	})
	_ = os.Remove(filepath.Join(c.Scratch, "x"))
	run.Assume("excluded lines are computed by an opaque reference reader: text before `# pint ignore/line`, the line after ignore/next-line, lines strictly between ignore/begin and the next ignore/end, everything after ignore/file; replacements never contain ignore/end inside a block and must leave the exclusion structure unchanged")
	return run.Finish("exploration",
		fmt.Sprintf("bounded-exhaustive: every sequence of 1..%d lines over a 15-token alphabet (the five ignore/* forms, file/disable, file/owner, disable, invalid pint comment, jinja, fake rule line, plain comment, unterminated quote + ignore/line, blank) inserted at a seed-chosen gap of two base files; for each sequence with >=1 excluded line, variants in which every excluded line / excluded prefix is replaced by another alphabet token or hostile payload (template directives, broken YAML, rule-like text, other pint comments). Oracle: parser.Parse of both variants (strict or relaxed) must give identical rules, values, positions, line ranges, rule comments, file comments, diagnostics and file error; a sample of pairs is also run through the pint binary and the H1 report multisets compared. Second relation: sequences of one to three exclusion units (begin..end block with 0-2 payload lines, payload + ignore/line, ignore/next-line + payload) inserted at every between-rules gap must leave rules, values, errors and positions of the file as they are without the block, with the line numbers after the gap shifted by the block's length. Non-trivial = pair whose excluded text really differs; distinct by the sequence of (line kind, mask).", maxLen),
		core.Floors{MinEvaluations: 1000, MinNontrivial: 50})
}
