package props

// C17 — pull-request commenting converges and is idempotent.
//
// The real reconciliation code (reporter.Submit / updateDestination /
// makeComments / dedupReports) is driven over several rounds against a
// stateful comment store. Two kinds of store:
//
//   mem  an in-memory Commenter whose IsEqual / CanCreate / CanDelete are the
//        methods of real GitLabReporter / GithubReporter values (built offline
//        through the verif accessors), so the platform predicates are pint's;
//   e2e  the real GitLabReporter / GithubReporter (List, Create, Delete,
//        Destinations, Summary included) talking HTTP to a stateful fake
//        GitLab / GitHub API.
//
// In both modes a spy sits at the Commenter interface and records what pint
// asked for; the oracle (c17oracle.go) is a function of that record and of
// snapshots of the store taken before and after every round.

import (
	"encoding/json"
	"fmt"
	"io"
	"log/slog"
	"math/rand"
	"os"
	"path/filepath"
	"runtime/debug"
	"sort"
	"strings"
	"sync"

	"github.com/cloudflare/pint/internal/checks"
	"github.com/cloudflare/pint/internal/diags"
	"github.com/cloudflare/pint/internal/discovery"
	"github.com/cloudflare/pint/internal/parser"
	"github.com/cloudflare/pint/internal/reporter"

	"github.com/cloudflare/pint/verif/core"
)

func init() { Registry["C17"] = runC17 }

const c17FileLines = 40

var c17Files = []string{"rules/a.yml", "rules/b.yml", "rules/c.yml"}

const c17Link = "rules/link.yml" // symlink to rules/a.yml

type c17Problem struct {
	File     int    `json:"file"`
	Symlink  bool   `json:"symlink,omitempty"`
	First    int    `json:"first"`
	Last     int    `json:"last"`
	Reporter string `json:"reporter"`
	Summary  string `json:"summary"`
	Details  string `json:"details,omitempty"`
	Severity int    `json:"severity"`
	Before   bool   `json:"anchor_before,omitempty"`
	Diag     bool   `json:"diag,omitempty"`
	Rule     string `json:"rule"`
}

// c17Init is a comment put into the store by somebody else than this round of
// pint: the initial population and the "human" interference between rounds.
type c17Init struct {
	Kind    string      `json:"kind"`              // equal | stale | human | general
	Index   int         `json:"index,omitempty"`   // equal: which pending comment of round 1 (mod count)
	Problem *c17Problem `json:"problem,omitempty"` // stale: rendered alone by the real makeComments
	Tweak   string      `json:"tweak,omitempty"`   // "", nl (extra trailing newlines), line (other line), text (other text)
	File    int         `json:"file,omitempty"`    // human
	Line    int         `json:"line,omitempty"`    // human
	Text    string      `json:"text,omitempty"`    // human / general
}

type c17Round struct {
	Events   []string     `json:"events"`
	Problems []c17Problem `json:"problems"`
	HumanDel []int        `json:"human_deletes,omitempty"` // ordinal (mod count) among pint-visible comments, deleted before the round
	HumanAdd []c17Init    `json:"human_adds,omitempty"`
}

type c17Case struct {
	Mode     string     `json:"mode"`     // mem | e2e
	Platform string     `json:"platform"` // gitlab | github
	Budget   int        `json:"max_comments"`
	ShowDup  bool       `json:"show_duplicates"`
	Dedup    bool       `json:"sort_and_dedup"` // Summary.SortReports + Dedup before Submit, as cmd/pint does
	Dests    int        `json:"destinations"`
	Ops      []string   `json:"diff_ops"` // per file: whole-file diff as a string over ' ', '+', '-' ("" = file not part of the change)
	Paginate bool       `json:"paginate,omitempty"`
	Initial  []c17Init  `json:"initial,omitempty"`
	Rounds   []c17Round `json:"rounds"`
}

// ---------------------------------------------------------------------------
// scratch tree: the rule files the comments point at (makeComments reads them)

var c17TreeOnce sync.Once

func c17FileContent(f int) string {
	var b strings.Builder
	for i := 1; i <= c17FileLines; i++ {
		fmt.Fprintf(&b, "    - alert: File%dLine%02d # up == %02d\n", f, i, i)
	}
	return b.String()
}

// c17Tree creates the scratch rule files once and makes the scratch directory
// the working directory, because report paths are relative (as in pint ci).
func c17Tree(c *core.Ctx) {
	c17TreeOnce.Do(func() {
		root := filepath.Join(c.Scratch, "c17tree")
		_ = os.MkdirAll(filepath.Join(root, "rules"), 0o755)
		for i, n := range c17Files {
			_ = os.WriteFile(filepath.Join(root, n), []byte(c17FileContent(i)), 0o644)
		}
		_ = os.Symlink("a.yml", filepath.Join(root, c17Link))
		_ = os.Chdir(root)
		slog.SetDefault(slog.New(slog.NewTextHandler(io.Discard, &slog.HandlerOptions{Level: slog.LevelError + 4})))
	})
}

// ---------------------------------------------------------------------------
// diff model

// c17Added returns the new-file line numbers that are added lines under ops.
func c17Added(ops string) (added []int) {
	n := 0
	for _, o := range ops {
		switch o {
		case '+':
			n++
			added = append(added, n)
		case ' ':
			n++
		}
	}
	return added
}

// c17Unified renders ops as a unified diff with 3 lines of context.
func c17Unified(f int, ops string) string {
	if ops == "" {
		return ""
	}
	type op struct {
		k        byte
		old, new int // line numbers this op refers to (old for '-', new for '+', both for ' ')
	}
	var all []op
	o, n := 0, 0
	for i := 0; i < len(ops); i++ {
		switch ops[i] {
		case '+':
			n++
			all = append(all, op{'+', o, n})
		case '-':
			o++
			all = append(all, op{'-', o, n})
		default:
			o++
			n++
			all = append(all, op{' ', o, n})
		}
	}
	keep := make([]bool, len(all))
	for i, a := range all {
		if a.k == ' ' {
			continue
		}
		for j := max(0, i-3); j <= min(len(all)-1, i+3); j++ {
			keep[j] = true
		}
	}
	var b strings.Builder
	for i := 0; i < len(all); {
		if !keep[i] {
			i++
			continue
		}
		j := i
		oc, nc := 0, 0
		for j < len(all) && keep[j] {
			if all[j].k != '+' {
				oc++
			}
			if all[j].k != '-' {
				nc++
			}
			j++
		}
		// start lines: first old / new line covered by the hunk
		os0, ns0 := 0, 0
		for k := i; k < j; k++ {
			if all[k].k != '+' && os0 == 0 {
				os0 = all[k].old
			}
			if all[k].k != '-' && ns0 == 0 {
				ns0 = all[k].new
			}
		}
		if oc == 0 {
			os0 = all[i].old
		}
		if nc == 0 {
			ns0 = all[i].new
		}
		fmt.Fprintf(&b, "@@ -%d,%d +%d,%d @@\n", os0, oc, ns0, nc)
		for k := i; k < j; k++ {
			switch all[k].k {
			case '+':
				fmt.Fprintf(&b, "+    - alert: File%dLine%02d\n", f, all[k].new)
			case '-':
				fmt.Fprintf(&b, "-    - alert: Old%dLine%02d\n", f, all[k].old)
			default:
				fmt.Fprintf(&b, "     - alert: File%dLine%02d\n", f, all[k].new)
			}
		}
		i = j
	}
	return b.String()
}

func c17GenOps(r *rand.Rand) string {
	var b []byte
	switch r.Intn(6) {
	case 0: // new file
		return strings.Repeat("+", c17FileLines)
	}
	n := 0
	for n < c17FileLines {
		switch x := r.Intn(20); {
		case x < 2: // run of added lines
			for k := 1 + r.Intn(6); k > 0 && n < c17FileLines; k-- {
				b = append(b, '+')
				n++
			}
		case x < 3: // removed lines
			for k := 1 + r.Intn(3); k > 0; k-- {
				b = append(b, '-')
			}
		default:
			b = append(b, ' ')
			n++
		}
	}
	if !strings.Contains(string(b), "+") {
		i := r.Intn(len(b))
		for b[i] == '-' {
			i = r.Intn(len(b))
		}
		b[i] = '+'
	}
	return string(b)
}

// ---------------------------------------------------------------------------
// reports

var (
	c17Reporters = []string{"promql/series", "alerts/template", "rule/label", "promql/rate", "rule/dependency"}
	c17Summaries = []string{
		"metric is missing", "metric is missing on some servers", "label `severity` is required",
		"template uses non-existent label", "duration is too short", "rule was removed", "query is <b>slow</b> | 100%",
	}
	c17DetailsPool = []string{"", "", "Some details.", "More\ninformation with `code`."}
)

func c17Report(p c17Problem, added [][]int) reporter.Report {
	name := c17Files[p.File]
	target := name
	if p.Symlink && p.File == 0 {
		name = c17Link
	}
	anchor := checks.AnchorAfter
	if p.Before {
		anchor = checks.AnchorBefore
	}
	rep := reporter.Report{
		Path:          discovery.Path{Name: name, SymlinkTarget: target},
		ModifiedLines: added[p.File],
		Rule: parser.Rule{
			AlertingRule: &parser.AlertingRule{Alert: parser.YamlNode{Value: p.Rule}},
			Lines:        diags.LineRange{First: p.First, Last: p.Last},
		},
		Problem: checks.Problem{
			Reporter: p.Reporter,
			Summary:  p.Summary,
			Details:  p.Details,
			Lines:    diags.LineRange{First: p.First, Last: p.Last},
			Severity: checks.Severity(p.Severity),
			Anchor:   anchor,
		},
	}
	if p.Diag {
		rep.Problem.Diagnostics = []diags.Diagnostic{{
			Message:     "diagnostic for " + p.Summary,
			Pos:         diags.PositionRanges{{Line: p.First, FirstColumn: 14, LastColumn: 25}},
			FirstColumn: 1,
			LastColumn:  8,
		}}
	}
	return rep
}

func c17Summary(cs c17Case, probs []c17Problem, added [][]int) reporter.Summary {
	reps := make([]reporter.Report, 0, len(probs))
	for _, p := range probs {
		reps = append(reps, c17Report(p, added))
	}
	s := reporter.NewSummary(reps)
	if cs.Dedup {
		s.SortReports()
		s.Dedup()
	}
	return s
}

// ---------------------------------------------------------------------------
// generator

func c17RandProblem(r *rand.Rand, cs *c17Case, added [][]int) c17Problem {
	f := r.Intn(len(c17Files))
	for tries := 0; cs.Ops[f] == "" && cs.Mode == "e2e" && tries < 20; tries++ {
		f = r.Intn(len(c17Files)) // the platforms cannot comment on files outside the change
	}
	if cs.Ops[f] == "" && cs.Mode == "e2e" {
		f = 0
	}
	first := 1 + r.Intn(c17FileLines-4)
	if len(added[f]) > 0 && r.Intn(10) < 7 {
		first = max(1, added[f][r.Intn(len(added[f]))]-r.Intn(3))
	}
	last := min(c17FileLines, first+[]int{0, 0, 1, 2, 4}[r.Intn(5)])
	p := c17Problem{
		File:     f,
		First:    first,
		Last:     last,
		Reporter: c17Reporters[r.Intn(len(c17Reporters))],
		Summary:  c17Summaries[r.Intn(len(c17Summaries))],
		Details:  c17DetailsPool[r.Intn(len(c17DetailsPool))],
		Severity: r.Intn(4),
		Diag:     r.Intn(10) < 3,
		Rule:     fmt.Sprintf("Rule%02d", r.Intn(30)),
	}
	if f == 0 && r.Intn(8) == 0 {
		p.Symlink = true
	}
	if r.Intn(20) == 0 {
		p.Before = true
		p.Diag = false
	}
	return p
}

func c17GenCase(r *rand.Rand, mode string) c17Case {
	cs := c17Case{Mode: mode, Dests: 1}
	if r.Intn(5) < 3 {
		cs.Platform = "gitlab"
	} else {
		cs.Platform = "github"
	}
	cs.Budget = []int{0, 1, 1, 2, 2, 3, 50, 50, 50, 1}[r.Intn(10)]
	cs.ShowDup = r.Intn(2) == 0
	cs.Dedup = r.Intn(5) != 0
	if cs.Platform == "gitlab" && r.Intn(10) == 0 {
		cs.Dests = 2
	}
	for f := range c17Files {
		ops := c17GenOps(r)
		if f == 2 && r.Intn(4) == 0 {
			ops = ""
		}
		cs.Ops = append(cs.Ops, ops)
	}
	if mode == "e2e" && r.Intn(6) == 0 {
		cs.Paginate = true
	}
	added := make([][]int, len(cs.Ops))
	for f, o := range cs.Ops {
		added[f] = c17Added(o)
	}

	var cur []c17Problem
	for n := r.Intn(7); n > 0; n-- {
		cur = append(cur, c17RandProblem(r, &cs, added))
	}
	rounds := 2 + r.Intn(5)
	for k := 0; k < rounds; k++ {
		rd := c17Round{}
		nev := 1 + r.Intn(3)
		if k == 0 {
			nev = r.Intn(2)
		}
		if r.Intn(4) == 0 && k > 0 {
			nev = 0
		}
		for e := 0; e < nev; e++ {
			ev := []string{"appear", "appear", "disappear", "disappear", "move", "move", "severity", "retext", "twin", "samemsg", "samesummary", "dup", "flood", "clear", "humandel", "humanadd"}[r.Intn(16)]
			pick := -1
			if len(cur) > 0 {
				pick = r.Intn(len(cur))
			}
			switch ev {
			case "appear":
				for n := 1 + r.Intn(2); n > 0; n-- {
					cur = append(cur, c17RandProblem(r, &cs, added))
				}
			case "flood":
				n := 3 + r.Intn(6)
				if cs.Paginate && r.Intn(2) == 0 {
					n = 32 + r.Intn(12)
				}
				for ; n > 0; n-- {
					cur = append(cur, c17RandProblem(r, &cs, added))
				}
			case "disappear":
				for n := 1 + r.Intn(2); n > 0 && len(cur) > 0; n-- {
					i := r.Intn(len(cur))
					cur = append(append([]c17Problem{}, cur[:i]...), cur[i+1:]...)
				}
			case "clear":
				if r.Intn(3) == 0 {
					cur = nil
				} else {
					ev = "repeat"
				}
			case "move":
				if pick < 0 {
					ev = "repeat"
					break
				}
				f, from := cur[pick].File, cur[pick].First
				d := []int{1, 2, 3, 5, -1, -2}[r.Intn(6)]
				next := append([]c17Problem{}, cur...)
				for i := range next {
					if next[i].File == f && next[i].First >= from {
						w := next[i].Last - next[i].First
						nf := min(max(1, next[i].First+d), c17FileLines-w)
						next[i].First, next[i].Last = nf, nf+w
					}
				}
				cur = next
			case "severity":
				if pick < 0 {
					ev = "repeat"
					break
				}
				next := append([]c17Problem{}, cur...)
				next[pick].Severity = (next[pick].Severity + 1 + r.Intn(3)) % 4
				cur = next
			case "retext":
				if pick < 0 {
					ev = "repeat"
					break
				}
				next := append([]c17Problem{}, cur...)
				if r.Intn(2) == 0 {
					next[pick].Summary = c17Summaries[r.Intn(len(c17Summaries))]
				} else {
					next[pick].Details = c17DetailsPool[r.Intn(len(c17DetailsPool))] + " v" + fmt.Sprint(r.Intn(3))
				}
				cur = next
			case "twin": // another problem of the same check on the same lines: shares the comment
				if pick < 0 {
					ev = "repeat"
					break
				}
				t := cur[pick]
				t.Summary = c17Summaries[r.Intn(len(c17Summaries))]
				t.Rule = fmt.Sprintf("Rule%02d", r.Intn(30))
				cur = append(append([]c17Problem{}, cur...), t)
			case "samesummary": // same check, lines and summary, but different details: both texts must be carried
				if pick < 0 {
					ev = "repeat"
					break
				}
				t := cur[pick]
				t.Details = "Other details " + fmt.Sprint(r.Intn(1000)) + "."
				t.Rule = fmt.Sprintf("Rule%02d", r.Intn(30))
				cur = append(append([]c17Problem{}, cur...), t)
			case "samemsg": // identical message on the same lines
				if pick < 0 {
					ev = "repeat"
					break
				}
				t := cur[pick]
				t.Rule = fmt.Sprintf("Rule%02d", r.Intn(30))
				cur = append(append([]c17Problem{}, cur...), t)
			case "dup": // the same issue somewhere else: Summary.Dedup marks it as a duplicate
				if pick < 0 {
					ev = "repeat"
					break
				}
				t := c17RandProblem(r, &cs, added)
				t.Reporter, t.Summary, t.Severity, t.Diag, t.Before = cur[pick].Reporter, cur[pick].Summary, cur[pick].Severity, cur[pick].Diag, cur[pick].Before
				cur = append(append([]c17Problem{}, cur...), t)
			case "humandel":
				if k == 0 {
					ev = "repeat"
					break
				}
				rd.HumanDel = append(rd.HumanDel, r.Intn(1000))
			case "humanadd":
				if k == 0 {
					ev = "repeat"
					break
				}
				rd.HumanAdd = append(rd.HumanAdd, c17RandHuman(r, &cs))
			}
			rd.Events = append(rd.Events, ev)
		}
		if len(rd.Events) == 0 {
			rd.Events = []string{"repeat"}
		}
		rd.Problems = append([]c17Problem{}, cur...)
		cs.Rounds = append(cs.Rounds, rd)
	}

	// initial population: comments equal to what round 1 needs, stale ones, near misses, human ones
	for n := r.Intn(6); n > 0; n-- {
		switch r.Intn(10) {
		case 0, 1, 2, 3:
			in := c17Init{Kind: "equal", Index: r.Intn(1000), Tweak: []string{"", "", "nl", "line", "text"}[r.Intn(5)]}
			cs.Initial = append(cs.Initial, in)
		case 4, 5, 6:
			p := c17RandProblem(r, &cs, added)
			cs.Initial = append(cs.Initial, c17Init{Kind: "stale", Problem: &p})
		case 7, 8:
			cs.Initial = append(cs.Initial, c17RandHuman(r, &cs))
		default:
			cs.Initial = append(cs.Initial, c17Init{Kind: "general", Text: "general discussion"})
		}
	}
	return cs
}

func c17RandHuman(r *rand.Rand, cs *c17Case) c17Init {
	f := r.Intn(len(c17Files))
	if cs.Ops[f] == "" {
		f = 0
	}
	return c17Init{Kind: "human", File: f, Line: 1 + r.Intn(c17FileLines), Text: []string{"LGTM", "why this threshold?", "nit: rename"}[r.Intn(3)]}
}

// ---------------------------------------------------------------------------
// run

func c17EventSet(cs c17Case) string {
	m := map[string]bool{}
	for _, rd := range cs.Rounds {
		for _, e := range rd.Events {
			m[e] = true
		}
	}
	keys := make([]string, 0, len(m))
	for k := range m {
		keys = append(keys, k)
	}
	sort.Strings(keys)
	return strings.Join(keys, ",")
}

func runC17(c *core.Ctx) int {
	c17Tree(c)
	// The real code allocates a lot per round (file reads, diff parsing) while little stays live:
	// collect when the heap reaches 2 GiB instead of after every few MiB.
	debug.SetGCPercent(-1)
	debug.SetMemoryLimit(2 << 30)
	run := core.NewRun(c)
	if c.Replay != "" {
		var cs c17Case
		if err := core.LoadCase(c.Replay, &cs); err != nil {
			fmt.Println("cannot load case:", err)
			return core.ExitInconclusive
		}
		o := c17Check(cs)
		fmt.Printf("REPLAY mode=%s platform=%s budget=%d rounds_run=%d creates=%d deletes=%d violations=%d\n", cs.Mode, cs.Platform, cs.Budget, o.rounds, o.creates, o.deletes, len(o.viol))
		for _, l := range o.trace {
			fmt.Println("  " + l)
		}
		if o.inconc != "" {
			fmt.Println("REPLAY inconclusive:", o.inconc)
		}
		for _, v := range o.viol {
			fmt.Println("REPLAY violated:", v.Sig, v.What)
		}
		if len(o.viol) > 0 {
			return 1
		}
		return 0
	}

	nMem := c.N(20000, 300000)
	nE2E := c.N(400, 2000)
	// The case list is a function of (seed, tier) only; cases are generated on demand from
	// their index (hand-written ones first, end-to-end ones spread evenly among the in-memory ones).
	hand := c17HandWritten()
	total := nMem + nE2E
	stride := total / nE2E
	caseAt := func(i int) c17Case {
		if i < len(hand) {
			return hand[i]
		}
		j := i - len(hand)
		if j%stride == 0 && j/stride < nE2E {
			return c17GenCase(c.Rand("e2e", j), "e2e")
		}
		return c17GenCase(c.Rand("mem", j), "mem")
	}
	nCases := len(hand) + total
	core.Parallel(nCases, 16, func(i int) {
		cs := caseAt(i)
		o := c17Check(cs)
		run.Eval(1)
		tag := cs.Mode + "-" + cs.Platform
		run.Count("sequences_"+tag, 1)
		run.Count("rounds_submitted", int64(o.rounds))
		run.Count("comments_created", int64(o.creates))
		run.Count("comments_deleted", int64(o.deletes))
		run.Count("rounds_with_deferred_creation", int64(o.deferred))
		run.Count("idempotence_checks", int64(o.idemChecks))
		run.Count("convergence_checks", int64(o.convChecks))
		run.Count("problem_coverage_checks", int64(o.covChecks))
		run.Count("comments_listed_to_pint", int64(o.listed))
		run.Count("existing_comments_recognised", int64(o.recognised))
		run.Count("foreign_comments_surviving_checks", int64(o.foreignChecks))
		run.Max("max_comments_in_store", int64(o.maxStore))
		run.Max("max_creations_in_one_round", int64(o.maxCreates))
		run.Distinct("budgets", fmt.Sprint(cs.Budget))
		run.Distinct("reporters_exercised", tag)
		if o.inconc != "" {
			run.Inconclusive(o.inconc)
		}
		for _, v := range o.viol {
			run.Violate(v)
		}
		if o.deferred > 0 || o.deletes > 0 {
			run.Nontrivial(fmt.Sprintf("%s|b%d|def=%v|del=%v|%s", tag, cs.Budget, o.deferred > 0, o.deletes > 0, c17EventSet(cs)))
			for _, rd := range cs.Rounds {
				for _, e := range rd.Events {
					run.Distinct("event_kinds_in_nontrivial_sequences", e)
				}
			}
		}
		if i%(nCases/6+1) == 0 || (cs.Mode == "e2e" && (i-len(hand))%(total/2+1) == 0) {
			sm := map[string]any{"mode": cs.Mode, "platform": cs.Platform, "max_comments": cs.Budget, "show_duplicates": cs.ShowDup, "initial": cs.Initial, "diff_ops": cs.Ops, "observed": o.trace}
			if b, err := json.Marshal(cs.Rounds); err == nil && len(b) <= 6000 {
				sm["rounds"] = json.RawMessage(b)
			} else {
				var evs []string
				for _, rd := range cs.Rounds {
					evs = append(evs, fmt.Sprintf("%s (%d problems)", strings.Join(rd.Events, ","), len(rd.Problems)))
				}
				sm["rounds"] = evs
			}
			run.Sample(sm)
		}
	})
	run.Assume("the in-memory store keeps a created comment at the line at which the platform's own IsEqual recognises it (the requested line first): the real reporters post at exactly that line; end-to-end sequences exercise the real Create/List")
	run.Assume("fake GitLab/GitHub APIs accept every position they are sent and return it unchanged; they paginate like the documented APIs (GitLab 20, GitHub 30 per page) when the case says so")
	run.Assume("a problem counts as covered by a stored comment at its file (symlink target) whose text contains the problem's summary and check name, on a line of the problem's range; on GitHub any line when no line of the range is an added line of the patch, and any line for problems anchored on removed lines")
	run.Assume("problems hidden as duplicates (show-duplicates off) need no comment of their own")
	return run.Finish("exploration",
		"sequences of 2-6 reporting rounds plus a settling phase (same results repeated until nothing is deferred, then once more) through the real reporter.Submit: report sets evolve by appear / disappear / move lines / severity / retext / second problem of the same check on the same lines / identical message / duplicate elsewhere / flood / clear / repeat, humans delete and add comments between rounds; initial stores hold comments equal to needed ones (also with extra newlines), near misses (other line, other text), stale and human comments; budgets 0/1/2/3/50; GitLab (deleting) and GitHub (non-deleting) predicates; duplicates shown/hidden; one or two destinations. mem = in-memory store with pint's IsEqual/CanCreate/CanDelete, e2e = real GitLab/GitHub reporters against stateful fake HTTP APIs. Non-trivial = sequence with >= 1 deferred creation or >= 1 deletion; distinct by (mode, platform, budget, deferred?, deleted?, set of event kinds).",
		core.Floors{MinEvaluations: int64(nCases), MinNontrivial: 200, MaxInconclusiveFrac: 0.02})
}

// c17HandWritten: sequences aimed at corners seen while reading the code.
func c17HandWritten() []c17Case {
	allAdded := strings.Repeat("+", c17FileLines)
	p := func(f, first, last int, rep, sum string, sev int) c17Problem {
		return c17Problem{File: f, First: first, Last: last, Reporter: rep, Summary: sum, Severity: sev, Rule: "RuleHW"}
	}
	var out []c17Case
	for _, plat := range []string{"gitlab", "github"} {
		for _, mode := range []string{"mem", "e2e"} {
			for _, budget := range []int{0, 1, 2, 50} {
				// five problems, then the same five, then two move and one goes away
				a := []c17Problem{
					p(0, 3, 5, "promql/series", "metric is missing", 2),
					p(0, 3, 5, "promql/series", "metric is missing on some servers", 2),
					p(0, 10, 10, "rule/label", "label `severity` is required", 1),
					p(1, 7, 9, "alerts/template", "template uses non-existent label", 3),
					p(1, 20, 22, "promql/rate", "duration is too short", 0),
					p(2, 1, 1, "promql/rate", "duration is too short", 0),
				}
				b := append([]c17Problem{}, a[1:]...)
				b[1].First, b[1].Last = 12, 12
				b[2].First, b[2].Last = 9, 11
				out = append(out, c17Case{
					Mode: mode, Platform: plat, Budget: budget, ShowDup: true, Dedup: true, Dests: 1,
					Ops:     []string{allAdded, allAdded, allAdded},
					Initial: []c17Init{{Kind: "equal", Index: 0}, {Kind: "equal", Index: 1, Tweak: "line"}, {Kind: "human", File: 0, Line: 3, Text: "LGTM"}, {Kind: "general", Text: "hello"}},
					Rounds: []c17Round{
						{Events: []string{"appear"}, Problems: a},
						{Events: []string{"repeat"}, Problems: a},
						{Events: []string{"move", "disappear"}, Problems: b},
						{Events: []string{"clear"}, Problems: nil},
					},
				})
			}
		}
	}
	// A problem on a removed line below three other removed lines: the GitLab reporter posts it on
	// old line 13 but compares listed comments against line 10.
	rm := c17Problem{File: 0, First: 10, Last: 10, Reporter: "rule/dependency", Summary: "rule was removed", Severity: 1, Before: true, Rule: "RuleHW"}
	for _, plat := range []string{"gitlab", "github"} {
		out = append(out, c17Case{
			Mode: "e2e", Platform: plat, Budget: 50, ShowDup: true, Dedup: true, Dests: 1,
			Ops: []string{"---" + strings.Repeat(" ", c17FileLines-1) + "+", allAdded, allAdded},
			Rounds: []c17Round{
				{Events: []string{"appear"}, Problems: []c17Problem{rm}},
				{Events: []string{"repeat"}, Problems: []c17Problem{rm}},
			},
		})
	}
	// 31 problems, 31 comments: one more than a page of the GitHub API (GitLab pages hold 20).
	var many []c17Problem
	for i := 1; i <= 31; i++ {
		many = append(many, p(0, i, i, "promql/series", "metric is missing", 2))
	}
	for _, plat := range []string{"gitlab", "github"} {
		out = append(out, c17Case{
			Mode: "e2e", Platform: plat, Budget: 50, ShowDup: true, Dedup: false, Dests: 1, Paginate: true,
			Ops: []string{allAdded, allAdded, allAdded},
			Rounds: []c17Round{
				{Events: []string{"flood"}, Problems: many},
				{Events: []string{"repeat"}, Problems: many},
			},
		})
	}
	return out
}
