package props

// C14: one trial = a fresh FailoverGroup of the REAL promapi client against
// observation servers, K concurrent callers, then a checker that is a pure
// function of the recorded events (server request logs + caller call/return
// records).

import (
	"context"
	"encoding/json"
	"fmt"
	"io"
	"log/slog"
	"os"
	"runtime"
	"sort"
	"strconv"
	"strings"
	"sync"
	"time"

	"github.com/anishathalye/porcupine"
	"github.com/prometheus/client_golang/prometheus"

	"github.com/cloudflare/pint/internal/promapi"
)

type c14Question struct {
	Kind string `json:"kind"` // query | range | config | flags | metadata
	Expr string `json:"expr,omitempty"`
	// range only: absolute times as seconds after c14BaseTime; no wall clock involved
	EndOff    int64  `json:"end_off,omitempty"`
	LookbackS int64  `json:"lookback_s,omitempty"`
	StepS     int64  `json:"step_s,omitempty"`
	FailA     int    `json:"fail_a,omitempty"`
	KindA     string `json:"kind_a,omitempty"`
	FailB     int    `json:"fail_b,omitempty"`
	KindB     string `json:"kind_b,omitempty"`
}

type c14Caller struct {
	Q       int `json:"q"`
	DelayUs int `json:"delay_us"`
	// moving mode only (c14mov.go): this caller's own logical "now" in milliseconds relative to the
	// question's end, and the wave it belongs to (a wave starts when every caller of the previous one has returned)
	NowOffMs int64 `json:"now_off_ms,omitempty"`
	Wave     int   `json:"wave,omitempty"`
}

type c14Trial struct {
	ID          int           `json:"id"`
	Mode        string        `json:"mode"` // mixed | saturate | rangefail | corner | moving
	Concurrency int           `json:"concurrency"`
	Servers     int           `json:"servers"`
	RateLimit   int           `json:"rate_limit"`
	Procs       int           `json:"gomaxprocs"`
	MinDelayUs  int           `json:"min_delay_us,omitempty"`
	MaxDelayUs  int           `json:"max_delay_us"`
	DelaySeed   int64         `json:"delay_seed"`
	Questions   []c14Question `json:"questions"`
	Callers     []c14Caller   `json:"callers"`
	// gc mode (c14gc.go): cache cleanup passes (FailoverGroup.CleanCache, what the 2-minute cleaner runs) executed
	// after wave w has returned and before wave w+1 is released, and optionally all the time while callers are out
	GCAfterWave []int `json:"gc_after_wave,omitempty"`
	GCDuring    bool  `json:"gc_during,omitempty"`
	// cfg mode (c14cfg.go): the group is not built with the constructors but by pint's own config.Load +
	// PrometheusGenerator from a configuration file: "static" (prometheus{} block), "filepath" / "filepath-merge" /
	// "promquery" (discovery templates). ConcAbsent: the file does not mention concurrency (control, not judged).
	Source     string `json:"source,omitempty"`
	ConcAbsent bool   `json:"concurrency_absent,omitempty"`
}

func (t c14Trial) hash() string {
	t.ID = 0
	b, _ := json.Marshal(t)
	return strconv.FormatUint(c14Hash(string(b)), 36)
}

var c14BaseTime = time.Date(2024, 3, 10, 0, 0, 0, 0, time.UTC)

// c14Range implements promapi.RangeQueryTimes with fixed absolute times. Its
// String() is what promapi.RelativeRange prints (lookback/step), which is what
// RangeQuery uses in its lock key.
type c14Range struct {
	start, end time.Time
	step       time.Duration
}

func (r c14Range) Start() time.Time    { return r.start }
func (r c14Range) End() time.Time      { return r.end }
func (r c14Range) Dur() time.Duration  { return r.end.Sub(r.start) }
func (r c14Range) Step() time.Duration { return r.step }
func (r c14Range) String() string {
	return promapi.NewRelativeRange(r.end.Sub(r.start), r.step).String()
}

func (q c14Question) class() string {
	switch q.Kind {
	case "query":
		return "query|" + q.Expr
	case "range":
		return "range|" + q.Expr + "|" + strconv.FormatFloat(float64(q.StepS), 'f', -1, 64)
	case "metadata":
		return "metadata|" + q.Expr
	}
	return q.Kind
}

func (q c14Question) rng() c14Range {
	end := c14BaseTime.Add(time.Duration(q.EndOff) * time.Second)
	return c14Range{start: end.Add(-time.Duration(q.LookbackS) * time.Second), end: end, step: time.Duration(q.StepS) * time.Second}
}

// c14Call is what one caller observed at the client boundary.
type c14Call struct {
	Caller  int            `json:"caller"`
	Q       int            `json:"q"`
	Call    int64          `json:"call"`
	Return  int64          `json:"return"`
	Err     string         `json:"err,omitempty"`
	Server  string         `json:"server,omitempty"`  // which upstream's value was returned (from the value itself)
	URI     string         `json:"uri,omitempty"`     // URI field of the result
	N       int            `json:"n,omitempty"`       // simple questions: ordinal of the request the value came from
	Slices  map[string]int `json:"slices,omitempty"`  // range questions: slice -> ordinal
	Foreign string         `json:"foreign,omitempty"` // non-empty: the value carries another question's identity
	Dup     string         `json:"dup,omitempty"`     // range: a slice present more than once in the result
	Done    bool           `json:"done"`
}

type c14Viol struct {
	Sig  string `json:"sig"`
	What string `json:"what"`
}

type c14Stats struct {
	Requests       int            `json:"requests"`
	Aborted        int            `json:"aborted"`
	Callers        int            `json:"callers"`
	MaxInflight    int            `json:"max_inflight"`
	Saturated      bool           `json:"saturated"`       // in-flight reached the configured concurrency
	MaxContention  int            `json:"max_contention"`  // max #callers of one question waiting while its first request was being served
	ContendedKeys  int            `json:"contended_keys"`  // questions with >= 2 such callers
	KeysExact      int            `json:"keys_exact"`      // (server, question) pairs whose request count equals the model's count
	KeysBelow      int            `json:"keys_below"`      // ... below it (not a violation)
	Porcupine      map[string]int `json:"porcupine"`       // Ok / Illegal / Unknown
	SharedOverlap  int            `json:"shared_overlap"`  // corner mode: identical slice requests in flight together
	SharedRepeated int            `json:"shared_repeated"` // corner mode: slice keys requested more than once
	Slices         int            `json:"slices"`
	WallUs         int64          `json:"wall_us"`
	Moving         *c14MovStats   `json:"moving,omitempty"` // moving mode only
	GC             *c14GCStats    `json:"gc,omitempty"`     // gc mode only
}

type c14Observed struct {
	Logs  map[string][]c14Req `json:"server_logs"`
	Calls []c14Call           `json:"calls"`
	GC    []c14GCPass         `json:"cleanup_passes,omitempty"`
	Setup string              `json:"setup,omitempty"` // cfg mode: the configuration file the group was built from
}

type c14Outcome struct {
	ID       int          `json:"id"`
	Hash     string       `json:"hash"`
	Mode     string       `json:"mode"`
	Viol     []c14Viol    `json:"violations,omitempty"`
	Inconc   string       `json:"inconclusive,omitempty"`
	Stats    c14Stats     `json:"stats"`
	Observed *c14Observed `json:"observed,omitempty"`
}

func c14ParseHelp(h string) map[string]string {
	m := map[string]string{}
	for _, f := range strings.Fields(h) {
		if i := strings.IndexByte(f, '='); i > 0 {
			m[f[:i]] = f[i+1:]
		}
	}
	return m
}

// c14Ask performs one question through the real FailoverGroup and decodes the identity carried by the value.
func c14Ask(fg *promapi.FailoverGroup, q c14Question, nowOffMs int64, rec *c14Call) {
	ctx := context.Background()
	switch q.Kind {
	case "query":
		res, err := fg.Query(ctx, q.Expr)
		if err != nil {
			rec.Err = err.Error()
			return
		}
		rec.URI = res.URI
		if len(res.Series) != 1 {
			rec.Foreign = fmt.Sprintf("expected 1 series, got %d", len(res.Series))
			return
		}
		l := res.Series[0].Labels
		rec.Server = l.Get("srv")
		rec.N, _ = strconv.Atoi(l.Get("n"))
		if l.Get("q") != q.Expr {
			rec.Foreign = "value of query " + l.Get("q")
		}
	case "range":
		r := q.rngAt(nowOffMs)
		res, err := fg.RangeQuery(ctx, q.Expr, r)
		if err != nil {
			rec.Err = err.Error()
			return
		}
		rec.URI = res.URI
		rec.Slices = map[string]int{}
		want := strconv.FormatFloat(float64(q.StepS), 'f', -1, 64)
		for _, tr := range res.Series.Ranges {
			l := tr.Labels
			if l.Get("q") != q.Expr || l.Get("step") != want {
				rec.Foreign = "value of range query " + l.Get("q") + " step " + l.Get("step")
			}
			rec.Server = l.Get("srv")
			n, _ := strconv.Atoi(l.Get("n"))
			s := l.Get("s")
			if old, dup := rec.Slices[s]; dup && old != n {
				rec.Dup = s
			}
			rec.Slices[s] = n
		}
	case "config":
		res, err := fg.Config(ctx, time.Hour)
		if err != nil {
			rec.Err = err.Error()
			return
		}
		rec.URI = res.URI
		el := res.Config.Global.ExternalLabels
		rec.Server = el["c14srv"]
		rec.N, _ = strconv.Atoi(el["c14n"])
		if el["c14q"] != "config" {
			rec.Foreign = "value of " + el["c14q"]
		}
	case "flags":
		res, err := fg.Flags(ctx)
		if err != nil {
			rec.Err = err.Error()
			return
		}
		rec.URI = res.URI
		rec.Server = res.Flags["c14srv"]
		rec.N, _ = strconv.Atoi(res.Flags["c14n"])
		if res.Flags["c14q"] != "flags" {
			rec.Foreign = "value of " + res.Flags["c14q"]
		}
	case "metadata":
		res, err := fg.Metadata(ctx, q.Expr)
		if err != nil {
			rec.Err = err.Error()
			return
		}
		rec.URI = res.URI
		if len(res.Metadata) != 1 {
			rec.Foreign = fmt.Sprintf("expected 1 metadata entry, got %d", len(res.Metadata))
			return
		}
		m := c14ParseHelp(res.Metadata[0].Help)
		rec.Server = m["c14srv"]
		rec.N, _ = strconv.Atoi(m["c14n"])
		if m["c14q"] != q.Expr {
			rec.Foreign = "value of metadata " + m["c14q"]
		}
	}
}

const c14TrialWatchdog = 20 * time.Second

// c14RunTrial executes one trial against the real client and returns the verdict of the monitors.
func c14RunTrial(t c14Trial) (out c14Outcome) {
	out = c14Outcome{ID: t.ID, Hash: t.hash(), Mode: t.Mode}
	out.Stats.Porcupine = map[string]int{}
	if t.Procs > 0 {
		runtime.GOMAXPROCS(t.Procs)
	}
	began := time.Now()
	base := time.Now()
	stamp := func() int64 { return int64(time.Since(base)) }

	names := []string{"A", "B"}[:t.Servers]
	var servers []*c14Server
	var proms []*promapi.Prometheus
	for i, nm := range names {
		fails := map[string]c14Fail{}
		for _, q := range t.Questions {
			f, k := q.FailA, q.KindA
			if i == 1 {
				f, k = q.FailB, q.KindB
			}
			if f > 0 {
				fails[q.class()] = c14Fail{Count: f, Kind: k}
			}
		}
		s := newC14Server(nm, base, fails, t.Mode == "rangefail", t.DelaySeed, t.MinDelayUs, t.MaxDelayUs)
		servers = append(servers, s)
		if t.Source == "" {
			proms = append(proms, promapi.NewPrometheus("c14"+nm, s.srv.URL, "upstream-"+nm, nil, time.Minute, t.Concurrency, t.RateLimit, nil))
		}
	}
	var fg *promapi.FailoverGroup
	reg := prometheus.NewRegistry()
	closeGroup := func() {}
	setupText := ""
	if t.Source == "" {
		fg = promapi.NewFailoverGroup("c14", servers[0].srv.URL, proms, true, "up", nil, nil, nil)
		fg.StartWorkers(reg)
		closeGroup = func() { fg.Close(reg) }
	} else {
		// the real path from a configuration file to a running group
		built, err := c14BuildFromConfig(t, servers, reg)
		if err != nil {
			for _, s := range servers {
				s.close()
			}
			out.Inconc = fmt.Sprintf("trial %d (%s/%s): group could not be built from the configuration file: %v", t.ID, t.Mode, t.Source, err)
			return out
		}
		fg, closeGroup, setupText = built.fg, built.stop, built.hcl
	}

	calls := make([]c14Call, len(t.Callers))
	var wg sync.WaitGroup
	startCh := make(chan struct{})
	// waves (moving mode; everywhere else all callers are wave 0): wave w+1 is released when every caller of wave w has returned
	nWaves := 1
	for _, c := range t.Callers {
		if c.Wave+1 > nWaves {
			nWaves = c.Wave + 1
		}
	}
	waveWG := make([]sync.WaitGroup, nWaves)
	waveCh := make([]chan struct{}, nWaves)
	for w := range waveCh {
		waveCh[w] = make(chan struct{})
	}
	for _, c := range t.Callers {
		waveWG[c.Wave].Add(1)
	}
	// cleanup passes: between waves (coordinator) and, with GCDuring, continuously while callers are out
	var gcMu sync.Mutex
	var gcPasses []c14GCPass
	gcPass := func(afterWave int, during bool) {
		p := c14GCPass{AfterWave: afterWave, During: during, Start: stamp()}
		fg.CleanCache()
		p.End = stamp()
		gcMu.Lock()
		if len(gcPasses) < 5000 {
			gcPasses = append(gcPasses, p)
		}
		gcMu.Unlock()
	}
	coordDone := make(chan struct{})
	go func() {
		defer close(coordDone)
		<-startCh
		for w := 0; w < nWaves; w++ {
			close(waveCh[w])
			waveWG[w].Wait()
			if w < nWaves-1 && w < len(t.GCAfterWave) {
				for k := 0; k < t.GCAfterWave[w]; k++ {
					gcPass(w, false)
				}
			}
		}
	}()
	stopGC := make(chan struct{})
	var gcWG sync.WaitGroup
	if t.GCDuring {
		gcWG.Add(1)
		go func() {
			defer gcWG.Done()
			<-startCh
			for {
				select {
				case <-stopGC:
					return
				default:
				}
				gcPass(-1, true)
				time.Sleep(200 * time.Microsecond)
			}
		}()
	}
	for i, c := range t.Callers {
		calls[i] = c14Call{Caller: i, Q: c.Q}
		wg.Add(1)
		go func(i int, c c14Caller) {
			defer wg.Done()
			defer waveWG[c.Wave].Done()
			<-waveCh[c.Wave]
			if c.DelayUs > 0 {
				time.Sleep(time.Duration(c.DelayUs) * time.Microsecond)
			}
			rec := c14Call{Caller: i, Q: c.Q}
			rec.Call = stamp()
			c14Ask(fg, t.Questions[c.Q], c.NowOffMs, &rec)
			rec.Return = stamp()
			rec.Done = true
			calls[i] = rec // each goroutine writes its own element; read after wg.Wait
		}(i, c)
	}
	close(startCh)
	done := make(chan struct{})
	go func() { wg.Wait(); close(done) }()
	select {
	case <-done:
	case <-time.After(c14TrialWatchdog):
		// never a violation: the watchdog only makes the case inconclusive
		buf := make([]byte, 4<<20)
		buf = buf[:runtime.Stack(buf, true)]
		pend := 0
		for _, s := range servers {
			for _, r := range s.snapshot() {
				if r.Status == "pending" {
					pend++
				}
			}
		}
		out.Inconc = fmt.Sprintf("trial %d (%s): callers did not all return within %s (goroutines waiting in partitionLocker.lock: %d, requests still being served: %d)",
			t.ID, t.Mode, c14TrialWatchdog, strings.Count(string(buf), "promapi.(*partitionLocker).lock("), pend)
		fmt.Fprintf(os.Stderr, "C14WATCHDOG trial %d\n%s\n", t.ID, buf)
		close(stopGC)
		return out
	}
	close(stopGC)
	gcWG.Wait()
	<-coordDone
	closeGroup()
	logs := map[string][]c14Req{}
	for _, s := range servers {
		s.close()
		logs[s.name] = s.snapshot()
	}
	gcMu.Lock()
	obs := c14Observed{Logs: logs, Calls: calls, GC: gcPasses, Setup: setupText}
	gcMu.Unlock()
	c14CheckTrial(t, obs, &out)
	out.Stats.WallUs = time.Since(began).Microseconds()
	if len(out.Viol) > 0 {
		out.Observed = &obs
	}
	return out
}

// ---- the oracle: a deterministic function of the trial and the recorded events ----

type c14Iv struct {
	a, b int64
	key  string
}

// c14MaxDepth returns the maximum number of intervals that strictly overlap at one instant
// (touching end points do not overlap) and one witness pair.
func c14MaxDepth(ivs []c14Iv) (depth int, w1, w2 c14Iv) {
	type ev struct {
		t    int64
		open bool
		iv   c14Iv
	}
	evs := make([]ev, 0, 2*len(ivs))
	for _, iv := range ivs {
		if iv.b <= iv.a {
			continue
		}
		evs = append(evs, ev{iv.a, true, iv}, ev{iv.b, false, iv})
	}
	sort.SliceStable(evs, func(i, j int) bool {
		if evs[i].t != evs[j].t {
			return evs[i].t < evs[j].t
		}
		return !evs[i].open && evs[j].open // closes first: equal stamps are not an overlap
	})
	cur := []c14Iv{}
	for _, e := range evs {
		if e.open {
			cur = append(cur, e.iv)
			if len(cur) > depth {
				depth = len(cur)
				if len(cur) >= 2 {
					w1, w2 = cur[len(cur)-2], cur[len(cur)-1]
				}
			}
		} else {
			for i := range cur {
				if cur[i] == e.iv {
					cur = append(cur[:i], cur[i+1:]...)
					break
				}
			}
		}
	}
	return depth, w1, w2
}

type c14Out struct {
	err bool
	n   int
}

type c14State struct {
	cached int
	served int
}

// c14Model is the sequential specification of one (upstream, question): with a
// cached value every call returns it; otherwise the call consumes request
// served+1 of the server log, which fails iff it is one of the first f
// (scripted) requests, and is cached iff it succeeded. One relaxation over
// DESIGN.md: a call may also return an error by sharing the most recent failed
// request (an implementation that hands one failed answer to all waiting callers
// does not contradict the property statement).
func c14Model(f int) porcupine.Model {
	nm := porcupine.NondeterministicModel{
		Init: func() []interface{} { return []interface{}{c14State{}} },
		Step: func(state, _, output interface{}) []interface{} {
			st := state.(c14State)
			o := output.(c14Out)
			if st.cached > 0 {
				if !o.err && o.n == st.cached {
					return []interface{}{st}
				}
				return nil
			}
			var next []interface{}
			nr := st.served + 1
			if nr <= f {
				if o.err {
					next = append(next, c14State{cached: 0, served: nr})
				}
			} else if !o.err && o.n == nr {
				next = append(next, c14State{cached: nr, served: nr})
			}
			if o.err && st.served >= 1 && st.served <= f {
				next = append(next, st)
			}
			return next
		},
		Equal: func(a, b interface{}) bool { return a.(c14State) == b.(c14State) },
	}
	return nm.ToModel()
}

func c14IsInjectedErr(s string) bool {
	return strings.Contains(s, "c14 injected") || strings.Contains(s, "500 Internal Server Error")
}

func c14CheckTrial(t c14Trial, obs c14Observed, out *c14Outcome) {
	seen := map[string]bool{}
	viol := func(sig, what string) {
		if seen[sig] {
			return
		}
		seen[sig] = true
		out.Viol = append(out.Viol, c14Viol{Sig: sig, What: what})
	}
	st := &out.Stats
	st.Callers = len(obs.Calls)
	for _, c := range obs.Calls {
		if !c.Done {
			out.Inconc = "a caller has no record"
			return
		}
	}

	names := []string{"A", "B"}[:t.Servers]
	lenient := t.Mode == "rangefail" // client-side cancellation of sibling slices makes server intervals unusable
	corner := t.Mode == "corner"

	// ---- per upstream: overlap of identical requests, in-flight bound ----
	for _, nm := range names {
		log := obs.Logs[nm]
		st.Requests += len(log)
		byKey := map[string][]c14Req{}
		var all []c14Iv
		for _, r := range log {
			if r.Status == "aborted" || r.Status == "pending" {
				st.Aborted++
				continue
			}
			byKey[r.Key] = append(byKey[r.Key], r)
			all = append(all, c14Iv{r.Enter, r.Leave, r.Key + "#" + strconv.Itoa(r.N)})
		}
		if lenient {
			continue
		}
		keys := make([]string, 0, len(byKey))
		for k := range byKey {
			keys = append(keys, k)
		}
		sort.Strings(keys)
		for _, k := range keys {
			rs := byKey[k]
			if len(rs) < 2 {
				continue
			}
			ivs := make([]c14Iv, 0, len(rs))
			for _, r := range rs {
				ivs = append(ivs, c14Iv{r.Enter, r.Leave, r.Key + "#" + strconv.Itoa(r.N)})
			}
			if d, w1, w2 := c14MaxDepth(ivs); d >= 2 {
				kind := strings.SplitN(rs[0].Class, "|", 2)[0]
				if corner {
					st.SharedOverlap++
					viol("shared-slice-duplicated:different-lookback",
						fmt.Sprintf("two range questions with the same expression and step but different lookback lock different keys, so the identical slice request %s was in flight %d times at once on upstream %s (%s [%d,%d]ns and %s [%d,%d]ns)", k, d, nm, w1.key, w1.a, w1.b, w2.key, w2.a, w2.b))
				} else {
					viol("same-key-overlap:"+kind,
						fmt.Sprintf("identical request in flight %d times at once on upstream %s: %s (request %s during [%d,%d]ns, request %s during [%d,%d]ns)", d, nm, k, w1.key, w1.a, w1.b, w2.key, w2.a, w2.b))
				}
			}
		}
		d, w1, w2 := c14MaxDepth(all)
		if d > st.MaxInflight {
			st.MaxInflight = d
		}
		if d >= t.Concurrency {
			st.Saturated = true
		}
		if d > t.Concurrency && t.Source != "" && !t.ConcAbsent {
			viol("inflight-exceeds-concurrency:"+c14SourceKind(t.Source),
				fmt.Sprintf("%d requests in flight at once on upstream %s of a group that pint built from a configuration file (%s) which sets concurrency = %d (e.g. %s [%d,%d]ns and %s [%d,%d]ns)", d, nm, t.Source, t.Concurrency, w1.key, w1.a, w1.b, w2.key, w2.a, w2.b))
		} else if d > t.Concurrency && !t.ConcAbsent {
			viol("inflight-exceeds-concurrency",
				fmt.Sprintf("%d requests in flight at once on upstream %s, configured concurrency is %d (e.g. %s [%d,%d]ns and %s [%d,%d]ns)", d, nm, t.Concurrency, w1.key, w1.a, w1.b, w2.key, w2.a, w2.b))
		}
	}

	// ---- gc scenario: answered, cleaned up, asked again (c14gc.go); the per-question monitors below apply as well ----
	gcReported := map[string]bool{}
	if t.Mode == "gc" {
		ok, flagged := c14CheckGC(t, obs, out, viol)
		if !ok {
			return
		}
		gcReported = flagged
	}

	// ---- moving-end scenario: its own reuse monitor (c14mov.go) ----
	if t.Mode == "moving" {
		c14CheckMoving(t, obs, out, viol)
		return
	}

	// ---- corner scenario: only the shared-slice monitor (plus value identity) ----
	if corner {
		for _, nm := range names {
			cnt := map[string]int{}
			for _, r := range obs.Logs[nm] {
				cnt[r.Key]++
			}
			for k, n := range cnt {
				if n > 1 {
					st.SharedRepeated++
					viol("shared-slice-duplicated:different-lookback",
						fmt.Sprintf("two range questions with the same expression and step but different lookback share slices but not a lock: slice request %s reached upstream %s %d times although every answer was successful", k, nm, n))
				}
			}
		}
		for _, c := range obs.Calls {
			if c.Err != "" {
				viol("unexpected-error:range", fmt.Sprintf("caller %d got error %q although no failure was injected", c.Caller, c.Err))
			}
			if c.Foreign != "" {
				viol("foreign-value:range", fmt.Sprintf("caller %d of %s received %s", c.Caller, t.Questions[c.Q].class(), c.Foreign))
			}
		}
		st.MaxContention = len(obs.Calls)
		return
	}

	// ---- per question ----
	for qi, q := range t.Questions {
		class := q.class()
		kind := q.Kind
		var callers []c14Call
		for _, c := range obs.Calls {
			if c.Q == qi {
				callers = append(callers, c)
			}
		}
		if len(callers) == 0 || gcReported[class] {
			continue
		}
		multi := false // multi-slice range question
		// per upstream request records of this question
		recs := map[string][]c14Req{}
		sliceSet := map[string]map[string]bool{}
		for _, nm := range names {
			sliceSet[nm] = map[string]bool{}
			for _, r := range obs.Logs[nm] {
				if r.Class == class {
					recs[nm] = append(recs[nm], r)
					sliceSet[nm][r.Slice] = true
				}
			}
			if len(sliceSet[nm]) > 1 {
				multi = true
			}
		}
		st.Slices += len(sliceSet["A"])

		// value identity
		for _, c := range callers {
			if c.Foreign != "" {
				viol("foreign-value:"+kind, fmt.Sprintf("caller %d asked %s and received %s", c.Caller, class, c.Foreign))
			}
			if c.Err != "" {
				explained := (q.FailA > 0 || q.FailB > 0) && c14IsInjectedErr(c.Err)
				if !explained {
					if c14IsInjectedErr(c.Err) || c14IsAPIErr(c.Err) || strings.Contains(c.Err, "context canceled") {
						viol("unexpected-error:"+kind, fmt.Sprintf("caller %d asked %s and got error %q which no injected failure explains", c.Caller, class, c.Err))
					} else if out.Inconc == "" {
						// connection-level trouble of the sandbox is not evidence about pint
						out.Inconc = fmt.Sprintf("trial %d: environment error at caller %d: %s", t.ID, c.Caller, c.Err)
					}
				}
				continue
			}
			if c.Server != "A" && c.Server != "B" || c.URI != c14WantURI(t, c.Server) {
				viol("foreign-value:"+kind, fmt.Sprintf("caller %d asked %s and received a value of upstream %q with URI %q", c.Caller, class, c.Server, c.URI))
				continue
			}
			okReq := map[string]bool{}
			for _, r := range recs[c.Server] {
				if r.Status == "ok" {
					okReq[r.Slice+"#"+strconv.Itoa(r.N)] = true
				}
			}
			if kind == "range" {
				if c.Dup != "" {
					viol("range-result-mixed", fmt.Sprintf("caller %d asked %s and received slice %s from two different requests", c.Caller, class, c.Dup))
				}
				for s, n := range c.Slices {
					if !okReq[s+"#"+strconv.Itoa(n)] {
						viol("ghost-value:range", fmt.Sprintf("caller %d asked %s and received slice %s of request #%d, which upstream %s never answered successfully", c.Caller, class, s, n, c.Server))
					}
				}
				for s := range sliceSet[c.Server] {
					if _, has := c.Slices[s]; !has {
						viol("range-result-incomplete", fmt.Sprintf("caller %d asked %s and its result lacks slice %s, which the client requested from upstream %s", c.Caller, class, s, c.Server))
					}
				}
			} else if !okReq["#"+strconv.Itoa(c.N)] {
				viol("ghost-value:"+kind, fmt.Sprintf("caller %d asked %s and received the value of request #%d, which upstream %s never answered successfully", c.Caller, class, c.N, c.Server))
			}
		}

		// equal results: all successful callers answered by the same upstream hold the same value
		for _, nm := range names {
			var first *c14Call
			for i := range callers {
				c := &callers[i]
				if c.Err != "" || c.Server != nm {
					continue
				}
				if first == nil {
					first = c
					continue
				}
				same := c.N == first.N && len(c.Slices) == len(first.Slices)
				for s, n := range c.Slices {
					if first.Slices[s] != n {
						same = false
					}
				}
				if !same {
					viol("unequal-results:"+kind, fmt.Sprintf("callers %d and %d asked %s on upstream %s and received different values (request #%d %v vs #%d %v)", first.Caller, c.Caller, class, nm, first.N, first.Slices, c.N, c.Slices))
					break
				}
			}
		}
		if q.FailA == 0 && q.FailB == 0 {
			errs, oks := 0, 0
			for _, c := range callers {
				if c.Err != "" {
					errs++
				} else {
					oks++
				}
			}
			if errs > 0 && oks > 0 {
				viol("unequal-results:"+kind, fmt.Sprintf("%d callers of %s received a value and %d an error although the upstream never failed", oks, class, errs))
			}
		}

		// which callers reached which upstream (from what they returned)
		reached := map[string][]c14Call{"A": callers}
		if t.Servers == 2 {
			for _, c := range callers {
				if c.Err == "" && c.Server == "B" || c.Err != "" && q.FailA > 0 && q.KindA == "500" {
					reached["B"] = append(reached["B"], c)
				}
			}
		}

		// request counts
		for _, nm := range names {
			f := q.FailA
			if nm == "B" {
				f = q.FailB
			}
			nCallers := len(reached[nm])
			perSlice := map[string]int{}
			failed := 0
			for _, r := range recs[nm] {
				perSlice[r.Slice]++
				if r.Status == "fail" {
					failed++
				}
			}
			for s, cnt := range perSlice {
				if lenient || (multi && f > 0) {
					// every round of a question that sent requests either cached all its slices or saw >= 1 real failure
					bound := failed + 1
					if nCallers < bound {
						bound = nCallers
					}
					if cnt > bound {
						viol("range-slice-count:with-failures", fmt.Sprintf("slice %s of %s reached upstream %s %d times; %d callers and %d failed answers allow at most %d", s, class, nm, cnt, nCallers, failed, bound))
					}
					continue
				}
				model := f + 1
				if nCallers < model {
					model = nCallers
				}
				switch {
				case cnt > f+1:
					viol("rerequest-after-success:"+kind, fmt.Sprintf("%s %s reached upstream %s %d times: request #%d was answered successfully and must have been reused (%d scripted failures, %d callers)", class, s, nm, cnt, f+1, f, nCallers))
				case cnt > model:
					viol("more-requests-than-callers:"+kind, fmt.Sprintf("%s %s reached upstream %s %d times but only %d callers can have asked it", class, s, nm, cnt, nCallers))
				case cnt == model:
					st.KeysExact++
				default:
					st.KeysBelow++
				}
			}
		}

		// a failed answer is handed only to callers that were waiting while the failing request was being
		// served: an error returned to a caller whose whole call lies outside every failed request of its
		// question is a stored failure
		if !lenient && !multi {
			for _, c := range callers {
				if c.Err == "" || !c14IsInjectedErr(c.Err) {
					continue
				}
				found := false
				for _, nm := range names {
					for _, r := range recs[nm] {
						if r.Status == "fail" && r.Enter < c.Return && r.Leave > c.Call {
							found = true
						}
					}
				}
				if !found {
					viol("error-without-request:"+kind, fmt.Sprintf("caller %d asked %s during [%d,%d]ns and got error %q, but no failed request for it was being served during that time: a failed answer was stored and reused", c.Caller, class, c.Call, c.Return, c.Err))
				}
			}
		}

		// contention: callers of the question that were waiting while its first request was being served
		if rs := recs["A"]; len(rs) > 0 {
			first := rs[0]
			for _, r := range rs {
				if r.Enter < first.Enter {
					first = r
				}
			}
			n := 0
			for _, c := range callers {
				if c.Call < first.Leave && c.Return > first.Enter {
					n++
				}
			}
			if n > st.MaxContention {
				st.MaxContention = n
			}
			if n >= 2 {
				st.ContendedKeys++
			}
		}

		// history check (porcupine), per (upstream, question)
		if lenient || (multi && (q.FailA > 0 || q.FailB > 0)) {
			continue
		}
		for _, nm := range names {
			f := q.FailA
			if nm == "B" {
				f = q.FailB
			}
			var ops []porcupine.Operation
			for _, c := range reached[nm] {
				o := c14Out{}
				switch {
				case c.Err != "" || c.Server != nm:
					o.err = true
				case kind == "range":
					o.n = -1
					for _, n := range c.Slices {
						if o.n == -1 {
							o.n = n
						} else if o.n != n {
							o.n = -2 // slices from different rounds: no sequential run explains it
						}
					}
				default:
					o.n = c.N
				}
				ops = append(ops, porcupine.Operation{ClientId: c.Caller, Input: nil, Call: c.Call, Output: o, Return: c.Return})
			}
			if len(ops) == 0 {
				continue
			}
			res := porcupine.CheckOperationsTimeout(c14Model(f), ops, 5*time.Second)
			st.Porcupine[string(res)]++
			switch res {
			case porcupine.Illegal:
				var sb strings.Builder
				for _, op := range ops {
					o := op.Output.(c14Out)
					fmt.Fprintf(&sb, " c%d[%d,%d]->", op.ClientId, op.Call, op.Return)
					if o.err {
						sb.WriteString("err")
					} else {
						fmt.Fprintf(&sb, "#%d", o.n)
					}
				}
				viol("nonlinearizable:"+kind, fmt.Sprintf("no sequential order of the callers of %s on upstream %s explains what they received (%d scripted failures):%s", class, nm, f, c14Trunc(sb.String(), 900)))
			case porcupine.Unknown:
				if out.Inconc == "" {
					out.Inconc = fmt.Sprintf("trial %d: porcupine timed out on %s", t.ID, class)
				}
			}
		}
	}
}

func c14Trunc(s string, n int) string {
	if len(s) > n {
		return s[:n] + "..."
	}
	return s
}

// c14IsAPIErr: error texts produced by pint's decodeError for API-level errors.
func c14IsAPIErr(s string) bool {
	for _, p := range []string{"server_error:", "bad_data:", "client_error:", "bad_response:", "execution:", "unknown:", "unsupported"} {
		if strings.Contains(s, p) {
			return true
		}
	}
	return false
}

// ---- child process: runs a batch sequentially so that race reports can be attributed ----

func init() { Children["C14-child"] = c14Child }

type c14Batch struct {
	Trials []c14Trial `json:"trials"`
	Repeat int        `json:"repeat"`
}

func c14Child(args []string) int {
	if len(args) != 2 {
		fmt.Fprintln(os.Stderr, "usage: verifh C14-child <batch.json> <out.jsonl>")
		return 64
	}
	slog.SetDefault(slog.New(slog.NewTextHandler(io.Discard, &slog.HandlerOptions{Level: slog.LevelError + 8})))
	b, err := os.ReadFile(args[0])
	if err != nil {
		fmt.Fprintln(os.Stderr, err)
		return 64
	}
	var batch c14Batch
	if err := json.Unmarshal(b, &batch); err != nil {
		fmt.Fprintln(os.Stderr, err)
		return 64
	}
	of, err := os.OpenFile(args[1], os.O_CREATE|os.O_WRONLY|os.O_APPEND, 0o644)
	if err != nil {
		fmt.Fprintln(os.Stderr, err)
		return 64
	}
	defer of.Close()
	if batch.Repeat < 1 {
		batch.Repeat = 1
	}
	fmt.Fprintf(os.Stderr, "C14CHILD race=%v\n", c14RaceEnabled)
	for _, t := range batch.Trials {
		for rep := 0; rep < batch.Repeat; rep++ {
			fmt.Fprintf(os.Stderr, "C14TRIAL begin %d\n", t.ID)
			o := c14RunTrial(t)
			fmt.Fprintf(os.Stderr, "C14TRIAL end %d\n", t.ID)
			line, _ := json.Marshal(o)
			_, _ = of.Write(append(line, '\n'))
			if o.Inconc != "" && strings.Contains(o.Inconc, "did not all return") {
				// goroutines of the hung trial are still around: do not let them disturb later trials
				fmt.Fprintf(os.Stderr, "C14CHILD abandoning batch after watchdog\n")
				return 0
			}
		}
	}
	return 0
}
