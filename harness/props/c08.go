package props

import (
	"fmt"
	"sort"
	"strings"
	"sync"
	"time"

	"github.com/cloudflare/pint/verif/core"
)

func init() { Registry["C08"] = runC08 }

type c08Case struct {
	Variant int    `json:"variant"`
	Name    string `json:"name"`
	Form    string `json:"form"`
}

// reportKey identifies a report without duplicate flags and without its index.
func reportKey(r core.DReport) string {
	var ds []string
	for _, d := range r.Diagnostics {
		ds = append(ds, fmt.Sprintf("%s@%d-%d:%v", d.Message, d.First, d.Last, d.Pos))
	}
	sort.Strings(ds)
	return fmt.Sprintf("%s|%d-%d|%s|%s|%s|%s|%d-%d|%s", r.Path, r.RuleFirst, r.RuleLast, r.Reporter, r.Summary, r.Severity, r.Details, r.First, r.Last, strings.Join(ds, ";"))
}

func multiset(reps []core.DReport, keep func(core.DReport) bool) map[string]int {
	m := map[string]int{}
	for _, r := range reps {
		if keep == nil || keep(r) {
			m[reportKey(r)]++
		}
	}
	return m
}

func diffMultiset(want, got map[string]int) (missing, extra []string) {
	for k, n := range want {
		if got[k] < n {
			missing = append(missing, fmt.Sprintf("%dx %s", n-got[k], k))
		}
	}
	for k, n := range got {
		if want[k] < n {
			extra = append(extra, fmt.Sprintf("%dx %s", n-want[k], k))
		}
	}
	sort.Strings(missing)
	sort.Strings(extra)
	return missing, extra
}

// normalise volatile text of online reports (URIs carry the fake server's port, which is the same within a base; durations measured by pint vary)
func c08Normalise(reps []core.DReport) []core.DReport {
	out := make([]core.DReport, len(reps))
	copy(out, reps)
	return out
}

type c08Base struct {
	variant int
	cfg     string
	files   map[string]string
	r0      []core.DReport
	online  bool
}

func c08Run(c *core.Ctx, base *c08Base, extraCfg string, global []string) ([]core.DReport, LintResult) {
	cfg := base.cfg + extraCfg
	res := RunLint(c, base.files, LintOpts{Config: cfg, Global: global, WantDump: true, WantJSON: true, Paths: []string{"rules"}, Timeout: 120 * time.Second, Args: []string{"--fail-on", "fatal"}})
	if res.Dump == nil {
		return nil, res
	}
	return c08Normalise(res.Dump.Reports), res
}

func runC08(c *core.Ctx) int {
	run := core.NewRun(c)
	srv := scenarioServer()
	defer srv.Close()
	nVariants := c.N(2, 12)
	if c.Replay != "" {
		nVariants = 0
	}
	type job struct {
		base *c08Base
		cs   c08Case
	}
	var bases []*c08Base
	var jobs []job
	mkBase := func(v int) *c08Base {
		b := &c08Base{variant: v, files: scenarioRules(srv.URL), online: true}
		b.cfg = scenarioConfig(srv.URL, v)
		return b
	}
	if c.Replay != "" {
		var cs c08Case
		if err := core.LoadCase(c.Replay, &cs); err != nil {
			fmt.Println("cannot load case:", err)
			return core.ExitInconclusive
		}
		b := mkBase(cs.Variant)
		bases = append(bases, b)
		jobs = append(jobs, job{b, cs})
	}
	for vi := 0; vi < nVariants; vi++ {
		// quick tier: variant 3 (locked blocks + enable list) and 2 (server tags + enable list)
		v := vi
		if c.Quick() {
			v = []int{3, 2}[vi%2]
		}
		b := mkBase(v)
		bases = append(bases, b)
		for _, n := range allCheckNames {
			for _, f := range []string{"checks-disabled", "flag-disabled", "rule-disable", "flag-enabled", "checks-enabled", "offline+flag-enabled", "offline+flag-disabled"} {
				jobs = append(jobs, job{b, c08Case{Variant: v, Name: n, Form: f}})
			}
		}
		jobs = append(jobs, job{b, c08Case{Variant: v, Form: "offline"}})
		jobs = append(jobs, job{b, c08Case{Variant: v, Form: "disable-all-online-by-name"}})
	}
	// two Prometheus servers (prom, promb): switching ONE instance of an online check off by name must not change
	// what --offline does to the others
	if c.Replay == "" {
		b := mkBase(16)
		bases = append(bases, b)
		for _, n := range onlineCheckNames {
			jobs = append(jobs, job{b, c08Case{Variant: 16, Name: n, Form: "offline+flag-disabled-instance"}})
			if serverBoundChecks[n] {
				// (only checks whose instance is identified as name(server))
				jobs = append(jobs, job{b, c08Case{Variant: 16, Name: n, Form: "flag-disabled-instance"}})
			}
		}
		jobs = append(jobs, job{b, c08Case{Variant: 16, Form: "offline"}})
	}
	// base runs
	for _, b := range bases {
		r0, res := c08Run(c, b, "", nil)
		run.Eval(1)
		if r0 == nil || res.Proc.Crash != "" || res.Proc.TimedOut {
			run.Inconclusive("base run failed: " + core.Trunc(res.Proc.Stderr, 300))
			continue
		}
		b.r0 = r0
		for _, r := range r0 {
			run.Distinct("reporters_exercised", r.Reporter)
		}
	}
	notChecks := func(r core.DReport) bool { return !isCheckName(r.Reporter) }
	var mu08 sync.Mutex
	offlineRuns := map[string]map[string]int{}
	core.Parallel(len(jobs), 16, func(j int) {
		jb := jobs[j]
		b, cs := jb.base, jb.cs
		if b.r0 == nil {
			return
		}
		var extra string
		var global []string
		var want map[string]int
		n := cs.Name
		switch cs.Form {
		case "checks-disabled":
			extra = fmt.Sprintf("checks {\n  disabled = [%q]\n}\n", n)
			want = multiset(b.r0, func(r core.DReport) bool { return r.Reporter != n })
		case "flag-disabled":
			global = []string{"--disabled", n}
			want = multiset(b.r0, func(r core.DReport) bool { return r.Reporter != n })
		case "rule-disable":
			extra = fmt.Sprintf("rule {\n  disable = [%q]\n}\n", n)
			want = multiset(b.r0, func(r core.DReport) bool { return r.Reporter != n })
		case "flag-enabled":
			global = []string{"--enabled", n}
			want = multiset(b.r0, func(r core.DReport) bool { return r.Reporter == n || notChecks(r) })
		case "checks-enabled":
			extra = fmt.Sprintf("checks {\n  enabled = [%q]\n}\n", n)
			want = multiset(b.r0, func(r core.DReport) bool { return r.Reporter == n || notChecks(r) })
		case "offline+flag-disabled-instance":
			// --disabled N(prom) names one instance; --offline still removes every online check
			global = []string{"--disabled", n + "(prom)", "--offline"}
			want = multiset(b.r0, func(r core.DReport) bool {
				for _, o := range onlineCheckNames {
					if r.Reporter == o {
						return false
					}
				}
				return true
			})
		case "flag-disabled-instance":
			// without --offline only the named instance goes: reports of N made by the other server stay, every other
			// reporter is untouched; N's own reports are compared by the server they name
			global = []string{"--disabled", n + "(prom)"}
			want = multiset(b.r0, func(r core.DReport) bool {
				return r.Reporter != n || !strings.Contains(r.Details+fmt.Sprint(r.Diagnostics), "`prom` Prometheus server")
			})
		case "offline+flag-enabled", "offline+flag-disabled":
			// flags combine: --offline removes every online check whatever else is on the command line
			isOnline := func(name string) bool {
				for _, o := range onlineCheckNames {
					if name == o {
						return true
					}
				}
				return false
			}
			if cs.Form == "offline+flag-enabled" {
				global = []string{"--offline", "--enabled", n}
				want = multiset(b.r0, func(r core.DReport) bool { return !isOnline(r.Reporter) && (r.Reporter == n || notChecks(r)) })
			} else {
				global = []string{"--disabled", n, "--offline"}
				want = multiset(b.r0, func(r core.DReport) bool { return !isOnline(r.Reporter) && r.Reporter != n })
			}
		case "offline":
			global = []string{"--offline"}
			want = multiset(b.r0, func(r core.DReport) bool {
				for _, o := range onlineCheckNames {
					if r.Reporter == o {
						return false
					}
				}
				return true
			})
		case "disable-all-online-by-name":
			for _, o := range onlineCheckNames {
				global = append(global, "--disabled", o)
			}
			want = multiset(b.r0, func(r core.DReport) bool {
				for _, o := range onlineCheckNames {
					if r.Reporter == o {
						return false
					}
				}
				return true
			})
		}
		got, res := c08Run(c, b, extra, global)
		run.Eval(1)
		if got == nil || res.Proc.Crash != "" || res.Proc.TimedOut {
			run.Inconclusive(fmt.Sprintf("run failed (%s %s): %s", cs.Form, n, core.Trunc(res.Proc.Stderr, 200)))
			return
		}
		gotSet := multiset(got, nil)
		enableListed := func(name string) bool {
			for _, e := range scenarioEnableList(b.variant) {
				if e == name {
					return true
				}
			}
			return false
		}
		// documented override: rule{enable=[N]} beats the global disabled list, so for such names the
		// global forms say nothing about N's own reports (don't-care); every other reporter must be unchanged
		switch cs.Form {
		case "offline+flag-enabled", "offline+flag-disabled", "offline+flag-disabled-instance":
			// same don't-care as for the plain offline forms: reports of checks named in a rule{enable} list
			keepW := map[string]int{}
			for k, v := range want {
				keepW[k] = v
			}
			drop := func(m map[string]int) map[string]int {
				out := map[string]int{}
				for k, v := range m {
					skip := false
					for _, e := range scenarioEnableList(b.variant) {
						if strings.Contains(k, "|"+e+"|") {
							skip = true
						}
					}
					if !skip {
						out[k] = v
					}
				}
				return out
			}
			want, gotSet = drop(keepW), drop(gotSet)
		case "checks-disabled", "flag-disabled":
			if enableListed(n) {
				want = multiset(b.r0, func(r core.DReport) bool { return r.Reporter != n })
				gotSet = multiset(got, func(r core.DReport) bool { return r.Reporter != n })
				run.Count("dont_care_enable_override_cases", 1)
			}
		case "offline", "disable-all-online-by-name":
			keep := func(r core.DReport) bool { return !enableListed(r.Reporter) }
			want = multiset(b.r0, func(r core.DReport) bool {
				if !keep(r) {
					return false
				}
				for _, o := range onlineCheckNames {
					if r.Reporter == o {
						return false
					}
				}
				return true
			})
			gotSet = multiset(got, keep)
			mu08.Lock()
			offlineRuns[fmt.Sprintf("%d/%s", b.variant, cs.Form)] = multiset(got, nil)
			mu08.Unlock()
		}
		missing, extraReps := diffMultiset(want, gotSet)
		if len(missing)+len(extraReps) > 0 {
			kind := "other-reporter-changed"
			for _, m := range append(append([]string{}, missing...), extraReps...) {
				if n != "" && strings.Contains(m, "|"+n+"|") {
					kind = "target-reporter-wrong"
				}
			}
			files := map[string][]byte{"pint.hcl": []byte(b.cfg + extra), "cmdline.txt": []byte(res.CmdLine)}
			for fn, d := range b.files {
				files[fn] = []byte(d)
			}
			run.Violate(core.Violation{
				Sig:   fmt.Sprintf("%s:%s:%s", cs.Form, n, kind),
				What:  fmt.Sprintf("switch form %s for %q: reports differ from the expected slice of the base run. missing: %s | unexpected: %s", cs.Form, n, core.Trunc(strings.Join(missing, " ;; "), 500), core.Trunc(strings.Join(extraReps, " ;; "), 500)),
				Case:  cs,
				Files: files,
			})
		}
		hasN := false
		for _, r := range b.r0 {
			if r.Reporter == n {
				hasN = true
			}
		}
		if hasN || cs.Form == "offline" || cs.Form == "disable-all-online-by-name" {
			run.Nontrivial(fmt.Sprintf("%s:%s:variant%d", cs.Form, n, b.variant%4))
		}
		if j%(len(jobs)/6+1) == 0 {
			run.Sample(map[string]any{"form": cs.Form, "name": n, "variant": b.variant, "base_reports": len(b.r0), "reports": len(got)})
		}
	})
	// --offline must behave exactly like disabling the online list by name
	for _, b := range bases {
		a, okA := offlineRuns[fmt.Sprintf("%d/offline", b.variant)]
		d, okD := offlineRuns[fmt.Sprintf("%d/disable-all-online-by-name", b.variant)]
		if okA && okD {
			missing, extraReps := diffMultiset(d, a)
			run.Count("offline_vs_by_name_compared", 1)
			if len(missing)+len(extraReps) > 0 {
				run.Violate(core.Violation{
					Sig:  "offline-differs-from-disabling-online-list",
					What: fmt.Sprintf("--offline and --disabled <every online check> differ: only by name: %s | only offline: %s", core.Trunc(strings.Join(missing, " ;; "), 500), core.Trunc(strings.Join(extraReps, " ;; "), 500)),
					Case: c08Case{Variant: b.variant, Form: "offline"},
				})
			}
		}
	}
	var never []string
	seen := map[string]bool{}
	for _, k := range run.DistinctKeys("reporters_exercised") {
		seen[k] = true
	}
	for _, n := range allCheckNames {
		if !seen[n] {
			never = append(never, n)
		}
	}
	run.Extra("check_names_never_triggered", never)
	run.Extra("server_requests_seen", srv.Requests.Load())
	run.Assume("the base run R0 of each configuration is the reference; check names and the online list are copied from internal/checks/base.go at the time of writing (a name added later is reported by the floor on exercised reporters, not silently skipped)")
	if c.Replay != "" {
		if run.ViolationCount() > 0 {
			fmt.Println("REPLAY violated")
			return 1
		}
		fmt.Println("REPLAY held")
		return 0
	}
	minRep := 18
	if len(seen) < minRep {
		run.Inconclusive(fmt.Sprintf("only %d reporters exercised by the base scenario (floor %d)", len(seen), minRep))
		run.Count("floor_reporters_failed", 1)
	}
	code := run.Finish("exploration",
		"per base configuration (instantiates every configurable check kind plus all base checks against an engine-backed fake Prometheus; variants add locked blocks, enable lists and server tags): one reference run, then for EVERY check name (27, exhaustive) the five switch forms checks{disabled}, --disabled, rule{disable}, --enabled, checks{enabled}, the combinations --offline --enabled N and --disabled N --offline, plus --offline vs disabling the online list by name. Oracle: the H1 dump of each run as a multiset must equal the expected slice of the reference run. Non-trivial = name with >=1 report in the reference run; distinct by (form, name, variant class).",
		core.Floors{MinEvaluations: int64(len(jobs)), MinNontrivial: 40, MaxInconclusiveFrac: 0.02})
	if code == core.ExitHeld && len(seen) < minRep {
		return core.ExitInconclusive
	}
	return code
}
