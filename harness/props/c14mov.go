package props

// C14, "moving end" scenario.
//
// Everywhere else in this monitor a range question carries fixed absolute times, so
// every caller of a question sends byte-identical slice requests. Real callers use
// promapi.RelativeRange: each one reads the clock when it calls, so the same
// relative question ("expr over the last 6h at 5m") asked a little later - by a
// check that runs later, or by a caller that waited on the question's lock while a
// slow server was answering the first one - carries a slightly later end. All its
// slices are aligned and identical except the last one, whose end is the caller's
// own "now". This scenario adds that dimension: every caller has its OWN logical
// now (a RangeQueryTimes with fixed times per caller; the wall clock is not read),
// callers arrive in waves (sequential repeats) and in bursts (lock waiters), and
// the nows of a question are laid out inside / across the cells of its step grid.
//
// Oracle (pure function of the server log and of what the callers received). Two
// successful requests of one upstream are THE SAME SLICE QUESTION when they have
// the same expression, step and start and their ends lie in the same half-step
// cell, i.e. both
//   - floor((end-start)/step) is equal: the server evaluates exactly the same
//     timestamps start, start+step, ... <= end for both, and
//   - end rounded to the nearest multiple of step (time.Time.Round) is equal.
// The first condition is the strictest meaning of "identical question" (same
// evaluation grid), the second is the coarser notion pint's slice cache documents
// by rounding the slice end; a reuse is demanded only where both agree, so the
// check never asks for more sharing than either reading of the statement gives.
// All callers of one question take the same lock (expression/lookback/step) and
// every answer in this scenario is successful, therefore on a correct client a
// second request of the same slice question can never reach the server within a
// trial (milliseconds, against a cache lifetime of >= 10 minutes and a 2-minute
// sweeper): it is reported as rerequest-after-success.
//
// Nothing is demanded for ends in different cells (counted only), and nothing
// about how a range is cut into slices: groups are formed from the requests the
// server saw.

import (
	"fmt"
	"math"
	"math/rand"
	"sort"
	"strconv"
	"strings"
	"time"
)

type c14MovStats struct {
	Callers            int      `json:"callers"`
	SharedCells        int      `json:"shared_cells"`          // (question, half-step cell) holding >= 2 callers with different now
	RepeatCalls        int      `json:"repeat_calls"`          // callers beyond the first in such cells: each must be answered without a new moving-end request
	RepeatSequential   int      `json:"repeat_sequential"`     // ... that started after an earlier caller of their cell had returned
	RepeatWaiting      int      `json:"repeat_waiting"`        // ... that were called while an earlier caller of their cell was still out
	ServedOtherEnd     int      `json:"served_other_end"`      // callers whose last slice is the answer to a request with another end than their own now
	MovingEndRequests  int      `json:"moving_end_requests"`   // successful requests whose end is some caller's now
	AlignedRequests    int      `json:"aligned_requests"`      // successful requests with a slice-aligned end
	SliceGroupsChecked int      `json:"slice_groups_checked"`  // (class, start, end cell) groups the reuse rule was evaluated on
	SliceGroupsShared  int      `json:"slice_groups_shared"`   // ... asked by >= 2 callers (via their results)
	OtherCellPairs     int      `json:"other_cell_pairs"`      // same start, ends in different cells: requested separately, no demand
	SameGridOtherRound int      `json:"same_grid_other_round"` // ... of which same evaluation grid but different rounding bucket
	EndDistance        []string `json:"end_distance,omitempty"`
}

// rngAt is the question's range as seen by a caller whose clock reads nowOffMs after the question's end.
func (q c14Question) rngAt(nowOffMs int64) c14Range {
	r := q.rng()
	if nowOffMs != 0 {
		d := time.Duration(nowOffMs) * time.Millisecond
		r.start, r.end = r.start.Add(d), r.end.Add(d)
	}
	return r
}

// ---- generator ----

var c14MovLookback = []int64{2 * 3600, 3 * 3600, 6 * 3600, 7 * 3600, 13 * 3600, 26 * 3600, 40 * 3600}

func c14GenMoving(r *rand.Rand, id int) c14Trial {
	t := c14GenCommon(r, id, "moving")
	t.MaxDelayUs = []int{0, 300, 1000, 2000}[r.Intn(4)]
	nq := 1 + r.Intn(3)
	sched := []string{"sequential", "burst", "waves"}[r.Intn(3)]
	nWaves := 1
	switch sched {
	case "sequential":
		nWaves = 64 // every caller its own wave
	case "waves":
		nWaves = 2 + r.Intn(2)
	}
	seen := map[string]bool{}
	type lay struct {
		nows []int64 // candidate offsets in ms
	}
	var lays []lay
	for tries := 0; len(t.Questions) < nq && tries < 20; tries++ {
		q := c14Question{Kind: "range", Expr: c14Expr(r.Intn(6)), StepS: c14Steps[r.Intn(len(c14Steps))]}
		if seen[q.class()] {
			continue
		}
		seen[q.class()] = true
		q.LookbackS = c14MovLookback[r.Intn(len(c14MovLookback))]
		if r.Intn(6) == 0 {
			// control: shorter than one slice, the start moves with the clock, every now is its own question
			q.LookbackS = c14SingleLook[r.Intn(len(c14SingleLook))]
		}
		if q.StepS >= q.LookbackS {
			q.StepS = 60
			if seen[q.class()] {
				continue
			}
			seen[q.class()] = true
		}
		q.EndOff = int64(r.Intn(86400))
		switch r.Intn(8) {
		case 0: // the clock reads exactly a slice boundary
			q.EndOff -= q.EndOff % 7200
		case 1: // exactly a step boundary
			q.EndOff -= q.EndOff % q.StepS
		case 2: // start on a slice boundary
			q.EndOff -= (q.EndOff - q.LookbackS%7200 + 7200) % 7200
		}
		// cells of the step grid are half a step wide (see the oracle); lay the nows out relative to the cell that holds the end
		step := time.Duration(q.StepS) * time.Second
		half := step / 2
		end := c14BaseTime.Add(time.Duration(q.EndOff) * time.Second)
		cell0 := end.Truncate(half)
		// 1-2 populated cells: the end's own and, sometimes, a neighbour (negative control: may be asked again)
		cells := []time.Time{cell0}
		if r.Intn(3) == 0 {
			cells = append(cells, cell0.Add(half*time.Duration(1-2*r.Intn(2))))
		}
		var l lay
		l.nows = append(l.nows, 0) // one caller asks at the end itself
		spread := half
		switch r.Intn(4) {
		case 0: // a few seconds apart
			spread = 10 * time.Second
		case 1: // within about a minute
			spread = 70 * time.Second
		}
		for i := 0; i < 12; i++ {
			c := cells[0]
			if i > 0 && len(cells) > 1 && r.Intn(3) == 0 {
				c = cells[1]
			}
			lo, hi := c, c.Add(half)
			if c.Equal(cell0) && spread < half {
				// cluster around the end, clipped to its cell
				if x := end.Add(-spread); x.After(lo) {
					lo = x
				}
				if x := end.Add(spread); x.Before(hi) {
					hi = x
				}
			}
			span := hi.Sub(lo).Milliseconds()
			if span <= 0 {
				continue
			}
			var at time.Time
			switch r.Intn(10) {
			case 0:
				at = lo // first instant of the cell
			case 1:
				at = hi.Add(-time.Millisecond) // last millisecond of the cell
			case 2, 3, 4:
				at = lo.Add(time.Duration(r.Int63n(span/1000+1)) * time.Second).Truncate(time.Second) // whole seconds
				if at.Before(lo) {
					at = lo
				}
			default:
				at = lo.Add(time.Duration(r.Int63n(span)) * time.Millisecond)
			}
			off := at.Sub(end).Milliseconds()
			if i == 0 && off > -1000 && off < 1000 {
				// the second candidate shares the end's cell but not its second
				i--
				continue
			}
			l.nows = append(l.nows, off)
		}
		t.Questions = append(t.Questions, q)
		lays = append(lays, l)
	}
	per := []int{2, 3, 4, 6, 8}[r.Intn(5)]
	for qi := range t.Questions {
		l := lays[qi]
		for k := 0; k < per; k++ {
			c := c14Caller{Q: qi}
			switch {
			case k == 0:
				c.NowOffMs = l.nows[0]
			case k == 1:
				c.NowOffMs = l.nows[1] // in the end's cell, at least a second away from it
			default:
				c.NowOffMs = l.nows[r.Intn(len(l.nows))]
			}
			switch sched {
			case "sequential":
				c.Wave = len(t.Callers)
			case "waves":
				c.Wave = r.Intn(nWaves)
			}
			if sched != "sequential" && r.Intn(3) == 0 {
				c.DelayUs = r.Intn(2000)
			}
			t.Callers = append(t.Callers, c)
		}
	}
	if sched == "sequential" {
		// shuffle the order in which the callers take their turns
		perm := r.Perm(len(t.Callers))
		for i := range t.Callers {
			t.Callers[i].Wave = perm[i]
		}
	} else {
		// no empty waves
		used := map[int]bool{}
		for _, c := range t.Callers {
			used[c.Wave] = true
		}
		var ws []int
		for w := range used {
			ws = append(ws, w)
		}
		sort.Ints(ws)
		idx := map[int]int{}
		for i, w := range ws {
			idx[w] = i
		}
		for i := range t.Callers {
			t.Callers[i].Wave = idx[t.Callers[i].Wave]
		}
	}
	return t
}

// ---- oracle ----

// c14ParseSec parses a time as the client sends it (seconds since the epoch, decimal fraction) into milliseconds.
func c14ParseSec(s string) (int64, bool) {
	f, err := strconv.ParseFloat(s, 64)
	if err != nil || math.IsNaN(f) || math.IsInf(f, 0) {
		return 0, false
	}
	return int64(math.Round(f * 1000)), true
}

type c14MovCell struct {
	grid  int64 // floor((end-start)/step): number of evaluation steps after start
	round int64 // end rounded to the nearest multiple of step the way time.Time.Round does, unix seconds
}

func c14CellOf(startMs, endMs, stepS int64) c14MovCell {
	stepMs := stepS * 1000
	g := (endMs - startMs) / stepMs
	if endMs < startMs {
		g = -1
	}
	return c14MovCell{grid: g, round: time.UnixMilli(endMs).UTC().Round(time.Duration(stepS) * time.Second).Unix()}
}

type c14MovReq struct {
	req            c14Req
	startS         string
	startMs, endMs int64
	cell           c14MovCell
}

func c14DistBucket(ms int64) string {
	if ms < 0 {
		ms = -ms
	}
	switch {
	case ms == 0:
		return "0:same-instant"
	case ms < 1000:
		return "1:under-1s"
	case ms < 10000:
		return "2:1s-10s"
	case ms < 60000:
		return "3:10s-60s"
	case ms < 600000:
		return "4:1m-10m"
	default:
		return "5:over-10m"
	}
}

func c14CheckMoving(t c14Trial, obs c14Observed, out *c14Outcome, viol func(sig, what string)) {
	st := &out.Stats
	ms := &c14MovStats{Callers: len(obs.Calls)}
	st.Moving = ms
	baseMs := c14BaseTime.UnixMilli()
	dist := map[string]bool{}

	// ---- server side: the reuse rule over (class, start, end cell) ----
	byClass := map[string][]c14MovReq{}
	for _, r := range obs.Logs["A"] {
		if r.Status != "ok" || !strings.HasPrefix(r.Class, "range|") {
			continue
		}
		se := strings.SplitN(r.Slice, "..", 2)
		if len(se) != 2 {
			continue
		}
		a, ok1 := c14ParseSec(se[0])
		b, ok2 := c14ParseSec(se[1])
		if !ok1 || !ok2 {
			continue
		}
		byClass[r.Class] = append(byClass[r.Class], c14MovReq{req: r, startS: se[0], startMs: a, endMs: b})
	}
	// which (class, slice) each caller holds, to count shared groups
	holders := map[string]int{}
	for _, c := range obs.Calls {
		for s := range c.Slices {
			holders[t.Questions[c.Q].class()+"|"+s]++
		}
	}
	nowOf := map[string]map[int64]bool{} // class -> set of caller nows (ms)
	for _, c := range t.Callers {
		q := t.Questions[c.Q]
		if nowOf[q.class()] == nil {
			nowOf[q.class()] = map[int64]bool{}
		}
		nowOf[q.class()][baseMs+q.EndOff*1000+c.NowOffMs] = true
	}
	for qi, q := range t.Questions {
		class := q.class()
		dup := false
		for j := 0; j < qi; j++ {
			if t.Questions[j].class() == class {
				dup = true
			}
		}
		if dup {
			continue
		}
		reqs := byClass[class]
		st.Slices += len(reqs)
		type gk struct {
			start string
			cell  c14MovCell
		}
		groups := map[gk][]c14MovReq{}
		byStart := map[string][]c14MovReq{}
		for i := range reqs {
			reqs[i].cell = c14CellOf(reqs[i].startMs, reqs[i].endMs, q.StepS)
			k := gk{reqs[i].startS, reqs[i].cell}
			groups[k] = append(groups[k], reqs[i])
			byStart[reqs[i].startS] = append(byStart[reqs[i].startS], reqs[i])
			if nowOf[class][reqs[i].endMs] {
				ms.MovingEndRequests++
			} else {
				ms.AlignedRequests++
			}
		}
		keys := make([]gk, 0, len(groups))
		for k := range groups {
			keys = append(keys, k)
		}
		sort.Slice(keys, func(i, j int) bool {
			if keys[i].start != keys[j].start {
				return keys[i].start < keys[j].start
			}
			if keys[i].cell.round != keys[j].cell.round {
				return keys[i].cell.round < keys[j].cell.round
			}
			return keys[i].cell.grid < keys[j].cell.grid
		})
		for _, k := range keys {
			g := groups[k]
			ms.SliceGroupsChecked++
			h := 0
			for _, r := range g {
				h += holders[class+"|"+r.req.Slice]
			}
			if h >= 2 {
				ms.SliceGroupsShared++
			}
			if len(g) < 2 {
				continue
			}
			sort.Slice(g, func(i, j int) bool { return g[i].req.Enter < g[j].req.Enter })
			a, b := g[0], g[1]
			if a.req.Key == b.req.Key {
				viol("rerequest-after-success:range", fmt.Sprintf("%s slice %s reached upstream A %d times although every answer was successful (requests entered at %dns and %dns)", class, a.req.Slice, len(g), a.req.Enter, b.req.Enter))
				continue
			}
			viol("rerequest-after-success:range-end-within-step",
				fmt.Sprintf("the same slice question reached upstream A %d times although the first answer was successful: %s start=%s step=%ds was requested with end=%s (entered %dns, left %dns) and again with end=%s (entered %dns); both ends are %d whole steps after the start and round to the same multiple of the step (unix %d), so the second request asks exactly the question the first answer belongs to (its caller's clock read %+.3fs relative to the first)", len(g), class, a.startS, q.StepS,
					strings.SplitN(a.req.Slice, "..", 2)[1], a.req.Enter, a.req.Leave, strings.SplitN(b.req.Slice, "..", 2)[1], b.req.Enter, a.cell.grid, a.cell.round, float64(b.endMs-a.endMs)/1000))
		}
		// information only: same start, different cells
		for _, rs := range byStart {
			for i := 0; i < len(rs); i++ {
				for j := i + 1; j < len(rs); j++ {
					if rs[i].cell == rs[j].cell {
						continue
					}
					ms.OtherCellPairs++
					if rs[i].cell.grid == rs[j].cell.grid {
						ms.SameGridOtherRound++
					}
				}
			}
		}
	}

	// ---- caller side ----
	type callerView struct {
		c      c14Call
		nowMs  int64
		cell   c14MovCell // of its own now, relative to the start of its last slice
		starts string
		ok     bool
	}
	views := make([]callerView, 0, len(obs.Calls))
	okReq := map[string]bool{}
	for _, r := range obs.Logs["A"] {
		if r.Status == "ok" {
			okReq[r.Class+"|"+r.Slice+"#"+strconv.Itoa(r.N)] = true
		}
	}
	for _, c := range obs.Calls {
		q := t.Questions[c.Q]
		class := q.class()
		v := callerView{c: c, nowMs: baseMs + q.EndOff*1000 + t.Callers[c.Caller].NowOffMs}
		if c.Foreign != "" {
			viol("foreign-value:range", fmt.Sprintf("caller %d asked %s and received %s", c.Caller, class, c.Foreign))
		}
		if c.Err != "" {
			if c14IsInjectedErr(c.Err) || c14IsAPIErr(c.Err) || strings.Contains(c.Err, "context canceled") {
				viol("unexpected-error:range", fmt.Sprintf("caller %d asked %s and got error %q although no failure was injected", c.Caller, class, c.Err))
			} else if out.Inconc == "" {
				out.Inconc = fmt.Sprintf("trial %d: environment error at caller %d: %s", t.ID, c.Caller, c.Err)
			}
			views = append(views, v)
			continue
		}
		if c.Server != "A" || c.URI != "upstream-A" {
			viol("foreign-value:range", fmt.Sprintf("caller %d asked %s and received a value of upstream %q with URI %q", c.Caller, class, c.Server, c.URI))
			views = append(views, v)
			continue
		}
		if c.Dup != "" {
			viol("range-result-mixed", fmt.Sprintf("caller %d asked %s and received slice %s from two different requests", c.Caller, class, c.Dup))
		}
		if len(c.Slices) == 0 {
			viol("range-result-incomplete", fmt.Sprintf("caller %d asked %s and received no slice at all", c.Caller, class))
			views = append(views, v)
			continue
		}
		var starts []string
		lastStart, lastEnd := int64(math.MinInt64), int64(0)
		parsed := true
		for s, n := range c.Slices {
			if !okReq[class+"|"+s+"#"+strconv.Itoa(n)] {
				viol("ghost-value:range", fmt.Sprintf("caller %d asked %s and received slice %s of request #%d, which upstream A never answered successfully", c.Caller, class, s, n))
			}
			se := strings.SplitN(s, "..", 2)
			a, ok1 := c14ParseSec(se[0])
			b, ok2 := int64(0), false
			if len(se) == 2 {
				b, ok2 = c14ParseSec(se[1])
			}
			if !ok1 || !ok2 {
				parsed = false
				continue
			}
			starts = append(starts, se[0])
			if a > lastStart {
				lastStart, lastEnd = a, b
			}
		}
		if !parsed {
			views = append(views, v)
			continue
		}
		sort.Strings(starts)
		v.starts = strings.Join(starts, ",")
		v.cell = c14CellOf(lastStart, v.nowMs, q.StepS)
		v.ok = true
		// the newest slice a caller holds must be an answer to ITS question: its end rounds to the same multiple
		// of the step as the caller's own now (an answer is either fresh, end == now, or reused under the rule above)
		got := c14CellOf(lastStart, lastEnd, q.StepS)
		if got.round != v.cell.round {
			viol("stale-slice:range", fmt.Sprintf("caller %d asked %s at now=%.3f and its newest slice ends at %.3f, which rounds to another multiple of the %ds step (unix %d, the caller's now rounds to %d): it was handed the answer to a different question", c.Caller, class, float64(v.nowMs)/1000, float64(lastEnd)/1000, q.StepS, got.round, v.cell.round))
		}
		if lastEnd != v.nowMs {
			ms.ServedOtherEnd++
			dist[c14DistBucket(lastEnd-v.nowMs)] = true
		}
		views = append(views, v)
	}

	// callers of one question whose nows share a cell and that hold the same slices hold the same answers
	type ck struct {
		q      int
		cell   c14MovCell
		starts string
	}
	cells := map[ck][]callerView{}
	for _, v := range views {
		if !v.ok {
			continue
		}
		// questions of equal class are the same question for this purpose only if they are the same index: lock keys differ otherwise
		k := ck{v.c.Q, v.cell, v.starts}
		cells[k] = append(cells[k], v)
	}
	cks := make([]ck, 0, len(cells))
	for k := range cells {
		cks = append(cks, k)
	}
	sort.Slice(cks, func(i, j int) bool {
		if cks[i].q != cks[j].q {
			return cks[i].q < cks[j].q
		}
		if cks[i].starts != cks[j].starts {
			return cks[i].starts < cks[j].starts
		}
		if cks[i].cell.round != cks[j].cell.round {
			return cks[i].cell.round < cks[j].cell.round
		}
		return cks[i].cell.grid < cks[j].cell.grid
	})
	for _, k := range cks {
		vs := cells[k]
		if len(vs) > st.MaxContention {
			st.MaxContention = len(vs)
		}
		if len(vs) < 2 {
			continue
		}
		st.ContendedKeys++
		nows := map[int64]bool{}
		for _, v := range vs {
			nows[v.nowMs] = true
		}
		sort.Slice(vs, func(i, j int) bool { return vs[i].c.Call < vs[j].c.Call })
		if len(nows) >= 2 {
			ms.SharedCells++
			ms.RepeatCalls += len(vs) - 1
			minRet := vs[0].c.Return
			for _, v := range vs[1:] {
				if v.c.Call > minRet {
					ms.RepeatSequential++
				} else {
					ms.RepeatWaiting++
				}
				if v.c.Return < minRet {
					minRet = v.c.Return
				}
				dist[c14DistBucket(v.nowMs-vs[0].nowMs)] = true
			}
		}
		first := vs[0]
		for _, v := range vs[1:] {
			same := len(v.c.Slices) == len(first.c.Slices)
			for s, n := range v.c.Slices {
				if fn, has := first.c.Slices[s]; !has || fn != n {
					same = false
				}
			}
			if !same {
				viol("unequal-results:range", fmt.Sprintf("callers %d (now %.3f) and %d (now %.3f) asked %s, their nows lie in the same cell of the step grid and they hold the same slices, yet they received different answers (%v vs %v)", first.c.Caller, float64(first.nowMs)/1000, v.c.Caller, float64(v.nowMs)/1000, t.Questions[k.q].class(), first.c.Slices, v.c.Slices))
				break
			}
		}
	}
	for d := range dist {
		ms.EndDistance = append(ms.EndDistance, d)
	}
	sort.Strings(ms.EndDistance)
}
