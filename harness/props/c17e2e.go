package props

// End-to-end backend for C17: the real GitLabReporter / GithubReporter talk to
// a stateful fake of the GitLab / GitHub HTTP API (httptest, port 0).

import (
	"context"
	"encoding/json"
	"fmt"
	"io"
	"net/http"
	"net/http/httptest"
	"regexp"
	"strconv"
	"strings"
	"sync"
	"time"

	"github.com/cloudflare/pint/internal/reporter"
)

const (
	c17PintUser  = 7
	c17HumanUser = 9
)

type c17Stored struct {
	c17Comment
	newLine int    // gitlab position
	oldLine int    // gitlab position
	side    string // github
}

type c17E2E struct {
	cs      c17Case
	mu      sync.Mutex
	srv     *httptest.Server
	stores  [][]*c17Stored
	nextID  int
	errs    []string
	gl      reporter.GitLabReporter
	gh      reporter.GithubReporter
	ghDst   any
	reviews []map[string]any
	diffs   []map[string]any // gitlab
	files   []map[string]any // github
	reqs    int
}

func c17NewE2E(cs c17Case) (*c17E2E, error) {
	e := &c17E2E{cs: cs, nextID: 1}
	patches := map[string]string{}
	for f, ops := range cs.Ops {
		if ops == "" {
			continue
		}
		u := c17Unified(f, ops)
		patches[c17Files[f]] = u
		e.diffs = append(e.diffs, map[string]any{"old_path": c17Files[f], "new_path": c17Files[f], "diff": u})
		e.files = append(e.files, map[string]any{"filename": c17Files[f], "patch": u, "status": "modified"})
	}
	n := 1
	if cs.Platform == "gitlab" {
		n = max(1, cs.Dests)
	}
	e.stores = make([][]*c17Stored, n)
	var err error
	if cs.Platform == "gitlab" {
		e.srv = httptest.NewServer(http.HandlerFunc(e.serveGitLab))
		e.gl, err = reporter.NewGitLabReporter("v0.0.0", "feature", e.srv.URL, 20*time.Second, "token", 5, cs.Budget)
	} else {
		e.srv = httptest.NewServer(http.HandlerFunc(e.serveGitHub))
		e.gh, err = reporter.NewGithubReporter(context.Background(), "v0.0.0", e.srv.URL, e.srv.URL, 20*time.Second, "token", "o", "r", 1, cs.Budget, "HEAD", cs.ShowDup)
		e.ghDst = reporter.VerifGithubDestination(patches)
	}
	if err != nil {
		e.srv.Close()
		return nil, err
	}
	return e, nil
}

func (e *c17E2E) Commenter() reporter.Commenter {
	if e.cs.Platform == "gitlab" {
		return e.gl
	}
	return e.gh
}

func (e *c17E2E) NumDests() int { return len(e.stores) }

func (e *c17E2E) Dst(int) any {
	if e.cs.Platform == "github" {
		return e.ghDst
	}
	return nil
}

func (e *c17E2E) Close() { e.srv.Close() }

func (e *c17E2E) Errors() []string {
	e.mu.Lock()
	defer e.mu.Unlock()
	return append([]string{}, e.errs...)
}

func (e *c17E2E) Snapshot(dest int) []c17Comment {
	e.mu.Lock()
	defer e.mu.Unlock()
	out := make([]c17Comment, 0, len(e.stores[dest]))
	for _, s := range e.stores[dest] {
		out = append(out, s.c17Comment)
	}
	return out
}

func (e *c17E2E) Visible(cm c17Comment) bool {
	if cm.Path == "" {
		return false
	}
	if e.cs.Platform == "gitlab" && cm.Foreign {
		return false
	}
	return true
}

func (e *c17E2E) Add(dest int, cm c17Comment) {
	e.mu.Lock()
	defer e.mu.Unlock()
	cm.ID = e.nextID
	e.nextID++
	e.stores[dest] = append(e.stores[dest], &c17Stored{c17Comment: cm, newLine: cm.Line, side: "RIGHT"})
}

func (e *c17E2E) Remove(dest int, id int) {
	e.mu.Lock()
	defer e.mu.Unlock()
	e.removeLocked(dest, id)
}

func (e *c17E2E) removeLocked(dest int, id int) bool {
	for i, s := range e.stores[dest] {
		if s.ID == id {
			e.stores[dest] = append(append([]*c17Stored{}, e.stores[dest][:i]...), e.stores[dest][i+1:]...)
			return true
		}
	}
	return false
}

func (e *c17E2E) IsEqual(dst any, ex reporter.ExistingComment, p reporter.PendingComment) bool {
	if e.cs.Platform == "github" {
		return e.gh.IsEqual(dst, ex, p)
	}
	return e.gl.IsEqual(dst, ex, p)
}

func (e *c17E2E) CanDelete(ex reporter.ExistingComment) bool {
	if e.cs.Platform == "github" {
		return e.gh.CanDelete(ex)
	}
	return e.gl.CanDelete(ex)
}

func (e *c17E2E) PlaceLine(dst any, p reporter.PendingComment) (int, bool) {
	return c17PlaceLine(e.IsEqual, dst, p)
}

func (e *c17E2E) fail(msg string) {
	if len(e.errs) < 5 {
		e.errs = append(e.errs, msg)
	}
}

func c17WriteJSON(w http.ResponseWriter, status int, v any) {
	b, _ := json.Marshal(v)
	w.Header().Set("Content-Type", "application/json")
	w.WriteHeader(status)
	_, _ = w.Write(b)
}

// c17Page cuts items[page] out; next is 0 on the last page.
func c17Page[T any](items []T, r *http.Request, perPage int) (out []T, next int) {
	page, _ := strconv.Atoi(r.URL.Query().Get("page"))
	if page < 1 {
		page = 1
	}
	if pp, _ := strconv.Atoi(r.URL.Query().Get("per_page")); pp > 0 {
		perPage = pp
	}
	lo := min(len(items), (page-1)*perPage)
	hi := min(len(items), lo+perPage)
	if hi < len(items) {
		next = page + 1
	}
	return items[lo:hi], next
}

// ---------------------------------------------------------------------------
// GitLab

var (
	c17GLDisc = regexp.MustCompile(`^/api/v4/projects/5/merge_requests/(\d+)/(versions|diffs|discussions)$`)
	c17GLNote = regexp.MustCompile(`^/api/v4/projects/5/merge_requests/(\d+)/discussions/d(\d+)/notes/(\d+)$`)
)

func (e *c17E2E) glDiscussion(s *c17Stored) map[string]any {
	author := c17PintUser
	if s.Foreign {
		author = c17HumanUser
	}
	note := map[string]any{"id": s.ID, "body": s.Text, "author": map[string]any{"id": author, "username": "u" + strconv.Itoa(author)}, "system": false}
	if s.Path != "" {
		pos := map[string]any{"base_sha": "base", "start_sha": "start", "head_sha": "head", "position_type": "text", "new_path": s.Path, "old_path": s.Path}
		if s.newLine > 0 {
			pos["new_line"] = s.newLine
		}
		if s.oldLine > 0 {
			pos["old_line"] = s.oldLine
		}
		note["position"] = pos
		note["type"] = "DiffNote"
	}
	return map[string]any{"id": "d" + strconv.Itoa(s.ID), "individual_note": s.Path == "", "notes": []any{note}}
}

func (e *c17E2E) serveGitLab(w http.ResponseWriter, r *http.Request) {
	e.mu.Lock()
	defer e.mu.Unlock()
	e.reqs++
	path := r.URL.Path
	setNext := func(next int) {
		if next > 0 {
			w.Header().Set("X-Next-Page", strconv.Itoa(next))
		}
	}
	switch {
	case path == "/api/v4/user" && r.Method == http.MethodGet:
		c17WriteJSON(w, 200, map[string]any{"id": c17PintUser, "username": "pint"})
		return
	case path == "/api/v4/projects/5/merge_requests" && r.Method == http.MethodGet:
		if r.URL.Query().Get("source_branch") != "feature" || r.URL.Query().Get("state") != "opened" {
			c17WriteJSON(w, 200, []any{})
			return
		}
		var mrs []any
		for i := range e.stores {
			mrs = append(mrs, map[string]any{"iid": i + 1, "id": 100 + i})
		}
		c17WriteJSON(w, 200, mrs)
		return
	}
	if m := c17GLNote.FindStringSubmatch(path); m != nil && r.Method == http.MethodDelete {
		mr, _ := strconv.Atoi(m[1])
		did, _ := strconv.Atoi(m[2])
		nid, _ := strconv.Atoi(m[3])
		if mr < 1 || mr > len(e.stores) || did != nid || !e.removeLocked(mr-1, nid) {
			e.fail("DELETE of unknown note " + path)
			c17WriteJSON(w, 404, map[string]any{"message": "404 Not found"})
			return
		}
		w.WriteHeader(204)
		return
	}
	m := c17GLDisc.FindStringSubmatch(path)
	if m == nil {
		e.fail("unexpected request " + r.Method + " " + path)
		c17WriteJSON(w, 404, map[string]any{"message": "404 Not found"})
		return
	}
	mr, _ := strconv.Atoi(m[1])
	if mr < 1 || mr > len(e.stores) {
		e.fail("unknown merge request " + path)
		c17WriteJSON(w, 404, map[string]any{"message": "404 Not found"})
		return
	}
	switch {
	case m[2] == "versions" && r.Method == http.MethodGet:
		vers := []any{
			map[string]any{"id": 2, "head_commit_sha": "head", "base_commit_sha": "base", "start_commit_sha": "start", "state": "collected"},
			map[string]any{"id": 1, "head_commit_sha": "oldhead", "base_commit_sha": "oldbase", "start_commit_sha": "oldstart", "state": "collected"},
		}
		out, next := c17Page(vers, r, 20)
		setNext(next)
		c17WriteJSON(w, 200, out)
	case m[2] == "diffs" && r.Method == http.MethodGet:
		out, next := c17Page(e.diffs, r, 2) // small pages: the reporter has to follow them
		setNext(next)
		c17WriteJSON(w, 200, out)
	case m[2] == "discussions" && r.Method == http.MethodGet:
		all := []map[string]any{{"id": "sys1", "individual_note": true, "notes": []any{map[string]any{"id": 900001, "body": "changed the description", "system": true, "author": map[string]any{"id": c17PintUser}}}}}
		for _, s := range e.stores[mr-1] {
			all = append(all, e.glDiscussion(s))
		}
		out, next := c17Page(all, r, 20)
		setNext(next)
		c17WriteJSON(w, 200, out)
	case m[2] == "discussions" && r.Method == http.MethodPost:
		body, _ := io.ReadAll(r.Body)
		var req struct {
			Body     string `json:"body"`
			Position *struct {
				NewPath string `json:"new_path"`
				OldPath string `json:"old_path"`
				NewLine int    `json:"new_line"`
				OldLine int    `json:"old_line"`
				BaseSHA string `json:"base_sha"`
				HeadSHA string `json:"head_sha"`
			} `json:"position"`
		}
		if err := json.Unmarshal(body, &req); err != nil {
			e.fail("undecodable POST body: " + err.Error())
			c17WriteJSON(w, 400, map[string]any{"message": "bad request"})
			return
		}
		s := &c17Stored{c17Comment: c17Comment{ID: e.nextID, Text: req.Body}}
		e.nextID++
		if req.Position != nil {
			s.Path = req.Position.NewPath
			if s.Path == "" {
				s.Path = req.Position.OldPath
			}
			s.newLine, s.oldLine = req.Position.NewLine, req.Position.OldLine
			s.Line = s.newLine
			if s.Line == 0 {
				s.Line = s.oldLine
			}
			if req.Position.HeadSHA != "head" || req.Position.BaseSHA != "base" {
				e.fail("discussion created against a diff version that is not the latest one")
			}
		}
		e.stores[mr-1] = append(e.stores[mr-1], s)
		c17WriteJSON(w, 201, e.glDiscussion(s))
	default:
		e.fail("unexpected request " + r.Method + " " + path)
		c17WriteJSON(w, 404, map[string]any{"message": "404 Not found"})
	}
}

// ---------------------------------------------------------------------------
// GitHub

func (e *c17E2E) ghComment(s *c17Stored) map[string]any {
	login := "pint"
	if s.Foreign {
		login = "human"
	}
	m := map[string]any{"id": s.ID, "body": s.Text, "user": map[string]any{"login": login}}
	if s.Path != "" {
		m["path"] = s.Path
		m["line"] = s.Line
		m["side"] = s.side
		m["commit_id"] = "HEAD"
	}
	return m
}

func (e *c17E2E) serveGitHub(w http.ResponseWriter, r *http.Request) {
	e.mu.Lock()
	defer e.mu.Unlock()
	e.reqs++
	const base = "/api/v3/repos/o/r"
	path := r.URL.Path
	link := func(next int) {
		if next > 0 {
			q := r.URL.Query()
			q.Set("page", strconv.Itoa(next))
			w.Header().Set("Link", fmt.Sprintf("<%s%s?%s>; rel=\"next\"", e.srv.URL, path, q.Encode()))
		}
	}
	perPage := 1 << 20
	if e.cs.Paginate {
		perPage = 30 // documented default page size of the GitHub REST API
	}
	switch {
	case path == base+"/pulls/1/files" && r.Method == http.MethodGet:
		out, next := c17Page(e.files, r, perPage)
		link(next)
		c17WriteJSON(w, 200, out)
	case path == base+"/pulls/1/comments" && r.Method == http.MethodGet:
		var all []map[string]any
		for _, s := range e.stores[0] {
			if s.Path != "" {
				all = append(all, e.ghComment(s))
			}
		}
		if all == nil {
			all = []map[string]any{}
		}
		out, next := c17Page(all, r, perPage)
		link(next)
		c17WriteJSON(w, 200, out)
	case path == base+"/pulls/1/comments" && r.Method == http.MethodPost:
		body, _ := io.ReadAll(r.Body)
		var req struct {
			Body     string `json:"body"`
			Path     string `json:"path"`
			Line     int    `json:"line"`
			Side     string `json:"side"`
			CommitID string `json:"commit_id"`
		}
		if err := json.Unmarshal(body, &req); err != nil || req.Path == "" {
			e.fail("undecodable review comment: " + string(body))
			c17WriteJSON(w, 422, map[string]any{"message": "Validation Failed"})
			return
		}
		s := &c17Stored{c17Comment: c17Comment{ID: e.nextID, Path: req.Path, Line: req.Line, Text: req.Body}, side: req.Side}
		e.nextID++
		e.stores[0] = append(e.stores[0], s)
		c17WriteJSON(w, 201, e.ghComment(s))
	case path == base+"/pulls/1/reviews" && r.Method == http.MethodGet:
		if e.reviews == nil {
			c17WriteJSON(w, 200, []any{})
		} else {
			c17WriteJSON(w, 200, e.reviews)
		}
	case path == base+"/pulls/1/reviews" && r.Method == http.MethodPost:
		body, _ := io.ReadAll(r.Body)
		var req struct {
			Body string `json:"body"`
		}
		_ = json.Unmarshal(body, &req)
		rv := map[string]any{"id": 1000 + len(e.reviews), "body": req.Body, "state": "COMMENTED"}
		e.reviews = append(e.reviews, rv)
		c17WriteJSON(w, 200, rv)
	case strings.HasPrefix(path, base+"/pulls/1/reviews/") && r.Method == http.MethodPut:
		id, _ := strconv.Atoi(strings.TrimPrefix(path, base+"/pulls/1/reviews/"))
		body, _ := io.ReadAll(r.Body)
		var req struct {
			Body string `json:"body"`
		}
		_ = json.Unmarshal(body, &req)
		for _, rv := range e.reviews {
			if rv["id"] == id {
				rv["body"] = req.Body
				c17WriteJSON(w, 200, rv)
				return
			}
		}
		e.fail("update of unknown review " + path)
		c17WriteJSON(w, 404, map[string]any{"message": "Not Found"})
	case path == base+"/issues/1/comments" && r.Method == http.MethodPost:
		body, _ := io.ReadAll(r.Body)
		var req struct {
			Body string `json:"body"`
		}
		_ = json.Unmarshal(body, &req)
		s := &c17Stored{c17Comment: c17Comment{ID: e.nextID, Text: req.Body}}
		e.nextID++
		e.stores[0] = append(e.stores[0], s)
		c17WriteJSON(w, 201, map[string]any{"id": s.ID, "body": s.Text})
	default:
		e.fail("unexpected request " + r.Method + " " + path)
		c17WriteJSON(w, 404, map[string]any{"message": "Not Found"})
	}
}
