package props

// C13, undelivered slices: a range query that was cut into slices and where
// the answer of at least one slice never reaches the client (the server fails
// it, cuts it short, sits on it past the client's per-request deadline, or the
// caller's context ends while it is in flight) while other slices are answered.
//
// The property speaks about the result a sliced query YIELDS. A query that
// fails as a whole yields nothing and is never judged here. A query that
// returns a result without an error is judged exactly like every other
// repetition: against the fold of the presence model over the whole step grid
// the client asked the server to evaluate - including the timestamps of the
// slice requests that were not answered. A slice that is silently dropped shows
// up as samples of the model that no returned range covers, i.e. as the phantom
// two-hour gap the property is about.
//
// Nothing here reads a clock for a verdict. "The slice was not delivered" is a
// fact of the server log (the handler took the fault branch for that request),
// "the query returned a result" is the nil error of RangeQuery.

import (
	"context"
	"fmt"
	"math/rand"
	"net/http"
	"sort"
	"strings"
	"time"

	"github.com/prometheus/client_golang/prometheus"

	"github.com/cloudflare/pint/internal/promapi"
)

// c13Fault is the plan of the undelivered-slice scenario of one case.
type c13Fault struct {
	Kind string `json:"kind"`
	// A slice request whose [start, end] contains one of these instants is not
	// delivered - the first time that slice (expression, start) is asked for.
	// Later requests for the same slice are answered normally.
	AtMs []int64 `json:"at_ms"`
	// query timeout of the client used for the scenario (pint gives up on a
	// request after timeout + 1s)
	TimeoutMs int `json:"timeout_ms"`
	// how long the server waits before it answers a failing slice with its error
	FailAfterUs int `json:"fail_after_us"`
	// caller-cancel: how long after the held slice arrived the caller's context ends
	CancelAfterUs int   `json:"cancel_after_us"`
	DelaySeed     int64 `json:"delay_seed"` // delays (0..max_delay_us) of the healthy slices
}

// c13FaultObs is what the scenario observed (evidence only, except Viols which
// travel in the outcome's Viols).
type c13FaultObs struct {
	Kind        string `json:"kind"`
	Slices      int    `json:"slices"`       // distinct slice starts the server saw for the faulted query
	Undelivered int    `json:"undelivered"`  // slice requests that took the fault branch
	Answered    int    `json:"answered"`     // slice requests answered normally during the faulted query
	HoldSamples bool   `json:"hold_samples"` // an undelivered slice contains a sample of some series
	Position    string `json:"position"`     // first | middle | last | several | all
	Outcome     string `json:"outcome"`      // not-hit | single-slice | error | complete-result | incomplete-result
	ErrClass    string `json:"err_class,omitempty"`
	Recovery    string `json:"recovery"` // skipped | error | judged
}

const (
	c13KindDeadline = "deadline"
	c13KindCancel   = "caller-cancel"
)

// kinds answered at once with something that is not a usable answer
var c13ImmediateKinds = []string{
	"http500-plain",         // non-JSON 5xx
	"http500-server-error",  // JSON errorType=server_error
	"http503-timeout",       // JSON errorType=timeout (Prometheus' own query timeout)
	"http503-canceled",      // JSON errorType=canceled ("query was canceled")
	"http422-execution",     // JSON errorType=execution
	"http400-bad-data",      // JSON errorType=bad_data
	"http200-status-error",  // 200 whose body says status=error
	"http200-truncated",     // 200, half of a correct body, connection cut
	"http200-not-json",      // 200 with a body that is not JSON
	"http200-vector",        // 200, well-formed, resultType=vector
	"http200-empty-object",  // 200 with {}
	"connection-closed",     // connection cut before any byte of an answer
	"http200-empty-success", // 200 status=success but no data member
}

func c13FaultKinds() []string {
	out := []string{c13KindDeadline, c13KindCancel}
	return append(out, c13ImmediateKinds...)
}

// c13FaultPlan draws the scenario for a case, or nil when the case's query is
// not expected to be cut into slices.
func c13FaultPlan(r *rand.Rand, cs *c13Case) *c13Fault {
	step := time.Duration(cs.StepS) * time.Second
	if time.Duration(cs.DurNs) < c13SliceGuess(step) {
		return nil
	}
	startMs, endMs := cs.StartNs/1e6, cs.EndNs/1e6
	if endMs <= startMs {
		return nil
	}
	f := &c13Fault{TimeoutMs: 45000, DelaySeed: r.Int63()}
	switch x := r.Intn(100); {
	case x < 12:
		// costs timeout + 1s of waiting (not of CPU) per case, so kept to this share
		f.Kind = c13KindDeadline
		f.TimeoutMs = 5 + r.Intn(40)
	case x < 22:
		f.Kind = c13KindCancel
		f.CancelAfterUs = []int{0, 500, 3000, 10000}[r.Intn(4)]
	default:
		f.Kind = c13ImmediateKinds[r.Intn(len(c13ImmediateKinds))]
		f.FailAfterUs = []int{0, 0, 300, 2000, 5000}[r.Intn(5)]
	}
	n := []int{1, 1, 1, 1, 1, 1, 2, 2, 3, 5}[r.Intn(10)]
	stepMs := cs.StepS * 1000
	for len(f.AtMs) < n {
		var t int64
		switch r.Intn(10) {
		case 0:
			t = startMs // the slice the query starts in
		case 1:
			t = endMs - r.Int63n(stepMs) // the slice the query ends in
			if t < startMs {
				t = endMs
			}
		case 2:
			t = startMs + (endMs-startMs)/2
		default:
			// an instant at which some series is present, so that dropping the
			// slice around it cannot go unnoticed
			t = startMs + r.Int63n(endMs-startMs+1)
			if len(cs.Series) > 0 {
				sr := cs.Series[r.Intn(len(cs.Series))]
				if len(sr.Intervals) > 0 {
					iv := sr.Intervals[r.Intn(len(sr.Intervals))]
					lo, hi := iv[0], iv[1]-1
					if lo < startMs {
						lo = startMs
					}
					if hi > endMs {
						hi = endMs
					}
					if lo <= hi {
						t = lo + r.Int63n(hi-lo+1)
					}
				}
			}
		}
		f.AtMs = append(f.AtMs, t)
	}
	sort.Slice(f.AtMs, func(i, j int) bool { return f.AtMs[i] < f.AtMs[j] })
	return f
}

const c13FaultExpr = "c13_fault_0"

// faultFor tells whether this request is one the plan does not deliver. Must be
// called with live.mu held; it marks the slice so that only its first request
// is affected.
func (l *c13Live) faultFor(expr string, startMs, endMs int64) string {
	f := l.cs.Fault
	if f == nil || expr != c13FaultExpr || !l.faultOn {
		return ""
	}
	hit := false
	for _, at := range f.AtMs {
		if startMs <= at && at <= endMs {
			hit = true
			break
		}
	}
	if !hit {
		return ""
	}
	key := fmt.Sprintf("%s|%d", expr, startMs)
	if l.faulted[key] {
		return ""
	}
	if l.faulted == nil {
		l.faulted = map[string]bool{}
	}
	l.faulted[key] = true
	return f.Kind
}

// c13ServeFault answers (or does not answer) one undelivered slice. body is the
// answer a healthy server would have given.
func c13ServeFault(w http.ResponseWriter, r *http.Request, live *c13Live, kind string, startMs int64, body []byte) {
	f := live.cs.Fault
	switch kind {
	case c13KindDeadline, c13KindCancel:
		if kind == c13KindCancel {
			select {
			case live.held <- startMs:
			default:
			}
		}
		// Sit on the request until the client has given up on it. The timer only
		// keeps a handler from outliving a client that never gives up; when it
		// fires the request still ends without an answer.
		tm := time.NewTimer(60 * time.Second)
		defer tm.Stop()
		select {
		case <-r.Context().Done():
		case <-tm.C:
		}
		panic(http.ErrAbortHandler)
	}
	if f != nil && f.FailAfterUs > 0 {
		time.Sleep(time.Duration(f.FailAfterUs) * time.Microsecond)
	}
	js := func(code int, s string) {
		w.Header().Set("Content-Type", "application/json")
		w.WriteHeader(code)
		_, _ = w.Write([]byte(s))
	}
	switch kind {
	case "http500-plain":
		w.Header().Set("Content-Type", "text/plain")
		w.WriteHeader(http.StatusInternalServerError)
		_, _ = w.Write([]byte("Internal Server Error\n"))
	case "http500-server-error":
		c13APIError(w, http.StatusInternalServerError, "server_error", "mock server error")
	case "http503-timeout":
		c13APIError(w, http.StatusServiceUnavailable, "timeout", "query timed out in expression evaluation")
	case "http503-canceled":
		c13APIError(w, http.StatusServiceUnavailable, "canceled", "query was canceled in expression evaluation: context canceled")
	case "http422-execution":
		c13APIError(w, http.StatusUnprocessableEntity, "execution", "query processing would load too many samples into memory in query execution")
	case "http400-bad-data":
		c13APIError(w, http.StatusBadRequest, "bad_data", "invalid parameter \"query\"")
	case "http200-status-error":
		js(http.StatusOK, `{"status":"error","errorType":"execution","error":"expanding series: context deadline exceeded"}`)
	case "http200-not-json":
		w.Header().Set("Content-Type", "text/html")
		w.WriteHeader(http.StatusOK)
		_, _ = w.Write([]byte("<html><body>502 Bad Gateway</body></html>"))
	case "http200-vector":
		js(http.StatusOK, `{"status":"success","data":{"resultType":"vector","result":[]}}`)
	case "http200-empty-object":
		js(http.StatusOK, `{}`)
	case "http200-empty-success":
		js(http.StatusOK, `{"status":"success"}`)
	case "http200-truncated":
		w.Header().Set("Content-Type", "application/json")
		w.Header().Set("Content-Length", fmt.Sprint(len(body)))
		w.WriteHeader(http.StatusOK)
		cut := len(body) / 2
		if cut < 1 {
			cut = 1
		}
		_, _ = w.Write(body[:cut])
		if fl, ok := w.(http.Flusher); ok {
			fl.Flush()
		}
		panic(http.ErrAbortHandler)
	default: // connection-closed
		panic(http.ErrAbortHandler)
	}
}

func c13ErrClass(err error) string {
	s := err.Error()
	for _, k := range []string{
		"connection timeout", "server_error", "timeout:", "canceled:", "execution:", "bad_data", "bad_response", "client_error", "unknown:",
		"empty response object", "unexpected EOF", "EOF", "connection reset", "context canceled", "context deadline exceeded",
	} {
		if strings.Contains(s, k) {
			return strings.Trim(strings.ReplaceAll(k, " ", "-"), ":")
		}
	}
	return "other"
}

// c13RunFault runs the undelivered-slice scenario of a case: one query during
// which the planned slices are not delivered, then the same query again on the
// same client with a server that answers everything.
func c13RunFault(live *c13Live, uri string, cs *c13Case, addViol func(v c13Viol, lg *c13RepLog, res *promapi.RangeQueryResult, rep string)) *c13FaultObs {
	f := cs.Fault
	obs := &c13FaultObs{Kind: f.Kind, Outcome: "not-hit", Recovery: "skipped"}
	conc := cs.Concurrency
	if conc < 1 {
		conc = 1
	}
	prom := promapi.NewPrometheus("c13f", uri, "", nil, time.Duration(f.TimeoutMs)*time.Millisecond, conc, 1000000, nil)
	reg := prometheus.NewRegistry()
	fg := promapi.NewFailoverGroup("c13f", uri, []*promapi.Prometheus{prom}, true, "up", nil, nil, nil)
	fg.StartWorkers(reg)
	defer fg.Close(reg)
	params := cs.times()

	// drain signals of an earlier use (there is none today, but the channel belongs to the case)
	for len(live.held) > 0 {
		<-live.held
	}
	live.mu.Lock()
	live.faultOn = true
	live.mu.Unlock()
	ctx, cancel := context.WithTimeout(context.Background(), 90*time.Second)
	done := make(chan struct{})
	if f.Kind == c13KindCancel {
		go func() {
			select {
			case <-live.held:
				if f.CancelAfterUs > 0 {
					time.Sleep(time.Duration(f.CancelAfterUs) * time.Microsecond)
				}
				cancel()
			case <-done:
			}
		}()
	}
	res, err := fg.RangeQuery(ctx, c13FaultExpr, params)
	close(done)
	cancel()
	// from here on the server answers every request
	live.mu.Lock()
	live.faultOn = false
	live.mu.Unlock()
	lg := live.snapshot(c13FaultExpr)

	// what the log says about the faulted query
	starts := map[int64]bool{}
	var failedStarts []int64
	for _, rq := range lg.Reqs {
		starts[rq.StartMs] = true
		if rq.Fault == "" {
			obs.Answered++
			continue
		}
		obs.Undelivered++
		failedStarts = append(failedStarts, rq.StartMs)
		if !obs.HoldSamples && rq.StepMs > 0 {
			for si := range cs.Series {
				for t := rq.StartMs; t <= rq.EndMs && !obs.HoldSamples; t += rq.StepMs {
					obs.HoldSamples = c13Present(live.ivs[si], t)
				}
			}
		}
	}
	obs.Slices = len(starts)
	if obs.Undelivered == 0 {
		// the client cut the range differently from the guess, or never sent the slice
		return obs
	}
	{
		all := make([]int64, 0, len(starts))
		for s := range starts {
			all = append(all, s)
		}
		sort.Slice(all, func(i, j int) bool { return all[i] < all[j] })
		sort.Slice(failedStarts, func(i, j int) bool { return failedStarts[i] < failedStarts[j] })
		switch {
		case len(failedStarts) >= len(all):
			obs.Position = "all"
		case len(failedStarts) > 1:
			obs.Position = "several"
		case failedStarts[0] == all[0]:
			obs.Position = "first"
		case failedStarts[0] == all[len(all)-1]:
			obs.Position = "last"
		default:
			obs.Position = "middle"
		}
	}
	var fs []string
	for _, s := range failedStarts {
		fs = append(fs, c13FmtMs(s))
	}
	switch {
	case err != nil:
		obs.Outcome = "error"
		obs.ErrClass = c13ErrClass(err)
	case obs.Slices < 2:
		// not a sliced query: outside the property
		obs.Outcome = "single-slice"
	default:
		j := c13Judge(cs, &lg, res)
		if len(j.viols) == 0 {
			obs.Outcome = "complete-result" // e.g. the client asked again and got it
		} else {
			obs.Outcome = "incomplete-result"
			first := j.viols[0]
			addViol(c13Viol{
				Sig: "incomplete-result-without-error:" + f.Kind,
				What: fmt.Sprintf("the answer of the slice request(s) starting at %s never reached the client (%s) while %d other slice request(s) were answered; RangeQuery returned a result and no error, and that result is not what one unsliced evaluation yields: [%s] %s",
					strings.Join(fs, ", "), f.Kind, obs.Answered, first.Sig, first.What),
			}, &lg, res, c13FaultExpr)
		}
	}

	// the same query again; every slice is answered now
	ctx2, cancel2 := context.WithTimeout(context.Background(), 90*time.Second)
	res2, err2 := fg.RangeQuery(ctx2, c13FaultExpr, params)
	cancel2()
	if err2 != nil {
		// no result, nothing to compare (and for the short-deadline client a slow
		// machine is a possible cause)
		obs.Recovery = "error"
		return obs
	}
	after := live.snapshot(c13FaultExpr)
	obs.Recovery = "judged"
	j := c13Judge(cs, &after, res2)
	for _, v := range j.viols {
		v.Sig = "after-undelivered-slice:" + v.Sig
		v.What = fmt.Sprintf("the first attempt of this query had the slice(s) starting at %s undelivered (%s); asked again on the same client with a healthy server: %s", strings.Join(fs, ", "), f.Kind, v.What)
		addViol(v, &after, res2, "repeated "+c13FaultExpr)
	}
	return obs
}
