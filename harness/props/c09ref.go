package props

// C09 reference evaluator: the documented boolean meaning of rule{} match/ignore
// blocks (docs/configuration.md "Matching rules to checks" and "Regexp matchers"),
// written without looking at pint's matcher, plus the fixed vocabulary of rules the
// configurations are evaluated against.

import (
	"fmt"
	"regexp"
	"sort"
	"strings"
	"sync"

	"github.com/prometheus/common/model"
)

// ---- vocabulary ----

type c09KV struct {
	K string `json:"k"`
	V string `json:"v"`
}

// c09Rule is the model of one Prometheus rule of the vocabulary (what the YAML says).
type c09Rule struct {
	Path        string  `json:"path"`
	Group       string  `json:"group"`
	GroupLabels []c09KV `json:"group_labels,omitempty"`
	Kind        string  `json:"kind"` // alerting | recording
	Name        string  `json:"name"`
	HasFor      bool    `json:"has_for,omitempty"`
	For         string  `json:"for,omitempty"`
	HasKFF      bool    `json:"has_kff,omitempty"`
	KFF         string  `json:"kff,omitempty"`
	Labels      []c09KV `json:"labels,omitempty"`
	Ann         []c09KV `json:"annotations,omitempty"`
	Expr        string  `json:"expr,omitempty"`
}

func kv(p ...string) (out []c09KV) {
	for i := 0; i+1 < len(p); i += 2 {
		out = append(out, c09KV{p[i], p[i+1]})
	}
	return out
}

func c09Alert(path, group string, gl []c09KV, name, forV, kff string, labels, ann []c09KV) c09Rule {
	return c09Rule{Path: path, Group: group, GroupLabels: gl, Kind: "alerting", Name: name,
		HasFor: forV != "", For: forV, HasKFF: kff != "", KFF: kff, Labels: labels, Ann: ann, Expr: "up == 0"}
}

func c09Record(path, group string, gl []c09KV, name string, labels []c09KV) c09Rule {
	return c09Rule{Path: path, Group: group, GroupLabels: gl, Kind: "recording", Name: name, Labels: labels, Expr: "sum(up) by (job)"}
}

// c09Vocabulary: 24 rules in 5 files / 9 groups. (path, name) is unique. Names, paths,
// label and annotation values are chosen so that prefix-only, suffix-only and infix
// matches exist for the patterns of the generator (an unanchored or half anchored
// regexp gives a different answer on some rule), durations hit every comparison
// boundary (5m == 300s), group labels are inherited / overridden / absent.
func c09Vocabulary() []c09Rule {
	a := "rules/a/alerts.yml"
	b := "rules/b/records.yml"
	ab := "rules/ab.yml"
	x := "other/rules/b/extra.yml"
	d := "rules/a/b/deep.yaml"
	a2 := kv("team", "db", "severity", "warning")
	b2 := kv("tier", "2")
	x1 := kv("team", "infra")
	d2 := kv("severity", "page")
	return []c09Rule{
		c09Alert(a, "a1", nil, "HighErrorRate", "5m", "", kv("severity", "critical", "team", "infra"), kv("summary", "High error rate", "runbook", "https://runbooks/high")),
		c09Alert(a, "a1", nil, "HighErrorRateCritical", "300s", "10m", kv("severity", "page"), kv("summary", "High error rate critical")),
		c09Alert(a, "a1", nil, "InstanceDown", "", "", kv("severity", "warning"), kv("summary", "Instance down")),
		c09Alert(a, "a1", nil, "Down", "1m", "", nil, nil),
		c09Alert(a, "a2", a2, "DiskFull", "1h", "5m", kv("severity", "critical"), kv("runbook", "https://runbooks/disk")),
		c09Alert(a, "a2", a2, "NoDiskFullYet", "10m", "", nil, nil),
		c09Record(a, "a2", a2, "job:up:sum", kv("team", "infra")),

		c09Record(b, "b1", nil, "job:up:sum_rate5m", nil),
		c09Record(b, "b1", nil, "instance:errors:rate5m", kv("tier", "1")),
		c09Record(b, "b1", nil, "up:sum", kv("severity", "critical")),
		c09Record(b, "b2", b2, "job:errors:rate5m", nil),
		c09Alert(b, "b2", b2, "TargetDown", "5m", "", kv("severity", "critical", "tier", "1"), kv("summary", "Target down")),

		c09Alert(ab, "ab", nil, "InstanceDownLong", "2m", "5m", kv("team", "infra"), kv("summary", "down")),
		c09Record(ab, "ab", nil, "job:up:count", kv("severity", "warning-only")),
		c09Alert(ab, "ab", nil, "HighLatency", "0s", "", kv("severity", "info"), kv("description", "latency high")),

		c09Alert(x, "x1", x1, "ExtraDown", "5m", "", kv("severity", "warning"), kv("summary", "Extra down", "description", "x")),
		c09Record(x, "x1", x1, "extra:job:up:sum", nil),
		c09Alert(x, "x1", x1, "HighErrorRate", "", "10m", nil, kv("summary", "High error rate")),

		c09Alert(d, "d1", nil, "DeepDown", "15m", "", kv("severity", "critical"), kv("runbook", "https://runbooks/deep")),
		c09Record(d, "d1", nil, "deep:up:sum", kv("team", "db")),
		c09Alert(d, "d1", nil, "Critical", "5m", "5m", kv("severity", "not-critical"), kv("summary", "critical")),
		c09Alert(d, "d2", d2, "DiskFullSoon", "30m", "", nil, nil),
		c09Record(d, "d2", d2, "job:up:sum", kv("severity", "critical")),
		c09Alert(d, "d2", d2, "TargetDown", "1m", "", nil, kv("summary", "Target down again")),
	}
}

// c09RenderFiles writes the vocabulary as plain block-style YAML (nothing the parser could
// misread: C06/C19 are about that, not C09).
func c09RenderFiles(rules []c09Rule) map[string]string {
	files := map[string]string{}
	var order []string
	byPath := map[string][]c09Rule{}
	for _, r := range rules {
		if _, ok := byPath[r.Path]; !ok {
			order = append(order, r.Path)
		}
		byPath[r.Path] = append(byPath[r.Path], r)
	}
	q := func(s string) string {
		return `"` + strings.ReplaceAll(strings.ReplaceAll(s, `\`, `\\`), `"`, `\"`) + `"`
	}
	for _, p := range order {
		var sb strings.Builder
		sb.WriteString("groups:\n")
		cur := "\x00"
		for _, r := range byPath[p] {
			if r.Group != cur {
				cur = r.Group
				fmt.Fprintf(&sb, "- name: %s\n", r.Group)
				if len(r.GroupLabels) > 0 {
					sb.WriteString("  labels:\n")
					for _, l := range r.GroupLabels {
						fmt.Fprintf(&sb, "    %s: %s\n", l.K, q(l.V))
					}
				}
				sb.WriteString("  rules:\n")
			}
			if r.Kind == "alerting" {
				fmt.Fprintf(&sb, "  - alert: %s\n", r.Name)
			} else {
				fmt.Fprintf(&sb, "  - record: %s\n", r.Name)
			}
			fmt.Fprintf(&sb, "    expr: %s\n", r.Expr)
			if r.HasFor {
				fmt.Fprintf(&sb, "    for: %s\n", r.For)
			}
			if r.HasKFF {
				fmt.Fprintf(&sb, "    keep_firing_for: %s\n", r.KFF)
			}
			if len(r.Labels) > 0 {
				sb.WriteString("    labels:\n")
				for _, l := range r.Labels {
					fmt.Fprintf(&sb, "      %s: %s\n", l.K, q(l.V))
				}
			}
			if len(r.Ann) > 0 {
				sb.WriteString("    annotations:\n")
				for _, l := range r.Ann {
					fmt.Fprintf(&sb, "      %s: %s\n", l.K, q(l.V))
				}
			}
		}
		files[p] = sb.String()
	}
	return files
}

// ---- configuration model ----

// c09Cond is one match{} or ignore{} sub-block. Empty string / nil = condition not set.
type c09Cond struct {
	Path     string   `json:"path,omitempty"`
	Name     string   `json:"name,omitempty"`
	Kind     string   `json:"kind,omitempty"`
	Command  string   `json:"command,omitempty"`
	HasLabel bool     `json:"has_label,omitempty"`
	LabelKey string   `json:"label_key,omitempty"`
	LabelVal string   `json:"label_value,omitempty"`
	HasAnn   bool     `json:"has_annotation,omitempty"`
	AnnKey   string   `json:"annotation_key,omitempty"`
	AnnVal   string   `json:"annotation_value,omitempty"`
	For      string   `json:"for,omitempty"` // "OP DURATION"
	KFF      string   `json:"keep_firing_for,omitempty"`
	State    []string `json:"state,omitempty"`
}

var c09Kinds = []string{"path", "name", "kind", "label", "annotation", "for", "keep_firing_for", "command", "state"}

func (c c09Cond) has(kind string) bool {
	switch kind {
	case "path":
		return c.Path != ""
	case "name":
		return c.Name != ""
	case "kind":
		return c.Kind != ""
	case "label":
		return c.HasLabel
	case "annotation":
		return c.HasAnn
	case "for":
		return c.For != ""
	case "keep_firing_for":
		return c.KFF != ""
	case "command":
		return c.Command != ""
	case "state":
		return c.State != nil
	}
	return false
}

func (c c09Cond) kinds() (out []string) {
	for _, k := range c09Kinds {
		if c.has(k) {
			out = append(out, k)
		}
	}
	return out
}

// only returns a copy of c with just the one condition kind kept.
func (c c09Cond) only(kind string) c09Cond {
	var o c09Cond
	switch kind {
	case "path":
		o.Path = c.Path
	case "name":
		o.Name = c.Name
	case "kind":
		o.Kind = c.Kind
	case "label":
		o.HasLabel, o.LabelKey, o.LabelVal = c.HasLabel, c.LabelKey, c.LabelVal
	case "annotation":
		o.HasAnn, o.AnnKey, o.AnnVal = c.HasAnn, c.AnnKey, c.AnnVal
	case "for":
		o.For = c.For
	case "keep_firing_for":
		o.KFF = c.KFF
	case "command":
		o.Command = c.Command
	case "state":
		o.State = c.State
	}
	return o
}

func (c c09Cond) without(kind string) c09Cond {
	o := c
	switch kind {
	case "path":
		o.Path = ""
	case "name":
		o.Name = ""
	case "kind":
		o.Kind = ""
	case "label":
		o.HasLabel, o.LabelKey, o.LabelVal = false, "", ""
	case "annotation":
		o.HasAnn, o.AnnKey, o.AnnVal = false, "", ""
	case "for":
		o.For = ""
	case "keep_firing_for":
		o.KFF = ""
	case "command":
		o.Command = ""
	case "state":
		o.State = nil
	}
	return o
}

type c09Block struct {
	Match  []c09Cond `json:"match,omitempty"`
	Ignore []c09Cond `json:"ignore,omitempty"`
}

// shape is the condition-subset signature of a block: which condition kinds each of its
// sub-blocks uses (sub-blocks sorted, so the order in the file does not matter).
func (b c09Block) shape() string {
	var ms, is []string
	for _, m := range b.Match {
		ms = append(ms, "m{"+strings.Join(m.kinds(), ",")+"}")
	}
	for _, m := range b.Ignore {
		is = append(is, "i{"+strings.Join(m.kinds(), ",")+"}")
	}
	sort.Strings(ms)
	sort.Strings(is)
	if len(ms)+len(is) == 0 {
		return "(no match, no ignore)"
	}
	return strings.Join(append(ms, is...), "")
}

func c09Marker(i int) string { return fmt.Sprintf("zzblk%02dq", i) }

func c09HclStr(s string) string {
	var b strings.Builder
	b.WriteByte('"')
	for i := 0; i < len(s); i++ {
		c := s[i]
		switch {
		case c == '"':
			b.WriteString(`\"`)
		case c == '\\':
			b.WriteString(`\\`)
		case c == '$' && i+1 < len(s) && s[i+1] == '{':
			b.WriteString("$$")
		case c == '%' && i+1 < len(s) && s[i+1] == '{':
			b.WriteString("%%")
		default:
			b.WriteByte(c)
		}
	}
	b.WriteByte('"')
	return b.String()
}

func c09RenderCond(sb *strings.Builder, word string, c c09Cond) {
	fmt.Fprintf(sb, "  %s {\n", word)
	if c.Path != "" {
		fmt.Fprintf(sb, "    path = %s\n", c09HclStr(c.Path))
	}
	if c.Name != "" {
		fmt.Fprintf(sb, "    name = %s\n", c09HclStr(c.Name))
	}
	if c.Kind != "" {
		fmt.Fprintf(sb, "    kind = %s\n", c09HclStr(c.Kind))
	}
	if c.Command != "" {
		fmt.Fprintf(sb, "    command = %s\n", c09HclStr(c.Command))
	}
	if c.State != nil {
		q := make([]string, len(c.State))
		for i, s := range c.State {
			q[i] = c09HclStr(s)
		}
		fmt.Fprintf(sb, "    state = [%s]\n", strings.Join(q, ", "))
	}
	if c.For != "" {
		fmt.Fprintf(sb, "    for = %s\n", c09HclStr(c.For))
	}
	if c.KFF != "" {
		fmt.Fprintf(sb, "    keep_firing_for = %s\n", c09HclStr(c.KFF))
	}
	if c.HasLabel {
		fmt.Fprintf(sb, "    label %s {\n      value = %s\n    }\n", c09HclStr(c.LabelKey), c09HclStr(c.LabelVal))
	}
	if c.HasAnn {
		fmt.Fprintf(sb, "    annotation %s {\n      value = %s\n    }\n", c09HclStr(c.AnnKey), c09HclStr(c.AnnVal))
	}
	sb.WriteString("  }\n")
}

const c09Header = "ci {\n  baseBranch = \"main\"\n}\nparser {\n  include = [\"rules/.*\", \"other/.*\"]\n}\n"

// c09Sentinel: a block without match/ignore whose marker check is therefore selected for every
// rule under `pint watch`; the watch replay uses it to know that the scan has dispatched everything.
const c09SentinelMarker = "zzsentinelq"

// c09RenderConfig renders the blocks; block i carries the marker check `name "zzblkNNq" {}`:
// a check whose String() is distinct per block (so pint's "already enabled" de-duplication
// cannot hide a block) and which reports on every rule of the vocabulary.
func c09RenderConfig(blocks []c09Block, sentinel bool) string {
	var sb strings.Builder
	sb.WriteString(c09Header)
	for i, b := range blocks {
		sb.WriteString("rule {\n")
		for _, m := range b.Match {
			c09RenderCond(&sb, "match", m)
		}
		for _, m := range b.Ignore {
			c09RenderCond(&sb, "ignore", m)
		}
		fmt.Fprintf(&sb, "  name %s {\n    severity = \"info\"\n  }\n}\n", c09HclStr(c09Marker(i)))
	}
	if sentinel {
		fmt.Fprintf(&sb, "rule {\n  name %s {\n    severity = \"info\"\n  }\n}\n", c09HclStr(c09SentinelMarker))
	}
	return sb.String()
}

// ---- reference evaluator ----

const (
	c09AnchorFull   = 0 // documented: the whole pattern is anchored at both ends: ^(?:p)$
	c09AnchorConcat = 1 // diagnostic variant: ^p$ by concatenation (top level alternation escapes)
	c09AnchorNone   = 2 // diagnostic variant: not anchored
)

type c09RefOpts struct {
	Anchor        int
	IgnoreDefault bool // documented-ambiguous: does an ignore{} without state get the command's default states?
}

var c09ReCache sync.Map

func c09Re(p string, anchor int) *regexp.Regexp {
	key := fmt.Sprintf("%d|%s", anchor, p)
	if v, ok := c09ReCache.Load(key); ok {
		return v.(*regexp.Regexp)
	}
	var src string
	switch anchor {
	case c09AnchorFull:
		src = "^(?:" + p + ")$"
	case c09AnchorConcat:
		src = "^" + p + "$"
	default:
		src = p
	}
	re := regexp.MustCompile(src)
	c09ReCache.Store(key, re)
	return re
}

var c09StateNames = []string{"unmodified", "added", "modified", "renamed", "removed"}

func c09DefaultStates(cmd string) []string {
	if cmd == "ci" {
		// docs: for `pint ci` the default is added, modified, renamed ("removed" is not observable
		// through a rule{} check anyway: no configurable check runs on removed rules)
		return []string{"added", "modified", "renamed"}
	}
	return []string{"any"}
}

func c09StateIn(list []string, state string) bool {
	for _, s := range list {
		if s == "any" || s == state {
			return true
		}
	}
	return false
}

func c09EffectiveLabels(f c09Rule) []c09KV {
	out := append([]c09KV(nil), f.GroupLabels...)
	for _, l := range f.Labels {
		found := false
		for i := range out {
			if out[i].K == l.K {
				out[i].V = l.V
				found = true
			}
		}
		if !found {
			out = append(out, l)
		}
	}
	return out
}

func c09DurCmp(expr, value string) (ok bool, defined bool) {
	op, ds, found := strings.Cut(expr, " ")
	if !found {
		return false, false // bare duration: not documented
	}
	want, err := model.ParseDuration(ds)
	if err != nil {
		return false, false
	}
	got, err := model.ParseDuration(value)
	if err != nil {
		return false, false // unparsable value in the rule: don't-care
	}
	switch op {
	case "=":
		return got == want, true
	case "!=":
		return got != want, true
	case "<":
		return got < want, true
	case "<=":
		return got <= want, true
	case ">":
		return got > want, true
	case ">=":
		return got >= want, true
	}
	return false, false
}

// c09RefKind evaluates one condition kind of a sub-block. defined=false: the documentation
// does not decide (never produced by the generator's value pools; kept for safety).
func c09RefKind(kind string, c c09Cond, inIgnore bool, f c09Rule, cmd, state string, o c09RefOpts) (val bool, defined bool) {
	switch kind {
	case "command":
		return c.Command == cmd, true
	case "state":
		return c09StateIn(c.State, state), true
	case "kind":
		return c.Kind == f.Kind, true
	case "path":
		return c09Re(c.Path, o.Anchor).MatchString(f.Path), true
	case "name":
		return c09Re(c.Name, o.Anchor).MatchString(f.Name), true
	case "label":
		kre, vre := c09Re(c.LabelKey, o.Anchor), c09Re(c.LabelVal, o.Anchor)
		for _, l := range c09EffectiveLabels(f) {
			if kre.MatchString(l.K) && vre.MatchString(l.V) {
				return true, true
			}
		}
		return false, true
	case "annotation":
		if f.Kind != "alerting" {
			return false, true
		}
		kre, vre := c09Re(c.AnnKey, o.Anchor), c09Re(c.AnnVal, o.Anchor)
		for _, l := range f.Ann {
			if kre.MatchString(l.K) && vre.MatchString(l.V) {
				return true, true
			}
		}
		return false, true
	case "for":
		if f.Kind != "alerting" || !f.HasFor {
			return false, true
		}
		return c09DurCmp(c.For, f.For)
	case "keep_firing_for":
		if f.Kind != "alerting" || !f.HasKFF {
			return false, true
		}
		return c09DurCmp(c.KFF, f.KFF)
	}
	return false, false
}

// c09RefCond: all conditions of one sub-block hold. A match{} without state gets the default
// states of the command; an ignore{} without state has no state condition (o.IgnoreDefault
// switches to the other reading of the documentation).
func c09RefCond(c c09Cond, inIgnore bool, f c09Rule, cmd, state string, o c09RefOpts) (val bool, defined bool) {
	defined = true
	val = true
	for _, k := range c09Kinds {
		if !c.has(k) {
			continue
		}
		v, d := c09RefKind(k, c, inIgnore, f, cmd, state, o)
		if !d {
			defined = false
			continue
		}
		if !v {
			val = false
		}
	}
	if c.State == nil && (!inIgnore || o.IgnoreDefault) {
		if !c09StateIn(c09DefaultStates(cmd), state) {
			val = false
		}
	}
	if !val {
		return false, true // one false condition decides a conjunction whatever the undefined ones are
	}
	return val, defined
}

// c09RefBlock: the block applies iff no ignore has all its conditions true and (there is no
// match, in which case the default states decide, or some match has all its conditions true).
func c09RefBlock(b c09Block, f c09Rule, cmd, state string, o c09RefOpts) (val bool, defined bool) {
	defined = true
	for _, ig := range b.Ignore {
		v, d := c09RefCond(ig, true, f, cmd, state, o)
		if !d {
			defined = false
			continue
		}
		if v {
			return false, true
		}
	}
	if len(b.Match) == 0 {
		return c09StateIn(c09DefaultStates(cmd), state), defined
	}
	any := false
	for _, m := range b.Match {
		v, d := c09RefCond(m, false, f, cmd, state, o)
		if !d {
			defined = false
			continue
		}
		if v {
			any = true
		}
	}
	return any, defined
}

// c09Expect is the verdict-relevant expectation: (applies, decided). decided=false marks the
// documented-ambiguous corners (don't-care): removed rules (no configurable check runs on
// them, so nothing is observable), and an ignore{} without state under a command whose
// default states exclude the rule's state.
func c09Expect(b c09Block, f c09Rule, cmd, state string) (applies bool, decided bool, why string) {
	if state == "removed" {
		return false, false, "removed-state"
	}
	v1, d1 := c09RefBlock(b, f, cmd, state, c09RefOpts{Anchor: c09AnchorFull})
	if !d1 {
		return false, false, "undefined-condition"
	}
	v2, d2 := c09RefBlock(b, f, cmd, state, c09RefOpts{Anchor: c09AnchorFull, IgnoreDefault: true})
	if !d2 || v1 != v2 {
		return false, false, "ignore-without-state"
	}
	return v1, true, ""
}

func hasTopLevelAlternation(p string) bool {
	depth := 0
	inClass := false
	for i := 0; i < len(p); i++ {
		switch c := p[i]; {
		case c == '\\':
			i++
		case inClass:
			if c == ']' {
				inClass = false
			}
		case c == '[':
			inClass = true
		case c == '(':
			depth++
		case c == ')':
			depth--
		case c == '|' && depth == 0:
			return true
		}
	}
	return false
}

func (c c09Cond) alternationFields() (out []string) {
	add := func(name, p string) {
		if p != "" && hasTopLevelAlternation(p) {
			out = append(out, name)
		}
	}
	add("path", c.Path)
	add("name", c.Name)
	if c.HasLabel {
		add("label-key", c.LabelKey)
		add("label-value", c.LabelVal)
	}
	if c.HasAnn {
		add("annotation-key", c.AnnKey)
		add("annotation-value", c.AnnVal)
	}
	return out
}

// c09SigGroupLabel is the signature of mismatches that are explained by a group's label having
// been overwritten with the value a sibling rule of the group sets for the same label name.
const c09SigGroupLabel = "label-condition-sees-group-label-overwritten-by-sibling-rule"

// c09PollutionVariants returns f with its group labels replaced, for every non-empty subset of
// the label names that some rule of the same group overrides, by that rule's value.
func c09PollutionVariants(f c09Rule, vocab []c09Rule) (out []c09Rule) {
	type ov struct {
		idx int
		val string
	}
	var ovs []ov
	for i, gl := range f.GroupLabels {
		for _, r := range vocab {
			if r.Path != f.Path || r.Group != f.Group {
				continue
			}
			for _, l := range r.Labels {
				if l.K == gl.K && l.V != gl.V {
					ovs = append(ovs, ov{i, l.V})
				}
			}
		}
	}
	if len(ovs) == 0 || len(ovs) > 6 {
		return nil
	}
	for mask := 1; mask < 1<<len(ovs); mask++ {
		v := f
		v.GroupLabels = append([]c09KV(nil), f.GroupLabels...)
		for j, o := range ovs {
			if mask&(1<<j) != 0 {
				v.GroupLabels[o.idx].V = o.val
			}
		}
		out = append(out, v)
	}
	return out
}

// c09PollutionSensitive: would the documented answer change if sibling overrides had been
// written into the group's labels?
func c09PollutionSensitive(b c09Block, f c09Rule, vocab []c09Rule, cmd, state string) bool {
	base, d := c09RefBlock(b, f, cmd, state, c09RefOpts{Anchor: c09AnchorFull})
	if !d {
		return false
	}
	for _, pf := range c09PollutionVariants(f, vocab) {
		if v, d := c09RefBlock(b, pf, cmd, state, c09RefOpts{Anchor: c09AnchorFull}); d && v != base {
			return true
		}
	}
	return false
}

const c09SigAlternation = "regexp-top-level-alternation-not-anchored"

// c09KnownShape names a mismatch that is explained by one of two recognisable deviations from
// the documented semantics (or by both at once; the alternation signature is used then).
func c09KnownShape(b c09Block, f c09Rule, vocab []c09Rule, cmd, state string, pint bool) (sig, why string) {
	var altFields []string
	for _, sb := range append(append([]c09Cond{}, b.Match...), b.Ignore...) {
		altFields = append(altFields, sb.alternationFields()...)
	}
	variants := c09PollutionVariants(f, vocab)
	for _, pf := range variants {
		if v, d := c09RefBlock(b, pf, cmd, state, c09RefOpts{Anchor: c09AnchorFull}); d && v == pint {
			return c09SigGroupLabel, fmt.Sprintf("explained by the group's labels reading %v instead of %v: the value a sibling rule of the group sets for the same label name has replaced the group's own value", pf.GroupLabels, f.GroupLabels)
		}
	}
	if len(altFields) == 0 {
		return "", ""
	}
	altWhy := "explained by anchoring as \"^\"+pattern+\"$\" instead of ^(?:pattern)$ for the pattern(s) with a top-level `|` in: " + strings.Join(uniq(altFields), ",")
	if v, d := c09RefBlock(b, f, cmd, state, c09RefOpts{Anchor: c09AnchorConcat}); d && v == pint {
		return c09SigAlternation, altWhy
	}
	for _, pf := range variants {
		if v, d := c09RefBlock(b, pf, cmd, state, c09RefOpts{Anchor: c09AnchorConcat}); d && v == pint {
			return c09SigAlternation, altWhy + fmt.Sprintf(" together with the group's labels reading %v instead of %v (overwritten by a sibling rule's value)", pf.GroupLabels, f.GroupLabels)
		}
	}
	return "", ""
}
