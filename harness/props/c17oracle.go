package props

import (
	"encoding/json"
	"fmt"
	"runtime/debug"
	"strings"

	"github.com/cloudflare/pint/internal/checks"
	"github.com/cloudflare/pint/internal/reporter"

	"github.com/cloudflare/pint/verif/core"
)

type c17Outcome struct {
	viol          []core.Violation
	rounds        int
	creates       int
	deletes       int
	deferred      int // rounds (per destination) in which CanCreate refused a needed creation
	idemChecks    int
	convChecks    int
	covChecks     int
	listed        int
	recognised    int
	foreignChecks int
	maxStore      int
	maxCreates    int
	inconc        string
	trace         []string
}

type c17DestState struct {
	havePrev     bool
	prevSettled  bool
	prevProblems string
}

func c17FileIndex(path string) int {
	for i, n := range c17Files {
		if n == path {
			return i
		}
	}
	return -1
}

// c17LineOK: may a comment on line `line` count as being "at the line" of a problem on first..last of file f?
func c17LineOK(cs c17Case, added [][]int, line, f, first, last int, before bool) bool {
	if before {
		return true // problems on removed lines: the platforms translate to old-side numbers
	}
	if line >= first && line <= last {
		return true
	}
	if cs.Platform == "github" {
		// GitHub only accepts comments on lines of the patch: when the range has no added line any line will do
		if f >= 0 {
			for _, a := range added[f] {
				if a >= first && a <= last {
					return false
				}
			}
		}
		return true
	}
	return false
}

// c17Covers: the loose "covered by" relation of the property statement.
func c17Covers(cs c17Case, added [][]int, cm c17Comment, r reporter.Report) bool {
	if cm.Path == "" || cm.Path != r.Path.SymlinkTarget {
		return false
	}
	if !strings.Contains(cm.Text, r.Problem.Summary) || !strings.Contains(cm.Text, r.Problem.Reporter) {
		return false
	}
	// "carrying its text": the details of a problem are part of its text
	if r.Problem.Details != "" && !strings.Contains(cm.Text, r.Problem.Details) {
		return false
	}
	return c17LineOK(cs, added, cm.Line, c17FileIndex(cm.Path), r.Problem.Lines.First, r.Problem.Lines.Last, r.Problem.Anchor == checks.AnchorBefore)
}

func c17PanicFrame(stack string) string {
	lines := strings.Split(stack, "\n")
	for _, l := range lines {
		l = strings.TrimSpace(l)
		if strings.HasPrefix(l, "github.com/cloudflare/pint/internal/") || strings.HasPrefix(l, "github.com/cloudflare/pint/cmd/") {
			if i := strings.LastIndex(l, "("); i > 0 {
				l = l[:i]
			}
			return strings.TrimPrefix(l, "github.com/cloudflare/pint/")
		}
	}
	return "outside-pint"
}

// c17Check runs one sequence and decides it. It is used by the run and by --replay.
func c17Check(cs c17Case) (out c17Outcome) {
	tag := cs.Mode + "-" + cs.Platform
	var be c17Backend
	var roundLabel string
	violate := func(kind, what string) {
		if len(out.viol) > 0 {
			return // one root cause per sequence: the first refuting observation is the one reported
		}
		b, _ := json.MarshalIndent(cs, "", " ")
		out.viol = append(out.viol, core.Violation{
			Sig:  tag + ":" + kind,
			What: fmt.Sprintf("%s (platform=%s mode=%s maxComments=%d showDuplicates=%v, %s)", what, cs.Platform, cs.Mode, cs.Budget, cs.ShowDup, roundLabel),
			Case: cs,
			Files: map[string][]byte{
				"trace.txt":     []byte(strings.Join(out.trace, "\n") + "\n"),
				"sequence.json": b,
			},
		})
	}
	defer func() {
		if rec := recover(); rec != nil {
			st := string(debug.Stack())
			out.trace = append(out.trace, fmt.Sprintf("panic: %v", rec))
			violate("panic:"+c17PanicFrame(st), fmt.Sprintf("panic while reporting: %v\n%s", rec, core.Trunc(st, 1500)))
		}
		if be != nil {
			be.Close()
		}
	}()
	if len(cs.Rounds) == 0 || len(cs.Ops) != len(c17Files) {
		out.inconc = "malformed case"
		return out
	}
	added := make([][]int, len(cs.Ops))
	for f, o := range cs.Ops {
		added[f] = c17Added(o)
	}
	if cs.Mode == "e2e" {
		e, err := c17NewE2E(cs)
		if err != nil {
			out.inconc = "cannot start the fake API: " + err.Error()
			return out
		}
		be = e
	} else {
		be = c17NewMem(cs)
	}
	spy := &c17Spy{inner: be.Commenter(), be: be}
	cr := reporter.NewCommentReporter(spy, cs.ShowDup)

	// initial population
	first := reporter.VerifMakeComments(c17Summary(cs, cs.Rounds[0].Problems, added), cs.ShowDup)
	addInit := func(in c17Init) {
		for d := 0; d < be.NumDests(); d++ {
			switch in.Kind {
			case "equal", "stale":
				var p reporter.PendingComment
				if in.Kind == "equal" {
					if len(first) == 0 {
						return
					}
					p = first[in.Index%len(first)]
				} else {
					if in.Problem == nil {
						return
					}
					pp := reporter.VerifMakeComments(reporter.NewSummary([]reporter.Report{c17Report(*in.Problem, added)}), true)
					if len(pp) == 0 {
						return
					}
					p = pp[0]
				}
				path, text, _, _ := reporter.VerifPendingFields(p)
				line, _ := be.PlaceLine(be.Dst(d), p)
				switch in.Tweak {
				case "nl":
					text += "\n\n"
				case "line":
					line += 1 + in.Index%3
				case "text":
					text += "\nedited"
				}
				be.Add(d, c17Comment{Path: path, Line: line, Text: text})
			case "human":
				if in.File >= 0 && in.File < len(c17Files) {
					be.Add(d, c17Comment{Path: c17Files[in.File], Line: in.Line, Text: in.Text, Foreign: true})
				}
			case "general":
				be.Add(d, c17Comment{Path: "", Text: in.Text})
			}
		}
	}
	for _, in := range cs.Initial {
		addInit(in)
	}

	states := make([]c17DestState, be.NumDests())

	// doRound submits one report set and applies the oracle; it returns whether any creation was deferred.
	doRound := func(label string, rd c17Round) (deferredAny bool, ok bool) {
		roundLabel = label
		interference := false
		for _, ord := range rd.HumanDel {
			for d := 0; d < be.NumDests(); d++ {
				var own []c17Comment
				for _, cm := range be.Snapshot(d) {
					if be.Visible(cm) && !cm.Foreign {
						own = append(own, cm)
					}
				}
				if len(own) > 0 {
					be.Remove(d, own[ord%len(own)].ID)
					interference = true
				}
			}
		}
		for _, in := range rd.HumanAdd {
			addInit(in)
			interference = true
		}
		summary := c17Summary(cs, rd.Problems, added)
		pending := reporter.VerifMakeComments(summary, cs.ShowDup)
		probJSON, _ := json.Marshal(rd.Problems)
		// comments that belong to problems anchored on removed lines (shape marker for signatures)
		beforeTexts := map[string]bool{}
		for _, p := range pending {
			if path, text, _, anchor := reporter.VerifPendingFields(p); anchor == checks.AnchorBefore {
				beforeTexts[path+"\x00"+c17Trim(text)] = true
			}
		}
		shape := func(cms []c17Comment) string {
			if len(cms) == 0 {
				return ""
			}
			for _, cm := range cms {
				if !beforeTexts[cm.Path+"\x00"+c17Trim(cm.Text)] {
					return ""
				}
			}
			return ":anchor-before"
		}
		before := make([][]c17Comment, be.NumDests())
		for d := range before {
			before[d] = be.Snapshot(d)
		}
		spy.reset()
		err := cr.Submit(summary)
		out.rounds++
		if err != nil {
			if cs.Mode == "mem" {
				violate("submit-error", "Submit returned an error against a store that never fails: "+err.Error())
			} else {
				out.inconc = "Submit failed against the fake API: " + core.Trunc(err.Error(), 300)
			}
			return false, false
		}
		if errs := be.Errors(); len(errs) > 0 {
			for _, e := range errs {
				if e == "unplaceable" {
					violate("created-comment-not-recognisable", "a comment created from a pending comment is not recognised by the platform's IsEqual at any line, so it would be created again on every run")
				} else if cs.Mode == "mem" {
					violate("store-misuse", e)
				} else {
					out.inconc = "fake API: " + core.Trunc(e, 300)
				}
			}
			return false, false
		}
		if len(spy.dests) != be.NumDests() {
			violate("destination-count", fmt.Sprintf("%d destinations exist but %d were listed", be.NumDests(), len(spy.dests)))
			return false, false
		}
		reports := summary.Reports()
		for d := 0; d < be.NumDests(); d++ {
			sd := spy.dests[d]
			after := be.Snapshot(d)
			out.maxStore = max(out.maxStore, len(after))
			beforeByID := map[int]c17Comment{}
			afterByID := map[int]c17Comment{}
			for _, cm := range before[d] {
				beforeByID[cm.ID] = cm
			}
			for _, cm := range after {
				afterByID[cm.ID] = cm
			}
			var created, deleted []c17Comment
			for _, cm := range after {
				if _, ok := beforeByID[cm.ID]; !ok && cm.Path != "" {
					created = append(created, cm)
				}
			}
			for _, cm := range before[d] {
				if _, ok := afterByID[cm.ID]; !ok {
					deleted = append(deleted, cm)
				}
			}
			deferred := sd.canCreateNo > 0
			if deferred {
				deferredAny = true
				out.deferred++
			}
			out.creates += len(created)
			out.deletes += len(deleted)
			out.listed += len(sd.listed)
			out.maxCreates = max(out.maxCreates, len(created))

			// budget
			if len(created) > cs.Budget {
				violate("over-budget", fmt.Sprintf("%d comments created in one run, maxComments is %d", len(created), cs.Budget))
			}
			// nothing equal to an existing comment is created
			for _, cm := range created {
				positioned := 0
				for _, b := range before[d] {
					if b.Path != "" {
						positioned++
					}
					if be.Visible(b) && b.Path == cm.Path && b.Line == cm.Line && c17Trim(b.Text) == c17Trim(cm.Text) {
						kind := "dup-create:identical" + shape([]c17Comment{cm})
						if cs.Mode == "e2e" && cs.Platform == "github" && cs.Paginate && positioned > 30 {
							kind += ":beyond-first-page"
						}
						violate(kind, fmt.Sprintf("created a comment at %s:%d identical to comment #%d that already existed there (it was review comment number %d of the pull request)", cm.Path, cm.Line, b.ID, positioned))
						break
					}
				}
			}
			for _, p := range sd.createCalls {
				for _, e := range sd.listed {
					if be.IsEqual(sd.dst, e, p) {
						path, _, line, _ := reporter.VerifPendingFields(p)
						violate("dup-create:isequal", fmt.Sprintf("Create was called for the pending comment at %s:%d although a listed comment is IsEqual to it", path, line))
						break
					}
				}
			}
			for _, p := range pending {
				for _, e := range sd.listed {
					if be.IsEqual(sd.dst, e, p) {
						out.recognised++
						break
					}
				}
			}
			// deletions
			if sd.deleteDenied > 0 {
				violate("delete-forbidden", fmt.Sprintf("Delete was called %d time(s) for comments the platform's CanDelete refuses", sd.deleteDenied))
			}
			for _, cm := range deleted {
				if !be.Visible(cm) || cm.Foreign {
					violate("deleted-foreign", fmt.Sprintf("comment #%d at %s:%d which pint must not touch (foreign or general) was deleted", cm.ID, cm.Path, cm.Line))
					continue
				}
				e := reporter.VerifNewExisting(nil, cm.Path, cm.Text, cm.Line)
				for _, p := range pending {
					path, text, line, anchor := reporter.VerifPendingFields(p)
					if be.IsEqual(sd.dst, e, p) {
						violate("deleted-needed:isequal", fmt.Sprintf("comment #%d at %s:%d was deleted although it IsEqual to a pending comment of this run", cm.ID, cm.Path, cm.Line))
						break
					}
					if cs.Platform == "gitlab" && anchor == checks.AnchorAfter && path == cm.Path && line == cm.Line && c17Trim(text) == c17Trim(cm.Text) {
						violate("deleted-needed:identical", fmt.Sprintf("comment #%d at %s:%d was deleted although it is identical to a pending comment of this run", cm.ID, cm.Path, cm.Line))
						break
					}
				}
			}
			for _, b := range before[d] {
				if !be.Visible(b) || b.Foreign {
					out.foreignChecks++
				}
			}
			// coverage
			uncovered := 0
			var firstUncovered string
			for _, r := range reports {
				if !cs.ShowDup && r.IsDuplicate {
					continue
				}
				out.covChecks++
				cov := false
				for _, cm := range after {
					if be.Visible(cm) && c17Covers(cs, added, cm, r) {
						cov = true
						break
					}
				}
				if !cov {
					uncovered++
					if firstUncovered == "" {
						firstUncovered = fmt.Sprintf("%s:%d-%d %s %q", r.Path.SymlinkTarget, r.Problem.Lines.First, r.Problem.Lines.Last, r.Problem.Reporter, r.Problem.Summary)
					}
				}
			}
			out.trace = append(out.trace, fmt.Sprintf("%s dest=%d reports=%d pending=%d listed=%d create_calls=%d created=%d delete_calls=%d deleted=%d cancreate_no=%d uncovered=%d store=%d",
				label, d, len(reports), len(pending), len(sd.listed), len(sd.createCalls), len(created), len(sd.deleteCalls), len(deleted), sd.canCreateNo, uncovered, len(after)))
			if uncovered > 0 && !deferred {
				violate("uncovered:nothing-deferred", fmt.Sprintf("%d problem(s) have no comment after the run although no creation was refused by the budget; first: %s", uncovered, firstUncovered))
			} else if uncovered > 0 && len(created) < cs.Budget {
				violate("uncovered:budget-left", fmt.Sprintf("%d problem(s) have no comment after the run, only %d of maxComments=%d comments were created; first: %s", uncovered, len(created), cs.Budget, firstUncovered))
			}
			// stale comments pint may delete are gone
			for _, b := range before[d] {
				if _, still := afterByID[b.ID]; !still || !be.Visible(b) {
					continue
				}
				if !be.CanDelete(reporter.VerifNewExisting(nil, b.Path, b.Text, b.Line)) {
					continue
				}
				corr := false
				for _, r := range reports {
					if c17Covers(cs, added, b, r) {
						corr = true
						break
					}
				}
				if !corr {
					violate("stale-left", fmt.Sprintf("comment #%d at %s:%d corresponds to no reported problem, may be deleted, and is still there after the run", b.ID, b.Path, b.Line))
					break
				}
			}
			// idempotence
			st := &states[d]
			if st.havePrev && st.prevSettled && !interference && st.prevProblems == string(probJSON) {
				out.idemChecks++
				if len(sd.createCalls) > 0 || len(created) > 0 {
					kind := "not-idempotent:create" + shape(created)
					violate(kind, fmt.Sprintf("repeating the run with unchanged results after a run that deferred nothing created %d comment(s) (%d Create calls)", len(created), len(sd.createCalls)))
				}
				if len(sd.deleteCalls) > 0 || len(deleted) > 0 {
					violate("not-idempotent:delete"+shape(deleted), fmt.Sprintf("repeating the run with unchanged results after a run that deferred nothing deleted %d comment(s) (%d Delete calls)", len(deleted), len(sd.deleteCalls)))
				}
			}
			st.havePrev, st.prevSettled, st.prevProblems = true, !deferred, string(probJSON)
		}
		return deferredAny, true
	}

	for k, rd := range cs.Rounds {
		if _, ok := doRound(fmt.Sprintf("round %d [%s]", k+1, strings.Join(rd.Events, ",")), rd); !ok {
			return out
		}
		if len(out.viol) > 0 {
			return out
		}
	}
	// settling phase: unchanged results until nothing is deferred, then once more
	last := c17Round{Problems: cs.Rounds[len(cs.Rounds)-1].Problems}
	npend := len(reporter.VerifMakeComments(c17Summary(cs, last.Problems, added), cs.ShowDup))
	extra := 2
	if cs.Budget > 0 {
		extra = npend/cs.Budget + 3
	}
	deferred := true
	for x := 0; x < extra && deferred; x++ {
		var ok bool
		if deferred, ok = doRound(fmt.Sprintf("settle %d", x+1), last); !ok || len(out.viol) > 0 {
			return out
		}
	}
	if cs.Budget > 0 {
		out.convChecks++
		if deferred {
			roundLabel = "settling"
			violate("no-convergence", fmt.Sprintf("after %d runs with unchanged results (%d pending comments, maxComments=%d) creations are still being deferred", extra, npend, cs.Budget))
			return out
		}
		doRound("repeat", last)
	}
	return out
}
