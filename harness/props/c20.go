package props

// C20 - removing a rule that other rules depend on is reported, and only then.
//
// Monitor: every generated history (base commit on main, 1-2 commits on a branch) is built
// with the real git in a scratch repository, the real `pint ci --json` runs in it, and the
// rule/dependency problems of its report are compared with the reference dependency graph
// the generator kept (which rule selects which metric / ALERTS{alertname=...}).

import (
	"encoding/json"
	"fmt"
	"os"
	"path/filepath"
	"sort"
	"strconv"
	"strings"
	"sync"
	"time"

	"github.com/prometheus/common/model"
	promParser "github.com/prometheus/prometheus/promql/parser"

	"github.com/cloudflare/pint/internal/parser"

	"github.com/cloudflare/pint/verif/core"
	"github.com/cloudflare/pint/verif/gitrepo"
)

func init() { Registry["C20"] = runC20 }

const c20Reporter = "rule/dependency"

type c20Item struct {
	Name string
	Path string
	Line int
}

// c20ParseDetails extracts the "- `name` at `path:line`" entries of a rule/dependency report.
func c20ParseDetails(details string) (items []c20Item, ok bool) {
	for _, l := range strings.Split(details, "\n") {
		if !strings.HasPrefix(l, "- `") {
			continue
		}
		l = strings.TrimPrefix(l, "- `")
		if !strings.HasSuffix(l, "`") {
			return nil, false
		}
		l = strings.TrimSuffix(l, "`")
		i := strings.LastIndex(l, "` at `")
		if i < 0 {
			return nil, false
		}
		name, loc := l[:i], l[i+len("` at `"):]
		j := strings.LastIndexByte(loc, ':')
		if j < 0 {
			return nil, false
		}
		n, err := strconv.Atoi(loc[j+1:])
		if err != nil {
			return nil, false
		}
		items = append(items, c20Item{Name: name, Path: loc[:j], Line: n})
	}
	return items, len(items) > 0
}

type c20Exp struct {
	place    c20Place
	removal  string // kept | moved | renamed | kind-changed | rule-deleted | file-deleted
	replaced bool   // a HEAD rule of the same kind and name exists
	must     []int  // indexes into the HEAD places: certain dependants
	may      []int  // don't care
	shapes   []string
	expect   string // warning | none | either
}

// c20Reference computes, for every base rule, what the statement demands.
func c20Reference(cs c20Case) (exps []c20Exp, headPlaces []c20Place) {
	_, basePlaces := cs.Base.render()
	head := cs.Commits[len(cs.Commits)-1]
	_, headPlaces = head.render()
	baseIDs := map[int]bool{}
	for _, p := range basePlaces {
		baseIDs[p.Rule.ID] = true
	}
	for _, p := range basePlaces {
		e := c20Exp{place: p}
		var same, other *c20Place
		for i := range headPlaces {
			h := &headPlaces[i]
			if h.Rule.Kind == p.Rule.Kind && h.Rule.Name == p.Rule.Name {
				e.replaced = true
			}
			if h.Rule.ID == p.Rule.ID {
				if h.Rule.Kind == p.Rule.Kind && h.Rule.Name == p.Rule.Name {
					if same == nil || h.Path == p.Path {
						same = h
					}
				} else if other == nil {
					other = h
				}
			}
		}
		switch {
		case same != nil && same.Path == p.Path:
			e.removal = "kept"
		case same != nil:
			e.removal = "moved"
		case other != nil && other.Rule.Kind != p.Rule.Kind:
			e.removal = "kind-changed"
		case other != nil:
			e.removal = "renamed"
		case head.fileIndex(p.Path) >= 0:
			e.removal = "rule-deleted"
		default:
			e.removal = "file-deleted"
		}
		var shapes []string
		for i, h := range headPlaces {
			cls, sh := h.Rule.class(p.Rule.Kind, p.Rule.Name)
			switch {
			case cls == c20Must && baseIDs[h.Rule.ID]:
				e.must = append(e.must, i)
				shapes = append(shapes, sh...)
			case cls >= c20May:
				// a rule added on the branch "remains" in no certain sense: don't care
				e.may = append(e.may, i)
			}
		}
		sort.Strings(shapes)
		e.shapes = c20Uniq(shapes)
		switch {
		case e.replaced:
			e.expect = "none"
		case len(e.must) > 0:
			e.expect = "warning"
		case len(e.may) > 0:
			e.expect = "either"
		default:
			e.expect = "none"
		}
		exps = append(exps, e)
	}
	return exps, headPlaces
}

func c20RefKind(kind string, shapes []string) string {
	set := map[string]bool{}
	for _, s := range shapes {
		switch {
		case kind == "recording" && s == "name-matcher":
			set["name-matcher"] = true
		case kind == "recording":
			set["metric-name"] = true
		case strings.HasPrefix(s, "afs-"):
			set["ALERTS_FOR_STATE"] = true
		default:
			set["ALERTS"] = true
		}
	}
	var out []string
	for k := range set {
		out = append(out, k)
	}
	sort.Strings(out)
	return strings.Join(out, "+")
}

var (
	c20ParserOnce sync.Once
	c20Parser     parser.Parser
)

// c20GeneratorGuard reads every generated file back with pint's own strict parser (in
// process) and compares kinds, names and expressions with the model. A mismatch means the
// generator/renderer is at fault and the case must not produce a verdict.
func c20GeneratorGuard(snap c20Snapshot) string {
	c20ParserOnce.Do(func() { c20Parser = parser.NewParser(true, parser.PrometheusSchema, model.UTF8Validation) })
	norm := func(s string) string { return strings.Join(strings.Fields(s), " ") }
	for _, f := range snap {
		text, places := f.render()
		pf := c20Parser.Parse(strings.NewReader(text))
		if pf.Error.Err != nil {
			return fmt.Sprintf("%s: pint's strict parser rejects the generated file: %v (line %d)", f.Path, pf.Error.Err, pf.Error.Line)
		}
		var got []parser.Rule
		for _, g := range pf.Groups {
			if g.Error.Err != nil {
				return fmt.Sprintf("%s: group error in generated file: %v", f.Path, g.Error.Err)
			}
			got = append(got, g.Rules...)
		}
		if f.Broken && len(got) == len(places)+1 && got[len(got)-1].Error.Err != nil {
			got = got[:len(got)-1] // the bystander, meant to be unusable
		}
		if len(got) != len(places) {
			return fmt.Sprintf("%s: parser finds %d rules, the model has %d", f.Path, len(got), len(places))
		}
		for i, r := range got {
			m := places[i].Rule
			if r.Error.Err != nil {
				return fmt.Sprintf("%s: rule error in generated file: %v", f.Path, r.Error.Err)
			}
			if string(r.Type()) != m.Kind || r.Name() != m.Name {
				return fmt.Sprintf("%s: rule %d is %s %q for the parser, %s %q in the model", f.Path, i, r.Type(), r.Name(), m.Kind, m.Name)
			}
			e := r.Expr()
			if e.SyntaxError != nil || norm(e.Value.Value) != norm(m.Expr) {
				return fmt.Sprintf("%s: rule %q expression read back as %q (syntax error %v), model has %q", f.Path, m.Name, e.Value.Value, e.SyntaxError, m.Expr)
			}
		}
	}
	return ""
}

type c20Outcome struct {
	viol     []core.Violation
	inconc   string
	nontriv  []string
	counts   map[string]int64
	distinct map[string][]string
	summary  map[string]any
}

func (o *c20Outcome) count(k string, n int64) { o.counts[k] += n }
func (o *c20Outcome) dist(set, k string)      { o.distinct[set] = append(o.distinct[set], k) }

func c20SyncTree(repo *gitrepo.Repo, prev, next map[string]string) error {
	for p := range prev {
		if _, ok := next[p]; !ok {
			if err := repo.Remove(p); err != nil {
				return err
			}
		}
	}
	for p, d := range next {
		if err := repo.Write(p, d); err != nil {
			return err
		}
	}
	return nil
}

// c20Check runs one history through git + pint and applies the oracle.
func c20Check(c *core.Ctx, cs c20Case) c20Outcome {
	out := c20Outcome{counts: map[string]int64{}, distinct: map[string][]string{}}
	if len(cs.Commits) == 0 {
		out.inconc = "case without branch commits"
		return out
	}
	// generator self-check: every expression must be valid PromQL (not part of the oracle)
	for _, snap := range append([]c20Snapshot{cs.Base}, cs.Commits...) {
		for _, r := range snap.rules() {
			if _, err := promParser.ParseExpr(r.Expr); err != nil {
				out.inconc = fmt.Sprintf("generator produced an expression Prometheus does not parse: %q: %v", r.Expr, err)
				return out
			}
		}
	}
	for _, snap := range append([]c20Snapshot{cs.Base}, cs.Commits...) {
		if why := c20GeneratorGuard(snap); why != "" {
			out.inconc = "generator fault: " + why
			return out
		}
	}
	seq := caseSeq.Add(1)
	dir := filepath.Join(c.Scratch, fmt.Sprintf("c20repo-%d", seq))
	outDir := filepath.Join(c.Scratch, fmt.Sprintf("c20out-%d", seq))
	defer os.RemoveAll(dir)
	defer os.RemoveAll(outDir)
	_ = os.MkdirAll(outDir, 0o755)
	repo, err := gitrepo.New(dir)
	if err != nil {
		out.inconc = "git: " + err.Error()
		return out
	}
	files := map[string][]byte{}
	baseFiles, _ := cs.Base.render()
	for p, d := range baseFiles {
		files["base/"+p] = []byte(d)
	}
	if err := c20SyncTree(repo, nil, baseFiles); err != nil {
		out.inconc = "write: " + err.Error()
		return out
	}
	if _, err := repo.Commit("base"); err != nil {
		out.inconc = err.Error()
		return out
	}
	if _, err := repo.Git("checkout", "-q", "-b", "pr"); err != nil {
		out.inconc = err.Error()
		return out
	}
	prev := baseFiles
	for i, snap := range cs.Commits {
		next, _ := snap.render()
		if err := c20SyncTree(repo, prev, next); err != nil {
			out.inconc = "write: " + err.Error()
			return out
		}
		if _, err := repo.Commit(fmt.Sprintf("branch commit %d", i+1)); err != nil {
			out.inconc = err.Error()
			return out
		}
		for p, d := range next {
			files[fmt.Sprintf("commit%d/%s", i+1, p)] = []byte(d)
		}
		prev = next
	}
	if st, _ := repo.Git("log", "--name-status", "--format=%h %s", "main..HEAD"); st != "" {
		files["git-log.txt"] = []byte(st)
	}
	cfg := filepath.Join(outDir, "pint.hcl")
	_ = os.WriteFile(cfg, []byte("ci {\n  baseBranch = \"main\"\n}\n"), 0o644)
	files["pint.hcl"] = []byte("ci {\n  baseBranch = \"main\"\n}\n")
	jpath := filepath.Join(outDir, "report.json")
	dpath := filepath.Join(outDir, "dump.jsonl")
	args := []string{"-c", cfg, "-l", "error", "--no-color", "--offline", "ci", "--json", jpath}
	files["cmdline.txt"] = []byte("cd <repo on branch pr> && pint " + strings.Join(args, " ") + "\n")
	proc := core.RunProc(c.Pint, args, core.ProcOpts{Dir: dir, Env: append(repo.Env(), "PINT_VERIF_DUMP="+dpath), Timeout: 60 * time.Second})
	files["stderr.txt"] = []byte(proc.Stderr)
	if proc.TimedOut {
		out.inconc = "pint ci timed out"
		return out
	}
	exps, headPlaces := c20Reference(cs)
	// pint produced no report at all: that refutes the statement only where it demands one
	noReport := func(kind, why string) c20Outcome {
		for _, e := range exps {
			if e.expect == "warning" {
				out.viol = append(out.viol, core.Violation{
					Sig:   "no-report:" + kind,
					What:  fmt.Sprintf("pint ci produced no report (%s) on a history of valid rule files where the removed %s rule %q at %s:%d still has dependants at HEAD | ops: %s", why, e.place.Rule.Kind, e.place.Rule.Name, e.place.Path, e.place.NameLine, strings.Join(cs.Ops, "; ")),
					Case:  cs,
					Files: files,
				})
				return out
			}
		}
		out.inconc = "pint ci produced no report (" + why + ") and the statement demands none here"
		return out
	}
	if proc.Crash != "" {
		return noReport(proc.Crash+":"+proc.CrashSig, "crashed: "+core.Trunc(firstPanicLines(proc.Stderr), 300))
	}
	raw, err := os.ReadFile(jpath)
	if err != nil {
		return noReport(fmt.Sprintf("exit-%d", proc.Exit), fmt.Sprintf("exit %d: %s", proc.Exit, core.Trunc(proc.Stderr, 300)))
	}
	files["report.json"] = raw
	var reports []core.JSONReport
	if err := json.Unmarshal(raw, &reports); err != nil {
		out.inconc = "unreadable JSON report: " + err.Error()
		return out
	}

	// what pint saw (dump hook): evidence and triage help only, never part of a verdict
	var pintRemoved []string
	if dump, derr := core.ReadDump(dpath); derr == nil && dump != nil {
		for _, e := range dump.Entries {
			out.count("pint_entries_state_"+e.State, 1)
			if e.State == "removed" {
				pintRemoved = append(pintRemoved, fmt.Sprintf("%s %q %s:%d-%d", e.Rule.Type, e.Rule.Name, e.Path, e.Rule.First, e.Rule.Last))
			}
		}
		for _, d := range dump.Dispatch {
			if d.Check == c20Reporter {
				out.count("dependency_check_dispatched", 1)
			}
		}
	} else {
		out.count("dump_missing", 1)
	}

	viol := func(sig, what string) {
		what += fmt.Sprintf(" | ops: %s | pint's removed entries: %s", strings.Join(cs.Ops, "; "), strings.Join(pintRemoved, ", "))
		out.viol = append(out.viol, core.Violation{Sig: sig, What: what, Case: cs, Files: files})
	}

	// attach every rule/dependency report to a base rule
	type obs struct {
		rep   core.JSONReport
		items []c20Item
	}
	observed := map[int][]obs{}
	for _, rep := range reports {
		if rep.Reporter != c20Reporter {
			out.count("other_reports", 1)
			continue
		}
		out.count("dependency_reports", 1)
		idx := -1
		pathKnown := false
		for i, e := range exps {
			if e.place.Path != rep.Path {
				continue
			}
			pathKnown = true
			if len(rep.Lines) == 0 {
				continue
			}
			inside, hasName := true, false
			for _, l := range rep.Lines {
				if l < e.place.ExtFirst || l > e.place.ExtLast {
					inside = false
				}
				if l == e.place.NameLine {
					hasName = true
				}
			}
			if inside && hasName {
				idx = i
				break
			}
		}
		if idx < 0 {
			why := "lines-match-no-base-rule"
			if !pathKnown {
				why = "path-not-in-base"
			}
			viol("report-misplaced:"+why, fmt.Sprintf("rule/dependency report at %s lines %v does not point at a rule of the base tree; details: %s", rep.Path, rep.Lines, core.Trunc(rep.Details, 300)))
			continue
		}
		items, ok := c20ParseDetails(rep.Details)
		if !ok {
			viol("details-unparsable", fmt.Sprintf("cannot find the dependant list in details of the report at %s %v: %q", rep.Path, rep.Lines, rep.Details))
			continue
		}
		observed[idx] = append(observed[idx], obs{rep, items})
	}

	// classify a listed dependant
	classify := func(e c20Exp, it c20Item) (headIdx int, cls int, label string) {
		for i, h := range headPlaces {
			if h.Path == it.Path && h.Rule.Name == it.Name && it.Line >= h.ExtFirst && it.Line <= h.ExtLast {
				c, _ := h.Rule.class(e.place.Rule.Kind, e.place.Rule.Name)
				var sh []string
				for _, f := range h.Rule.Refs {
					if strings.Contains(f.Text, e.place.Rule.Name) { // only the selectors that mention the name
						sh = append(sh, f.Shape)
					}
				}
				sort.Strings(sh)
				return i, c, "non-dependant(" + strings.Join(c20Uniq(sh), ",") + ")"
			}
		}
		for _, b := range exps {
			if b.place.Path == it.Path && b.place.Rule.Name == it.Name && it.Line >= b.place.ExtFirst && it.Line <= b.place.ExtLast && b.removal != "kept" {
				return -1, c20Not, "rule-gone-from-HEAD"
			}
		}
		return -1, c20Not, "unknown-location"
	}

	for i, e := range exps {
		k, n := e.place.Rule.Kind, e.place.Rule.Name
		obsList := observed[i]
		where := fmt.Sprintf("%s rule %q at %s:%d-%d (removal=%s)", k, n, e.place.Path, e.place.FieldFrst, e.place.FieldLast, e.removal)
		out.count("base_rules", 1)
		if e.removal != "kept" {
			out.count("base_rules_gone_"+e.removal, 1)
			out.dist("removal_kinds", e.removal)
			if len(e.must) > 0 {
				out.nontriv = append(out.nontriv, fmt.Sprintf("%s|%s|%s|replaced=%v", e.removal, k, c20RefKind(k, e.shapes), e.replaced))
				for _, s := range e.shapes {
					out.dist("must_shapes", k+":"+s)
				}
			}
		}
		cat := e.expect
		if e.expect == "none" {
			switch {
			case e.removal == "kept":
				cat = "none(rule-kept)"
			case e.replaced && len(e.must) > 0:
				cat = "none(replaced,has-dependants)"
			case e.replaced:
				cat = "none(replaced)"
			default:
				cat = "none(no-dependant)"
			}
		}
		out.count(fmt.Sprintf("expect_%s_observed_%d", cat, min(len(obsList), 2)), 1)
		if len(obsList) > 1 {
			viol("duplicate-warning:"+k, fmt.Sprintf("%d rule/dependency reports for the same %s", len(obsList), where))
		}
		if len(obsList) == 0 {
			if e.expect == "warning" {
				var deps []string
				for _, hi := range e.must {
					h := headPlaces[hi]
					deps = append(deps, fmt.Sprintf("%q at %s:%d (%s)", h.Rule.Name, h.Path, h.ExprLine, h.Rule.Expr))
				}
				sig := fmt.Sprintf("missing-warning:%s:%s:%s", k, e.removal, c20RefKind(k, e.shapes))
				if len(e.shapes) == 1 && e.shapes[0] == "name-matcher" {
					sig = "missing-warning:recording:only-name-matcher-dependants"
				}
				viol(sig, fmt.Sprintf("no rule/dependency report for removed %s although no %s rule named %q is left at HEAD and these HEAD rules still select it: %s", where, k, n, strings.Join(deps, "; ")))
			}
			continue
		}
		o := obsList[0]
		if e.expect == "none" {
			var listed []string
			for _, it := range o.items {
				_, cls, label := classify(e, it)
				if cls >= c20May {
					label = "dependant"
				}
				listed = append(listed, label)
			}
			sort.Strings(listed)
			why := "no-dependant:listed=" + strings.Join(c20Uniq(listed), "+")
			if e.replaced {
				why = "replacement-exists:" + e.removal
			}
			viol(fmt.Sprintf("unexpected-warning:%s:%s", k, why), fmt.Sprintf("rule/dependency report for %s which the statement excludes (%s); details: %s", where, why, core.Trunc(o.rep.Details, 400)))
			continue
		}
		if e.expect == "either" {
			out.count("dontcare_reported", 1)
		}
		if o.rep.Severity != "Warning" {
			viol("wrong-severity:"+o.rep.Severity, fmt.Sprintf("rule/dependency report for %s has severity %s", where, o.rep.Severity))
		}
		seen := map[int]int{}
		var extra []string
		for _, it := range o.items {
			out.count("dependants_listed", 1)
			hi, cls, label := classify(e, it)
			if cls == c20Not {
				extra = append(extra, label)
				continue
			}
			if cls == c20May {
				out.count("dontcare_dependants_listed", 1)
			}
			seen[hi]++
		}
		if len(extra) > 0 {
			sort.Strings(extra)
			viol(fmt.Sprintf("dependants-extra:%s:%s", k, strings.Join(c20Uniq(extra), "+")), fmt.Sprintf("report for removed %s lists rules that do not select it: %s; details: %s", where, strings.Join(extra, ", "), core.Trunc(o.rep.Details, 400)))
		}
		for hi, cnt := range seen {
			if cnt > 1 {
				h := headPlaces[hi]
				viol("dependant-listed-twice:"+k, fmt.Sprintf("report for removed %s lists %q at %s %d times", where, h.Rule.Name, h.Path, cnt))
				break
			}
		}
		var missing, missShapes []string
		for _, hi := range e.must {
			if seen[hi] == 0 {
				h := headPlaces[hi]
				_, sh := h.Rule.class(k, n)
				missShapes = append(missShapes, sh...)
				missing = append(missing, fmt.Sprintf("%q at %s:%d (%s)", h.Rule.Name, h.Path, h.ExprLine, h.Rule.Expr))
			}
		}
		if len(missing) > 0 {
			sort.Strings(missShapes)
			viol(fmt.Sprintf("dependants-missing:%s:%s", k, c20RefKind(k, c20Uniq(missShapes))), fmt.Sprintf("report for removed %s does not list these HEAD rules that still select it: %s; details: %s", where, strings.Join(missing, "; "), core.Trunc(o.rep.Details, 400)))
		}
		if len(extra) == 0 && len(missing) == 0 {
			out.count("warnings_with_exact_list", 1)
		}
	}

	// decoys that were present and (rightly) not listed: counted for the evidence
	for _, h := range headPlaces {
		for _, f := range h.Rule.Refs {
			if strings.HasPrefix(f.Shape, "decoy-") || strings.Contains(f.Shape, "-neq") || strings.Contains(f.Shape, "-nre") || strings.Contains(f.Shape, "-re") {
				out.dist("decoy_or_dontcare_shapes_at_head", f.Shape)
			}
		}
	}
	out.summary = map[string]any{
		"ops":              cs.Ops,
		"base_files":       len(cs.Base),
		"base_rules":       len(exps),
		"head_rules":       len(headPlaces),
		"commits":          len(cs.Commits),
		"pint_removed":     pintRemoved,
		"dependency_warns": out.counts["dependency_reports"],
	}
	return out
}

// c20Minimise drops rules (by id, from every snapshot) as long as a violation with the same
// signature is still reported. Bounded number of oracle calls.
func c20Minimise(c *core.Ctx, cs c20Case, sig string) c20Case {
	calls := 0
	ids := map[int]bool{}
	for _, snap := range append([]c20Snapshot{cs.Base}, cs.Commits...) {
		for _, r := range snap.rules() {
			ids[r.ID] = true
		}
	}
	var order []int
	for id := range ids {
		order = append(order, id)
	}
	sort.Ints(order)
	for _, id := range order {
		if calls >= 30 {
			break
		}
		cand := c20Case{Base: cs.Base.clone(), Ops: cs.Ops}
		cand.Base.removeIDs(map[int]bool{id: true})
		for _, s := range cs.Commits {
			ns := s.clone()
			ns.removeIDs(map[int]bool{id: true})
			cand.Commits = append(cand.Commits, ns)
		}
		calls++
		o := c20Check(c, cand)
		if o.inconc != "" {
			continue
		}
		for _, v := range o.viol {
			if v.Sig == sig {
				cs = cand
				break
			}
		}
	}
	return cs
}

func runC20(c *core.Ctx) int {
	run := core.NewRun(c)
	if c.Replay != "" {
		var cs c20Case
		if err := core.LoadCase(c.Replay, &cs); err != nil {
			fmt.Println("cannot load case:", err)
			return core.ExitInconclusive
		}
		o := c20Check(c, cs)
		if o.inconc != "" {
			fmt.Println("REPLAY inconclusive:", o.inconc)
			return core.ExitInconclusive
		}
		for _, v := range o.viol {
			fmt.Printf("REPLAY violation signature=%s what=%s\n", v.Sig, core.Trunc(v.What, 800))
		}
		fmt.Printf("REPLAY rule/dependency reports=%d violations=%d\n", o.counts["dependency_reports"], len(o.viol))
		if len(o.viol) > 0 {
			return 1
		}
		return 0
	}

	n := c.N(400, 6000)
	cases := make([]c20Case, n)
	for i := range cases {
		cases[i] = c20GenCase(c.Rand("c20", i), i%4)
	}
	outs := make([]c20Outcome, n)
	core.Parallel(n, 16, func(i int) {
		outs[i] = c20Check(c, cases[i])
	})
	minimised := map[string]bool{}
	for i, o := range outs {
		run.Eval(1)
		if o.inconc != "" {
			run.Inconclusive(fmt.Sprintf("case %d: %s", i, o.inconc))
			continue
		}
		for k, v := range o.counts {
			run.Count(k, v)
		}
		for set, ks := range o.distinct {
			for _, k := range ks {
				run.Distinct(set, k)
			}
		}
		for _, k := range o.nontriv {
			run.Nontrivial(k)
		}
		if len(o.nontriv) > 0 {
			run.Count("histories_removing_a_provider_with_dependants", 1)
		}
		if len(cases[i].Commits) > 1 {
			run.Count("histories_with_two_commits", 1)
		}
		if i%(n/6+1) == 0 {
			run.Sample(o.summary)
		}
		sigSeen := map[string]bool{}
		for _, v := range o.viol {
			if sigSeen[v.Sig] { // one witness per signature and history
				run.Count("further_violations_same_history_and_signature", 1)
				continue
			}
			sigSeen[v.Sig] = true
			if !minimised[v.Sig] && len(minimised) < 4 {
				minimised[v.Sig] = true
				small := c20Minimise(c, cases[i], v.Sig)
				so := c20Check(c, small)
				for _, sv := range so.viol {
					if sv.Sig == v.Sig {
						v = sv
						break
					}
				}
			}
			run.Violate(v)
		}
	}
	run.Assume("the generator's reference graph is right by construction: every expression is composed from selectors whose metric name / alertname matcher is recorded when it is written (expressions are additionally checked to parse with the Prometheus parser)")
	run.Assume("every generated file is read back in process with pint's strict parser; a case whose kinds/names/expressions differ from the model is inconclusive (generator fault), never a verdict")
	run.Assume("a pint ci child that crashes or writes no JSON report is a violation only when the reference demands at least one warning for that history, otherwise inconclusive")
	run.Assume("regexp / negative alertname matchers, bare ALERTS selectors, __name__ regexps and rules added on the branch are don't-care dependants; a regexp whose text equals the alert name but does not match it (e.g. Cpu+) is a certain non-dependant")
	return run.Finish("exploration",
		"histories: 2-5 rule files, 4-12 recording/alerting rules drawn from small name pools (duplicate providers, names shared by a recording rule and an alert, chains, self reference) whose expressions are composed from 1-3 recorded selectors (plain, matchers, range, subquery, offset, {__name__=...}, ALERTS/ALERTS_FOR_STATE with = / =~ / != / !~ alertname, decoys: label values, string arguments, longer metric names, by() labels, alertname on another metric); branch = random subset of rules/files removed, or 1-4 operations (delete rule / all rules of a name / file, rename rule, move rule to another file, delete provider with dependants, delete and re-add elsewhere, git-rename file, change kind keeping the name, drop the dependency, add a dependant, unrelated edit, empty file, reorder) in one or two commits (second commit may restore a base file). Oracle: for every base rule, warning expected iff no HEAD rule of the same kind and name and >=1 certain dependant; the report must sit on the removed rule's base path/lines, have severity Warning and list exactly the certain dependants (don't-care ones allowed). Non-trivial = base rule gone from its place with >=1 certain dependant at HEAD; distinct by (removal kind, rule kind, reference kind, replacement yes/no).",
		core.Floors{MinEvaluations: int64(n), MinNontrivial: 12, MaxInconclusiveFrac: 0.02})
}
