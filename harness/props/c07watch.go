package props

import (
	"bufio"
	"encoding/json"
	"fmt"
	"os"
	"os/exec"
	"path/filepath"
	"sort"
	"strings"
	"syscall"
	"time"

	"github.com/cloudflare/pint/verif/core"
)

// A long-lived pint process (`pint watch`) in which snoozes expire while it runs: "an expired snooze changes nothing"
// and "a snooze whose time is in the future removes the check" must both hold in every iteration, judged against the
// moment the iteration took its decisions. Every H1 record carries the time pint wrote it at (same clock pint compares
// snooze times with), and the decisions of an iteration (discovery, check selection) are taken between the last record
// of the previous iteration and the last dispatch record of this one; so
//   - iteration k starts after T (last record of k-1 is later than T)  => the check must be dispatched for the rule,
//   - iteration k ends before T (its last dispatch record is earlier)   => it must not be,
//   - otherwise the iteration straddles T and nothing is demanded.
// No wall-clock margin enters the verdict.

type c07WatchRule struct {
	Name    string `json:"name"`
	Check   string `json:"check"`
	Form    string `json:"form"` // snooze | file/snooze
	AfterMs int    `json:"after_ms"`
	File    string `json:"file"`
}

type c07WatchCase struct {
	Rules    []c07WatchRule `json:"rules"`
	Interval string         `json:"interval"`
	RunMs    int            `json:"run_ms"`
}

type c07WatchOut struct {
	viol       []core.Violation
	inconc     string
	iterations int
	afterSeen  int // (rule, iteration) pairs judged "must be dispatched"
	beforeSeen int // pairs judged "must not be dispatched"
}

func c07Watch(c *core.Ctx, seed int) c07WatchOut {
	out := c07WatchOut{}
	r := c.Rand("c07watch", seed)
	// every rule violates one offline check that is dispatched per rule; each gets a snooze expiring at its own time
	type spec struct{ check, body string }
	specs := []spec{
		{"alerts/comparison", "    expr: up\n"},
		{"alerts/for", "    expr: up == 0\n    for: 0s\n"},
		{"promql/fragile", "    expr: errors / sum(requests) > 0.1\n"},
		{"alerts/template", "    expr: sum(up) by (job) == 0\n    annotations:\n      summary: \"{{ $labels.instance }}\"\n"},
	}
	cs := c07WatchCase{Interval: "1500ms", RunMs: 11000}
	dir, err := os.MkdirTemp(c.Scratch, "c07watch-")
	if err != nil {
		out.inconc = err.Error()
		return out
	}
	defer os.RemoveAll(dir)
	_ = os.MkdirAll(filepath.Join(dir, "rules"), 0o755)
	start := time.Now()
	files := map[string]string{}
	for i, sp := range specs {
		after := 2500 + r.Intn(5000)
		form := "snooze"
		if i == len(specs)-1 || r.Intn(3) == 0 {
			form = "file/snooze"
		}
		fn := fmt.Sprintf("rules/w%d.yml", i)
		ru := c07WatchRule{Name: fmt.Sprintf("Watch%d", i), Check: sp.check, Form: form, AfterMs: after, File: fn}
		ts := start.Add(time.Duration(after) * time.Millisecond).UTC().Format(time.RFC3339Nano)
		comment := "# pint " + form + " " + ts + " " + sp.check
		var b strings.Builder
		if form == "file/snooze" {
			b.WriteString(comment + "\n")
		}
		b.WriteString("groups:\n- name: g\n  rules:\n")
		if form == "snooze" {
			b.WriteString("  " + comment + "\n")
		}
		b.WriteString("  - alert: " + ru.Name + "\n" + sp.body)
		files[fn] = b.String()
		cs.Rules = append(cs.Rules, ru)
		_ = os.WriteFile(filepath.Join(dir, fn), []byte(b.String()), 0o644)
	}
	dump := filepath.Join(dir, "dump.jsonl")
	cmd := exec.Command(c.Pint, "--offline", "-l", "error", "--no-color", "watch", "--interval", cs.Interval, "--listen", "127.0.0.1:0", "glob", "rules")
	cmd.Dir = dir
	cmd.Env = append(os.Environ(), "PINT_VERIF_DUMP="+dump)
	var stderr strings.Builder
	cmd.Stderr = &stderr
	if err := cmd.Start(); err != nil {
		out.inconc = "cannot start pint watch: " + err.Error()
		return out
	}
	time.Sleep(time.Duration(cs.RunMs) * time.Millisecond)
	_ = cmd.Process.Signal(syscall.SIGTERM)
	done := make(chan error, 1)
	go func() { done <- cmd.Wait() }()
	select {
	case <-done:
	case <-time.After(20 * time.Second):
		_ = cmd.Process.Kill()
		<-done
	}
	if strings.Contains(stderr.String(), "panic:") || strings.Contains(stderr.String(), "fatal error:") {
		out.viol = append(out.viol, core.Violation{Sig: "watch-crash", What: "pint watch crashed: " + core.Trunc(stderr.String(), 400), Case: cs})
		return out
	}
	f, err := os.Open(dump)
	if err != nil {
		out.inconc = "pint watch wrote no H1 dump: " + core.Trunc(stderr.String(), 300)
		return out
	}
	defer f.Close()
	type rec struct {
		Ts       int64  `json:"ts"`
		Kind     string `json:"kind"`
		Path     string `json:"path"`
		Name     string `json:"name"`
		Reporter string `json:"reporter"`
	}
	type iter struct {
		prevLast     int64 // time of the last record before this iteration
		lastDispatch int64
		dispatched   map[string]bool // name|reporter
	}
	var iters []*iter
	var cur *iter
	var last int64
	sc := bufio.NewScanner(f)
	sc.Buffer(make([]byte, 1<<20), 1<<26)
	for sc.Scan() {
		var rc rec
		if json.Unmarshal(sc.Bytes(), &rc) != nil || rc.Ts == 0 {
			continue
		}
		if rc.Kind == "dispatch" {
			key := rc.Name + "|" + rc.Reporter
			full := rc.Path + "|" + key
			// the first (path, rule, check) seen again opens a new iteration
			if cur == nil || cur.dispatched["@"+full] {
				cur = &iter{prevLast: last, dispatched: map[string]bool{}}
				iters = append(iters, cur)
			}
			cur.dispatched["@"+full] = true
			cur.dispatched[key] = true
			cur.lastDispatch = rc.Ts
		}
		last = rc.Ts
	}
	out.iterations = len(iters)
	if len(iters) < 3 {
		out.inconc = fmt.Sprintf("only %d iterations observed in %d ms", len(iters), cs.RunMs)
		return out
	}
	for _, ru := range cs.Rules {
		T := start.Add(time.Duration(ru.AfterMs) * time.Millisecond).UnixNano()
		for k, it := range iters {
			got := it.dispatched[ru.Name+"|"+ru.Check]
			switch {
			case k > 0 && it.prevLast > T:
				out.afterSeen++
				if !got {
					out.viol = append(out.viol, core.Violation{
						Sig:   "expired-snooze-still-suppresses:watch:" + ru.Form,
						What:  fmt.Sprintf("`# pint %s` for %s on rule %s expired %.1fs into the run; iteration %d of `pint watch` started %.3fs after that moment and still did not run the check for the rule", ru.Form, ru.Check, ru.Name, float64(ru.AfterMs)/1000, k+1, float64(it.prevLast-T)/1e9),
						Case:  cs,
						Files: map[string][]byte{ru.File: []byte(files[ru.File]), "stderr.txt": []byte(stderr.String())},
					})
				}
			case it.lastDispatch != 0 && it.lastDispatch < T:
				out.beforeSeen++
				if got {
					out.viol = append(out.viol, core.Violation{
						Sig:   "not-suppressed:watch:" + ru.Form,
						What:  fmt.Sprintf("`# pint %s` for %s on rule %s was still %.3fs in the future when iteration %d of `pint watch` finished dispatching, yet the check ran for the rule", ru.Form, ru.Check, ru.Name, float64(T-it.lastDispatch)/1e9, k+1),
						Case:  cs,
						Files: map[string][]byte{ru.File: []byte(files[ru.File]), "stderr.txt": []byte(stderr.String())},
					})
				}
			}
		}
	}
	sort.Slice(out.viol, func(i, j int) bool { return out.viol[i].Sig < out.viol[j].Sig })
	return out
}
