package props

// Fake Prometheus for C13: answers /api/v1/query_range from a presence model
// (per series a list of half-open intervals in unix milliseconds) and logs, per
// repetition of a case, every request and every timestamp it evaluated. The
// oracle never trusts the client about the grid: it reads it from this log.

import (
	"context"
	"fmt"
	"hash/fnv"
	"math"
	"net"
	"net/http"
	"net/http/httptest"
	"sort"
	"strconv"
	"strings"
	"sync"
	"time"
)

type c13Req struct {
	StartMs int64 `json:"start_ms"`
	EndMs   int64 `json:"end_ms"`
	StepMs  int64 `json:"step_ms"`
	Arrive  int   `json:"arrive"`
	Done    int   `json:"done"`
	Points  int   `json:"points"`
	DelayUs int   `json:"delay_us"`
	// Fault is set when the request was not delivered (undelivered-slice
	// scenario, c13_fault.go); its timestamps still belong to the grid the
	// client asked for.
	Fault string `json:"fault,omitempty"`
}

type c13RepLog struct {
	Reqs      []c13Req
	Rejected  []string
	Evaluated []int64
}

type c13Live struct {
	cs    *c13Case
	ivs   [][][2]int64 // normalised intervals per series
	mu    sync.Mutex
	reps  map[string]*c13RepLog
	conns map[net.Conn]struct{}
	seq   int
	// undelivered-slice scenario: slices already failed once, and the signal
	// "a held slice has arrived" for the caller-cancel kind
	faulted map[string]bool
	faultOn bool
	held    chan int64
}

func (l *c13Live) rep(expr string) *c13RepLog {
	lg := l.reps[expr]
	if lg == nil {
		lg = &c13RepLog{}
		l.reps[expr] = lg
	}
	return lg
}

// snapshot returns a copy of the log of one repetition.
func (l *c13Live) snapshot(expr string) c13RepLog {
	l.mu.Lock()
	defer l.mu.Unlock()
	lg := l.rep(expr)
	return c13RepLog{
		Reqs:      append([]c13Req(nil), lg.Reqs...),
		Rejected:  append([]string(nil), lg.Rejected...),
		Evaluated: append([]int64(nil), lg.Evaluated...),
	}
}

type c13ConnKey struct{}

type c13Server struct {
	srv   *httptest.Server
	mu    sync.Mutex
	cases map[string]*c13Live
	next  int
}

func newC13Server() *c13Server {
	s := &c13Server{cases: map[string]*c13Live{}}
	s.srv = httptest.NewUnstartedServer(http.HandlerFunc(s.handle))
	s.srv.Config.ConnContext = func(ctx context.Context, c net.Conn) context.Context {
		return context.WithValue(ctx, c13ConnKey{}, c)
	}
	s.srv.Start()
	return s
}

func (s *c13Server) Close() { s.srv.Close() }

// register makes the server answer for one case under its own URI prefix.
func (s *c13Server) register(cs *c13Case) (uri string, live *c13Live, id string) {
	live = &c13Live{cs: cs, reps: map[string]*c13RepLog{}, conns: map[net.Conn]struct{}{}, faulted: map[string]bool{}, held: make(chan int64, 64)}
	for _, sr := range cs.Series {
		live.ivs = append(live.ivs, c13Normalise(sr.Intervals))
	}
	s.mu.Lock()
	s.next++
	id = strconv.Itoa(s.next)
	s.cases[id] = live
	s.mu.Unlock()
	return s.srv.URL + "/c/" + id, live, id
}

// unregister forgets the case and resets (RST, no TIME_WAIT) the connections
// the client opened for it, so thousands of short-lived clients do not exhaust
// ports or descriptors.
func (s *c13Server) unregister(id string) {
	s.mu.Lock()
	live := s.cases[id]
	delete(s.cases, id)
	s.mu.Unlock()
	if live == nil {
		return
	}
	live.mu.Lock()
	conns := live.conns
	live.conns = map[net.Conn]struct{}{}
	live.mu.Unlock()
	for c := range conns {
		if tc, ok := c.(*net.TCPConn); ok {
			_ = tc.SetLinger(0)
		}
		_ = c.Close()
	}
}

// c13ParseTime reads a timestamp the way Prometheus' HTTP API does (float
// seconds, millisecond resolution).
func c13ParseTime(s string) (int64, error) {
	t, err := strconv.ParseFloat(s, 64)
	if err != nil {
		return 0, err
	}
	if math.IsNaN(t) || math.IsInf(t, 0) {
		return 0, fmt.Errorf("not a finite time")
	}
	sec, frac := math.Modf(t)
	return int64(sec)*1000 + int64(math.Round(frac*1000)), nil
}

func c13Normalise(in [][2]int64) [][2]int64 {
	ivs := make([][2]int64, 0, len(in))
	for _, iv := range in {
		if iv[1] > iv[0] {
			ivs = append(ivs, iv)
		}
	}
	sort.Slice(ivs, func(i, j int) bool { return ivs[i][0] < ivs[j][0] })
	out := ivs[:0]
	for _, iv := range ivs {
		if n := len(out); n > 0 && iv[0] <= out[n-1][1] {
			if iv[1] > out[n-1][1] {
				out[n-1][1] = iv[1]
			}
			continue
		}
		out = append(out, iv)
	}
	return out
}

// c13Present: is t inside one of the (normalised) intervals.
func c13Present(ivs [][2]int64, t int64) bool {
	i := sort.Search(len(ivs), func(i int) bool { return ivs[i][1] > t })
	return i < len(ivs) && ivs[i][0] <= t
}

func c13DelayUs(seed, startMs int64, maxUs int) int {
	if maxUs <= 0 {
		return 0
	}
	h := fnv.New64a()
	fmt.Fprintf(h, "%d|%d", seed, startMs)
	return int(h.Sum64() % uint64(maxUs+1))
}

func c13APIError(w http.ResponseWriter, code int, typ, msg string) {
	w.Header().Set("Content-Type", "application/json")
	w.WriteHeader(code)
	fmt.Fprintf(w, `{"status":"error","errorType":%q,"error":%q}`, typ, msg)
}

func c13RepIndex(expr string) int {
	if !strings.HasPrefix(expr, "c13_rep_") {
		return -1
	}
	k, err := strconv.Atoi(strings.TrimPrefix(expr, "c13_rep_"))
	if err != nil {
		return -1
	}
	return k
}

func (s *c13Server) handle(w http.ResponseWriter, r *http.Request) {
	parts := strings.SplitN(strings.TrimPrefix(r.URL.Path, "/"), "/", 3)
	if len(parts) != 3 || parts[0] != "c" {
		http.NotFound(w, r)
		return
	}
	s.mu.Lock()
	live := s.cases[parts[1]]
	s.mu.Unlock()
	if live == nil {
		http.NotFound(w, r)
		return
	}
	if c, ok := r.Context().Value(c13ConnKey{}).(net.Conn); ok {
		live.mu.Lock()
		live.conns[c] = struct{}{}
		live.mu.Unlock()
	}
	if parts[2] != "api/v1/query_range" {
		http.NotFound(w, r)
		return
	}
	_ = r.ParseForm()
	expr := r.Form.Get("query")
	reject := func(reason, msg string) {
		live.mu.Lock()
		lg := live.rep(expr)
		lg.Rejected = append(lg.Rejected, reason)
		live.mu.Unlock()
		c13APIError(w, http.StatusBadRequest, "bad_data", msg)
	}
	startMs, err := c13ParseTime(r.Form.Get("start"))
	if err != nil {
		reject("bad-start", "invalid parameter \"start\"")
		return
	}
	endMs, err := c13ParseTime(r.Form.Get("end"))
	if err != nil {
		reject("bad-end", "invalid parameter \"end\"")
		return
	}
	stepF, err := strconv.ParseFloat(r.Form.Get("step"), 64)
	if err != nil || math.IsNaN(stepF) || math.IsInf(stepF, 0) {
		reject("bad-step", "invalid parameter \"step\"")
		return
	}
	stepMs := int64(math.Round(stepF * 1000))
	if stepMs <= 0 {
		reject("step-not-positive", "zero or negative query resolution step widths are not accepted. Try a positive integer")
		return
	}
	if endMs < startMs {
		reject("end-before-start", "end timestamp must not be before start time")
		return
	}
	if (endMs-startMs)/stepMs > 11000 {
		reject("more-than-11000-points", "exceeded maximum resolution of 11,000 points per timeseries. Try decreasing the query resolution (?step=XX)")
		return
	}

	var seed int64
	if k := c13RepIndex(expr); k >= 0 && k < len(live.cs.DelaySeeds) {
		seed = live.cs.DelaySeeds[k]
	} else if live.cs.Fault != nil && expr == c13FaultExpr {
		seed = live.cs.Fault.DelaySeed
	}
	delay := c13DelayUs(seed, startMs, live.cs.MaxDelayUs)

	// the timestamps this request asks to evaluate
	var pts []int64
	for t := startMs; t <= endMs; t += stepMs {
		pts = append(pts, t)
	}

	live.mu.Lock()
	live.seq++
	arrive := live.seq
	fault := live.faultFor(expr, startMs, endMs)
	if fault != "" {
		// Logged on arrival: the oracle must know the slice was asked for even
		// though no answer will leave. Its timestamps are part of the grid one
		// unsliced evaluation would cover.
		lg := live.rep(expr)
		lg.Reqs = append(lg.Reqs, c13Req{StartMs: startMs, EndMs: endMs, StepMs: stepMs, Arrive: arrive, Done: arrive, Points: len(pts), Fault: fault})
		lg.Evaluated = append(lg.Evaluated, pts...)
	}
	live.mu.Unlock()

	if fault != "" && fault != "http200-truncated" {
		c13ServeFault(w, r, live, fault, startMs, nil)
		return
	}

	if delay > 0 {
		time.Sleep(time.Duration(delay) * time.Microsecond)
	}

	// evaluate
	buf := make([]byte, 0, 256+len(pts)*24)
	buf = append(buf, `{"status":"success","data":{"resultType":"matrix","result":[`...)
	n := len(live.cs.Series)
	first := true
	rot := 0
	if n > 0 {
		rot = int((startMs / stepMs) % int64(n))
		if rot < 0 {
			rot = -rot
		}
	}
	for k := 0; k < n; k++ {
		si := (k + rot) % n
		ivs := live.ivs[si]
		wrote := false
		for _, t := range pts {
			if !c13Present(ivs, t) {
				continue
			}
			if !wrote {
				if !first {
					buf = append(buf, ',')
				}
				first = false
				buf = append(buf, `{"metric":{`...)
				names := make([]string, 0, len(live.cs.Series[si].Labels))
				for ln := range live.cs.Series[si].Labels {
					names = append(names, ln)
				}
				sort.Strings(names)
				for j, ln := range names {
					if j > 0 {
						buf = append(buf, ',')
					}
					buf = strconv.AppendQuote(buf, ln)
					buf = append(buf, ':')
					buf = strconv.AppendQuote(buf, live.cs.Series[si].Labels[ln])
				}
				buf = append(buf, `},"values":[`...)
				wrote = true
			} else {
				buf = append(buf, ',')
			}
			buf = append(buf, '[')
			buf = strconv.AppendInt(buf, t/1000, 10)
			if ms := t % 1000; ms != 0 {
				buf = append(buf, '.')
				buf = append(buf, byte('0'+ms/100), byte('0'+ms/10%10), byte('0'+ms%10))
			}
			buf = append(buf, `,"1"]`...)
		}
		if wrote {
			buf = append(buf, `]}`...)
		}
	}
	buf = append(buf, `],"stats":{"timings":{"evalTotalTime":0.001,"resultSortTime":0,"queryPreparationTime":0.0001,"innerEvalTime":0.0005,"execQueueTime":0.00001,"execTotalTime":0.001},"samples":{"totalQueryableSamples":`...)
	buf = strconv.AppendInt(buf, int64(len(pts)), 10)
	buf = append(buf, `,"peakSamples":1}}}}`...)

	if fault != "" {
		c13ServeFault(w, r, live, fault, startMs, buf)
		return
	}

	// The log entry is complete before the first byte of the answer leaves, so
	// the client cannot hold a result whose request is not in the log yet.
	live.mu.Lock()
	live.seq++
	lg := live.rep(expr)
	lg.Reqs = append(lg.Reqs, c13Req{StartMs: startMs, EndMs: endMs, StepMs: stepMs, Arrive: arrive, Done: live.seq, Points: len(pts), DelayUs: delay})
	lg.Evaluated = append(lg.Evaluated, pts...)
	live.mu.Unlock()

	w.Header().Set("Content-Type", "application/json")
	_, _ = w.Write(buf)
}
