// Package promfake is an in-memory Prometheus: a hand-written storage.Queryable
// evaluated by the vendored PromQL engine, optionally served over the HTTP API
// endpoints pint uses.
package promfake

import (
	"context"
	"encoding/json"
	"fmt"
	"math"
	"net/http"
	"net/http/httptest"
	"sort"
	"strconv"
	"sync"
	"sync/atomic"
	"time"

	"github.com/prometheus/prometheus/model/histogram"
	"github.com/prometheus/prometheus/model/labels"
	"github.com/prometheus/prometheus/promql"
	"github.com/prometheus/prometheus/storage"
	"github.com/prometheus/prometheus/tsdb/chunkenc"
	"github.com/prometheus/prometheus/tsdb/chunks"
	"github.com/prometheus/prometheus/util/annotations"
)

type Sample struct {
	Ts int64 // ms
	V  float64
}

func (s Sample) T() int64                      { return s.Ts }
func (s Sample) F() float64                    { return s.V }
func (s Sample) H() *histogram.Histogram       { return nil }
func (s Sample) FH() *histogram.FloatHistogram { return nil }
func (s Sample) Type() chunkenc.ValueType      { return chunkenc.ValFloat }
func (s Sample) Copy() chunks.Sample           { return s }

type Series struct {
	Labels  map[string]string
	Samples []Sample
}

type DB struct {
	Series []Series
	built  []storage.Series
	once   sync.Once
}

func (d *DB) build() {
	d.once.Do(func() {
		for _, s := range d.Series {
			var kv []string
			keys := make([]string, 0, len(s.Labels))
			for k := range s.Labels {
				keys = append(keys, k)
			}
			sort.Strings(keys)
			for _, k := range keys {
				kv = append(kv, k, s.Labels[k])
			}
			smp := make([]chunks.Sample, len(s.Samples))
			for i, x := range s.Samples {
				smp[i] = x
			}
			d.built = append(d.built, storage.NewListSeries(labels.FromStrings(kv...), smp))
		}
	})
}

func (d *DB) Querier(_, _ int64) (storage.Querier, error) {
	d.build()
	return &querier{d}, nil
}

type querier struct{ d *DB }

func (q *querier) Select(_ context.Context, _ bool, _ *storage.SelectHints, ms ...*labels.Matcher) storage.SeriesSet {
	var out []storage.Series
	for _, s := range q.d.built {
		ok := true
		for _, m := range ms {
			if !m.Matches(s.Labels().Get(m.Name)) {
				ok = false
				break
			}
		}
		if ok {
			out = append(out, s)
		}
	}
	return &seriesSet{out, -1}
}

func (q *querier) LabelValues(context.Context, string, *storage.LabelHints, ...*labels.Matcher) ([]string, annotations.Annotations, error) {
	return nil, nil, nil
}

func (q *querier) LabelNames(context.Context, *storage.LabelHints, ...*labels.Matcher) ([]string, annotations.Annotations, error) {
	return nil, nil, nil
}
func (q *querier) Close() error { return nil }

type seriesSet struct {
	s []storage.Series
	i int
}

func (s *seriesSet) Next() bool                        { s.i++; return s.i < len(s.s) }
func (s *seriesSet) At() storage.Series                { return s.s[s.i] }
func (s *seriesSet) Err() error                        { return nil }
func (s *seriesSet) Warnings() annotations.Annotations { return nil }

func NewEngine() *promql.Engine {
	return promql.NewEngine(promql.EngineOpts{
		MaxSamples:               50_000_000,
		Timeout:                  30 * time.Second,
		LookbackDelta:            5 * time.Minute,
		EnableAtModifier:         true,
		EnableNegativeOffset:     true,
		NoStepSubqueryIntervalFn: func(int64) int64 { return 60_000 },
	})
}

// ResultSeries is one series of an instant vector result.
type ResultSeries struct {
	Labels map[string]string
	Value  float64
}

// Instant evaluates expr at ts; scalar results are returned as isScalar.
func Instant(eng *promql.Engine, db *DB, expr string, ts time.Time) (vec []ResultSeries, isScalar bool, err error) {
	q, err := eng.NewInstantQuery(context.Background(), db, nil, expr, ts)
	if err != nil {
		return nil, false, err
	}
	defer q.Close()
	res := q.Exec(context.Background())
	if res.Err != nil {
		return nil, false, res.Err
	}
	switch v := res.Value.(type) {
	case promql.Vector:
		for _, s := range v {
			vec = append(vec, ResultSeries{Labels: s.Metric.Map(), Value: s.F})
		}
		return vec, false, nil
	case promql.Scalar:
		return nil, true, nil
	case promql.Matrix:
		for _, s := range v {
			vec = append(vec, ResultSeries{Labels: s.Metric.Map()})
		}
		return vec, false, nil
	default:
		return nil, false, fmt.Errorf("unexpected result type %T", res.Value)
	}
}

// ---------- HTTP API ----------

type Request struct {
	Path  string
	Query string
	Start time.Time
	End   time.Time
	Step  time.Duration
}

type Server struct {
	*httptest.Server
	DB       *DB
	Now      func() time.Time
	Config   string            // yaml returned by status/config
	Flags    map[string]string // status/flags
	Metadata map[string][]map[string]string
	eng      *promql.Engine
	mu       sync.Mutex
	dbMu     sync.RWMutex
	Log      []Request
	Requests atomic.Int64
}

// SetDB replaces the stored data while the server is running (a metric that appears later).
func (s *Server) SetDB(db *DB) {
	s.dbMu.Lock()
	s.DB = db
	s.dbMu.Unlock()
}

func (s *Server) currentDB() *DB {
	s.dbMu.RLock()
	defer s.dbMu.RUnlock()
	return s.DB
}

func parseTime(s string) time.Time {
	if f, err := strconv.ParseFloat(s, 64); err == nil {
		sec, frac := math.Modf(f)
		return time.Unix(int64(sec), int64(frac*1e9))
	}
	if t, err := time.Parse(time.RFC3339Nano, s); err == nil {
		return t
	}
	return time.Time{}
}

func fmtVal(f float64) string { return strconv.FormatFloat(f, 'f', -1, 64) }

func apiError(w http.ResponseWriter, code int, typ, msg string) {
	w.Header().Set("Content-Type", "application/json")
	w.WriteHeader(code)
	_ = json.NewEncoder(w).Encode(map[string]any{"status": "error", "errorType": typ, "error": msg})
}

// NewServer serves db over /api/v1/{query,query_range,status/config,status/flags,metadata}.
func NewServer(db *DB, now func() time.Time) *Server {
	s := &Server{DB: db, Now: now, eng: NewEngine(),
		Config: "global:\n  scrape_interval: 1m\n  external_labels:\n    cluster: dev\n",
		Flags:  map[string]string{"storage.tsdb.retention.time": "15d"},
	}
	mux := http.NewServeMux()
	record := func(r Request) {
		s.Requests.Add(1)
		s.mu.Lock()
		if len(s.Log) < 200000 {
			s.Log = append(s.Log, r)
		}
		s.mu.Unlock()
	}
	mux.HandleFunc("/api/v1/query", func(w http.ResponseWriter, r *http.Request) {
		_ = r.ParseForm()
		ts := s.Now()
		if t := r.Form.Get("time"); t != "" {
			ts = parseTime(t)
		}
		record(Request{Path: "query", Query: r.Form.Get("query"), Start: ts})
		q, err := s.eng.NewInstantQuery(r.Context(), s.currentDB(), nil, r.Form.Get("query"), ts)
		if err != nil {
			apiError(w, 400, "bad_data", err.Error())
			return
		}
		defer q.Close()
		res := q.Exec(r.Context())
		if res.Err != nil {
			apiError(w, 422, "execution", res.Err.Error())
			return
		}
		w.Header().Set("Content-Type", "application/json")
		stats := map[string]any{"timings": map[string]float64{"evalTotalTime": 0.001}, "samples": map[string]any{"totalQueryableSamples": 1, "peakSamples": 1}}
		switch v := res.Value.(type) {
		case promql.Vector:
			out := []any{}
			for _, smp := range v {
				out = append(out, map[string]any{"metric": smp.Metric.Map(), "value": []any{float64(smp.T) / 1000, fmtVal(smp.F)}})
			}
			_ = json.NewEncoder(w).Encode(map[string]any{"status": "success", "data": map[string]any{"resultType": "vector", "result": out, "stats": stats}})
		case promql.Scalar:
			_ = json.NewEncoder(w).Encode(map[string]any{"status": "success", "data": map[string]any{"resultType": "scalar", "result": []any{float64(v.T) / 1000, fmtVal(v.V)}, "stats": stats}})
		default:
			_ = json.NewEncoder(w).Encode(map[string]any{"status": "success", "data": map[string]any{"resultType": "vector", "result": []any{}, "stats": stats}})
		}
	})
	mux.HandleFunc("/api/v1/query_range", func(w http.ResponseWriter, r *http.Request) {
		_ = r.ParseForm()
		stepF, _ := strconv.ParseFloat(r.Form.Get("step"), 64)
		step := time.Duration(stepF * float64(time.Second))
		start, end := parseTime(r.Form.Get("start")), parseTime(r.Form.Get("end"))
		record(Request{Path: "query_range", Query: r.Form.Get("query"), Start: start, End: end, Step: step})
		if step <= 0 {
			apiError(w, 400, "bad_data", "zero or negative step")
			return
		}
		q, err := s.eng.NewRangeQuery(r.Context(), s.currentDB(), nil, r.Form.Get("query"), start, end, step)
		if err != nil {
			apiError(w, 400, "bad_data", err.Error())
			return
		}
		defer q.Close()
		res := q.Exec(r.Context())
		if res.Err != nil {
			apiError(w, 422, "execution", res.Err.Error())
			return
		}
		mat, _ := res.Matrix()
		out := []any{}
		for _, sr := range mat {
			vals := [][]any{}
			for _, p := range sr.Floats {
				vals = append(vals, []any{float64(p.T) / 1000, fmtVal(p.F)})
			}
			out = append(out, map[string]any{"metric": sr.Metric.Map(), "values": vals})
		}
		w.Header().Set("Content-Type", "application/json")
		_ = json.NewEncoder(w).Encode(map[string]any{"status": "success", "data": map[string]any{"resultType": "matrix", "result": out}})
	})
	mux.HandleFunc("/api/v1/status/config", func(w http.ResponseWriter, _ *http.Request) {
		record(Request{Path: "config"})
		w.Header().Set("Content-Type", "application/json")
		_ = json.NewEncoder(w).Encode(map[string]any{"status": "success", "data": map[string]any{"yaml": s.Config}})
	})
	mux.HandleFunc("/api/v1/status/flags", func(w http.ResponseWriter, _ *http.Request) {
		record(Request{Path: "flags"})
		w.Header().Set("Content-Type", "application/json")
		_ = json.NewEncoder(w).Encode(map[string]any{"status": "success", "data": s.Flags})
	})
	mux.HandleFunc("/api/v1/metadata", func(w http.ResponseWriter, r *http.Request) {
		_ = r.ParseForm()
		record(Request{Path: "metadata", Query: r.Form.Get("metric")})
		w.Header().Set("Content-Type", "application/json")
		data := map[string]any{}
		if m := r.Form.Get("metric"); m != "" {
			if v, ok := s.Metadata[m]; ok {
				data[m] = v
			}
		}
		_ = json.NewEncoder(w).Encode(map[string]any{"status": "success", "data": data})
	})
	s.Server = httptest.NewServer(mux)
	return s
}

// ---------- database generation ----------

// SeriesAt builds a series with samples every step in [from, to] (inclusive), value fixed.
func SeriesAt(lbls map[string]string, from, to time.Time, step time.Duration, v float64) Series {
	s := Series{Labels: lbls}
	for t := from; !t.After(to); t = t.Add(step) {
		s.Samples = append(s.Samples, Sample{Ts: t.UnixMilli(), V: v})
	}
	return s
}
