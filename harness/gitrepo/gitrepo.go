// Package gitrepo builds scratch git repositories with the real git binary.
package gitrepo

import (
	"bytes"
	"fmt"
	"os"
	"os/exec"
	"path/filepath"
	"strings"
)

type Repo struct {
	Dir string
	n   int
}

func env(dir string) []string {
	return []string{
		"PATH=" + os.Getenv("PATH"),
		"HOME=" + dir,
		"GIT_CONFIG_NOSYSTEM=1",
		"GIT_CONFIG_GLOBAL=/dev/null",
		"GIT_AUTHOR_NAME=verif", "GIT_AUTHOR_EMAIL=verif@example.invalid",
		"GIT_COMMITTER_NAME=verif", "GIT_COMMITTER_EMAIL=verif@example.invalid",
		"TZ=UTC", "LC_ALL=C",
	}
}

// New creates an empty repository with branch "main".
func New(dir string) (*Repo, error) {
	if err := os.MkdirAll(dir, 0o755); err != nil {
		return nil, err
	}
	r := &Repo{Dir: dir}
	if _, err := r.Git("init", "-q", "-b", "main", "."); err != nil {
		return nil, err
	}
	_, _ = r.Git("config", "core.autocrlf", "false")
	_, _ = r.Git("config", "diff.renames", "true")
	return r, nil
}

func (r *Repo) Git(args ...string) (string, error) {
	cmd := exec.Command("git", args...)
	cmd.Dir = r.Dir
	cmd.Env = env(r.Dir)
	var out, errb bytes.Buffer
	cmd.Stdout = &out
	cmd.Stderr = &errb
	if err := cmd.Run(); err != nil {
		return out.String(), fmt.Errorf("git %s: %v: %s", strings.Join(args, " "), err, errb.String())
	}
	return out.String(), nil
}

func (r *Repo) Write(path, content string) error {
	p := filepath.Join(r.Dir, path)
	if err := os.MkdirAll(filepath.Dir(p), 0o755); err != nil {
		return err
	}
	return os.WriteFile(p, []byte(content), 0o644)
}

func (r *Repo) Remove(path string) error {
	return os.Remove(filepath.Join(r.Dir, path))
}

func (r *Repo) Rename(from, to string) error {
	p := filepath.Join(r.Dir, to)
	if err := os.MkdirAll(filepath.Dir(p), 0o755); err != nil {
		return err
	}
	return os.Rename(filepath.Join(r.Dir, from), p)
}

// Commit stages everything and commits with a fixed, increasing date. Returns the commit id.
func (r *Repo) Commit(msg string) (string, error) {
	if _, err := r.Git("add", "-A", "."); err != nil {
		return "", err
	}
	r.n++
	date := fmt.Sprintf("2020-01-01T00:%02d:%02dZ", r.n/60, r.n%60)
	cmd := exec.Command("git", "commit", "-q", "--allow-empty", "-m", msg)
	cmd.Dir = r.Dir
	cmd.Env = append(env(r.Dir), "GIT_AUTHOR_DATE="+date, "GIT_COMMITTER_DATE="+date)
	var errb bytes.Buffer
	cmd.Stderr = &errb
	if err := cmd.Run(); err != nil {
		return "", fmt.Errorf("git commit: %v: %s", err, errb.String())
	}
	out, err := r.Git("rev-parse", "HEAD")
	return strings.TrimSpace(out), err
}

// Env for running pint inside the repository.
func (r *Repo) Env() []string {
	return env(r.Dir)[1:]
}
