// Package core holds the plumbing shared by all property monitors: the run
// context, verdict accounting (held / violated / inconclusive), known-finding
// matching, replay directories and the evidence file.
package core

import (
	"bufio"
	"encoding/json"
	"fmt"
	"hash/fnv"
	"math/rand"
	"os"
	"path/filepath"
	"sort"
	"strings"
	"sync"
	"time"
)

// Exit codes of the harness (see DESIGN.md §7).
const (
	ExitHeld         = 0
	ExitViolation    = 1
	ExitBuildFailed  = 2
	ExitInconclusive = 3
)

type Ctx struct {
	ID       string
	Tier     string // quick | thorough
	Seed     int64
	VerifDir string
	Repo     string
	Pint     string // verif-tagged pint binary
	PintRace string // verif-tagged pint binary built with -race (may be "")
	Scratch  string // per-run scratch dir outside /repo and /verif
	Replay   string // when set: replay this case directory instead of a run
	start    time.Time
	findings []Finding
}

type Finding struct {
	Status   string // finding | fixed
	Property string
	Sig      string
	What     string
}

func NewCtx(id, tier string, seed int64) *Ctx {
	c := &Ctx{
		ID:       id,
		Tier:     tier,
		Seed:     seed,
		VerifDir: envOr("VERIF_DIR", "/verif"),
		Repo:     envOr("VERIF_REPO", "/repo"),
		start:    time.Now(),
	}
	build := envOr("VERIF_BUILD", filepath.Join(c.VerifDir, ".build"))
	c.Pint = envOr("VERIF_PINT", filepath.Join(build, "pint"))
	c.PintRace = os.Getenv("VERIF_PINT_RACE")
	if c.PintRace == "" {
		if _, err := os.Stat(filepath.Join(build, "pint-race")); err == nil {
			c.PintRace = filepath.Join(build, "pint-race")
		}
	}
	base := envOr("VERIF_SCRATCH", "")
	if base == "" {
		base = os.TempDir()
	}
	dir, err := os.MkdirTemp(base, "verif-"+id+"-")
	if err != nil {
		panic(err)
	}
	c.Scratch = dir
	c.findings = loadFindings(filepath.Join(c.VerifDir, "KNOWN_FINDINGS.txt"))
	return c
}

func (c *Ctx) Cleanup() {
	if c.Scratch != "" {
		_ = os.RemoveAll(c.Scratch)
	}
}

func (c *Ctx) Quick() bool { return c.Tier != "thorough" }

// N picks the per-tier case count.
func (c *Ctx) N(quick, thorough int) int {
	if c.Quick() {
		return quick
	}
	return thorough
}

func envOr(k, d string) string {
	if v := os.Getenv(k); v != "" {
		return v
	}
	return d
}

// Rand returns a PRNG that depends only on (seed, property id, stream, index).
func (c *Ctx) Rand(stream string, i int) *rand.Rand {
	h := fnv.New64a()
	fmt.Fprintf(h, "%d|%s|%s|%d", c.Seed, c.ID, stream, i)
	return rand.New(rand.NewSource(int64(h.Sum64())))
}

// KNOWN_FINDINGS.txt lines:
//
//	finding: property=C06 sig=<signature> <what fails>
//	fixed: property=C01 <commit> <what failed>
func loadFindings(path string) (out []Finding) {
	f, err := os.Open(path)
	if err != nil {
		return nil
	}
	defer f.Close()
	sc := bufio.NewScanner(f)
	sc.Buffer(make([]byte, 1<<20), 1<<20)
	for sc.Scan() {
		line := strings.TrimSpace(sc.Text())
		if line == "" || strings.HasPrefix(line, "#") {
			continue
		}
		var fd Finding
		switch {
		case strings.HasPrefix(line, "finding:"):
			fd.Status = "finding"
			line = strings.TrimSpace(strings.TrimPrefix(line, "finding:"))
		case strings.HasPrefix(line, "fixed:"):
			fd.Status = "fixed"
			line = strings.TrimSpace(strings.TrimPrefix(line, "fixed:"))
		default:
			continue
		}
		for _, tok := range strings.Fields(line) {
			if strings.HasPrefix(tok, "property=") && fd.Property == "" {
				fd.Property = strings.TrimPrefix(tok, "property=")
				line = strings.TrimSpace(strings.Replace(line, tok, "", 1))
			} else if strings.HasPrefix(tok, "sig=") && fd.Sig == "" {
				fd.Sig = strings.TrimPrefix(tok, "sig=")
				line = strings.TrimSpace(strings.Replace(line, tok, "", 1))
			}
		}
		fd.What = line
		out = append(out, fd)
	}
	return out
}

type Violation struct {
	Sig   string            `json:"signature"`
	What  string            `json:"what"`
	Case  any               `json:"case,omitempty"`
	Files map[string][]byte `json:"-"`
}

// Run accumulates what the monitors observed. Safe for concurrent use.
type Run struct {
	C  *Ctx
	mu sync.Mutex

	evaluations  int64
	nontrivial   map[string]struct{}
	samples      []any
	maxSamples   int
	violations   []Violation // unlisted
	violSigs     map[string]int
	knownHits    map[string]int
	inconclusive int64
	inconcNotes  []string
	extra        map[string]any
	counters     map[string]int64
	sets         map[string]map[string]struct{}
	replayDirs   []string
	assumptions  []string
}

func NewRun(c *Ctx) *Run {
	// stale replay directories of the same (tier, seed) would be mistaken for new ones
	if c.Replay == "" {
		old, _ := filepath.Glob(filepath.Join(c.VerifDir, "replays", c.ID, fmt.Sprintf("%s-s%d-*", c.Tier, c.Seed)))
		for _, d := range old {
			_ = os.RemoveAll(d)
		}
	}
	return &Run{
		C:          c,
		nontrivial: map[string]struct{}{},
		maxSamples: 8,
		violSigs:   map[string]int{},
		knownHits:  map[string]int{},
		extra:      map[string]any{},
		counters:   map[string]int64{},
		sets:       map[string]map[string]struct{}{},
	}
}

func (r *Run) Eval(n int) {
	r.mu.Lock()
	r.evaluations += int64(n)
	r.mu.Unlock()
}

// Nontrivial records one distinct non-trivial case (by key).
func (r *Run) Nontrivial(key string) {
	r.mu.Lock()
	r.nontrivial[key] = struct{}{}
	r.mu.Unlock()
}

func (r *Run) Sample(v any) {
	r.mu.Lock()
	if len(r.samples) < r.maxSamples {
		r.samples = append(r.samples, v)
	}
	r.mu.Unlock()
}

func (r *Run) Count(name string, n int64) {
	r.mu.Lock()
	r.counters[name] += n
	r.mu.Unlock()
}

func (r *Run) Max(name string, v int64) {
	r.mu.Lock()
	if v > r.counters[name] {
		r.counters[name] = v
	}
	r.mu.Unlock()
}

func (r *Run) Counter(name string) int64 {
	r.mu.Lock()
	defer r.mu.Unlock()
	return r.counters[name]
}

// Distinct adds key to the named set; the set's size is reported in the evidence.
func (r *Run) Distinct(set, key string) {
	r.mu.Lock()
	m := r.sets[set]
	if m == nil {
		m = map[string]struct{}{}
		r.sets[set] = m
	}
	m[key] = struct{}{}
	r.mu.Unlock()
}

func (r *Run) DistinctCount(set string) int {
	r.mu.Lock()
	defer r.mu.Unlock()
	return len(r.sets[set])
}

func (r *Run) DistinctKeys(set string) []string {
	r.mu.Lock()
	defer r.mu.Unlock()
	out := make([]string, 0, len(r.sets[set]))
	for k := range r.sets[set] {
		out = append(out, k)
	}
	sort.Strings(out)
	return out
}

func (r *Run) Extra(k string, v any) {
	r.mu.Lock()
	r.extra[k] = v
	r.mu.Unlock()
}

func (r *Run) Assume(s string) {
	r.mu.Lock()
	r.assumptions = append(r.assumptions, s)
	r.mu.Unlock()
}

func (r *Run) Inconclusive(note string) {
	r.mu.Lock()
	r.inconclusive++
	if len(r.inconcNotes) < 10 {
		r.inconcNotes = append(r.inconcNotes, note)
	}
	r.mu.Unlock()
}

func (r *Run) known(sig string) (Finding, bool) {
	for _, f := range r.C.findings {
		if f.Status == "finding" && f.Property == r.C.ID && f.Sig == sig {
			return f, true
		}
	}
	return Finding{}, false
}

// Violate records a refuting observation. If its signature is a listed known
// finding it is only counted; otherwise a replay directory is written (first
// few per signature) and the run will exit 1.
func (r *Run) Violate(v Violation) {
	// signatures are single tokens (they are matched against `sig=` fields of KNOWN_FINDINGS.txt)
	v.Sig = strings.Join(strings.Fields(v.Sig), "_")
	r.mu.Lock()
	defer r.mu.Unlock()
	if _, ok := r.known(v.Sig); ok {
		r.knownHits[v.Sig]++
		return
	}
	r.violSigs[v.Sig]++
	if r.violSigs[v.Sig] > 3 || len(r.violations) >= 40 {
		return
	}
	r.violations = append(r.violations, v)
	dir := filepath.Join(r.C.VerifDir, "replays", r.C.ID, fmt.Sprintf("%s-s%d-%03d", r.C.Tier, r.C.Seed, len(r.violations)))
	_ = os.RemoveAll(dir)
	_ = os.MkdirAll(dir, 0o755)
	meta := map[string]any{
		"property":  r.C.ID,
		"tier":      r.C.Tier,
		"seed":      r.C.Seed,
		"signature": v.Sig,
		"what":      v.What,
		"case":      v.Case,
	}
	b, _ := json.MarshalIndent(meta, "", " ")
	_ = os.WriteFile(filepath.Join(dir, "case.json"), b, 0o644)
	for name, data := range v.Files {
		p := filepath.Join(dir, name)
		_ = os.MkdirAll(filepath.Dir(p), 0o755)
		_ = os.WriteFile(p, data, 0o644)
	}
	r.replayDirs = append(r.replayDirs, dir)
}

func (r *Run) ViolationCount() int {
	r.mu.Lock()
	defer r.mu.Unlock()
	n := 0
	for _, c := range r.violSigs {
		n += c
	}
	return n
}

type Floors struct {
	MinEvaluations int64
	MinNontrivial  int
	// MaxInconclusiveFrac: above this share of inconclusive cases the whole run is inconclusive.
	MaxInconclusiveFrac float64
}

// Finish prints the verdict lines, writes the evidence file and returns the exit code.
func (r *Run) Finish(level, rule string, fl Floors) int {
	r.mu.Lock()
	defer r.mu.Unlock()
	c := r.C
	wall := time.Since(c.start).Seconds()

	// KNOWN-FINDING lines: one per listed finding of this property.
	knownList := []map[string]any{}
	for _, f := range c.findings {
		if f.Property != c.ID || f.Status != "finding" {
			continue
		}
		fmt.Printf("KNOWN-FINDING: property=%s sig=%s %s (observed %d times in this run)\n", c.ID, f.Sig, f.What, r.knownHits[f.Sig])
		knownList = append(knownList, map[string]any{"sig": f.Sig, "what": f.What, "observed": r.knownHits[f.Sig]})
	}

	nViol := 0
	for _, n := range r.violSigs {
		nViol += n
	}
	for i, v := range r.violations {
		fmt.Printf("VIOLATION property=%s replay=%s\n", c.ID, r.replayDirs[i])
		fmt.Printf("  signature=%s what=%s\n", v.Sig, trunc(v.What, 600))
	}
	if nViol > len(r.violations) {
		fmt.Printf("  (%d further violations with already reported signatures not written)\n", nViol-len(r.violations))
	}

	cov := map[string]any{
		"evaluations":         r.evaluations,
		"distinct_nontrivial": len(r.nontrivial),
		"rule":                rule,
		"samples":             r.samples,
		"inconclusive_cases":  r.inconclusive,
		"known_findings":      knownList,
	}
	if len(r.inconcNotes) > 0 {
		cov["inconclusive_notes"] = r.inconcNotes
	}
	for k, v := range r.counters {
		cov[k] = v
	}
	for k, m := range r.sets {
		cov["distinct_"+k] = len(m)
		if len(m) <= 64 {
			keys := make([]string, 0, len(m))
			for kk := range m {
				keys = append(keys, kk)
			}
			sort.Strings(keys)
			cov[k+"_seen"] = keys
		}
	}
	for k, v := range r.extra {
		cov[k] = v
	}
	if len(r.samples) == 0 {
		cov["samples"] = []any{"(no case was run)"}
	}
	violSigs := map[string]int{}
	for k, v := range r.violSigs {
		violSigs[k] = v
	}
	if len(violSigs) > 0 {
		cov["violation_signatures"] = violSigs
	}
	ev := map[string]any{
		"property_id": c.ID,
		"tier":        c.Tier,
		"seed":        c.Seed,
		"level":       level,
		"coverage":    cov,
		"assumptions": r.assumptions,
		"wall_s":      wall,
		"violations":  nViol,
	}
	if r.assumptions == nil {
		ev["assumptions"] = []string{}
	}
	b, err := json.MarshalIndent(ev, "", " ")
	if err == nil {
		evDir := filepath.Join(c.VerifDir, "evidence")
		_ = os.MkdirAll(evDir, 0o755)
		tmp := filepath.Join(evDir, "."+c.ID+".json.tmp")
		if werr := os.WriteFile(tmp, append(b, '\n'), 0o644); werr == nil {
			_ = os.Rename(tmp, filepath.Join(evDir, c.ID+".json"))
		}
	} else {
		fmt.Printf("evidence marshal error: %v\n", err)
	}

	fmt.Printf("SUMMARY property=%s tier=%s seed=%d evaluations=%d distinct_nontrivial=%d violations=%d known_hits=%d inconclusive=%d wall=%.1fs\n",
		c.ID, c.Tier, c.Seed, r.evaluations, len(r.nontrivial), nViol, sumMap(r.knownHits), r.inconclusive, wall)

	if nViol > 0 {
		return ExitViolation
	}
	if r.evaluations < fl.MinEvaluations || len(r.nontrivial) < fl.MinNontrivial || len(r.nontrivial) < 2 {
		fmt.Printf("INCONCLUSIVE property=%s: monitors observed too little (evaluations=%d floor=%d, nontrivial=%d floor=%d)\n",
			c.ID, r.evaluations, fl.MinEvaluations, len(r.nontrivial), fl.MinNontrivial)
		return ExitInconclusive
	}
	frac := fl.MaxInconclusiveFrac
	if frac == 0 {
		frac = 0.05
	}
	if r.evaluations > 0 && float64(r.inconclusive)/float64(r.evaluations) > frac {
		fmt.Printf("INCONCLUSIVE property=%s: %d of %d cases inconclusive\n", c.ID, r.inconclusive, r.evaluations)
		return ExitInconclusive
	}
	fmt.Printf("HELD property=%s on everything explored\n", c.ID)
	return ExitHeld
}

func sumMap(m map[string]int) (n int) {
	for _, v := range m {
		n += v
	}
	return n
}

func trunc(s string, n int) string {
	s = strings.ReplaceAll(s, "\n", "\\n")
	if len(s) > n {
		return s[:n] + "..."
	}
	return s
}

func Trunc(s string, n int) string { return trunc(s, n) }

// Parallel runs f(i) for i in [0,n) on `workers` goroutines. A panic in f is
// turned into a call of onPanic (if non-nil) and does not stop the others.
func Parallel(n, workers int, f func(i int)) {
	if workers < 1 {
		workers = 1
	}
	var wg sync.WaitGroup
	ch := make(chan int, workers*2)
	for w := 0; w < workers; w++ {
		wg.Add(1)
		go func() {
			defer wg.Done()
			for i := range ch {
				f(i)
			}
		}()
	}
	for i := 0; i < n; i++ {
		ch <- i
	}
	close(ch)
	wg.Wait()
}

// LoadCase reads case.json of a replay directory into v (the "case" member).
func LoadCase(dir string, v any) error {
	b, err := os.ReadFile(filepath.Join(dir, "case.json"))
	if err != nil {
		return err
	}
	var meta struct {
		Case json.RawMessage `json:"case"`
	}
	if err := json.Unmarshal(b, &meta); err != nil {
		return err
	}
	return json.Unmarshal(meta.Case, v)
}
