package core

import (
	"bufio"
	"bytes"
	"context"
	"encoding/json"
	"errors"
	"os"
	"os/exec"
	"regexp"
	"strings"
	"syscall"
	"time"
)

type ProcResult struct {
	Exit     int
	Stdout   string
	Stderr   string
	TimedOut bool
	Signal   string
	Crash    string // "", "panic", "fatal", "race", "signal"
	CrashSig string // innermost pint frame or first line of the crash
}

type ProcOpts struct {
	Dir     string
	Env     []string // extra KEY=VALUE
	Timeout time.Duration
	Stdin   string
}

// RunProc runs a child under a watchdog. A timeout sends SIGQUIT first (so a Go
// child dumps its goroutines to stderr) and SIGKILL two seconds later.
func RunProc(bin string, args []string, o ProcOpts) ProcResult {
	if o.Timeout == 0 {
		o.Timeout = 60 * time.Second
	}
	ctx, cancel := context.WithTimeout(context.Background(), o.Timeout+3*time.Second)
	defer cancel()
	cmd := exec.CommandContext(ctx, bin, args...)
	cmd.Dir = o.Dir
	env := []string{
		"PATH=" + os.Getenv("PATH"),
		"HOME=" + os.Getenv("HOME"),
		"TZ=UTC",
		"LC_ALL=C",
		"NO_COLOR=",
	}
	env = append(env, o.Env...)
	cmd.Env = env
	var so, se bytes.Buffer
	cmd.Stdout = &so
	cmd.Stderr = &se
	if o.Stdin != "" {
		cmd.Stdin = strings.NewReader(o.Stdin)
	}
	res := ProcResult{}
	if err := cmd.Start(); err != nil {
		res.Exit = -1
		res.Stderr = err.Error()
		res.Crash = "start"
		return res
	}
	done := make(chan error, 1)
	go func() { done <- cmd.Wait() }()
	var err error
	select {
	case err = <-done:
	case <-time.After(o.Timeout):
		res.TimedOut = true
		_ = cmd.Process.Signal(syscall.SIGQUIT)
		select {
		case err = <-done:
		case <-time.After(2 * time.Second):
			_ = cmd.Process.Kill()
			err = <-done
		}
	}
	res.Stdout = so.String()
	res.Stderr = se.String()
	if err != nil {
		var ee *exec.ExitError
		if errors.As(err, &ee) {
			res.Exit = ee.ExitCode()
			if ws, ok := ee.Sys().(syscall.WaitStatus); ok && ws.Signaled() {
				res.Signal = ws.Signal().String()
			}
		} else {
			res.Exit = -1
		}
	}
	if !res.TimedOut {
		res.Crash, res.CrashSig = ClassifyCrash(res.Stderr, res.Signal)
	}
	return res
}

var pintFrameRe = regexp.MustCompile(`(?m)^(github\.com/cloudflare/pint/[^\s(]+)\(`)

// ClassifyCrash looks for Go runtime crash markers in a child's stderr.
func ClassifyCrash(stderr, signal string) (kind, sig string) {
	switch {
	case strings.Contains(stderr, "WARNING: DATA RACE"):
		kind = "race"
	case strings.Contains(stderr, "\npanic: ") || strings.HasPrefix(stderr, "panic: "):
		kind = "panic"
	case strings.Contains(stderr, "fatal error: "):
		kind = "fatal"
	case signal != "":
		kind = "signal"
	default:
		return "", ""
	}
	// innermost pint frame after the panic line
	idx := strings.Index(stderr, "panic: ")
	if idx < 0 {
		idx = strings.Index(stderr, "fatal error: ")
	}
	if idx < 0 {
		idx = 0
	}
	tail := stderr[idx:]
	if m := pintFrameRe.FindStringSubmatch(tail); m != nil {
		f := m[1]
		f = strings.TrimPrefix(f, "github.com/cloudflare/pint/")
		return kind, f
	}
	line := tail
	if i := strings.IndexByte(line, '\n'); i >= 0 {
		line = line[:i]
	}
	return kind, trunc(line, 80)
}

// ---- H1 dump reader ----

type PosRange struct {
	Line        int `json:"Line"`
	FirstColumn int `json:"FirstColumn"`
	LastColumn  int `json:"LastColumn"`
}

type DNode struct {
	Value string     `json:"value"`
	Pos   []PosRange `json:"pos"`
}

type DKV struct {
	Key   DNode `json:"key"`
	Value DNode `json:"value"`
}

type DComment struct {
	Type   int    `json:"type"`
	Value  string `json:"value"`
	Offset int    `json:"offset"`
}

type DRule struct {
	Type          string     `json:"type"`
	Name          string     `json:"name"`
	First         int        `json:"first"`
	Last          int        `json:"last"`
	ErrLine       int        `json:"err_line"`
	Err           string     `json:"err"`
	ErrDetails    string     `json:"err_details"`
	NameNode      *DNode     `json:"name_node"`
	Expr          *DNode     `json:"expr"`
	SyntaxError   string     `json:"syntax_error"`
	For           *DNode     `json:"for"`
	KeepFiringFor *DNode     `json:"keep_firing_for"`
	LabelsKey     *DNode     `json:"labels_key"`
	Labels        []DKV      `json:"labels"`
	AnnotationKey *DNode     `json:"annotations_key"`
	Annotations   []DKV      `json:"annotations"`
	Comments      []DComment `json:"comments"`
}

type DEntry struct {
	Index          int      `json:"index"`
	Path           string   `json:"path"`
	Target         string   `json:"target"`
	State          string   `json:"state"`
	Owner          string   `json:"owner"`
	PathError      string   `json:"path_error"`
	ModifiedLines  []int    `json:"modified_lines"`
	DisabledChecks []string `json:"disabled_checks"`
	GroupName      string   `json:"group_name"`
	GroupLabels    []DKV    `json:"group_labels"`
	TotalLines     int      `json:"total_lines"`
	Rule           DRule    `json:"rule"`
}

type DDiag struct {
	Message string     `json:"message"`
	Pos     []PosRange `json:"pos"`
	First   int        `json:"first"`
	Last    int        `json:"last"`
}

type DReport struct {
	Index         int     `json:"index"`
	Path          string  `json:"path"`
	Target        string  `json:"target"`
	Owner         string  `json:"owner"`
	ModifiedLines []int   `json:"modified_lines"`
	RuleName      string  `json:"rule_name"`
	RuleType      string  `json:"rule_type"`
	RuleFirst     int     `json:"rule_first"`
	RuleLast      int     `json:"rule_last"`
	Reporter      string  `json:"reporter"`
	Summary       string  `json:"summary"`
	Details       string  `json:"details"`
	Severity      string  `json:"severity"`
	First         int     `json:"first"`
	Last          int     `json:"last"`
	Anchor        int     `json:"anchor"`
	Diagnostics   []DDiag `json:"diagnostics"`
	IsDuplicate   bool    `json:"is_duplicate"`
	Duplicates    int     `json:"duplicates"`
}

type DDispatch struct {
	Path     string `json:"path"`
	State    string `json:"state"`
	Name     string `json:"name"`
	First    int    `json:"first"`
	Last     int    `json:"last"`
	Check    string `json:"check"`
	Reporter string `json:"reporter"`
	Online   bool   `json:"online"`
}

type Dump struct {
	Entries     []DEntry
	Dispatch    []DDispatch
	Arrivals    []DReport
	Reports     []DReport
	SummaryDone bool
}

func ReadDump(path string) (*Dump, error) {
	f, err := os.Open(path)
	if err != nil {
		return nil, err
	}
	defer f.Close()
	d := &Dump{}
	sc := bufio.NewScanner(f)
	sc.Buffer(make([]byte, 1<<20), 64<<20)
	for sc.Scan() {
		line := sc.Bytes()
		var k struct {
			Kind string `json:"kind"`
		}
		if err := json.Unmarshal(line, &k); err != nil {
			return d, err
		}
		switch k.Kind {
		case "entry":
			var e DEntry
			if err := json.Unmarshal(line, &e); err != nil {
				return d, err
			}
			d.Entries = append(d.Entries, e)
		case "dispatch":
			var e DDispatch
			if err := json.Unmarshal(line, &e); err != nil {
				return d, err
			}
			d.Dispatch = append(d.Dispatch, e)
		case "arrival":
			var e DReport
			if err := json.Unmarshal(line, &e); err != nil {
				return d, err
			}
			d.Arrivals = append(d.Arrivals, e)
		case "report":
			var e DReport
			if err := json.Unmarshal(line, &e); err != nil {
				return d, err
			}
			d.Reports = append(d.Reports, e)
		case "summary_done":
			d.SummaryDone = true
		}
	}
	return d, sc.Err()
}

// JSONReport mirrors pint's --json output.
type JSONReport struct {
	Path     string `json:"path"`
	Owner    string `json:"owner"`
	Reporter string `json:"reporter"`
	Problem  string `json:"problem"`
	Details  string `json:"details"`
	Severity string `json:"severity"`
	Lines    []int  `json:"lines"`
}

func ReadJSONReports(path string) ([]JSONReport, error) {
	b, err := os.ReadFile(path)
	if err != nil {
		return nil, err
	}
	var out []JSONReport
	if err := json.Unmarshal(b, &out); err != nil {
		return nil, err
	}
	return out, nil
}

func SeverityRank(s string) int {
	switch s {
	case "Information":
		return 0
	case "Warning":
		return 1
	case "Bug":
		return 2
	case "Fatal":
		return 3
	}
	return -1
}
