package gen

import (
	"os"
	"path/filepath"
	"sort"
	"strings"
)

type CorpusFile struct {
	Test string // txtar file name
	Name string // member name
	Data string
}

// ReadCorpus extracts the members of every txtar test script under <repo>/cmd/pint/tests.
// filter decides by member name (e.g. YAML rule files, HCL configs).
func ReadCorpus(repo string, filter func(name string) bool) []CorpusFile {
	files, _ := filepath.Glob(filepath.Join(repo, "cmd/pint/tests/*.txt"))
	sort.Strings(files)
	var out []CorpusFile
	for _, f := range files {
		b, err := os.ReadFile(f)
		if err != nil {
			continue
		}
		var name string
		var cur []string
		flush := func() {
			if name != "" && filter(name) {
				out = append(out, CorpusFile{Test: filepath.Base(f), Name: name, Data: strings.Join(cur, "\n") + "\n"})
			}
			cur = nil
		}
		for _, line := range strings.Split(strings.TrimSuffix(string(b), "\n"), "\n") {
			if strings.HasPrefix(line, "-- ") && strings.HasSuffix(line, " --") {
				flush()
				name = strings.TrimSpace(line[3 : len(line)-3])
				continue
			}
			if name != "" {
				cur = append(cur, line)
			}
		}
		flush()
	}
	return out
}

func IsYAMLName(n string) bool {
	return strings.HasSuffix(n, ".yml") || strings.HasSuffix(n, ".yaml")
}

func IsHCLName(n string) bool { return strings.HasSuffix(n, ".hcl") }
