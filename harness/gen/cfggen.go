package gen

import (
	"fmt"
	"math/rand"
	"strings"
)

// Generator of pint configuration files (HCL) over every block and option of
// docs/configuration.md with valid, boundary, invalid and templated values.

type CfgOpts struct {
	PromURIs   []string // when non-empty prometheus blocks may be generated with these URIs
	ValidOnly  bool     // only values expected to be accepted
	MaxRules   int
	WithChecks bool
}

type Cfg struct {
	Text     string
	Features []string // (block kind, value class) pairs used
	HasProm  bool
}

type cfgGen struct {
	r     *rand.Rand
	o     CfgOpts
	feats map[string]bool
}

func (g *cfgGen) feat(block, class string) { g.feats[block+":"+class] = true }

func hclStr(s string) string {
	var b strings.Builder
	b.WriteByte('"')
	for i := 0; i < len(s); i++ {
		c := s[i]
		switch {
		case c == '"':
			b.WriteString(`\"`)
		case c == '\\':
			b.WriteString(`\\`)
		case c == '\n':
			b.WriteString(`\n`)
		case c == '$' && i+1 < len(s) && s[i+1] == '{':
			b.WriteString("$$")
		case c == '%' && i+1 < len(s) && s[i+1] == '{':
			b.WriteString("%%")
		default:
			b.WriteByte(c)
		}
	}
	b.WriteByte('"')
	return b.String()
}

func hclList(xs []string) string {
	q := make([]string, len(xs))
	for i, x := range xs {
		q[i] = hclStr(x)
	}
	return "[" + strings.Join(q, ", ") + "]"
}

type valClass struct {
	class string
	vals  []string
}

var regexClasses = []valClass{
	{"plain", []string{"foo", "foo.*", ".+", "(a|b)", "[a-z]+", "severity", "team", "summary", "Foo.*", ".*:.*", "^abc$", "a|b"}},
	{"empty", []string{""}},
	{"invalid", []string{"(", "[", "a{2,1}", "*", "\\", "(?P<x", "a**", "\\Q", "(?z)"}},
	// valid or not depending on what the pattern is wrapped in before it is compiled (^p$ vs ^(?:p)$ vs p alone)
	{"wrapper-sensitive", []string{"foo\\", "severity\\", "a|b\\", ".*\\", "\\\\\\", "a)|(b", ")", "x)(y", "(?i", "\\E"}},
	{"templated", []string{"{{ $alert }}.*", "{{ $labels.team }}", "{{ $labels.severity }}-.+", "{{ $annotations.summary }}", "{{ $record }}:.+", "{{ $for }}", "{{ $alert }}", "({{ $alert }})", "{{ .Alert }}x", "{{ $labels.nosuch }}.*", "{{ .Expr }}"}},
	{"templated-broken", []string{"{{ $alert", "{{ nosuch }}", "{{ .Nope }}", "{{ $undefined }}", "{{ end }}", "{{ $labels.a.b.c }}", "{{ index $labels 1 }}", "{{ template \"x\" }}", "{{ printf \"%d\" .Alert }}", "{{ .Labels.x.y }}", "{{ len .For.X }}"}},
	{"meta", []string{"{{ $alert }}(", "[{{ $alert }}", "{{ $labels.team }}*", "\\{{ $alert }}", "{{ $alert }}{2,1}", "(?P<{{ $alert }}>x)", "{{ $labels.team }}{{ $alert }}"}},
}

var durClasses = []valClass{
	{"valid", []string{"5m", "1h", "30s", "1d", "2w", "1m30s", "100ms"}},
	{"zero", []string{"0s", "0", "0m"}},
	{"empty", []string{""}},
	{"invalid", []string{"abc", "-5m", "5", "1.5h", "5 m", "m", "1y1y1y1y1y1y1y1y1y1y1y1y1y1y1y1y1y1y1y1y1y1y1y1y1y1y1y1y1y1y1y1y1y1y1y1y1y1y1y1y1y1y1y1y1y1y1y1y1y1y1y1y1y1y1y1y1y1y1y1y1y1y1y1y1y1y1y1y1y1y1y1y1y1y1y1y1y1y1y1y1y1y1y1y1y1y1y1y1y1y1y1y1y1y1y1y1y1y1y1y1y1y1y1y1y1y"}},
	{"huge", []string{"100y", "9999w", "290y"}},
}

var sevClasses = []valClass{
	{"valid", []string{"info", "warning", "bug", "fatal"}},
	{"empty", []string{""}},
	{"invalid", []string{"Bug", "critical", "WARNING", " info", "0", "error"}},
}

func (g *cfgGen) pickClass(cs []valClass, block string) string {
	var c valClass
	if g.o.ValidOnly {
		c = cs[0]
	} else {
		// weight towards accepted values so that most configs load
		k := g.r.Intn(10)
		switch {
		case k < 5:
			c = cs[0]
		default:
			c = cs[g.r.Intn(len(cs))]
		}
	}
	g.feat(block, c.class)
	return c.vals[g.r.Intn(len(c.vals))]
}

func (g *cfgGen) regex(block string) string { return g.pickClass(regexClasses, block) }
func (g *cfgGen) dur(block string) string   { return g.pickClass(durClasses, block) }
func (g *cfgGen) sev(block string) string   { return g.pickClass(sevClasses, block) }

func (g *cfgGen) intval(block string) int {
	if g.o.ValidOnly {
		return g.r.Intn(100)
	}
	v := []int{0, 1, 5, 100, -1, -100, 1 << 40}[g.r.Intn(7)]
	switch {
	case v < 0:
		g.feat(block, "int-negative")
	case v == 0:
		g.feat(block, "int-zero")
	default:
		g.feat(block, "int-positive")
	}
	return v
}

func (g *cfgGen) maybe(p int) bool { return g.r.Intn(p) == 0 }

func (g *cfgGen) optStr(b *strings.Builder, indent, key, val string) {
	fmt.Fprintf(b, "%s%s = %s\n", indent, key, hclStr(val))
}

func (g *cfgGen) matchBlock(kind string) string {
	var b strings.Builder
	b.WriteString("  " + kind + " {\n")
	n := 0
	if g.maybe(3) {
		g.optStr(&b, "    ", "path", g.regex(kind+".path"))
		n++
	}
	if g.maybe(3) {
		g.optStr(&b, "    ", "name", g.regex(kind+".name"))
		n++
	}
	if g.maybe(4) {
		v := "alerting"
		if g.maybe(2) {
			v = "recording"
		}
		if !g.o.ValidOnly && g.maybe(6) {
			v = "invalid"
		}
		g.optStr(&b, "    ", "kind", v)
		n++
	}
	if g.maybe(4) {
		fmt.Fprintf(&b, "    label %s {\n      value = %s\n    }\n", hclStr(g.regex(kind+".label.key")), hclStr(g.regex(kind+".label.value")))
		n++
	}
	if g.maybe(5) {
		fmt.Fprintf(&b, "    annotation %s {\n      value = %s\n    }\n", hclStr(g.regex(kind+".annotation.key")), hclStr(g.regex(kind+".annotation.value")))
		n++
	}
	if g.maybe(5) {
		g.optStr(&b, "    ", "command", []string{"lint", "ci", "watch", "bogus"}[g.r.Intn(4)])
		n++
	}
	if g.maybe(4) {
		op := []string{"", "> ", ">= ", "< ", "<= ", "= ", "!= ", "~ ", ">"}[g.r.Intn(9)]
		g.optStr(&b, "    ", "for", op+g.dur(kind+".for"))
		n++
	}
	if g.maybe(4) {
		op := []string{"", "> ", ">= ", "< ", "<= ", "= ", "!= ", "~ ", ">"}[g.r.Intn(9)]
		g.optStr(&b, "    ", "keep_firing_for", op+g.dur(kind+".keep_firing_for"))
		n++
	}
	if g.maybe(5) {
		states := []string{"any", "added", "modified", "renamed", "removed", "unmodified"}
		if !g.o.ValidOnly && g.maybe(6) {
			states = append(states, "bogus")
		}
		k := 1 + g.r.Intn(2)
		var ss []string
		for i := 0; i < k; i++ {
			ss = append(ss, states[g.r.Intn(len(states))])
		}
		fmt.Fprintf(&b, "    state = %s\n", hclList(ss))
		n++
	}
	if n == 0 && kind == "ignore" {
		g.optStr(&b, "    ", "kind", "recording")
	}
	b.WriteString("  }\n")
	return b.String()
}

var checkNames = []string{"alerts/absent", "alerts/annotation", "alerts/count", "alerts/external_labels", "alerts/for", "alerts/template", "labels/conflict", "promql/aggregate", "alerts/comparison", "promql/impossible", "promql/fragile", "promql/range_query", "promql/rate", "promql/regexp", "promql/syntax", "promql/vector_matching", "query/cost", "promql/counter", "promql/series", "rule/dependency", "rule/duplicate", "rule/for", "rule/name", "rule/label", "rule/link", "rule/reject", "rule/report"}

func (g *cfgGen) checkList() []string {
	n := 1 + g.r.Intn(3)
	var out []string
	for i := 0; i < n; i++ {
		out = append(out, checkNames[g.r.Intn(len(checkNames))])
	}
	if !g.o.ValidOnly && g.maybe(8) {
		out = append(out, "bogus/check")
	}
	return out
}

func (g *cfgGen) ruleBlock() string {
	var b strings.Builder
	b.WriteString("rule {\n")
	for i := g.r.Intn(3); i > 0; i-- {
		b.WriteString(g.matchBlock("match"))
	}
	for i := g.r.Intn(2); i > 0; i-- {
		b.WriteString(g.matchBlock("ignore"))
	}
	if g.maybe(8) {
		fmt.Fprintf(&b, "  enable = %s\n", hclList(g.checkList()))
	}
	if g.maybe(8) {
		fmt.Fprintf(&b, "  disable = %s\n", hclList(g.checkList()))
	}
	if g.maybe(6) {
		b.WriteString("  locked = true\n")
	}
	nblocks := 1 + g.r.Intn(3)
	for i := 0; i < nblocks; i++ {
		switch g.r.Intn(13) {
		case 0:
			fmt.Fprintf(&b, "  aggregate %s {\n", hclStr(g.regex("aggregate.name")))
			if g.maybe(2) {
				fmt.Fprintf(&b, "    keep = %s\n", hclList([]string{"job", "instance"}[:1+g.r.Intn(2)]))
			}
			if g.maybe(2) {
				fmt.Fprintf(&b, "    strip = %s\n", hclList([]string{"instance", "pod"}[:1+g.r.Intn(2)]))
			}
			if g.maybe(2) {
				g.optStr(&b, "    ", "severity", g.sev("aggregate.severity"))
			}
			b.WriteString("  }\n")
		case 1, 2:
			kind := "annotation"
			if g.maybe(2) {
				kind = "label"
			}
			fmt.Fprintf(&b, "  %s %s {\n", kind, hclStr(g.regex(kind+".key")))
			if g.maybe(2) {
				g.optStr(&b, "    ", "token", g.regex(kind+".token"))
			}
			if g.maybe(2) {
				g.optStr(&b, "    ", "value", g.regex(kind+".value"))
			}
			if g.maybe(4) {
				fmt.Fprintf(&b, "    values = %s\n", hclList([]string{"critical", "warning", "a b"}[:1+g.r.Intn(3)]))
			}
			if g.maybe(2) {
				b.WriteString("    required = true\n")
			}
			if g.maybe(2) {
				g.optStr(&b, "    ", "severity", g.sev(kind+".severity"))
			}
			if g.maybe(3) {
				g.optStr(&b, "    ", "comment", "see docs")
			}
			b.WriteString("  }\n")
		case 3:
			b.WriteString("  cost {\n")
			if g.maybe(2) {
				fmt.Fprintf(&b, "    maxSeries = %d\n", g.intval("cost.maxSeries"))
			}
			if g.maybe(3) {
				fmt.Fprintf(&b, "    maxPeakSamples = %d\n", g.intval("cost.maxPeakSamples"))
			}
			if g.maybe(3) {
				fmt.Fprintf(&b, "    maxTotalSamples = %d\n", g.intval("cost.maxTotalSamples"))
			}
			if g.maybe(3) {
				g.optStr(&b, "    ", "maxEvaluationDuration", g.dur("cost.maxEvaluationDuration"))
			}
			if g.maybe(2) {
				g.optStr(&b, "    ", "severity", g.sev("cost.severity"))
			}
			b.WriteString("  }\n")
		case 4:
			b.WriteString("  alerts {\n")
			g.optStr(&b, "    ", "range", g.dur("alerts.range"))
			g.optStr(&b, "    ", "step", g.dur("alerts.step"))
			g.optStr(&b, "    ", "resolve", g.dur("alerts.resolve"))
			if g.maybe(2) {
				fmt.Fprintf(&b, "    minCount = %d\n", g.intval("alerts.minCount"))
			}
			if g.maybe(3) {
				g.optStr(&b, "    ", "severity", g.sev("alerts.severity"))
			}
			b.WriteString("  }\n")
		case 5, 6:
			kind := "for"
			if g.maybe(2) {
				kind = "keep_firing_for"
			}
			fmt.Fprintf(&b, "  %s {\n", kind)
			if g.maybe(2) || g.o.ValidOnly {
				g.optStr(&b, "    ", "min", g.dur(kind+".min"))
			}
			if g.maybe(2) {
				g.optStr(&b, "    ", "max", g.dur(kind+".max"))
			}
			if g.maybe(2) {
				g.optStr(&b, "    ", "severity", g.sev(kind+".severity"))
			}
			b.WriteString("  }\n")
		case 7:
			fmt.Fprintf(&b, "  reject %s {\n", hclStr(g.regex("reject.regex")))
			for _, k := range []string{"label_keys", "label_values", "annotation_keys", "annotation_values"} {
				if g.maybe(2) {
					fmt.Fprintf(&b, "    %s = true\n", k)
				}
			}
			if g.maybe(2) {
				g.optStr(&b, "    ", "severity", g.sev("reject.severity"))
			}
			b.WriteString("  }\n")
		case 8:
			fmt.Fprintf(&b, "  link %s {\n", hclStr(g.regex("link.regex")))
			if g.maybe(2) {
				g.optStr(&b, "    ", "uri", []string{"http://127.0.0.1:1/$1", "", "::bad::", "$1"}[g.r.Intn(4)])
			}
			if g.maybe(2) {
				g.optStr(&b, "    ", "timeout", g.dur("link.timeout"))
			}
			if g.maybe(3) {
				b.WriteString("    headers = {\n      X-Auth = \"x\"\n    }\n")
			}
			if g.maybe(2) {
				g.optStr(&b, "    ", "severity", g.sev("link.severity"))
			}
			b.WriteString("  }\n")
		case 9, 10:
			fmt.Fprintf(&b, "  name %s {\n", hclStr(g.regex("name.regex")))
			if g.maybe(2) {
				g.optStr(&b, "    ", "severity", g.sev("name.severity"))
			}
			if g.maybe(3) {
				g.optStr(&b, "    ", "comment", "naming convention")
			}
			b.WriteString("  }\n")
		case 11:
			b.WriteString("  range_query {\n")
			g.optStr(&b, "    ", "max", g.dur("range_query.max"))
			if g.maybe(2) {
				g.optStr(&b, "    ", "severity", g.sev("range_query.severity"))
			}
			b.WriteString("  }\n")
		case 12:
			b.WriteString("  report {\n")
			c := "reported"
			if !g.o.ValidOnly && g.maybe(5) {
				c = ""
				g.feat("report.comment", "empty")
			}
			g.optStr(&b, "    ", "comment", c)
			g.optStr(&b, "    ", "severity", g.sev("report.severity"))
			b.WriteString("  }\n")
		}
	}
	b.WriteString("}\n")
	return b.String()
}

// RandCfg builds one configuration.
func RandCfg(r *rand.Rand, o CfgOpts) Cfg {
	g := &cfgGen{r: r, o: o, feats: map[string]bool{}}
	var b strings.Builder
	if g.maybe(4) {
		b.WriteString("ci {\n")
		if g.maybe(2) {
			g.optStr(&b, "  ", "baseBranch", "main")
		}
		if g.maybe(2) {
			fmt.Fprintf(&b, "  maxCommits = %d\n", g.intval("ci.maxCommits"))
		}
		b.WriteString("}\n")
	}
	if g.maybe(3) {
		b.WriteString("parser {\n")
		if g.maybe(2) {
			fmt.Fprintf(&b, "  relaxed = %s\n", hclList([]string{g.regex("parser.relaxed")}))
		}
		if g.maybe(4) {
			fmt.Fprintf(&b, "  include = %s\n", hclList([]string{g.regex("parser.include"), ".*"}))
		}
		if g.maybe(4) {
			fmt.Fprintf(&b, "  exclude = %s\n", hclList([]string{g.regex("parser.exclude")}))
		}
		if g.maybe(3) {
			g.optStr(&b, "  ", "schema", []string{"prometheus", "thanos", "cortex"}[g.r.Intn(3)])
		}
		if g.maybe(3) {
			g.optStr(&b, "  ", "names", []string{"utf-8", "legacy", "ascii"}[g.r.Intn(3)])
		}
		b.WriteString("}\n")
	}
	if g.maybe(5) {
		fmt.Fprintf(&b, "owners {\n  allowed = %s\n}\n", hclList([]string{g.regex("owners.allowed")}))
	}
	if g.maybe(4) {
		b.WriteString("checks {\n")
		if g.maybe(2) {
			fmt.Fprintf(&b, "  enabled = %s\n", hclList(append(g.checkList(), "promql/syntax", "rule/label", "alerts/annotation", "rule/name", "rule/reject", "promql/aggregate", "rule/for", "rule/report", "promql/range_query", "alerts/template")))
		}
		if g.maybe(2) {
			fmt.Fprintf(&b, "  disabled = %s\n", hclList(g.checkList()))
		}
		b.WriteString("}\n")
	}
	if g.maybe(4) {
		b.WriteString("check \"promql/series\" {\n")
		if g.maybe(2) {
			g.optStr(&b, "  ", "lookbackRange", g.dur("series.lookbackRange"))
		}
		if g.maybe(2) {
			g.optStr(&b, "  ", "lookbackStep", g.dur("series.lookbackStep"))
		}
		if g.maybe(2) {
			fmt.Fprintf(&b, "  ignoreMetrics = %s\n", hclList([]string{g.regex("series.ignoreMetrics")}))
		}
		if g.maybe(3) {
			sel := []string{"foo", "foo{a=\"b\"}", "{", "", "foo bar"}[g.r.Intn(5)]
			fmt.Fprintf(&b, "  ignoreLabelsValue = {\n    %s = [\"a\", \"b\"]\n  }\n", hclStr(sel))
		}
		if g.maybe(3) {
			g.optStr(&b, "  ", "fallbackTimeout", g.dur("series.fallbackTimeout"))
		}
		b.WriteString("}\n")
	}
	if g.maybe(6) {
		fmt.Fprintf(&b, "check \"promql/regexp\" {\n  smelly = %v\n}\n", g.maybe(2))
	}
	if !g.o.ValidOnly && g.maybe(15) {
		b.WriteString("check \"promql/nosuch\" {\n}\n")
	}
	res := Cfg{}
	if len(g.o.PromURIs) > 0 && g.maybe(3) {
		res.HasProm = true
		np := 1 + g.r.Intn(2)
		for i := 0; i < np; i++ {
			name := fmt.Sprintf("prom%d", i)
			if !g.o.ValidOnly && i == 1 && g.maybe(5) {
				name = "prom0"
			}
			fmt.Fprintf(&b, "prometheus %s {\n", hclStr(name))
			g.optStr(&b, "  ", "uri", g.o.PromURIs[g.r.Intn(len(g.o.PromURIs))])
			if g.maybe(3) {
				fmt.Fprintf(&b, "  failover = %s\n", hclList([]string{g.o.PromURIs[g.r.Intn(len(g.o.PromURIs))]}))
			}
			g.optStr(&b, "  ", "timeout", []string{"200ms", "1s", "300ms"}[g.r.Intn(3)])
			if g.maybe(3) {
				g.optStr(&b, "  ", "uptime", []string{"up", "prometheus_build_info", "up{job=\"x\"}", "sum(", ""}[g.r.Intn(5)])
			}
			if g.maybe(3) {
				fmt.Fprintf(&b, "  include = %s\n", hclList([]string{g.regex("prometheus.include"), ".*"}))
			}
			if g.maybe(4) {
				fmt.Fprintf(&b, "  exclude = %s\n", hclList([]string{g.regex("prometheus.exclude")}))
			}
			if g.maybe(3) {
				fmt.Fprintf(&b, "  tags = %s\n", hclList([]string{"prod", "a b", "x"}[g.r.Intn(2):][:1]))
			}
			if g.maybe(3) {
				fmt.Fprintf(&b, "  concurrency = %d\n", g.intval("prometheus.concurrency"))
			}
			if g.maybe(3) {
				// rateLimit 1 or 5 only makes online runs slow (1 request/s), leave those out
				fmt.Fprintf(&b, "  rateLimit = %d\n", []int{0, 100, -1, 1 << 40}[g.r.Intn(4)])
			}
			if g.maybe(3) {
				fmt.Fprintf(&b, "  required = %v\n", g.maybe(2))
			}
			if g.maybe(6) {
				b.WriteString("  tls {\n    skipVerify = true\n  }\n")
			}
			b.WriteString("}\n")
		}
	}
	nr := g.r.Intn(max(1, o.MaxRules) + 1)
	for i := 0; i < nr; i++ {
		b.WriteString(g.ruleBlock())
	}
	res.Text = b.String()
	for f := range g.feats {
		res.Features = append(res.Features, f)
	}
	res.Features = sortedCopy(res.Features)
	return res
}

func sortedCopy(s []string) []string {
	out := append([]string(nil), s...)
	for i := 1; i < len(out); i++ {
		for j := i; j > 0 && out[j] < out[j-1]; j-- {
			out[j], out[j-1] = out[j-1], out[j]
		}
	}
	return out
}

// HostileRuleFiles: rule files whose names, labels, annotations and durations contain regexp and template metacharacters.
func HostileRuleFiles() map[string]string {
	return map[string]string{
		"meta.yml": `groups:
- name: meta
  labels:
    team: "a(b"
  rules:
  - alert: "Foo(bar"
    expr: up == 0
    for: 5m
    labels:
      severity: "crit[ical"
      team: "x\\"
    annotations:
      summary: "{{ $labels.job }} is (down"
      "a*b": "value *"
  - alert: "[Bar"
    expr: sum(rate(errors_total[5m])) by (job) > 0
    keep_firing_for: 10m
    labels:
      severity: "*"
    annotations:
      summary: "+?{2,1}"
  - record: "rec:(x"
    expr: sum(foo) without(instance)
  - record: "foo:bar"
    expr: sum(foo) without(instance)
    labels:
      team: "[["
`,
		"plain.yml": `groups:
- name: plain
  rules:
  - alert: HighErrors
    expr: sum(rate(errors_total[5m])) by (job) > 10
    for: 10m
    keep_firing_for: 5m
    labels:
      severity: critical
      team: infra
    annotations:
      summary: errors on {{ $labels.job }}
      runbook: https://example.com/runbook
  - alert: NoLabelsNoAnnotations
    expr: up == 0
  - record: job:errors:rate5m
    expr: sum(rate(errors_total[5m])) by (job)
  - record: job:up:count
    expr: count(up) by (job)
    labels:
      team: infra
`,
		"grouplabels.yml": `groups:
- name: grouplabels
  labels:
    team: infra
    severity: page
  rules:
  - record: a:b
    expr: sum(foo)
  - alert: OnlyGroupLabels
    expr: foo > 1
    for: "{{ bad }}"
  - alert: Both
    expr: foo > 1
    for: 0s
    labels:
      team: "{{ $labels.team }}"
    annotations:
      summary: ""
      empty: ""
`,
		"odd.yml": `- alert: "{{ $alert }}"
  expr: 'foo{job=~"a|b"} > 0'
  for: 1y
  labels:
    "{{": "}}"
  annotations:
    "summary": "{{ $value }"
- record: "a b"
  expr: 'label_replace(foo, "x", "$1", "y", "(")'
- alert: Syntax
  expr: 'sum(foo) by('
- alert: Empty
  expr: up
  labels: {}
  annotations: {}
`,
	}
}
