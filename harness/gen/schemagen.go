package gen

import (
	"fmt"
	"math/rand"
	"strings"
)

// Structure-aware generator of Prometheus rule documents in which every node
// of the schema is independently valid / invalid / mistyped / null / duplicated
// / missing / accompanied by an unknown sibling. A document is built from
// "slots"; a first pass counts them, then k of them are chosen to be faulty.

type schemaGen struct {
	r       *rand.Rand // structure and valid choices
	fr      *rand.Rand // faulty choices
	slot    int
	faulty  map[int]bool
	Applied []string
}

func (g *schemaGen) f(name string) bool {
	i := g.slot
	g.slot++
	if g.faulty[i] {
		g.Applied = append(g.Applied, name)
		return true
	}
	return false
}

type SchemaDoc struct {
	Text   string
	Faults []string // names of the faulty slots that were applied
	NSlots int
}

// RandSchemaDoc: maxFaults 0 gives a valid document.
func RandSchemaDoc(seed int64, maxFaults int) SchemaDoc {
	count := &schemaGen{r: rand.New(rand.NewSource(seed)), fr: rand.New(rand.NewSource(seed ^ 0x5bd1e995)), faulty: map[int]bool{}}
	count.doc()
	n := count.slot
	pr := rand.New(rand.NewSource(seed*7919 + 13))
	k := 0
	if maxFaults > 0 {
		k = []int{0, 1, 1, 1, 1, 2, 2, 3}[pr.Intn(8)]
		if k > maxFaults {
			k = maxFaults
		}
	}
	faulty := map[int]bool{}
	for len(faulty) < k && len(faulty) < n {
		faulty[pr.Intn(n)] = true
	}
	g := &schemaGen{r: rand.New(rand.NewSource(seed)), fr: rand.New(rand.NewSource(seed ^ 0x5bd1e995)), faulty: faulty}
	text := g.doc()
	return SchemaDoc{Text: text, Faults: g.Applied, NSlots: n}
}

func (g *schemaGen) pickf(xs ...string) string { return xs[g.fr.Intn(len(xs))] }
func (g *schemaGen) pickv(xs ...string) string { return xs[g.r.Intn(len(xs))] }

func indentLines(lines []string, n int) []string {
	out := make([]string, len(lines))
	for i, l := range lines {
		if l == "" {
			out[i] = ""
		} else {
			out[i] = pad(n) + l
		}
	}
	return out
}

// item renders a list of keys (each one or more lines) as a sequence item "- k1\n  k2".
func item(keys [][]string, col int) []string {
	var out []string
	first := true
	for _, k := range keys {
		for _, l := range k {
			if first {
				out = append(out, pad(col)+"- "+l)
				first = false
			} else if l == "" {
				out = append(out, "")
			} else {
				out = append(out, pad(col+2)+l)
			}
		}
	}
	if first {
		out = append(out, pad(col)+"- {}")
	}
	return out
}

var (
	badDurations  = []string{"abc", "5", "-5m", "''", "[1m]", "{a: b}", "5mm", "1.5h", "m5", "5 m", "0x5m", "1y1y1y1y1y1y1y1y1y1y1y1y1y1y1y1y1y1y1y1y1y1y1y1y1y1y1y1y1y1y1y1y1y1y1y1y1y1y1y1y1y1y1y1y1y1y1y1y1y1y1y1y1y1y1y1y1y1y1y1y1y1y1y1y1y1y1y1y1y1y1y1y1y1y1y1y1y1y1y1y1y1y1y1y1y1y1y1y1y1y1y1y1y1y1y1y1y1y1y1y1y1y1y1y1y1y1y1y", "true"}
	goodDurations = []string{"5m", "1h", "30s", "0s", "1d", "1m30s", "'5m'", "\"1h\"", "1w", "100ms"}
	badExprs      = []string{"'sum(up) by('", "'up{job=\"a\"'", "'foo bar'", "'rate(foo)[5m]'", "'sum(up) by (job) bar'", "'1 +'", "'up == '", "'{}'", "'foo{a=~\"(\"}'", "'sum without(job) up'", "'foo offset'", "'count_values(foo)'", "'topk(foo)'", "'up[5m'", "'!!'", "'label_replace(up)'", "\"\\xff\""}
	goodExprs     = []string{"up", "up == 0", "'sum(rate(foo[5m])) by (job)'", "foo > 1", "'foo{job=\"a\"}'", "1", "'vector(1)'", "foo / bar", "'absent(up)'", "'rate(x[1m]) > 0'"}
	badTemplates  = []string{"'{{ $foo }}'", "'{{ .Labels.x'", "'{{ nosuchfunc 1 }}'", "'{{ end }}'", "'{{ $labels.job | }}'", "'{{ if }}x{{ end }}'", "'{{ range }}'", "'{{ $value | humanize | nosuch }}'", "'{{ template }}'", "'{{ \"a\" | printf }}}} {{'"}
	goodTemplates = []string{"'{{ $labels.job }}'", "'value {{ $value }}'", "'{{ $labels.instance }} down'", "foo", "'{{ $value | humanize }}'", "'{{ with $labels.x }}{{ . }}{{ end }}'", "'{{ $externalLabels.dc }}'", "'{{ .Value }}'", "'{{ .Labels.foo }}'"}
	mistyped      = []string{"[a, b]", "{a: b}", "1", "1.5", "true", "~", "", "!!binary aGVsbG8=", "2001-01-01", "0x1f", "null", "!!str 5", "!!int '5'", "!!float 1", "!!bool yes", "!!map {}", "!!seq []"}
)

func (g *schemaGen) stringMap(kind string, alert bool) []string {
	// kind: labels | annotations | group-labels
	key := kind
	if kind == "group-labels" {
		key = "labels"
	}
	if g.f(kind + ":mistyped") {
		return []string{key + ": " + g.pickf("foo", "[a, b]", "1", "true", "[]", "- a", "''", "!!str x", "!!map", "!!map ''", "!!seq")}
	}
	if g.f(kind + ":null-or-empty") {
		return []string{key + ": " + g.pickf("~", "", "{}", "null")}
	}
	n := 1 + g.r.Intn(3)
	lines := []string{key + ":"}
	names := []string{"severity", "team", "env", "a", "b_c", "summary", "description"}
	perm := g.r.Perm(len(names))
	for i := 0; i < n; i++ {
		k := names[perm[i]]
		v := g.pickv("critical", "foo", "'x y'", "\"quoted\"", "'1'", "'true'")
		if alert && g.r.Intn(2) == 0 {
			v = g.pickv(goodTemplates...)
		}
		if g.f(kind + ":key-invalid") {
			k = g.pickf("'a-b'", "'0abc'", "__name__", "''", "'a b'", "\"a\\xffb\"", "1", "true", "~", "'föö'", "'a.b'", "__reserved", "'{x}'", "[a]", "? [a]\n  ")
		}
		if g.f(kind + ":value-mistyped") {
			v = g.pickf("1", "1.5", "true", "~", "", "[a]", "{a: b}", "2001-01-01", "0x10", "!!binary aGVsbG8=", "no", "1e3", ".inf", "!!str 1")
		}
		if g.f(kind + ":value-invalid-utf8") {
			v = "\"a\\xffb\""
		}
		if alert && g.f(kind+":template-error") {
			v = g.pickf(badTemplates...)
		}
		if alert && kind == "labels" && g.f(kind+":template-value-in-label") {
			v = g.pickf("'{{ $value }}'", "'{{ .Value }}'")
		}
		lines = append(lines, "  "+k+": "+v)
		if g.f(kind + ":key-duplicated") {
			lines = append(lines, "  "+k+": "+g.pickf("dup", "'other'", v))
		}
	}
	if g.f(kind + ":flow-style") {
		// same content as a flow mapping (valid unless the content is not)
		parts := []string{}
		for _, l := range lines[1:] {
			parts = append(parts, strings.TrimSpace(l))
		}
		ok := true
		for _, p := range parts {
			if strings.ContainsAny(p, "{}[],\n") && !strings.HasPrefix(strings.SplitN(p, ": ", 2)[1], "'") {
				ok = false
			}
		}
		if ok {
			return []string{key + ": {" + strings.Join(parts, ", ") + "}"}
		}
	}
	return lines
}

func (g *schemaGen) rule(i int) [][]string {
	if g.f("rule:not-a-mapping") {
		return [][]string{{"\x00RAW" + g.pickf("~", "{}", "foo", "[a]", "1", "''", "- a", "true", "!!map {}")}}
	}
	alert := g.r.Intn(2) == 0
	var keys [][]string
	nameKey := "record"
	name := fmt.Sprintf("%s%d", g.pickv("foo", "job:up:sum", "a:b", "x_y"), i)
	if alert {
		nameKey = "alert"
		name = fmt.Sprintf("%s%d", g.pickv("Foo", "HighErrors", "Down", "'Instance Down'"), i)
		if strings.HasPrefix(name, "'") {
			name = strings.TrimSuffix(strings.Replace(name, "'", "", 2), "") // keep simple
			name = "'" + name + "'"
		}
	}
	nameLine := nameKey + ": " + name
	switch {
	case g.f("rule:name-empty"):
		nameLine = nameKey + ": " + g.pickf("''", "\"\"", "~", "", "null", "!!str")
	case g.f("rule:name-mistyped"):
		nameLine = nameKey + ": " + g.pickf(mistyped...)
	case !alert && g.f("rule:record-invalid-name"):
		nameLine = "record: " + g.pickf("'foo{bar}'", "'foo bar'", "'foo{job=\"x\"}'", "'{foo}'", "'0foo'", "'foo-bar'", "'föö'", "\"a\\xffb\"", "'}'", "'sum(foo)'", "'a.b'", "'foo}'", "'{'")
	case g.f("rule:name-duplicated"):
		keys = append(keys, []string{nameLine})
	case g.f("rule:both-record-and-alert"):
		if alert {
			keys = append(keys, []string{"record: foo:bar"})
		} else {
			keys = append(keys, []string{"alert: Foo"})
		}
	}
	nameMissing := g.f("rule:name-missing")
	if !nameMissing {
		keys = append(keys, []string{nameLine})
	}
	exprLine := []string{"expr: " + g.pickv(goodExprs...)}
	if g.r.Intn(5) == 0 {
		exprLine = []string{"expr: |", "  sum(rate(foo[5m]))", "  > 0"}
	}
	switch {
	case g.f("rule:expr-invalid"):
		exprLine = []string{"expr: " + g.pickf(badExprs...)}
	case g.f("rule:expr-empty"):
		exprLine = []string{"expr: " + g.pickf("''", "~", "", "\"\"", "null", "' '", "|\n")}
	case g.f("rule:expr-mistyped"):
		exprLine = []string{"expr: " + g.pickf("[a]", "{a: b}", "1.5", "true", "2001-01-01", "!!binary aGVsbG8=", "0x10", "!!int 1", "1e3", ".nan")}
	case g.f("rule:expr-duplicated"):
		keys = append(keys, []string{"expr: up"})
	}
	if !g.f("rule:expr-missing") {
		keys = append(keys, exprLine)
	}
	for _, fk := range []string{"for", "keep_firing_for"} {
		present := alert && g.r.Intn(3) == 0
		if !alert && g.f("rule:"+fk+"-on-recording") {
			keys = append(keys, []string{fk + ": " + g.pickf("5m", "0s", "0m", "''", "~", "1h")})
			continue
		}
		if alert && g.f("rule:"+fk+"-invalid") {
			keys = append(keys, []string{fk + ": " + g.pickf(badDurations...)})
			continue
		}
		if alert && g.f("rule:"+fk+"-duplicated") {
			keys = append(keys, []string{fk + ": 5m"}, []string{fk + ": 10m"})
			continue
		}
		if present {
			keys = append(keys, []string{fk + ": " + g.pickv(goodDurations...)})
		}
	}
	if g.r.Intn(2) == 0 {
		keys = append(keys, g.stringMap("labels", alert))
	}
	if alert && g.r.Intn(2) == 0 {
		keys = append(keys, g.stringMap("annotations", alert))
	}
	if !alert && g.f("rule:annotations-on-recording") {
		keys = append(keys, []string{"annotations:", "  summary: foo"})
	}
	if !alert && g.f("rule:empty-annotations-on-recording") {
		keys = append(keys, []string{"annotations: " + g.pickf("{}", "~", "")})
	}
	if g.f("rule:labels-duplicated") {
		keys = append(keys, []string{"labels:", "  a: b"}, []string{"labels:", "  c: d"})
	}
	if g.f("rule:unknown-key") {
		keys = append(keys, []string{g.pickf("foo: bar", "Expr: up", "labelz: {}", "'': x", "for : 5m", "~: x", "1: 2", "expr : up", "? a\n  : b", "<<: {a: b}", "Alert: x")})
	}
	if g.r.Intn(4) == 0 {
		g.r.Shuffle(len(keys), func(a, b int) { keys[a], keys[b] = keys[b], keys[a] })
	}
	return keys
}

func (g *schemaGen) group(i int, col int) []string {
	if g.f("group:not-a-mapping") {
		return []string{pad(col) + "- " + g.pickf("~", "foo", "[a]", "1", "''", "{}", "true", "!!map", "!!map ''", "!!seq")}
	}
	var keys [][]string
	name := fmt.Sprintf("group%d", i)
	nameLine := "name: " + name
	switch {
	case g.f("group:name-empty"):
		nameLine = "name: " + g.pickf("''", "\"\"", "~", "", "null")
	case g.f("group:name-mistyped"):
		nameLine = "name: " + g.pickf("1", "true", "[a]", "{a: b}", "1.5", "2001-01-01", "!!binary aGVsbG8=", "!!str 1", "0x1", "no")
	case g.f("group:name-duplicated-key"):
		keys = append(keys, []string{"name: other"})
	case i > 0 && g.f("group:name-repeated"):
		nameLine = "name: group0"
	}
	nameMissing := g.f("group:name-missing")
	if !nameMissing {
		keys = append(keys, []string{nameLine})
	}
	for _, dk := range []string{"interval", "query_offset"} {
		if g.f("group:" + dk + "-invalid") {
			keys = append(keys, []string{dk + ": " + g.pickf(badDurations...)})
		} else if g.f("group:" + dk + "-duplicated") {
			keys = append(keys, []string{dk + ": 1m"}, []string{dk + ": 2m"})
		} else if g.r.Intn(4) == 0 {
			keys = append(keys, []string{dk + ": " + g.pickv(goodDurations...)})
		}
	}
	if g.f("group:limit-invalid") {
		keys = append(keys, []string{"limit: " + g.pickf("abc", "'5'", "1.5", "[1]", "true", "-1", "~", "\"\"", "0x10", "1e2", "99999999999999999999", "0o7", "+5", "1_000")})
	} else if g.r.Intn(5) == 0 {
		keys = append(keys, []string{"limit: " + g.pickv("5", "0", "100")})
	}
	if g.r.Intn(5) == 0 {
		keys = append(keys, g.stringMap("group-labels", false))
	} else if g.f("group:labels-faulty") {
		keys = append(keys, []string{"labels:", "  " + g.pickf("__name__: x", "'a-b': c", "'0a': b", "a: 1", "a: true", "a: [b]", "a: b\n  a: c", "'': b", "a: \"\\xff\"", "a: ~", "'a b': c", "1: a")})
	}
	if g.f("group:partial-response-strategy") {
		keys = append(keys, []string{"partial_response_strategy: " + g.pickf("warn", "abort", "foo", "1", "~")})
	}
	if g.f("group:unknown-key") {
		keys = append(keys, []string{g.pickf("foo: bar", "Name: x", "rule: []", "evaluation_interval: 1m", "'': 1", "source_tenants: [a]", "align_evaluation_time_on_interval: true")})
	}
	var rulesLines []string
	switch {
	case g.f("group:rules-mistyped"):
		rulesLines = []string{"rules: " + g.pickf("foo", "{a: b}", "1", "true", "''", "{}", "!!seq", "!!seq ''", "!!map")}
	case g.f("group:rules-null"):
		rulesLines = []string{"rules: " + g.pickf("~", "", "null", "[]")}
	case g.f("group:rules-duplicated"):
		rulesLines = []string{"rules: []", "rules:", "- record: a", "  expr: up"}
	default:
		rulesLines = []string{"rules:"}
		nr := 1 + g.r.Intn(3)
		seqInd := g.r.Intn(2) * 2
		for j := 0; j < nr; j++ {
			rk := g.rule(i*10 + j)
			if len(rk) == 1 && len(rk[0]) == 1 && strings.HasPrefix(rk[0][0], "\x00RAW") {
				rulesLines = append(rulesLines, pad(seqInd)+"- "+strings.TrimPrefix(rk[0][0], "\x00RAW"))
				continue
			}
			var expanded [][]string
			for _, k := range rk {
				var ls []string
				for _, l := range k {
					ls = append(ls, strings.Split(l, "\n")...)
				}
				expanded = append(expanded, ls)
			}
			rulesLines = append(rulesLines, item(expanded, seqInd)...)
		}
	}
	if !g.f("group:rules-missing") {
		keys = append(keys, rulesLines)
	}
	if g.r.Intn(6) == 0 {
		g.r.Shuffle(len(keys), func(a, b int) { keys[a], keys[b] = keys[b], keys[a] })
	}
	var expanded [][]string
	for _, k := range keys {
		var ls []string
		for _, l := range k {
			ls = append(ls, strings.Split(l, "\n")...)
		}
		expanded = append(expanded, ls)
	}
	return item(expanded, col)
}

func (g *schemaGen) doc() string {
	var lines []string
	if g.f("top:empty-or-comment-only") {
		return g.pickf("", "\n", "# just a comment\n", "---\n", "...\n", "--- \n# c\n", " \n", "\t\n")
	}
	if g.f("top:not-a-mapping") {
		return g.pickf("foo\n", "- a\n- b\n", "1\n", "[]\n", "~\n", "'groups'\n", "- groups: []\n", "true\n", "{}\n", "!!map\n", "groups\n")
	}
	if g.r.Intn(4) == 0 {
		lines = append(lines, "# generated")
	}
	if g.r.Intn(8) == 0 {
		lines = append(lines, "---")
	}
	groupsKey := "groups"
	if g.f("top:groups-misspelt") {
		groupsKey = g.pickf("group", "Groups", "groups ", "'groups '", "rules", "GROUPS", "groups_")
	}
	if g.f("top:groups-mistyped") {
		lines = append(lines, groupsKey+": "+g.pickf("foo", "{a: b}", "1", "true", "''", "{}", "{name: x}", "!!seq", "!!seq ''", "!!map"))
	} else if g.f("top:groups-null") {
		lines = append(lines, groupsKey+": "+g.pickf("~", "", "null", "[]"))
	} else {
		lines = append(lines, groupsKey+":")
		ng := 1 + g.r.Intn(2)
		col := g.r.Intn(2) * 2
		for i := 0; i < ng; i++ {
			lines = append(lines, g.group(i, col)...)
		}
	}
	if g.f("top:groups-duplicated") {
		lines = append(lines, "groups:", "- name: again", "  rules: []")
	}
	if g.f("top:extra-key") {
		lines = append(lines, g.pickf("foo: bar", "rules: []", "version: 1", "'': x", "~: x", "namespace: x"))
	}
	if g.f("top:multi-document") {
		lines = append(lines, "---", "groups:", "- name: second", "  rules:", "  - record: b", "    expr: up")
	}
	if g.f("top:anchors-and-merge") {
		lines = append(lines, g.pickf(
			"x-anchors: &a {a: b}",
			"groups2: *nope",
		))
	}
	text := strings.Join(lines, "\n") + "\n"
	if g.f("top:tab-indent") {
		text = strings.Replace(text, "\n  ", "\n\t", 1)
	}
	if g.f("top:crlf") {
		text = strings.ReplaceAll(text, "\n", "\r\n")
	}
	if g.f("top:bom") {
		text = "\xef\xbb\xbf" + text
	}
	if g.f("top:no-final-newline") {
		text = strings.TrimSuffix(text, "\n")
	}
	return text
}

// ---------- mutators ----------

var tokenPool = []string{
	"groups:", "rules:", "- ", "name:", "alert:", "record:", "expr:", "for:", "labels:", "annotations:", "keep_firing_for:",
	"|", ">", "|-", ">+", "|2", "'", "\"", "#", ": ", "{", "}", "[", "]", ",", "&a", "*a", "<<: *a", "<<:", "!!str", "!!binary", "!!map", "---", "...", "~",
	"\t", "\r", "\r\n", "\x00", "\xff", "\xc3", "\xef\xbb\xbf", "\\", "{{", "}}", "{{ $labels.x }}", "%YAML 1.2", "? ", "- - ", "\u2028", "\\x75", "\\t", "\\n", "\\",
	"1", "0", "-1", "1e999", "0x", "99999999999999999999999", "true", "null", "''", "\"\"",
}

var lastLineScalars = []string{
	`"a\nb\nc"`, `"\n\n"`, `"\n\n\n{{ $labels.x }}"`, `"groups:\n- name: x\n  rules: []\n"`, `'a

  b'`, `|`, `>-`, `|2`, `"`, `'`, `"\`, `!!binary "AA\n\n=="`, `&a "x\ny\nz"`, `"- record: a\n  expr: b\n"`,
}

// Mutate applies n random byte-, line- or token-level edits.
func Mutate(r *rand.Rand, s string, n int) string {
	b := []byte(s)
	for i := 0; i < n; i++ {
		switch r.Intn(13) {
		case 0: // delete a byte
			if len(b) > 0 {
				p := r.Intn(len(b))
				b = append(b[:p], b[p+1:]...)
			}
		case 1: // insert a random byte
			p := r.Intn(len(b) + 1)
			c := byte(r.Intn(256))
			if r.Intn(2) == 0 {
				const special = " \t\n\r:#'\"|>-{}[],&*!%@`\\"
				c = special[r.Intn(len(special))]
			}
			b = append(b[:p], append([]byte{c}, b[p:]...)...)
		case 2: // replace a byte
			if len(b) > 0 {
				b[r.Intn(len(b))] = byte(r.Intn(256))
			}
		case 3: // insert a token
			p := r.Intn(len(b) + 1)
			t := tokenPool[r.Intn(len(tokenPool))]
			b = append(b[:p], append([]byte(t), b[p:]...)...)
		case 4, 5: // line ops
			lines := strings.Split(string(b), "\n")
			if len(lines) > 1 {
				p := r.Intn(len(lines))
				switch r.Intn(5) {
				case 0:
					lines = append(lines[:p], lines[p+1:]...)
				case 1:
					lines = append(lines[:p], append([]string{lines[p]}, lines[p:]...)...)
				case 2:
					q := r.Intn(len(lines))
					lines[p], lines[q] = lines[q], lines[p]
				case 3:
					lines[p] = pad(r.Intn(5)) + strings.TrimLeft(lines[p], " ")
				case 4:
					lines[p] = lines[p] + tokenPool[r.Intn(len(tokenPool))]
				}
			}
			b = []byte(strings.Join(lines, "\n"))
		case 6: // truncate
			if len(b) > 0 {
				b = b[:r.Intn(len(b))]
			}
		case 7: // duplicate a chunk
			if len(b) > 1 {
				p := r.Intn(len(b))
				q := p + r.Intn(min(len(b)-p, 40))
				b = append(b[:q], append(append([]byte{}, b[p:q]...), b[q:]...)...)
			}
		case 8: // CRLF / CR conversion
			if r.Intn(2) == 0 {
				b = []byte(strings.ReplaceAll(string(b), "\n", "\r\n"))
			} else {
				b = []byte(strings.Replace(string(b), "\n", "\r", 1+r.Intn(3)))
			}
		case 9: // replace spaces run with tab
			s := string(b)
			if i := strings.Index(s, "\n  "); i >= 0 {
				b = []byte(s[:i+1] + "\t" + s[i+3:])
			}
		case 10: // swap quotes style
			s := string(b)
			if r.Intn(2) == 0 {
				s = strings.Replace(s, "'", "\"", 1+r.Intn(2))
			} else {
				s = strings.Replace(s, "\"", "'", 1+r.Intn(2))
			}
			b = []byte(s)
		case 11: // strip final newline
			b = []byte(strings.TrimRight(string(b), "\n"))
		case 12: // a hostile scalar on the very last line of the file (code that looks at "the next line" has none)
			s := strings.TrimRight(string(b), "\n")
			ind := ""
			if r.Intn(2) == 0 {
				// same indentation as the current last line
				last := s[strings.LastIndex(s, "\n")+1:]
				ind = last[:len(last)-len(strings.TrimLeft(last, " "))]
			}
			s += "\n" + ind + "zz: " + lastLineScalars[r.Intn(len(lastLineScalars))]
			if r.Intn(2) == 0 {
				s += "\n"
			}
			b = []byte(s)
		}
		if len(b) > 64*1024 {
			b = b[:64*1024]
		}
	}
	return string(b)
}

// StressDocs returns hand-made YAML stress documents (deep nesting, aliases to sequences, merges of non-maps, ...).
func StressDocs() []string {
	deep := strings.Repeat("[", 200) + strings.Repeat("]", 200) + "\n"
	deepMap := ""
	for i := 0; i < 120; i++ {
		deepMap += pad(i) + "a:\n"
	}
	long := "groups:\n- name: g\n  rules:\n  - record: foo\n    expr: " + strings.Repeat("foo + ", 3000) + "foo\n"
	out := []string{
		deep, deepMap, long,
		"groups:\n- name: g\n  rules: &r\n  - record: a\n    expr: up\n- name: h\n  rules: *r\n",
		"base: &b\n  record: a\n  expr: up\ngroups:\n- name: g\n  rules:\n  - <<: *b\n  - <<: *b\n    record: c\n",
		"groups:\n- name: g\n  rules:\n  - <<: [1, 2]\n    record: a\n    expr: up\n",
		"groups:\n- name: g\n  rules:\n  - <<: foo\n    record: a\n    expr: up\n",
		"a: &a [*a]\n",
		"a: &a\n  b: *a\n",
		"groups:\n- name: g\n  rules:\n  - record: a\n    expr: |2\n        up\n",
		"groups:\n- name: g\n  rules:\n  - record: a\n    expr: >+\n\n      up\n\n\n",
		"groups:\n- name: g\n  rules:\n  - record: a\r    expr: up\r",
		"groups:\n- name: g\n  rules:\n  - alert: a\n    expr: \"\\x75p ==\"\n",
		"groups:\n- name: g\n  rules:\n  - alert: a\n    expr: up\n    for: \"\\t\"\n",
		"groups:\n- name: g\n  rules:\n  - alert: \"\\x41\"\n    expr: up\n",
		"groups:\n- name: g\n  rules: [~]\n",
		"groups:\n- name: g\n  rules: [{}]\n",
		"groups:\n- name: g\n  rules:\n  - record: a\n    expr: 'count_values((\"x\"), foo)'\n",
		"groups:\n- name: g\n  rules:\n  - record: a\n    expr: 'label_replace(foo, (\"dst\"), \"$1\", \"src\", \"(.*)\")'\n",
		"groups:\n- name: g\n  rules:\n  - record: a\n    expr: 'label_join(foo, (\"dst\"), \",\", (\"a\"))'\n",
		"groups:\n- name: g\n  rules:\n  - alert: a\n    expr: up\n    annotations:\n      x: \"{{ $labels.foo\n        }}\"\n",
		"\x00\x00\x00",
		"\xff\xfe\x00g",
		"%YAML 1.1\n---\ngroups: []\n",
		"--- !!map\ngroups: []\n...\n---\n...\n",
		"groups:\n- name: g\n  rules:\n  - ? record\n    : a\n    ? expr\n    : up\n",
		"groups:\n- name: g\n  rules:\n  - {record: a, expr: up}\n  - {alert: b, expr: up, labels: {a: b}, annotations: {c: d}}\n",
		"{groups: [{name: g, rules: [{record: a, expr: up}]}]}\n",
		"groups:\n- name: g\n  rules:\n  - record: a\n    expr: up\n    labels:\n      ? [complex]\n      : x\n",
		"groups:\n- name: g\n  rules:\n  - record: a\n    expr:\n      - up\n",
		"groups:\n- name: g\n  rules:\n  -\n\n    record: a\n\n    expr: up\n",
		"groups:\n- name: g\n  rules:\n  - record: a\n    expr: up # pint disable promql/series\n",
		"# pint ignore/file\ngroups: foo\n",
		"groups:\n# pint ignore/begin\n{{ template }}\n# pint ignore/end\n- name: g\n  rules: []\n",
		"groups:\n- name: g\n  rules:\n  - alert: a\n    expr: up\n    annotations:\n      s: 'it''s {{ $labels.x }}'\n",
		"groups:\n- name: g\n  rules:\n  - alert: a\n    expr: up\n    labels:\n      s: \"\\\"{{ $value }}\\\"\"\n",
	}
	// scalars with several (escaped) newlines that start on the last line of the file or of an embedded document
	for _, sc := range lastLineScalars {
		out = append(out,
			"groups:\n- name: g\n  rules:\n  - record: a\n    expr: up\nnote: "+sc,
			"groups:\n- name: g\n  rules:\n  - record: a\n    expr: up\nnote: "+sc+"\n",
			"note: "+sc+"\n",
			"data:\n  rules.yml: |\n    groups:\n    - name: g\n      rules:\n      - record: a\n        expr: up\n    note: "+sc+"\n",
			"groups:\n- name: g\n  rules:\n  - alert: a\n    expr: up\n    annotations:\n      note: "+sc,
		)
	}
	// lone CR line breaks (a line break for the YAML decoder, not for pint's line reader): the lines of keys and of
	// their values drift apart below the CR, which is where checks that build a range from a key and a value go wrong
	crBase := []string{
		"- alert: Foo Is Down", "  expr: up{job=\"foo\"} == 0", "  for: 5m", "  annotations:", "    url: \"https://wiki.example.com/page\"",
		"    summary: 'Instance {{ $labels.instance }} down'", "  labels:", "    severity: warning", "    func: '{{ $value | xxx }}'",
		"    bar: 'Some {{$value}} value'", "    val: '{{ .Value|humanizeDuration }}'", "    zq: \"{{ $value }}\"", "- record: a b", "  expr: sum(up)", "  labels:", "    x y: z",
	}
	for k := 0; k < len(crBase)-1; k++ {
		var b strings.Builder
		for i, l := range crBase {
			b.WriteString(l)
			if i == k {
				b.WriteString("\r")
			} else {
				b.WriteString("\n")
			}
		}
		out = append(out, b.String(), "groups:\n- name: g\n  rules:\n"+indentText(b.String(), "  "))
	}
	for _, t := range HostileTemplates() {
		out = append(out, "groups:\n- name: g\n  rules:\n  - alert: a\n    expr: sum(up) by (job) > 0\n    labels:\n      l: '"+strings.ReplaceAll(t, "'", "''")+"'\n    annotations:\n      a: '"+strings.ReplaceAll(t, "'", "''")+"'\n")
	}
	return out
}

func indentText(s, ind string) string {
	var b strings.Builder
	for _, l := range strings.SplitAfter(s, "\n") {
		if l != "" {
			b.WriteString(ind + l)
		}
	}
	return b.String()
}

// HostileTemplates: alert templates chosen to stress pint's template analysis (variable aliasing, cycles, nesting).
func HostileTemplates() []string {
	return []string{
		"{{ $a := .Labels }}{{ $b := $a }}{{ $a := $b }}{{ $a.job }}",
		"{{ $a := $labels }}{{ $a := $a }}{{ $a.instance }}",
		"{{ $x := $value }}{{ $y := $x }}{{ $x = $y }}{{ $x }}",
		"{{ with $labels }}{{ with . }}{{ .job }}{{ end }}{{ end }}",
		"{{ range $k, $v := $labels }}{{ $k }}={{ $v }} {{ end }}",
		"{{ define \"x\" }}{{ .Labels.job }}{{ end }}{{ template \"x\" . }}",
		"{{ $labels := .Value }}{{ $labels }}",
		"{{ (index $labels \"job\") }}{{ index .Labels \"instance\" }}",
		"{{ if $labels.job }}{{ else if $labels.a }}{{ else }}{{ end }}",
		"{{ printf \"%v %v\" $labels $value | reReplaceAll \"a\" \"b\" }}",
		"{{ query \"up\" | first | value }}{{ range query \"up{job='x'}\" }}{{ . | label \"job\" }}{{ end }}",
		"{{ $value | humanize | humanize1024 | humanizeDuration | humanizePercentage | humanizeTimestamp }}",
		"{{ block \"b\" . }}{{ .Labels.x }}{{ end }}",
		"{{- /* comment */ -}}{{ $labels.job -}}",
		"{{ $v := $value }}{{ with $v }}{{ . }}{{ end }}",
		"{{ .Labels.a.b.c }}{{ $labels.a.b }}",
		"{{ $externalLabels.x }}{{ $externalURL }}{{ .ExternalURL }}",
		"{{ len $labels }}{{ $labels | len }}{{ not $labels }}",
		strings.Repeat("{{ $labels.job }}", 300),
		"{{ " + strings.Repeat("(", 100) + "$value" + strings.Repeat(")", 100) + " }}",
	}
}
