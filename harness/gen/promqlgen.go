package gen

import (
	"fmt"
	"math/rand"
	"strings"
)

// Depth-bounded typed PromQL generator over a small universe.

type PQOpts struct {
	Depth        int
	Metrics      []string
	Labels       []string
	Values       []string
	LabelRewrite bool // label_replace / label_join / count_values
	Absent       bool
	VectorFn     bool // vector(), scalar(), time()
	Numbers      bool // number literals as operands
	Bool         bool
	Subquery     bool
	Offset       bool
	ParenStrings bool // parenthesised string parameters (hostile)
	RegexMatch   bool
	SetOps       bool
	TopK         bool
}

func FullPQ() PQOpts {
	return PQOpts{
		Depth: 4, Metrics: []string{"foo", "bar", "baz"}, Labels: []string{"job", "instance", "a", "b"}, Values: []string{"x", "y", "z"},
		LabelRewrite: true, Absent: true, VectorFn: true, Numbers: true, Bool: true, Subquery: true, Offset: true, RegexMatch: true, SetOps: true, TopK: true,
	}
}

type pq struct {
	r *rand.Rand
	o PQOpts
}

func RandExpr(r *rand.Rand, o PQOpts) string {
	g := &pq{r: r, o: o}
	return g.vector(o.Depth)
}

func (g *pq) pick(xs []string) string { return xs[g.r.Intn(len(xs))] }

func (g *pq) labelList(min int) string {
	n := min + g.r.Intn(3)
	if n > len(g.o.Labels) {
		n = len(g.o.Labels)
	}
	perm := g.r.Perm(len(g.o.Labels))
	var ls []string
	for i := 0; i < n; i++ {
		ls = append(ls, g.o.Labels[perm[i]])
	}
	return strings.Join(ls, ", ")
}

func (g *pq) matcher() string {
	l := g.pick(g.o.Labels)
	v := g.pick(g.o.Values)
	ops := []string{"=", "=", "=", "!="}
	if g.o.RegexMatch {
		ops = append(ops, "=~", "!~")
	}
	op := g.pick(ops)
	switch op {
	case "=~", "!~":
		v = g.pick([]string{v, v + "|" + g.pick(g.o.Values), ".*", ".+", "", v + ".*", "(" + v + ")?"})
	default:
		if g.r.Intn(8) == 0 {
			v = ""
		}
	}
	return fmt.Sprintf(`%s%s"%s"`, l, op, v)
}

func (g *pq) selector() string {
	m := g.pick(g.o.Metrics)
	n := g.r.Intn(3)
	var ms []string
	for i := 0; i < n; i++ {
		ms = append(ms, g.matcher())
	}
	s := m
	if g.r.Intn(12) == 0 {
		ms = append([]string{fmt.Sprintf(`__name__="%s"`, m)}, ms...)
		s = ""
	}
	if len(ms) > 0 {
		s += "{" + strings.Join(ms, ", ") + "}"
	}
	return s
}

func (g *pq) maybeOffset(s string) string {
	if g.o.Offset && g.r.Intn(10) == 0 {
		return s + " offset " + g.pick([]string{"1m", "5m"})
	}
	return s
}

func (g *pq) matrix(depth int) string {
	if g.o.Subquery && depth > 1 && g.r.Intn(5) == 0 {
		return "(" + g.vector(depth-1) + ")[" + g.pick([]string{"5m", "10m"}) + ":" + g.pick([]string{"1m", ""}) + "]"
	}
	return g.maybeOffset(g.selector() + "[" + g.pick([]string{"2m", "5m"}) + "]")
}

func (g *pq) scalar(depth int) string {
	opts := []string{"1", "2", "0", "0.5"}
	if g.o.VectorFn && depth > 0 && g.r.Intn(4) == 0 {
		return "scalar(" + g.vector(depth-1) + ")"
	}
	if g.o.VectorFn && g.r.Intn(8) == 0 {
		return g.pick([]string{"time()", "pi()"})
	}
	return g.pick(opts)
}

var (
	aggOps   = []string{"sum", "min", "max", "avg", "count", "group", "stddev"}
	instFns  = []string{"abs", "ceil", "floor", "sqrt", "exp", "ln", "sort", "sort_desc", "sgn", "timestamp", "round"}
	rangeFns = []string{"rate", "irate", "increase", "delta", "deriv", "avg_over_time", "min_over_time", "max_over_time", "sum_over_time", "count_over_time", "last_over_time", "present_over_time", "changes", "resets", "idelta"}
	arithOps = []string{"+", "-", "*", "/", "%", "^"}
	cmpOps   = []string{"==", "!=", ">", "<", ">=", "<="}
	setOps   = []string{"and", "or", "unless"}
)

func (g *pq) modifier(set bool) string {
	switch g.r.Intn(6) {
	case 0, 1:
		return ""
	case 2:
		return " on(" + g.labelList(0) + ")"
	case 3:
		return " ignoring(" + g.labelList(0) + ")"
	default:
		m := " on(" + g.labelList(1) + ")"
		if g.r.Intn(2) == 0 {
			m = " ignoring(" + g.labelList(0) + ")"
		}
		if set {
			return m
		}
		side := g.pick([]string{"group_left", "group_right"})
		inc := ""
		switch g.r.Intn(3) {
		case 0:
			inc = "()"
		case 1:
			inc = "(" + g.labelList(1) + ")"
		}
		return m + " " + side + inc
	}
}

func (g *pq) vector(depth int) string {
	if depth <= 0 {
		return g.maybeOffset(g.selector())
	}
	n := g.r.Intn(100)
	switch {
	case n < 18:
		return g.maybeOffset(g.selector())
	case n < 38: // aggregation
		op := g.pick(aggOps)
		inner := g.vector(depth - 1)
		param := ""
		if g.o.TopK && g.r.Intn(5) == 0 {
			op = g.pick([]string{"topk", "bottomk", "quantile"})
			param = g.pick([]string{"1", "2", "0.9"}) + ", "
			if op == "quantile" {
				param = "0.9, "
			}
		}
		if g.o.LabelRewrite && g.r.Intn(12) == 0 {
			op = "count_values"
			if g.o.ParenStrings && g.r.Intn(2) == 0 {
				param = `("cv"), `
			} else {
				param = `"cv", `
			}
		}
		grp := ""
		switch g.r.Intn(4) {
		case 0:
			grp = " by(" + g.labelList(0) + ")"
		case 1:
			grp = " without(" + g.labelList(0) + ")"
		case 2:
			grp = " by(" + g.labelList(1) + ")"
		}
		if g.r.Intn(2) == 0 {
			return op + grp + " (" + param + inner + ")"
		}
		return op + "(" + param + inner + ")" + grp
	case n < 48: // instant function
		fn := g.pick(instFns)
		if fn == "round" && g.r.Intn(2) == 0 {
			return "round(" + g.vector(depth-1) + ", " + g.scalar(0) + ")"
		}
		if g.r.Intn(6) == 0 {
			return g.pick([]string{"clamp_max", "clamp_min"}) + "(" + g.vector(depth-1) + ", " + g.scalar(depth-1) + ")"
		}
		return fn + "(" + g.vector(depth-1) + ")"
	case n < 58: // range function
		return g.pick(rangeFns) + "(" + g.matrix(depth) + ")"
	case n < 64 && g.o.LabelRewrite:
		q := func(s string) string {
			if g.o.ParenStrings && g.r.Intn(4) == 0 {
				return `("` + s + `")`
			}
			return `"` + s + `"`
		}
		if g.r.Intn(2) == 0 {
			return "label_replace(" + g.vector(depth-1) + ", " + q(g.pick([]string{"dst", "job", "a"})) + ", " + q(g.pick([]string{"$1", "fixed", ""})) + ", " + q(g.pick(g.o.Labels)) + ", " + q(g.pick([]string{"(.*)", "x", ".+"})) + ")"
		}
		return "label_join(" + g.vector(depth-1) + ", " + q(g.pick([]string{"dst", "job"})) + ", " + q(",") + ", " + q(g.pick(g.o.Labels)) + ", " + q(g.pick(g.o.Labels)) + ")"
	case n < 68 && g.o.Absent:
		if g.r.Intn(2) == 0 {
			return "absent(" + g.vector(depth-1) + ")"
		}
		return "absent_over_time(" + g.matrix(depth) + ")"
	case n < 72 && g.o.VectorFn:
		return "vector(" + g.scalar(depth-1) + ")"
	case n < 76:
		if g.r.Intn(3) == 0 {
			return "-" + g.vector(depth-1)
		}
		return "(" + g.vector(depth-1) + ")"
	default: // binary
		k := g.r.Intn(10)
		switch {
		case k < 3:
			op := g.pick(arithOps)
			if g.o.Numbers && g.r.Intn(3) == 0 {
				if g.r.Intn(2) == 0 {
					return g.vector(depth-1) + " " + op + " " + g.scalar(depth-1)
				}
				return g.scalar(depth-1) + " " + op + " " + g.vector(depth-1)
			}
			return g.vector(depth-1) + " " + op + g.modifier(false) + " " + g.vector(depth-1)
		case k < 6:
			op := g.pick(cmpOps)
			b := ""
			if g.o.Bool && g.r.Intn(4) == 0 {
				b = " bool"
			}
			if g.o.Numbers && g.r.Intn(2) == 0 {
				if g.r.Intn(3) == 0 {
					return g.scalar(depth-1) + " " + op + b + " " + g.vector(depth-1)
				}
				return g.vector(depth-1) + " " + op + b + " " + g.scalar(depth-1)
			}
			return g.vector(depth-1) + " " + op + b + g.modifier(false) + " " + g.vector(depth-1)
		default:
			if !g.o.SetOps {
				return g.vector(depth-1) + " * " + g.vector(depth-1)
			}
			op := g.pick(setOps)
			return g.vector(depth-1) + " " + op + g.modifier(true) + " " + g.vector(depth-1)
		}
	}
}

// HostileExprs: expressions chosen to stress pint's PromQL handling (all node kinds, odd spellings).
func HostileExprs() []string {
	out := []string{
		`count_values(("x"), foo)`,
		`label_replace(foo, ("dst"), "$1", "src", "(.*)")`,
		`label_join(foo, ("dst"), (","), ("a"), "b")`,
		`label_replace(foo, "dst", "$1", "src", "(")`,
		`quantile((0.9), foo)`,
		`topk((1), foo)`,
		`-foo`,
		`--foo`,
		`(((foo)))`,
		`foo[5m:1m] `,
		`rate(foo[5m:])`,
		`foo @ 100`,
		`foo @ start()`,
		`foo offset -5m`,
		`1`,
		`"string"`,
		`1 + 1`,
		`time()`,
		`vector(1) > bool vector(2)`,
		`foo > bool 1`,
		`absent(foo{a="b", a="c"})`,
		`absent(sum(foo))`,
		`absent_over_time(foo[5m])`,
		`histogram_quantile(0.9, sum(rate(foo_bucket[5m])) by (le))`,
		`histogram_quantile(0.9, rate(foo[5m]))`,
		`sum(foo) by ()`,
		`sum without() (foo)`,
		`foo * on() group_left() bar`,
		`foo * ignoring() group_right(a, b) bar`,
		`foo and on(a) bar or baz unless qux`,
		`{__name__="foo"}`,
		`{__name__=~"foo|bar"}`,
		`{"foo"}`,
		`up{"a(b"=~"foo"}`,
		`up{"a[b"=~"foo.*", "c)d"!~"x|y"}`,
		`sum by ("a)b", "c*") (up)`,
		`{"metric(x", "l+"="v"}`,
		`foo{"\\d"=~"1"} / on("a(b") group_left("c|d") bar`,
		`{"日本"=~"x.*"}`,
		`{"foo.bar", a="b"}`,
		`foo{"a.b"="c"}`,
		`sum by ("a.b") (foo)`,
		`foo{a=~""}`,
		`foo{a!~".*"}`,
		`foo{a=~"("}`,
		`rate(foo)`,
		`rate(foo[5m])[10m:]`,
		`sum(rate(foo[5m])) > 0 or vector(0)`,
		`vector(1) or foo`,
		`day_of_week() == 1`,
		`foo % 2 == 0`,
		`foo ^ 2 ^ 3`,
		`foo atan2 bar`,
		`1e999`,
		`0x1f + Inf - NaN`,
		`sort_by_label(foo, "a")`,
		`limitk(1, foo)`,
		`info(foo)`,
		`scalar(foo) > scalar(bar)`,
		`sum(foo{a="b"}) by (a) / on(a) group_left(c) sum(bar) by (a, c)`,
		`ALERTS{alertname="Foo"}`,
		`ALERTS_FOR_STATE{alertname=~"F.*"}`,
		`max_over_time((foo > 1)[1h:1m])`,
		`foo{job="a"} unless foo{job="a"}`,
		`foo == foo == foo`,
		`sum(foo) by (job) > on(job) sum(bar) by (job) < on(job) sum(baz) by (job)`,
		`count(foo == 1 or bar == 2 or baz == 3) by (a) > 5`,
		`holt_winters(foo[5m], 0.5, 0.5)`,
		`double_exponential_smoothing(foo[5m], 0.5, 0.5)`,
		`predict_linear(foo[5m], 3600)`,
		`quantile_over_time(0.9, foo[5m])`,
		`month() * year() + days_in_month()`,
		`foo{` + strings.Repeat(`a="b",`, 50) + `}`,
		strings.Repeat("(", 60) + "foo" + strings.Repeat(")", 60),
	}
	r := rand.New(rand.NewSource(42))
	o := FullPQ()
	o.ParenStrings = true
	for i := 0; i < 150; i++ {
		out = append(out, RandExpr(r, o))
	}
	return out
}

// JoinShapeExpr builds expressions from templates biased towards shapes on which pint makes dead-code claims: joins
// against aggregations, on/ignoring lists overlapping matcher and group_left labels, nested aggregations, fallbacks.
func JoinShapeExpr(r *rand.Rand, o PQOpts) string {
	g := &pq{r: r, o: o}
	lbl := func() string { return g.pick(o.Labels) }
	lbls := func(n int) string {
		perm := r.Perm(len(o.Labels))
		var ls []string
		for i := 0; i < n && i < len(perm); i++ {
			ls = append(ls, o.Labels[perm[i]])
		}
		return strings.Join(ls, ", ")
	}
	sel := func() string { return g.selector() }
	agg := func() string { return g.pick([]string{"sum", "max", "min", "count", "avg", "group"}) }
	arith := func() string { return g.pick([]string{"*", "/", "+", "-", ">", "<", "=="}) }
	setop := func() string { return g.pick([]string{"and", "unless", "or"}) }
	side := func() string { return g.pick([]string{"group_left", "group_right"}) }
	switch r.Intn(11) {
	case 9, 10: // an operation with ignoring(L) on a left side that guarantees L and another label, joined again without on()
		perm := r.Perm(len(o.Labels))
		if len(perm) < 3 {
			return sel()
		}
		l1, l2, l3 := o.Labels[perm[0]], o.Labels[perm[1]], o.Labels[perm[2]]
		// (values that the generated databases use and mostly bare selectors, so that the operations return something)
		v := func() string { return g.pick([]string{"x", "y"}) }
		sel := func() string {
			if r.Intn(3) > 0 {
				return g.pick(o.Metrics)
			}
			return g.selector()
		}
		left := fmt.Sprintf("%s{%s=\"%s\", %s=\"%s\"}", g.pick(o.Metrics), l1, v(), l2, v())
		inner := g.pick([]string{"and", "unless", ">", "<", "==", "!=", "*", "+", "> bool"})
		mod := fmt.Sprintf("ignoring(%s)", g.pick([]string{l1, l1 + ", " + l3}))
		if r.Intn(4) == 0 && inner != "and" && inner != "unless" {
			mod += fmt.Sprintf(" %s()", side())
		}
		other := g.pick([]string{
			fmt.Sprintf("%s by(%s) (%s)", agg(), l2, sel()),
			fmt.Sprintf("%s without(%s) (%s)", agg(), l1, sel()),
			fmt.Sprintf("%s by(%s, %s) (%s)", agg(), l2, l3, sel()),
			fmt.Sprintf("%s by(%s) (%s)", agg(), l1, sel()),
		})
		outer := g.pick([]string{"*", "/", ">", "and", "unless"})
		if r.Intn(2) == 0 {
			// match the two sides on l2 alone: ignore every other label of the universe on the outer join as well
			var rest []string
			for _, l := range o.Labels {
				if l != l2 {
					rest = append(rest, l)
				}
			}
			other = fmt.Sprintf("%s by(%s) (%s)", agg(), l2, g.pick(o.Metrics))
			outer = g.pick([]string{"*", "/", "+"}) + " ignoring(" + strings.Join(rest, ", ") + ") group_left()"
			if r.Intn(3) == 0 {
				outer = g.pick([]string{"and", "unless"}) + " ignoring(" + strings.Join(rest, ", ") + ")"
			}
		}
		first := fmt.Sprintf("(%s %s %s %s)", left, inner, mod, sel())
		if r.Intn(3) == 0 {
			// the same right-hand side met by two sources
			first = fmt.Sprintf("(%s or %s)", first, fmt.Sprintf("(%s{%s=\"%s\"} %s %s %s)", g.pick(o.Metrics), l2, v(), inner, mod, sel()))
		}
		return fmt.Sprintf("%s %s %s", first, outer, other)
	case 8: // the many side lost a label that the group modifier copies back from a one side that is unique per on() label
		perm := r.Perm(len(o.Labels))
		if len(perm) < 3 {
			return sel()
		}
		a, b, c := o.Labels[perm[0]], o.Labels[perm[1]], o.Labels[perm[2]]
		lost := g.pick([]string{a, b, a + ", " + b})
		one := fmt.Sprintf("max by(%s, %s, %s) (%s{%s=\"%s\", %s=\"%s\"})", c, a, b, g.pick(o.Metrics), a, g.pick(o.Values), b, g.pick(o.Values))
		many := fmt.Sprintf("%s without(%s) (%s)", agg(), lost, g.pick(o.Metrics))
		if r.Intn(2) == 0 {
			return fmt.Sprintf("%s %s on(%s) group_left(%s, %s) %s", many, g.pick([]string{"*", "/", "+", "-"}), c, a, b, one)
		}
		return fmt.Sprintf("%s %s on(%s) group_right(%s, %s) %s", one, g.pick([]string{"*", "/", "+", "-"}), c, a, b, many)
	case 0: // outer join on labels brought in (or not) by an inner group_left over a `without` aggregation
		l1, l2 := lbl(), lbl()
		return fmt.Sprintf("%s %s on(%s, %s) (%s without(%s) (%s) %s on(%s) %s(%s) %s)", sel(), setop(), l1, l2, agg(), l2, sel(), arith(), l1, side(), lbls(1+r.Intn(3)), sel())
	case 1: // nested by() aggregations compared with a flat one
		l1, l2 := lbl(), lbl()
		return fmt.Sprintf("%s by(%s) (%s by(%s, %s) (%s{%s=\"%s\"})) %s %s by(%s) (%s)", agg(), l1, agg(), l1, l2, g.pick(o.Metrics), l2, g.pick(o.Values), arith(), agg(), l1, sel())
	case 2: // ignoring() with a guaranteed label on the left and group modifiers
		l1 := lbl()
		return fmt.Sprintf("%s{%s=\"%s\"} %s ignoring(%s) %s(%s) %s by(%s) (%s)", g.pick(o.Metrics), l1, g.pick(o.Values), arith(), l1, side(), lbls(r.Intn(2)), agg(), lbls(1+r.Intn(2)), sel())
	case 3: // set operators against aggregations
		return fmt.Sprintf("%s %s on(%s) %s by(%s) (%s)", sel(), setop(), lbls(1+r.Intn(2)), agg(), lbls(1+r.Intn(2)), sel())
	case 4: // plain joins where one side lost labels
		return fmt.Sprintf("%s{%s=\"%s\"} %s %s without(%s) (%s)", g.pick(o.Metrics), lbl(), g.pick(o.Values), arith(), agg(), lbls(1+r.Intn(2)), sel())
	case 5: // one-to-one on() then an outer join needing a label
		l1 := lbl()
		return fmt.Sprintf("(%s %s on(%s) %s) %s on(%s) %s", sel(), arith(), lbls(1+r.Intn(2)), sel(), setop(), l1, sel())
	case 6: // fallbacks
		return fmt.Sprintf("%s(%s) by(%s) %s %s or %s", agg(), sel(), lbls(r.Intn(2)), arith(), g.scalar(0), g.pick([]string{"vector(0)", "vector(1)", sel()}))
	default: // function wrapped around an aggregation joined with a selector
		return fmt.Sprintf("%s(%s by(%s) (%s)) %s on(%s) %s", g.pick([]string{"abs", "ceil", "floor"}), agg(), lbls(1+r.Intn(2)), sel(), arith(), lbls(1+r.Intn(2)), sel())
	}
}
