// Package gen holds the input generators: rule documents (this file), PromQL
// expressions, pint configurations and the seed corpus reader.
package gen

import (
	"fmt"
	"math/rand"
	"sort"
	"strings"
)

type Style int

const (
	Plain Style = iota
	Single
	Double
	Literal
	Folded
)

func (s Style) String() string {
	return [...]string{"plain", "single", "double", "literal", "folded"}[s]
}

// Scalar is one scalar value as the writer is going to spell it.
type Scalar struct {
	Lines     []string // logical content lines (before quoting/escaping)
	Style     Style
	Chomp     string // "", "-", "+" (block styles)
	IndentInd int    // explicit indentation indicator for block styles (0 = none)
	MoreInd   int    // extra spaces of content indentation for block / continuation lines
	Escapes   bool   // double-quoted: spell some characters as escape sequences
	Features  []string
}

func (s *Scalar) feat(f string) {
	for _, x := range s.Features {
		if x == f {
			return
		}
	}
	s.Features = append(s.Features, f)
	sort.Strings(s.Features)
}

type KV struct {
	Key     string
	Val     Scalar
	Comment string // trailing comment on the key line
}

// Field is one key of a rule mapping.
type Field struct {
	Key      string
	Val      *Scalar  // scalar-valued field
	Map      []KV     // labels / annotations
	FlowMap  bool     // write the map in flow style {a: b}
	Before   []string // full lines (comments, blank) written before the key line; each is relative text without indentation ("" = blank line)
	Trailing string   // trailing comment on the key line (without '#')
	Raw      string   // when non-empty: the text after "key:" verbatim (for invalid / mistyped values)
}

type Rule struct {
	Fields []Field
	Before []string // lines before the "- " item line (comments / blanks)
	After  []string // lines after the last field at field indentation
}

type Group struct {
	Name     string
	Extra    []string // extra "key: value" lines (interval, limit, labels block ...), already formatted relative to group indentation
	Rules    []Rule
	NameLast bool // write name after rules
	RawName  string
}

type Doc struct {
	Header      []string // lines before "groups:"
	Groups      []Group
	Indent      int  // spaces per nesting level (>=1)
	SeqIndented bool // "- " items indented under their parent key
	CRLF        bool
	NoFinalNL   bool
	Footer      []string
	BareRules   bool // relaxed layout: just a list of rules, no groups
}

// Extent says where a scalar ended up in the rendered text (1-based lines, 1-based column of the first value byte).
type Extent struct {
	KeyLine   int
	FirstLine int
	LastLine  int
	FirstCol  int
}

type FieldInfo struct {
	Rule     int    // ordinal of the rule in the document
	Path     string // e.g. "expr", "labels.severity", "labels.key.severity"
	Style    Style
	Features []string
	Ext      Extent
}

type RuleInfo struct {
	First, Last int // line range of the rule's own lines (item line .. last field line)
	ItemLine    int
	Kind        string
	Name        string
}

type Rendered struct {
	Text   string
	Lines  int
	Fields []FieldInfo
	Rules  []RuleInfo
}

type writer struct {
	lines []string
}

func (w *writer) add(s string) int {
	w.lines = append(w.lines, s)
	return len(w.lines)
}

func pad(n int) string {
	if n <= 0 {
		return ""
	}
	return strings.Repeat(" ", n)
}

// emitScalar writes "prefix" + value starting on the current (new) line. prefix already contains "key:" (no trailing space).
// keyCol is the 0-based column of the key (parent indentation for block scalars).
func (w *writer) emitScalar(prefix string, keyCol int, s Scalar, trailing string) Extent {
	ext := Extent{}
	tr := ""
	if trailing != "" {
		tr = " # " + trailing
	}
	contIndent := keyCol + 2 + s.MoreInd
	switch s.Style {
	case Plain, Single, Double:
		lines := s.Lines
		if len(lines) == 0 {
			lines = []string{""}
		}
		enc := make([]string, len(lines))
		for i, l := range lines {
			switch s.Style {
			case Single:
				enc[i] = strings.ReplaceAll(l, "'", "''")
			case Double:
				enc[i] = dqEscape(l, s.Escapes)
			default:
				enc[i] = l
			}
		}
		q := ""
		if s.Style == Single {
			q = "'"
		} else if s.Style == Double {
			q = `"`
		}
		first := prefix + " " + q + enc[0]
		if len(enc) == 1 {
			first += q
		}
		// trailing comments are only safe on single-line values
		if len(enc) == 1 {
			first += tr
		}
		ext.KeyLine = w.add(first)
		ext.FirstLine = ext.KeyLine
		ext.FirstCol = len(prefix) + 2 + len(q)
		ext.LastLine = ext.KeyLine
		for i := 1; i < len(enc); i++ {
			l := enc[i]
			if l == "" && i < len(enc)-1 {
				ext.LastLine = w.add("")
				continue
			}
			if i == len(enc)-1 {
				l += q
			}
			ext.LastLine = w.add(pad(contIndent) + l)
		}
	case Literal, Folded:
		ind := "|"
		if s.Style == Folded {
			ind = ">"
		}
		if s.IndentInd > 0 {
			ind += fmt.Sprintf("%d", s.IndentInd)
		}
		ind += s.Chomp
		ext.KeyLine = w.add(prefix + " " + ind + tr)
		ci := contIndent
		if s.IndentInd > 0 {
			ci = keyCol + s.IndentInd
		}
		ext.FirstLine = ext.KeyLine + 1
		ext.FirstCol = ci + 1
		ext.LastLine = ext.KeyLine
		for _, l := range s.Lines {
			if l == "" {
				ext.LastLine = w.add("")
			} else {
				ext.LastLine = w.add(pad(ci) + l)
			}
		}
	}
	return ext
}

func dqEscape(s string, escapes bool) string {
	var b strings.Builder
	for i := 0; i < len(s); i++ {
		c := s[i]
		switch {
		case c == '\\':
			b.WriteString(`\\`)
		case c == '"':
			b.WriteString(`\"`)
		case c == '\t':
			b.WriteString(`\t`)
		case escapes && c == 'u':
			b.WriteString(`\x75`)
		case escapes && c == '/':
			b.WriteString(`\/`)
		default:
			b.WriteByte(c)
		}
	}
	return b.String()
}

// Render writes the document.
func (d *Doc) Render() Rendered {
	w := &writer{}
	out := Rendered{}
	ind := d.Indent
	if ind < 1 {
		ind = 2
	}
	for _, h := range d.Header {
		w.add(h)
	}
	ruleOrd := 0
	emitRules := func(rules []Rule, itemCol int) {
		for _, r := range rules {
			for _, b := range r.Before {
				if b == "" {
					w.add("")
				} else {
					w.add(pad(itemCol) + b)
				}
			}
			fieldCol := itemCol + 2
			ri := RuleInfo{}
			for fi, f := range r.Fields {
				for _, b := range f.Before {
					if b == "" {
						w.add("")
					} else {
						w.add(pad(fieldCol) + b)
					}
				}
				lead := pad(fieldCol)
				if fi == 0 {
					lead = pad(itemCol) + "- "
				}
				prefix := lead + f.Key + ":"
				switch {
				case f.Raw != "":
					n := w.add(prefix + f.Raw)
					if fi == 0 {
						ri.ItemLine = n
						ri.First = n
					}
					ri.Last = len(w.lines)
				case f.Val != nil:
					ext := w.emitScalar(prefix, fieldCol, *f.Val, f.Trailing)
					if fi == 0 {
						ri.ItemLine = ext.KeyLine
						ri.First = ext.KeyLine
					}
					ri.Last = ext.LastLine
					out.Fields = append(out.Fields, FieldInfo{Rule: ruleOrd, Path: f.Key, Style: f.Val.Style, Features: f.Val.Features, Ext: ext})
					if f.Key == "alert" || f.Key == "record" {
						ri.Kind = f.Key
						ri.Name = strings.Join(f.Val.Lines, " ")
					}
				case f.FlowMap:
					parts := []string{}
					for _, kv := range f.Map {
						v := kv.Val
						l := ""
						if len(v.Lines) > 0 {
							l = v.Lines[0]
						}
						switch v.Style {
						case Single:
							l = "'" + strings.ReplaceAll(l, "'", "''") + "'"
						case Double:
							l = `"` + dqEscape(l, v.Escapes) + `"`
						}
						parts = append(parts, kv.Key+": "+l)
					}
					line := prefix + " {" + strings.Join(parts, ", ") + "}"
					if f.Trailing != "" {
						line += " # " + f.Trailing
					}
					n := w.add(line)
					if fi == 0 {
						ri.ItemLine = n
						ri.First = n
					}
					ri.Last = n
					// columns of flow values
					col := len(prefix) + 2
					for _, kv := range f.Map {
						kcol := col + 1
						q := 0
						if kv.Val.Style == Single || kv.Val.Style == Double {
							q = 1
						}
						vcol := kcol + len(kv.Key) + 2 + q
						out.Fields = append(out.Fields, FieldInfo{Rule: ruleOrd, Path: f.Key + ".key." + kv.Key, Style: Plain, Ext: Extent{KeyLine: n, FirstLine: n, LastLine: n, FirstCol: kcol}})
						feats := append([]string{"flow"}, kv.Val.Features...)
						out.Fields = append(out.Fields, FieldInfo{Rule: ruleOrd, Path: f.Key + "." + kv.Key, Style: kv.Val.Style, Features: feats, Ext: Extent{KeyLine: n, FirstLine: n, LastLine: n, FirstCol: vcol}})
						enc := ""
						if len(kv.Val.Lines) > 0 {
							enc = kv.Val.Lines[0]
						}
						switch kv.Val.Style {
						case Single:
							enc = strings.ReplaceAll(enc, "'", "''")
						case Double:
							enc = dqEscape(enc, kv.Val.Escapes)
						}
						col = vcol - 1 + len(enc) + q + 2 - 1
					}
				default:
					line := prefix
					if f.Trailing != "" {
						line += " # " + f.Trailing
					}
					n := w.add(line)
					if fi == 0 {
						ri.ItemLine = n
						ri.First = n
					}
					ri.Last = n
					mapCol := fieldCol + ind
					for _, kv := range f.Map {
						out.Fields = append(out.Fields, FieldInfo{Rule: ruleOrd, Path: f.Key + ".key." + kv.Key, Style: Plain, Ext: Extent{KeyLine: len(w.lines) + 1, FirstLine: len(w.lines) + 1, LastLine: len(w.lines) + 1, FirstCol: mapCol + 1}})
						ext := w.emitScalar(pad(mapCol)+kv.Key+":", mapCol, kv.Val, kv.Comment)
						ri.Last = ext.LastLine
						out.Fields = append(out.Fields, FieldInfo{Rule: ruleOrd, Path: f.Key + "." + kv.Key, Style: kv.Val.Style, Features: kv.Val.Features, Ext: ext})
					}
				}
			}
			for _, a := range r.After {
				if a == "" {
					w.add("")
				} else {
					w.add(pad(fieldCol) + a)
				}
			}
			out.Rules = append(out.Rules, ri)
			ruleOrd++
		}
	}

	if d.BareRules {
		for _, g := range d.Groups {
			emitRules(g.Rules, 0)
		}
	} else {
		w.add("groups:")
		gcol := 0
		if d.SeqIndented {
			gcol = ind
		}
		for _, g := range d.Groups {
			kcol := gcol + 2
			nameLine := "name: " + g.Name
			if g.RawName != "" {
				nameLine = "name:" + g.RawName
			}
			first := true
			put := func(s string) {
				if first {
					w.add(pad(gcol) + "- " + s)
					first = false
				} else {
					w.add(pad(kcol) + s)
				}
			}
			if !g.NameLast {
				put(nameLine)
			}
			for _, e := range g.Extra {
				for _, l := range strings.Split(e, "\n") {
					put(l)
				}
			}
			put("rules:")
			rcol := kcol
			if d.SeqIndented {
				rcol = kcol + ind
			}
			emitRules(g.Rules, rcol)
			if g.NameLast {
				put(nameLine)
			}
		}
	}
	for _, f := range d.Footer {
		w.add(f)
	}
	nl := "\n"
	if d.CRLF {
		nl = "\r\n"
	}
	text := strings.Join(w.lines, nl)
	if !d.NoFinalNL {
		text += nl
	}
	out.Text = text
	out.Lines = len(w.lines)
	return out
}

// ---------- random documents ----------

var (
	alertNames  = []string{"Foo", "HighErrorRate", "Foo_Bar", "aaa", "Instance Down", "X1", "up", "TargetDown"}
	recordNames = []string{"foo", "job:up:sum", "foo:bar", "instance:errors:rate5m", "a", "up:count"}
	exprPool    = []string{
		"up == 0",
		"sum(rate(http_requests_total[5m])) by (job) > 10",
		"foo",
		"sum(foo) without(instance)",
		`foo{job="bar"} / on(instance) group_left(job) bar{job="baz"}`,
		"absent(up)",
		`count(up{job=~"a|b"}) by (job)`,
		"rate(errors_total[2m]) > 0.5",
		`max_over_time(foo[1h]) unless on() bar`,
		`vector(1)`,
		`up{job="foo"} == 0 and on(instance) node_up == 1`,
	}
	multiExprPool = [][]string{
		{"sum(foo) # total", "> 0"},
		{"up == 0 # it is down", "# a whole line of PromQL comment", "and on(job) bar"},
		{"sum(rate(foo[5m]))", "/", "sum(rate(bar[5m])) > 0.1"},
		{"up{job=\"a\"}", "== 0"},
		{"sum by (job) (", "  rate(http_requests_total[5m])", ") > 0"},
		{"foo", "and", "bar"},
		{"count(", "up == 1", ") by (job) < 3"},
	}
	durPool   = []string{"5m", "1h", "30s", "0s", "2d", "1m30s"}
	labelKeys = []string{"severity", "team", "job", "env", "component"}
	labelVals = []string{"critical", "warning", "page", "foo bar", "{{ $labels.job }}", "a#b", "x: y", "it's", `say "hi"`, "aaaa", "sev-1", "  padded"}
	annKeys   = []string{"summary", "description", "runbook", "dashboard", "link"}
	annVals   = []string{"see issue #12 for {{ $labels.job }}", "ticket #7 # twice", "Instance {{ $labels.instance }} down", "value is {{ $value }}", "https://example.com/wiki#anchor", "foo", "a: b", "{{ $labels.job }} on {{ $labels.instance }}", "it's down", "summary summary", "x"}
	// values with multi-byte characters (GenOpts.NonASCII): columns are bytes, displayed characters are not
	nonASCIIVals  = []string{"kraków", "µs latency on {{ $labels.instance }}", "日本 dc", "température élevée: {{ $value }}", "Instancja {{ $labels.instance }} nie działa", "naïve – dash", "ü"}
	nonASCIIExprs = []string{`up{dc="kraków"} == 0`, `foo{name=~"日本.*"} > 1`, `sum(rate(requests_total{kraj="Polska – południe"}[5m])) by (job) > 10`}
	commentPool   = []string{"# a comment", "# TODO: fix", "#", "# pint-like but not: pintx disable foo"}
)

type GenOpts struct {
	Styles      []Style // allowed scalar styles
	Escapes     bool    // allow escape sequences in double-quoted scalars
	MultiLine   bool
	BlankInside bool // blank lines inside multi-line scalars
	IndentInd   bool // explicit indentation indicators
	Flow        bool
	Comments    bool
	CRLF        bool
	NonASCII    bool // mix values with multi-byte characters in
	MaxRules    int
	MaxGroups   int
	Exprs       []string // override expression pool
	KeepValid   bool     // keep the document acceptable to Prometheus (strict-valid)
	NoBare      bool
}

func DefaultGenOpts() GenOpts {
	return GenOpts{
		Styles:    []Style{Plain, Single, Double, Literal, Folded},
		MultiLine: true, Flow: true, Comments: true, MaxRules: 4, MaxGroups: 2, KeepValid: true,
	}
}

func pick[T any](r *rand.Rand, xs []T) T { return xs[r.Intn(len(xs))] }

// plainSafe reports whether s can be written as a plain scalar in block context (value position).
func plainSafe(s string) bool {
	if s == "" || s != strings.TrimSpace(s) {
		return false
	}
	if strings.ContainsAny(s[:1], "!&*-?|>'\"%@`{}[],#:") {
		// allow "-x" / ":x"? keep it simple: refuse
		return false
	}
	if strings.Contains(s, ": ") || strings.Contains(s, " #") || strings.HasSuffix(s, ":") {
		return false
	}
	switch strings.ToLower(s) {
	case "null", "~", "true", "false", "yes", "no", "on", "off", "y", "n":
		return false
	}
	// numbers, timestamps etc. would change the tag
	if isNumberLike(s) {
		return false
	}
	return true
}

func isNumberLike(s string) bool {
	digits := 0
	for _, c := range s {
		if (c >= '0' && c <= '9') || c == '.' || c == '-' || c == '+' || c == 'e' || c == 'E' || c == 'x' || c == '_' || c == ':' || c == 'o' {
			if c >= '0' && c <= '9' {
				digits++
			}
			continue
		}
		return false
	}
	return digits > 0
}

func flowSafe(s string) bool {
	return plainSafe(s) && !strings.ContainsAny(s, ",{}[]")
}

// MakeScalar chooses a spelling for content lines.
func MakeScalar(r *rand.Rand, o GenOpts, lines []string, allowBlock bool) Scalar {
	s := Scalar{Lines: append([]string(nil), lines...)}
	cands := []Style{}
	for _, st := range o.Styles {
		switch st {
		case Plain:
			ok := true
			for i, l := range lines {
				if !plainSafe(l) {
					ok = false
				}
				if i > 0 && (strings.HasPrefix(l, "#") || strings.HasPrefix(l, "- ")) {
					ok = false
				}
			}
			if ok {
				cands = append(cands, st)
			}
		case Single, Double:
			ok := true
			for i, l := range lines {
				if len(lines) > 1 && (l != strings.TrimSpace(l)) && i > 0 {
					ok = false
				}
				if len(lines) > 1 && i < len(lines)-1 && strings.HasSuffix(l, " ") {
					ok = false
				}
			}
			if ok {
				cands = append(cands, st)
			}
		case Literal, Folded:
			if allowBlock {
				ok := true
				for _, l := range lines {
					if strings.HasPrefix(l, " ") && st == Literal && false {
						ok = false
					}
					if strings.HasSuffix(l, " ") || strings.Contains(l, "\t") {
						ok = false
					}
				}
				if len(lines) > 0 && strings.HasPrefix(lines[0], " ") {
					ok = false // would need an indentation indicator
				}
				if ok {
					cands = append(cands, st)
				}
			}
		}
	}
	if len(cands) == 0 {
		cands = []Style{Double}
	}
	s.Style = pick(r, cands)
	if len(lines) > 1 {
		if s.Style == Plain {
			s.feat("multiline-plain")
		}
		if s.Style == Single || s.Style == Double {
			s.feat("multiline-quoted")
		}
	}
	for i, l := range lines {
		if l == "" && i > 0 && i < len(lines)-1 {
			s.feat("blank-inside")
		}
		if strings.HasPrefix(l, " ") && i > 0 {
			s.feat("more-indented-line")
		}
	}
	if s.Style == Double {
		for _, l := range lines {
			if strings.ContainsAny(l, "\\\"\t") {
				s.feat("dq-escape")
			}
		}
		if o.Escapes && r.Intn(3) == 0 {
			for _, l := range lines {
				if strings.ContainsAny(l, "u/") {
					s.Escapes = true
					s.feat("dq-escape")
				}
			}
		}
	}
	if s.Style == Single {
		for _, l := range lines {
			if strings.Contains(l, "'") {
				s.feat("sq-quote")
			}
		}
	}
	if s.Style == Literal || s.Style == Folded {
		s.Chomp = pick(r, []string{"", "", "-", "+"})
		if o.IndentInd && r.Intn(4) == 0 {
			s.IndentInd = 1 + r.Intn(4)
			s.feat("indent-indicator")
		}
		if r.Intn(4) == 0 {
			s.MoreInd = r.Intn(3)
		}
	} else if len(lines) > 1 && r.Intn(3) == 0 {
		s.MoreInd = r.Intn(4)
	}
	return s
}

func randLines(r *rand.Rand, o GenOpts, single []string, multi [][]string) []string {
	if o.MultiLine && len(multi) > 0 && r.Intn(3) == 0 {
		ls := append([]string(nil), pick(r, multi)...)
		if o.BlankInside && len(ls) > 1 && r.Intn(3) == 0 {
			at := 1 + r.Intn(len(ls)-1)
			ls = append(ls[:at], append([]string{""}, ls[at:]...)...)
		}
		return ls
	}
	return []string{pick(r, single)}
}

func randComments(r *rand.Rand, o GenOpts) []string {
	if !o.Comments || r.Intn(4) != 0 {
		return nil
	}
	n := 1 + r.Intn(2)
	out := []string{}
	for i := 0; i < n; i++ {
		if r.Intn(3) == 0 {
			out = append(out, "")
		} else {
			out = append(out, pick(r, commentPool))
		}
	}
	return out
}

// RandRule builds a random valid rule.
func RandRule(r *rand.Rand, o GenOpts, ord int) Rule {
	exprs := exprPool
	multi := multiExprPool
	if len(o.Exprs) > 0 {
		exprs = o.Exprs
		multi = nil
	}
	if o.NonASCII && len(o.Exprs) == 0 {
		exprs = append(append([]string{}, exprs...), nonASCIIExprs...)
	}
	alert := r.Intn(2) == 0
	var fields []Field
	nameKey := "record"
	name := fmt.Sprintf("%s%d", pick(r, recordNames), ord)
	if alert {
		nameKey = "alert"
		name = fmt.Sprintf("%s%d", pick(r, alertNames), ord)
	}
	nameSc := MakeScalar(r, o, []string{name}, false)
	fields = append(fields, Field{Key: nameKey, Val: &nameSc})
	ex := MakeScalar(r, o, randLines(r, o, exprs, multi), true)
	fields = append(fields, Field{Key: "expr", Val: &ex})
	if alert && r.Intn(2) == 0 {
		f := MakeScalar(r, o, []string{pick(r, durPool)}, false)
		fields = append(fields, Field{Key: "for", Val: &f})
	}
	if alert && r.Intn(4) == 0 {
		f := MakeScalar(r, o, []string{pick(r, durPool)}, false)
		fields = append(fields, Field{Key: "keep_firing_for", Val: &f})
	}
	mkMap := func(key string, keys, vals []string) Field {
		n := 1 + r.Intn(3)
		perm := r.Perm(len(keys))
		f := Field{Key: key}
		flow := o.Flow && r.Intn(5) == 0
		if o.NonASCII {
			vals = append(append([]string{}, vals...), nonASCIIVals...)
		}
		for i := 0; i < n; i++ {
			v := pick(r, vals)
			var sc Scalar
			if flow {
				oo := o
				oo.Styles = []Style{Single, Double}
				if flowSafe(v) {
					oo.Styles = append(oo.Styles, Plain)
				}
				oo.Escapes = false
				sc = MakeScalar(r, oo, []string{v}, false)
			} else {
				lines := []string{v}
				if o.MultiLine && ((key == "annotations" && r.Intn(4) == 0) || (key == "labels" && r.Intn(6) == 0)) {
					lines = []string{v, pick(r, vals)}
					for i := range lines {
						lines[i] = strings.TrimSpace(lines[i])
					}
				}
				sc = MakeScalar(r, o, lines, key == "annotations" || len(lines) > 1)
			}
			kv := KV{Key: keys[perm[i]], Val: sc}
			if !flow && o.Comments && r.Intn(8) == 0 && len(sc.Lines) == 1 && (sc.Style == Plain || sc.Style == Single || sc.Style == Double) {
				kv.Comment = "note"
			}
			f.Map = append(f.Map, kv)
		}
		f.FlowMap = flow
		return f
	}
	if r.Intn(2) == 0 {
		fields = append(fields, mkMap("labels", labelKeys, labelVals))
	}
	if alert && r.Intn(2) == 0 {
		fields = append(fields, mkMap("annotations", annKeys, annVals))
	}
	// shuffle field order but keep it valid YAML (any order is fine)
	if r.Intn(3) == 0 {
		r.Shuffle(len(fields), func(i, j int) { fields[i], fields[j] = fields[j], fields[i] })
	}
	for i := range fields {
		if i > 0 {
			fields[i].Before = randComments(r, o)
		}
		if o.Comments && r.Intn(10) == 0 && fields[i].Val != nil && len(fields[i].Val.Lines) == 1 && fields[i].Val.Style != Literal && fields[i].Val.Style != Folded {
			fields[i].Trailing = "trailing note"
		}
	}
	rule := Rule{Fields: fields}
	rule.Before = randComments(r, o)
	return rule
}

// RandDoc builds a random strict-valid rule document.
func RandDoc(r *rand.Rand, o GenOpts) *Doc {
	d := &Doc{Indent: 1 + r.Intn(4), SeqIndented: r.Intn(2) == 0}
	if d.Indent == 1 && r.Intn(2) == 0 {
		d.Indent = 2
	}
	ng := 1 + r.Intn(max(1, o.MaxGroups))
	ord := 0
	for g := 0; g < ng; g++ {
		grp := Group{Name: fmt.Sprintf("group%d", g)}
		if r.Intn(4) == 0 {
			grp.Extra = append(grp.Extra, "interval: "+pick(r, []string{"1m", "30s", "5m"}))
		}
		if r.Intn(6) == 0 {
			grp.Extra = append(grp.Extra, "labels:\n"+pad(d.Indent)+"team: infra")
		}
		if r.Intn(8) == 0 {
			grp.NameLast = true
		}
		nr := 1 + r.Intn(max(1, o.MaxRules))
		for i := 0; i < nr; i++ {
			grp.Rules = append(grp.Rules, RandRule(r, o, ord))
			ord++
		}
		d.Groups = append(d.Groups, grp)
	}
	if o.Comments && r.Intn(4) == 0 {
		d.Header = []string{"# rules file", ""}
	}
	if o.CRLF && r.Intn(6) == 0 {
		d.CRLF = true
	}
	if r.Intn(8) == 0 {
		d.NoFinalNL = true
	}
	return d
}
