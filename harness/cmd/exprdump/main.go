// exprdump prints sample expressions of the join-shape generator (debugging aid).
package main

import (
	"fmt"
	"math/rand"

	"github.com/cloudflare/pint/verif/gen"
)

func main() {
	o := gen.FullPQ()
	for i := 0; i < 4000; i++ {
		r := rand.New(rand.NewSource(int64(i)))
		fmt.Println(gen.JoinShapeExpr(r, o))
	}
}
