// srcdump prints pint's label-flow sources for PromQL expressions given as arguments (debugging aid).
package main

import (
	"fmt"
	"os"

	promParser "github.com/prometheus/prometheus/promql/parser"

	"github.com/cloudflare/pint/internal/parser/utils"
)

func main() {
	for _, e := range os.Args[1:] {
		n, err := promParser.ParseExpr(e)
		if err != nil {
			fmt.Println(e, "ERR", err)
			continue
		}
		fmt.Println("==", e)
		for _, s := range utils.LabelsSource(e, n) {
			s.WalkSources(func(x utils.Source) {
				fmt.Printf("  op=%q type=%v ret=%v fixed=%v incl=%v excl=%v guar=%v always=%v known=%v num=%v cond=%v dead=%v %q pos=%v\n",
					x.Operation, x.Type, x.Returns, x.FixedLabels, x.IncludedLabels, x.ExcludedLabels, x.GuaranteedLabels, x.AlwaysReturns, x.KnownReturn, x.ReturnedNumber, x.IsConditional, x.IsDead, x.IsDeadReason, x.Position)
			})
		}
	}
}
