. ./common.sh; newrepo f1
cat > rules/a.yml <<'X'
groups:
- name: g
  rules:
  - alert: Foo
    expr: up == 0
    labels:
      severity: warning
X
git add -A; git commit -qm base; git checkout -qb pr
cat > rules/a.yml <<'X'
groups:
- name: g
  rules:
  - alert: Foo
    expr: up == 0
    for: 1h
    labels:
      severity: critical
  - alert: Foo
    expr: up == 0
    labels:
      severity: warning
X
git commit -qam 'add critical variant above the warning one'
echo "F1: second Foo (lines 9-12) is byte-identical to base:"; states
