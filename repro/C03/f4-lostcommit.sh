. ./common.sh; newrepo f4
cat > rules/a.yml <<'X'
groups:
- name: ga
  rules:
  - alert: OldA
    expr: up == 0
X
cat > rules/b.yml <<'X'
groups:
- name: gb
  rules:
  - alert: B1
    expr: up == 1
  - alert: B2
    expr: up == 2
  - alert: B3
    expr: up == 3
  - alert: B4
    expr: up == 4
X
git add -A; git commit -qm base; git checkout -qb pr
git rm -q rules/a.yml; git commit -qm 'delete a'
git mv rules/b.yml rules/a.yml; sed -i 's/up == 1/up == 11/' rules/a.yml; git commit -qam 'rename b to a, edit B1'
echo "F4 after 2 commits (delete a; rename b->a + edit B1):"; states
sed -i 's/up == 4/up == 44/' rules/a.yml; git commit -qam 'edit B4'
echo "F4 after a third commit editing B4 only:"; states
