. ./common.sh; newrepo f3
cat > rules/a.yml <<'X'
groups:
- name: g
  rules:
  - alert: Foo
    # pint disable alerts/for
    expr: up == 0
    for: 1s
X
git add -A; git commit -qm base; git checkout -qb pr
sed -i 's/# pint disable alerts\/for/# pint rule\/owner alerts\/for/' rules/a.yml
git commit -qam 'disable comment replaced by a rule/owner comment with the same value'
echo "F3: control comment changed kind (disable -> rule/owner), same value:"; states
