# usage: . common.sh ; newrepo <name>
export GIT_CONFIG_GLOBAL=/dev/null GIT_CONFIG_NOSYSTEM=1 GIT_AUTHOR_NAME=v GIT_AUTHOR_EMAIL=v@x GIT_COMMITTER_NAME=v GIT_COMMITTER_EMAIL=v@x
PINT=${PINT:-/verif/.build/pint}
newrepo() { rm -rf "$1"; mkdir -p "$1/rules"; cd "$1"; git init -q -b main .; printf 'ci {\n  baseBranch = "main"\n}\n' > ../$1.hcl; }
states() { PINT_VERIF_DUMP=../dump.jsonl; rm -f $PINT_VERIF_DUMP; export PINT_VERIF_DUMP; $PINT -c ../$(basename $PWD).hcl -l error --no-color --offline ci >/dev/null 2>&1; python3 -c "
import sys,json
for l in open('../dump.jsonl'):
    e=json.loads(l)
    if e['kind']=='entry': print('  ',e['path'],'lines',e['rule']['first'],'-',e['rule']['last'],e['rule']['name'],'=>',e['state'],'modified_lines',e['modified_lines'])
"; }
