. ./common.sh; newrepo f2
cat > rules/a.yml <<'X'
# pint file/disable promql/rate
# pint file/disable alerts/template
groups:
- name: g
  rules:
  - alert: Foo
    expr: up == 0
X
git add -A; git commit -qm base; git checkout -qb pr
cat > rules/a.yml <<'X'
# pint file/disable alerts/template
# pint file/disable promql/rate
groups:
- name: g
  rules:
  - alert: Foo
    expr: up == 0
X
git commit -qam 'sort file-level comments'
echo "F2: same set of file/disable comments, other order:"; states
