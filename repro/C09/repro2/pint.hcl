rule {
  match {
    label "severity" {
      value = "critical"
    }
  }
  report {
    comment  = "severity is critical"
    severity = "warning"
  }
}
