rule {
  match {
    name = "Foo|Bar"
  }
  report {
    comment  = "selected by name = Foo|Bar"
    severity = "warning"
  }
}
