#!/bin/bash
# Run once after a fresh restore, offline: warms the build cache by building pint
# (build tag verif, plain and -race) and the harness from files on disk only.
set -e
cd /verif
. ./env.sh
mkdir -p "$VERIF_BUILD" evidence
(cd "$VERIF_REPO" && go build -tags verif -o "$VERIF_BUILD/pint" ./cmd/pint && go build -race -tags verif -o "$VERIF_BUILD/pint-race" ./cmd/pint)
(cd harness && cat "$VERIF_REPO/go.sum" go.sum.extra > go.sum && go build -tags verif -o "$VERIF_BUILD/verifh" . && go build -race -tags verif -o "$VERIF_BUILD/verifh-race" .)
echo setup ok
