# Sourced by every script: offline Go toolchain that matches /repo/go.mod (go 1.24.0).
# The 1.24.0 toolchain lives in the module cache; using it directly with GOTOOLCHAIN=local
# avoids the auto-switch (which breaks under GOSUMDB=off).
VERIF_GOROOT=/root/go/pkg/mod/golang.org/toolchain@v0.0.1-go1.24.0.linux-amd64
export PATH="$VERIF_GOROOT/bin:$PATH"
export GOTOOLCHAIN=local GOFLAGS=-mod=mod GOPROXY=off GOSUMDB=off GONOSUMDB='*' GONOSUMCHECK=1
export GOMAXPROCS="${GOMAXPROCS:-16}"
export VERIF_DIR=/verif
export VERIF_REPO="${VERIF_REPO:-/repo}"
export VERIF_BUILD=/verif/.build
